"""C15 — Raft core never violates election safety, log matching or commitment.

Proof side (kernel-checked, registered in lean/registry.json): abstract Raft L0 with the five safety theorems for every
cluster size and reachable state (Raft/RS, RS2), the handler-level relation L1 and its forward simulation (RL1), the
EXECUTABLE handler `RS.handle` with `handle_in_Step1`, `run_covered`, `run_*` (RH), and `leaderOutB_sound`,
`driver_step_is_run` (RHDriverLemmas): a trace the lock-step driver accepts line by line is an `RS.Run`.

Tie (this file): the `raftsim` engine.  n in {1,3,5} etcd `raft.RawNode`s over `MemoryStorage` with raftexample's Config are
driven by a seeded adversarial scheduler (tick, campaign, propose, deliver/drop/duplicate/reorder any in-flight message,
partitions, crash, restart from persisted state, compaction => MsgSnap; two profiles add membership changes and are checked
by the safety predicates only).  After every event the harness writes the model
inputs the event amounts to, the node's projection and every emitted message; `lean/RaftDriver.lean` replays the inputs
through `RS.handle` and compares exactly (lock-step).  The four safety predicates are also evaluated directly on the
implementation's states after every event (SAFETY-VIOLATION = failing schedule).  Stage A (`CommittedIndex`, `VoteResult`)
is compared on random inputs in the same driver run.

Stage D, first step (suite "quorum+confchange"): `harness raftsim -stageD` (harness/quorum.go) runs etcd's `quorum.JointConfig.CommittedIndex` /
`VoteResult` on random joint configs with partial ack / vote maps, and random sequences of `confchange.Changer` operations (Simple with 1-3
changes, EnterJoint with the autoLeave flag, LeaveJoint; AddNode / AddLearnerNode / RemoveNode / UpdateNode / a type outside the enum / NodeID 0)
from `confchange.Restore` of a random ConfState or from an empty tracker; the same driver recomputes every line with the model of
`lean/RedisGoModel/Raft/RQJoint.lean` (ok/err, the resulting tracker.Config and the ProgressMap must agree after every operation).  The theorems about
that model (quorum intersection, single-change / joint overlap, CommittedIndex / VoteResult specifications, the Changer keeps its invariants and
fails only for the reasons it names) are `RQJ.*` in Props/C15Conf.lean and Props/C15ConfChanger.lean."""
import concurrent.futures
import os
import re
import subprocess
import time

from .. import core

LEVEL = "proof"
DRIVER_SRC = "RaftDriver.lean"


def run_raft_driver(trace_lines, timeout=3600):
    """interpreted Lean driver (the Raft model imports Mathlib, so it is not linked into the compiled `driver`)"""
    data = ("\n".join(trace_lines) + "\n").encode()
    rc, so, se, dt = core.run(["lake", "env", "lean", "--run", DRIVER_SRC], cwd=core.LEAN, inp=data, timeout=timeout)
    mism, unk, summary = [], [], {}
    for l in so.split("\n"):
        if l.startswith("MISMATCH "):
            mism.append(l)
        elif l.startswith("UNKNOWN "):
            unk.append(l)
        elif l.startswith("SUMMARY "):
            summary = dict(kv.split("=", 1) for kv in l.split()[1:] if "=" in kv)
    if not summary:
        unk.append("driver produced no SUMMARY (rc=%d): %s" % (rc, (so + se)[-600:]))
    return dict(summary=summary, mismatches=mism, unknown=unk, seconds=dt, rc=rc)


def split_schedules(lines):
    """[(first_line_no (1-based), [lines of one schedule])] ; lines before the first header / Stage-A lines form their own chunk"""
    out, cur, start = [], [], 1
    for n, l in enumerate(lines, 1):
        if l.startswith("R ") and cur:
            out.append((start, cur))
            cur, start = [], n
        cur.append(l)
    if cur:
        out.append((start, cur))
    return out


def run_driver_parallel(lines, workers):
    """split the trace at schedule boundaries into `workers` chunks, one interpreted driver each; line numbers are mapped back"""
    scheds = split_schedules(lines)
    if workers <= 1 or len(scheds) < 2 * workers:
        d = run_raft_driver(lines)
        d["offsets"] = [0]
        return [d]
    per = (len(scheds) + workers - 1) // workers
    chunks = []
    for k in range(0, len(scheds), per):
        grp = scheds[k:k + per]
        chunks.append((grp[0][0] - 1, [l for _, ls in grp for l in ls]))
    with concurrent.futures.ThreadPoolExecutor(max_workers=workers) as ex:
        res = list(ex.map(lambda c: run_raft_driver(c[1]), chunks))
    for (off, _), d in zip(chunks, res):
        d["offset"] = off
        d["mismatches"] = [re.sub(r"^MISMATCH (\d+)", lambda m: "MISMATCH %d" % (int(m.group(1)) + off), x) for x in d["mismatches"]]
        d["unknown"] = [re.sub(r"^UNKNOWN (\d+)", lambda m: "UNKNOWN %d" % (int(m.group(1)) + off), x) for x in d["unknown"]]
    return res


def schedule_of_line(lines, lineno):
    """(header line, [trace lines of that schedule up to and including lineno])"""
    k = lineno - 1
    while k > 0 and not lines[k].startswith("R "):
        k -= 1
    return lines[k], lines[k:lineno]


def parse_stats(line):
    return {k: (int(v) if v.isdigit() else v) for k, v in (kv.split("=", 1) for kv in line.split()[2:] if "=" in kv)}


def run_stage_d(R, binary):
    """suite "quorum+confchange": JQ / JV / CI / CC lines of `raftsim -stageD` recomputed by the Lean model (RQJoint.lean)"""
    cases = 3000 if R.tier == "quick" else 50000
    args = ["-schedules", "0", "-stageA", "0", "-stageD", str(cases), "-seed", str(R.seed * 7 + 3)]
    t0 = time.time()
    lines, se, rc = core.run_harness(binary, "raftsim", [], args=args)
    harness_s = time.time() - t0
    d = run_raft_driver(lines)
    summ = {k: int(v) for k, v in d["summary"].items() if v.isdigit()}
    mism, unk = d["mismatches"], d["unknown"]
    kind = {}
    for l in lines:
        kind[l.split(" ", 1)[0]] = kind.get(l.split(" ", 1)[0], 0) + 1
    cc = [l.split() for l in lines if l.startswith("CC ") or l.startswith("CI restore ")]
    errs = {}
    for f in cc:
        if f[-1] != "-":
            errs[f[-1].replace("_", " ")] = errs.get(f[-1].replace("_", " "), 0) + 1
    # non-trivial: a truly joint config (both halves non-empty), or a Changer operation that got past the joint / non-joint test
    trivial_err = ("can't_apply_simple_config_change_in_joint_config", "config_is_already_joint", "can't_leave_a_non-joint_config")
    nontrivial = sum(1 for l in lines if l[:3] in ("JQ ", "JV ") and l.split()[1] != "-" and l.split()[2] != "-") + \
        sum(1 for f in cc if f[-1] not in trivial_err)
    nd = summ.get("stageD", 0)
    pick = [l for l in lines if l.startswith("JQ ") and " - " not in l[:14]][:1] + [l for l in lines if l.startswith("JV ") and l.endswith("pending")][:1] + \
        [l for l in lines if l.startswith("CI restore") and " ok " in l and l.split()[4] != "-"][:1] + [l for l in lines if l.startswith("CC enter") and " ok " in l][:1] + \
        [l for l in lines if l.startswith("CC leave") and " ok " in l][:1] + [l for l in lines if l.startswith("CC simple") and " err " in l and "more_than" in l][:1]
    R.add_cases(nd, nontrivial, samples=pick)
    ok = rc == 0 and not mism and not unk and nd == len(lines) and kind.get("JQ", 0) == cases and kind.get("JV", 0) == cases and kind.get("CC", 0) == cases
    R.oblige("Stage D (quorum+confchange correspondence): quorum.JointConfig.CommittedIndex / VoteResult = RQJ.JointConfig.committedIndex / voteResult on random "
             "joint configs and partial ack / vote maps; confchange.Changer (Simple, EnterJoint, LeaveJoint, from Restore or an empty tracker) = RQJ.simple / "
             "enterJoint / leaveJoint / restore on random operation sequences: ok/err, tracker.Config and ProgressMap after every operation",
             "correspondence", ok, "%d mismatches, %d unknown, %d/%d lines recomputed (%d JQ, %d JV, %d Changer operations in %d sequences)" % (
                 len(mism), len(unk), nd, len(lines), kind.get("JQ", 0), kind.get("JV", 0), kind.get("CC", 0), kind.get("CI", 0)))
    R.suites.append(dict(name="quorum+confchange", cases=cases, lines=len(lines), recomputed=nd, mismatches=len(mism) + len(unk),
                         harness_s=round(harness_s, 1), driver_s=round(d["seconds"], 1), driver_processes=1))
    g = lambda pre: {k[len(pre):]: v for k, v in sorted(summ.items()) if k.startswith(pre)}
    R.extra["stageD_quorum_confchange"] = dict(
        joint_committed_index_cases=summ.get("d:JQ", 0), joint_vote_result_cases=summ.get("d:JV", 0), vote_results=g("d:JV/"),
        changer_sequences=kind.get("CI", 0), sequences_from_empty_tracker=summ.get("d:CI/empty", 0),
        restore=dict(non_joint=dict(ok=summ.get("d:restore/ok", 0), err=summ.get("d:restore/err", 0)),
                     joint=dict(ok=summ.get("d:restore-joint/ok", 0), err=summ.get("d:restore-joint/err", 0))),
        operations={op: dict(ok=summ.get("d:%s/ok" % op, 0), err=summ.get("d:%s/err" % op, 0)) for op in ("simple", "enter", "leave")},
        operations_by_state_before={k: v for k, v in g("d:").items() if "-on-" in k},
        state_after_operation=g("d:state-after/"), changes_per_operation=g("d:changes/"), change_types=g("d:change/"),
        errors_hit=dict(sorted(errs.items(), key=lambda kv: -kv[1])),
        errors_never_hit="the failures of the final checkAndReturn ('... is in Learners and Voters[0]' etc.): RQJ.simple_eq_ok_iff / enterJoint_eq_ok_iff / "
                         "leaveJoint_eq_ok_iff + changer_result_wf prove they cannot occur on configs the Changer produced",
        note="ProgressMap compared as (ids, IsLearner) against the map derived from the model config; errors compared as ok/err")
    # ---- disagreements
    for k, m in enumerate((mism + unk)[:3]):
        n = int(m.split()[1])
        line = lines[n - 1] if 0 < n <= len(lines) else ""
        trace = [line]
        if line.startswith("CC ") or line.startswith("CI "):
            j = n - 1
            while j > 0 and not lines[j].startswith("CI "):
                j -= 1
            trace = [l for l in lines[j:n] if l.startswith("CI ") or l.startswith("CC ")]
        R.violation("raftsim-stageD-%d" % k, dict(
            kind="tie-broken", engine="raftsim", suite="quorum+confchange", summary=m[:400], schedule=None, trace=trace,
            explanation="etcd's quorum / confchange code and the model RQJ (lean/RedisGoModel/Raft/RQJoint.lean) disagree on this input: the Stage-D theorems "
                        "(quorum intersection, Changer invariants) no longer transfer to the code until the model or the code is repaired; the trace is the "
                        "Changer sequence from its start (CI line) to the failing operation, or the single JQ / JV line"))
    return mism + unk


def run_stage_j(R, binary):
    """suite "joint-through-rawnode": JF / JG / JA / JH / JP lines of `raftsim -stageJ` (harness/raftjoint.go) recomputed by Raft/RSJ.lean"""
    cases = 40 if R.tier == "quick" else 2500
    args = ["-schedules", "0", "-stageA", "0", "-stageJ", str(cases), "-seed", str(R.seed * 11 + 7)]
    t0 = time.time()
    lines, se, rc = core.run_harness(binary, "raftsim", [], args=args)
    harness_s = time.time() - t0
    judged = [l for l in lines if l[:3] in ("JF ", "JG ", "JA ", "JH ", "JP ")]
    stray = [l for l in lines if not l.startswith("#") and l[:3] not in ("JF ", "JG ", "JA ", "JH ", "JP ")]
    ds = run_driver_chunks(judged + stray, 1 if R.tier == "quick" else max(2, min(10, (os.cpu_count() or 4) - 2)))
    mism = [m for d in ds for m in d["mismatches"]]
    unk = [u for d in ds for u in d["unknown"]]
    summ = {}
    for d in ds:
        for k, v in d["summary"].items():
            if v.isdigit():
                summ[k] = summ.get(k, 0) + int(v)
    g = lambda pre: {k[len(pre):]: v for k, v in sorted(summ.items()) if k.startswith(pre)}
    nd = summ.get("stageD", 0)
    panics = [l for l in lines if l.startswith("# panic")]
    need = ["d:JF/enter-autoleave", "d:JF/enter-explicit", "d:JF/leave", "d:JF/simple", "d:JG/accepted", "d:JG/refused-pending", "d:JG/refused-joint",
            "d:JG/refused-not-joint", "d:JA/appended", "d:JH/campaigns-joint", "d:JP/passed-gate-and-panicked"]
    missing = [k for k in need if summ.get(k, 0) == 0]
    nontrivial = summ.get("d:JF/now-joint", 0) + summ.get("d:JF/leave", 0) + sum(v for k, v in summ.items() if k.startswith("d:JG/refused")) + summ.get("d:JA/appended", 0)
    pick = [l for l in judged if l.startswith("JF ") and " e1:" in l][:1] + [l for l in judged if l.startswith("JF ") and " l:- " in l][:1] + \
        [l for l in judged if l.startswith("JG ") and len(l.split()[5]) > 1][:1] + [l for l in judged if l.startswith("JA ") and l.split()[7] == "1"][:1] + \
        [l for l in judged if l.startswith("JP ")][:1]
    R.add_cases(nd, nontrivial, samples=pick)
    ok = rc == 0 and not mism and not unk and not stray and nd == len(judged) and not missing
    R.oblige("Stage D tie, joint changes through the log: with ConfChangeV2 proposals of every shape handed to the leader's RawNode (ProposeConfChange / one proposal "
             "message with several entries; Simple, EnterJoint with automatic or explicit leave, LeaveJoint, the legacy ConfChange), RawNode = Raft/RSJ.lean on every "
             "applied conf change on every node (tracker voters / outgoing / learners / learnersNext / AutoLeave = RSJ.applyCC), every proposal stepped on a leader "
             "(appended as conf change or replaced by an empty entry for etcd's three reasons, new pendingConfIndex = RSJ.gateSeq), every Advance (the leader appends "
             "the empty ConfChangeV2 iff AutoLeave and oldApplied <= pendingConfIndex <= newApplied; the model's autoLeave step is then enabled and its gate accepts) and "
             "every Campaign() (iff RSJ.campaignGate: promotable also as a voter of the outgoing half only)",
             "correspondence", ok, "%d mismatches, %d unknown, %d stray lines, %d/%d lines judged, never seen: %s" % (
                 len(mism), len(unk), len(stray), nd, len(judged), ",".join(missing) or "-"))
    # the observation of Props/C15JointSafe.lean, on the real code
    R.oblige("observation RSJ.enter_empty_passes_gate_and_is_refused_by_changer reproduced on raft.RawNode: while joint, ConfChangeV2{JointExplicit|JointImplicit, no "
             "changes} passes stepLeader's gate and ApplyConfChange panics (\"config is already joint\") - library level, rconf cannot propose it",
             "observation", summ.get("d:JP", 0) == summ.get("d:JP/passed-gate-and-panicked", 0) and (summ.get("d:JP", 0) > 0 or R.tier != "quick"),
             "%d probes, %d passed the gate and panicked at apply (%d node panics in all)" % (summ.get("d:JP", 0), summ.get("d:JP/passed-gate-and-panicked", 0), len(panics)))
    # negative control: damage outcomes, the driver must object to each
    ctl = []
    for l in judged:
        f = l.split(" ")
        if f[0] == "JF" and sum(1 for c in ctl if c.startswith("JF ")) < 10 and f[4] != f[9]:
            f[9] = f[4]  # the voters after := the voters before, on a line where they changed
            ctl.append(" ".join(f))
        elif f[0] == "JG" and sum(1 for c in ctl if c.startswith("JG ")) < 10 and f[6]:
            f[6] = "".join("0" if c == "1" else "1" for c in f[6])
            ctl.append(" ".join(f))
        elif f[0] == "JA" and sum(1 for c in ctl if c.startswith("JA ")) < 6 and f[7] == "1":
            f[7] = "0"
            ctl.append(" ".join(f))
        elif f[0] == "JH" and sum(1 for c in ctl if c.startswith("JH ")) < 6:
            f[-1] = "0" if f[-1] == "1" else "1"
            ctl.append(" ".join(f))
    if ctl:
        dc = run_raft_driver(ctl)
        hit = len(dc["mismatches"])
        R.oblige("negative control joint tie: the driver objects to damaged configurations after apply, gate outcomes, automatic leaves and campaign outcomes "
                 "(%d lines damaged, %d objections)" % (len(ctl), hit), "control", hit >= len(ctl), "%d of %d" % (hit, len(ctl)))
        R.extra.setdefault("negative_control", {})["joint_tie"] = dict(damaged=len(ctl), reported=hit)
        if hit < len(ctl):
            R.violation("negative-control-joint", dict(kind="tie-broken", summary="the joint-configuration driver accepted damaged lines (%d of %d reported)" % (hit, len(ctl)),
                                                       trace=ctl[:40]), found_input=False)
    R.suites.append(dict(name="joint-through-rawnode", scenarios=cases, lines=len(judged), recomputed=nd, mismatches=len(mism) + len(unk) + len(stray),
                         harness_s=round(harness_s, 1), driver_s=round(max(d["seconds"] for d in ds), 1), driver_processes=len(ds)))
    R.extra["stageD_joint_tie"] = dict(
        scenarios=cases, applied_conf_changes=g("d:JF/"), proposals=g("d:JG/"), advances=g("d:JA/"), campaigns=g("d:JH/"), probes=g("d:JP/"),
        note="JF: RSJ.applyCC (the fold step of RSJ.cfgAt) on every node that applies; JG: RSJ.gateSeq with joint = len(Voters[1]) > 0 and per entry only what the gate "
             "looks at (conf change or not, len(Changes) == 0); JA: Advance's direct append; JH: RSJ.campaignGate; the safety theorem RSJ.C15_joint_holds is about the model "
             "whose configuration part is compared here; whole joint schedules are replayed on the executable joint handler RHJ.handleJ by the suite member-joint-lockstep")
    for k, m in enumerate((mism + unk)[:3]):
        R.violation("raftsim-stageJ-%d" % k, dict(
            kind="tie-broken", engine="raftsim", suite="joint-through-rawnode", summary=m[:400], schedule=None, trace=[m.split(" :: ", 1)[-1]],
            explanation="etcd's RawNode and the joint-configuration model Raft/RSJ.lean disagree on this line (configuration after an applied conf change, the proposal "
                        "gate, the automatic leave or the campaign gate): RSJ.C15_joint_holds no longer transfers to the code until the model or the code is repaired; the "
                        "line is self-contained (replay: feed it to lean/RaftDriver.lean)"))
    for k, l in enumerate(stray[:2]):
        R.violation("raftsim-stageJ-stray-%d" % k, dict(kind="tie-broken", engine="raftsim", suite="joint-through-rawnode", summary=l[:300], schedule=None, trace=[l],
                                                         explanation="the joint scenario engine reported an unexpected panic / error of RawNode"))
    return mism + unk + stray


def run_member_joint(R, binary):
    """suite "member-joint-lockstep" (Stage D, step 7): schedules of the profiles member-joint / member-joint-partition (lossy network, partitions, crashes,
    restarts from snapshots, compaction, campaigns by anybody; membership proposals are ConfChangeV2 of every shape next to the legacy ConfChange, a quarter of them
    batched into one proposal message) replayed event by event on the executable joint handler RHJ.handleJ (Raft/RHJ.lean; RHJ.runJ_safe)"""
    if R.tier == "quick":
        per_profile, events, workers = 8, 250, 1
    else:
        per_profile, events, workers = 400, 600, max(2, min(10, (os.cpu_count() or 4) - 2))
    lines, harness_s, rc_all, t_suite = [], 0.0, 0, time.time()
    for k, prof in enumerate(("member-joint", "member-joint-partition")):
        t0 = time.time()
        l1, se, rc = core.run_harness(binary, "raftsim", [], args=["-schedules", str(per_profile), "-events", str(events), "-seed", str(R.seed * 17 + 11 + k),
                                                                  "-profile", prof, "-stageA", "0"])
        harness_s += time.time() - t0
        rc_all = rc_all or rc
        lines += l1
    # negative control: damage one event per schedule (the outgoing-voters field, else the term); the driver must object to each
    ctl, damaged = [], 0
    for start, sched in split_schedules(lines):
        es = [i for i, l in enumerate(sched) if l.startswith("E ")]
        if not sched or not sched[0].startswith("R ") or len(es) < 6 or damaged >= 8:
            continue
        sched = list(sched)
        cand = [i for i in es if sched[i].split(" ")[-4] != "-"]
        if cand:
            at = cand[len(cand) // 2]
            f = sched[at].split(" ")
            f[-4] = "-"  # the node is said to have left the joint configuration
        else:
            at = es[len(es) // 2]
            f = sched[at].split(" ")
            f[4] = str(int(f[4]) + 7) if f[4].isdigit() else "7"
        sched[at] = " ".join(f)
        ctl += sched[:at + 1]  # the schedule up to the damaged event
        damaged += 1
    # the control runs beside the lock-step itself (each interpreted driver spends ~4 s loading the model)
    with concurrent.futures.ThreadPoolExecutor(max_workers=2) as ex:
        fut_ctl = ex.submit(run_raft_driver, ctl) if damaged else None
        ds = run_driver_parallel(lines, workers)
        dc = fut_ctl.result() if fut_ctl else None
    mism = [m for d in ds for m in d["mismatches"] if " impl-safety :: " not in m]
    unk = [u for d in ds for u in d["unknown"]]
    summ = {}
    for d in ds:
        for k, v in d["summary"].items():
            if v.isdigit():
                summ[k] = summ.get(k, 0) + int(v)
    evs = [l for l in lines if l.startswith("E ")]
    safety = [(n, l) for n, l in enumerate(lines, 1) if l.startswith("SAFETY-VIOLATION") or l.startswith("HARNESS-BUG")]
    agg = {}
    for l in lines:
        if l.startswith("# STATS"):
            for k, v in parse_stats(l).items():
                if isinstance(v, int) and k not in ("n", "events"):
                    agg[k] = agg.get(k, 0) + v
    need = ["in-j-apply+config-now-joint", "in-j-apply+config-now-simple", "in-j-advance+autoleave-appended", "in-j-gate/first/accepted", "in-j-gate/first/refused-pending",
            "in-j-commit-by-joint-quorum", "in-j-hup+campaigns-joint", "in-j-restart", "in-j-recv-propFwd"]
    if R.tier != "quick":
        # the two rarer refusal reasons need a node that stays in an EXPLICIT joint configuration with nothing pending (0-10 per 4 000 events)
        need += ["in-j-gate/first/refused-joint", "in-j-gate/first/refused-not-joint", "in-j-won-by-joint-quorum", "in-j-restart+config-now-joint"]
    missing = [k for k in need if summ.get(k, 0) == 0] + (["scripted-joint-split"] if agg.get("scripted-joint-split", 0) == 0 else [])
    nev = summ.get("events", 0)
    nontrivial = summ.get("in-j-apply+config", 0) + summ.get("in-j-advance+autoleave-appended", 0) + summ.get("in-j-commit-by-joint-quorum", 0) + \
        sum(v for k, v in summ.items() if k.startswith("in-j-gate/first/refused")) + summ.get("in-j-restart+config", 0)
    pick = [l for l in evs if ";adv:" in l and l.split(" ")[-2] == "1"][:1] + [l for l in evs if " props:2" in l][:1] + \
        [l for l in evs if l.split(" ")[-4] != "-" and " L " in l][:1]
    R.add_cases(nev, nontrivial, samples=pick)
    ok = rc_all == 0 and not mism and not unk and nev == len(evs) and nev > 0 and not missing and summ.get("member-joint-schedules", 0) == 2 * per_profile
    R.oblige("lock-step with single AND joint membership changes inside lossy, restarting schedules: raft.RawNode = RHJ.handleJ on every event of the member-joint / "
             "member-joint-partition schedules (ConfChangeV2 of every shape through ProposeConfChange, forwarded proposals and batched proposal messages; projection "
             "incl. applied index, all five fields of the tracker config - voters, outgoing voters, learners, LearnersNext, AutoLeave - and the leader's pendingConfIndex; "
             "every message a computed response or leaderOut; every recv enabled; the three-reason gate, ApplyConfChange, Advance's automatic leave, the campaign gate, "
             "vote tallies and commit decisions by JointConfig, restarts from snapshots with joint ConfStates replayed)", "correspondence", ok,
             "%d schedules, %d/%d events replayed, %d mismatches, %d unknown, never seen: %s" % (
                 summ.get("member-joint-schedules", 0), nev, len(evs), len(mism), len(unk), ",".join(missing) or "-"))
    R.oblige("safety predicates evaluated on the RawNodes' states after every event of the member-joint schedules (no panic of the Changer at apply time included)",
             "search", not safety, "%d violations" % len(safety))
    # the campaign gate of the same schedules, line by line (JH), and the legacy conf changes applied in them (CF)
    tie_lines = [l for l in lines if l[:3] in ("JH ", "CF ")]
    tie_mism = [m for m in mism if " :: JH " in m or " :: CF " in m]
    R.oblige("member-joint schedules: every Campaign() campaigns iff RSJ.campaignGate (JH lines), every applied legacy ConfChange moves the tracker as RSC.applyChange (CF lines)",
             "correspondence", not tie_mism and summ.get("d:JH", 0) + summ.get("d:CF", 0) == len(tie_lines), "%d lines judged of %d, %d mismatches" % (
                 summ.get("d:JH", 0) + summ.get("d:CF", 0), len(tie_lines), len(tie_mism)))
    if damaged:
        hit = len(set(m.split()[1] for m in dc["mismatches"] + dc["unknown"] if len(m.split()) > 1))
        R.oblige("negative control member-joint lock-step: the driver objects to damaged projections (outgoing voters dropped / term changed; %d schedules damaged, "
                 "%d objections)" % (damaged, hit), "control", hit >= damaged, "%d of %d" % (hit, damaged))
        R.extra.setdefault("negative_control", {})["member_joint_lockstep"] = dict(damaged=damaged, reported=hit)
        if hit < damaged:
            R.violation("negative-control-member-joint", dict(kind="tie-broken", summary="the member-joint lock-step driver accepted damaged projections (%d of %d reported)" % (
                hit, damaged), trace=ctl[:60]), found_input=False)
    R.suites.append(dict(name="member-joint-lockstep", schedules=summ.get("member-joint-schedules", 0), events=nev, mismatches=len(mism) + len(unk),
                         safety_violations=len(safety), wall_s=round(time.time() - t_suite, 1), harness_s=round(harness_s, 1), driver_s=round(max(d["seconds"] for d in ds), 1), driver_processes=len(ds)))
    R.extra["stageD_member_joint_lockstep"] = dict(
        schedules=summ.get("member-joint-schedules", 0), events=nev, mismatches=len(mism) + len(unk),
        model_inputs={k[5:]: v for k, v in sorted(summ.items()) if k.startswith("in-j-")},
        proposed={k[13:]: v for k, v in sorted(agg.items()) if k.startswith("confchangev2-")}, legacy_proposed={k[11:]: v for k, v in agg.items() if k.startswith("confchange-C")},
        autoleave_appended_by_rawnode=agg.get("autoleave-appended", 0), scripted_joint_split_prologues=agg.get("scripted-joint-split", 0), restarts=agg.get("restarts", 0), snapshots_restored=agg.get("snap-restored", 0),
        campaigns=summ.get("d:JH", 0),
        note="inputs of RHJ.handleJ by kind; +config: the node's configuration (RSJ.cfgAt of its own log at its applied index) changed, now-joint / now-simple says into what; "
             "advance+autoleave-appended: the handler's leader appended the empty ConfChangeV2 (and so did RawNode - the logs are compared); gate/first/*: what the "
             "three-reason gate did with the first conf change of a proposal message stepped on a leader; commit-by-joint-quorum / won-by-joint-quorum: decisions taken "
             "under a joint configuration; scripted_joint_split_prologues: five-node schedules that start with (1 3 4 5)&&(1 2 3), 2 and 3 cut off, a proposal acknowledged and a candidate "
             "supported by a majority of the incoming half only (neither may succeed - a decision that looked at one half only is a lock-step mismatch: checked with two mutants of "
             "quorum/joint.go). RHJ.runJ_safe proves the four safety properties for every run of this handler")
    for k, sv in enumerate(safety[:2]):
        hdr, prefix = schedule_of_line(lines, sv[0])
        f = hdr.split()
        R.violation("raftsim-member-joint-safety-%d" % k, dict(
            kind="impl-violates-spec", engine="raftsim", suite="member-joint-lockstep", summary=sv[1][:300],
            schedule=dict(n=int(f[1]), seed=int(f[2]), profile=f[3], events=int(f[4])), trace=prefix[-400:],
            explanation="a C15 safety predicate failed (or RawNode panicked) on a schedule with joint membership changes; the trace is the schedule prefix"))
    for k, m in enumerate((mism + unk)[:3]):
        n = int(m.split()[1])
        hdr, prefix = schedule_of_line(lines, n)
        f = hdr.split()
        sched = dict(n=int(f[1]), seed=int(f[2]), profile=f[3], events=int(f[4])) if hdr.startswith("R ") and len(f) >= 5 else None
        R.violation("raftsim-member-joint-lockstep-%d" % k, dict(
            kind="tie-broken", engine="raftsim", suite="member-joint-lockstep", summary=m[:400], schedule=sched, trace=prefix[-400:] if sched else [lines[n - 1]],
            explanation="raft.RawNode and the executable joint-configuration handler RHJ.handleJ disagree on this event: RHJ.runJ_safe (proved about handleJ) no longer "
                        "transfers to the code until the model or the code is repaired"))
    return mism + unk + [l for _, l in safety]


def run_snap_report(R, binary):
    """suite "snapstatus-lockstep" (step 8): schedules of the profiles snap-report / snap-report-partition - compaction with a lagging follower (MsgSnap), crashes,
    restarts, partitions, and the transport's reports on the LEADER's RawNode: ReportSnapshot(id, SnapshotFinish | SnapshotFailure), ReportUnreachable(id), at
    random and right after a MsgSnap was emitted, before it is delivered (then a heartbeat that overtakes it); half of the schedules open with the prologue
    scriptSnapReport.  Replayed on RS.handle (inputs snapStatus / unreachable: the projection incl. match[] must not move) and RS.reportProg (the follower's whole
    Progress record before -> after the report)"""
    if R.tier == "quick":
        per_profile, events, workers = 5, 250, 1
    else:
        per_profile, events, workers = 400, 600, max(2, min(10, (os.cpu_count() or 4) - 2))
    lines, harness_s, rc_all, t_suite = [], 0.0, 0, time.time()
    for k, prof in enumerate(("snap-report", "snap-report-partition")):
        t0 = time.time()
        l1, se, rc = core.run_harness(binary, "raftsim", [], args=["-schedules", str(per_profile), "-events", str(events), "-seed", str(R.seed * 19 + 5 + k),
                                                                  "-profile", prof, "-stageA", "0"])
        harness_s += time.time() - t0
        rc_all = rc_all or rc
        lines += l1
    # negative control: in up to 6 schedules the Match of the Progress record observed AFTER one snapshot report is raised to the pending snapshot's index
    # (what the seeded change C15-snapstatus-finish-sets-match did) - else the Next field is changed; the driver must object to each
    ctl, damaged = [], 0
    for start, sched in split_schedules(lines):
        es = [i for i, l in enumerate(sched) if l.startswith("E report ") and ":S," in l.split(" ")[3]]
        if not sched or not sched[0].startswith("R ") or not es or damaged >= 6:
            continue
        sched = list(sched)
        at = es[0]
        f = sched[at].split(" ")
        g = f[3].split(":")
        pre, post = g[-2].split(","), g[-1].split(",")
        post[1] = pre[3]
        g[-1] = ",".join(post)
        f[3] = ":".join(g)
        sched[at] = " ".join(f)
        ctl += sched[:at + 1]
        damaged += 1
    with concurrent.futures.ThreadPoolExecutor(max_workers=2) as ex:
        fut_ctl = ex.submit(run_raft_driver, ctl) if damaged else None
        ds = run_driver_parallel(lines, workers)
        dc = fut_ctl.result() if fut_ctl else None
    mism = [m for d in ds for m in d["mismatches"] if " impl-safety :: " not in m]
    unk = [u for d in ds for u in d["unknown"]]
    summ = {}
    for d in ds:
        for k, v in d["summary"].items():
            if v.isdigit():
                summ[k] = summ.get(k, 0) + int(v)
    evs = [l for l in lines if l.startswith("E ")]
    safety = [(n, l) for n, l in enumerate(lines, 1) if l.startswith("SAFETY-VIOLATION") or l.startswith("HARNESS-BUG")]
    agg = {}
    for l in lines:
        if l.startswith("# STATS"):
            for k, v in parse_stats(l).items():
                if isinstance(v, int) and k not in ("n", "events"):
                    agg[k] = agg.get(k, 0) + v
    need = ["in-report-snapshot-finish/from-snapshot+next", "in-report-unreachable/from-replicate+next", "in-recv-snap"]
    need_any = [("in-report-snapshot-failure/from-snapshot", "in-report-snapshot-failure/from-snapshot+next")]
    if R.tier != "quick":
        need += ["in-report-snapshot-finish/from-probe", "in-report-snapshot-finish/no-progress", "in-report-unreachable/from-probe", "br:recv/snap/restore"]
    missing = [k for k in need if summ.get(k, 0) == 0] + [a for a, b in need_any if summ.get(a, 0) + summ.get(b, 0) == 0] + \
        [k for k in ("scripted-snap-report", "heartbeat-overtakes-snapshot", "report-before-snapshot-delivered") if agg.get(k, 0) == 0]
    nev = summ.get("events", 0)
    nrep = sum(v for k, v in summ.items() if k.startswith("in-report-"))
    R.add_cases(nev, nrep, samples=[l for l in evs if l.startswith("E report ") and ":S," in l][:2] + [l for l in evs if l.startswith("E report ") and ":R," in l][:1])
    ok = rc_all == 0 and not mism and not unk and nev == len(evs) and nev > 0 and not missing
    R.oblige("lock-step with the transport's reports: raft.RawNode = RS.handle on every event of the snap-report / snap-report-partition schedules, "
             "RawNode.ReportSnapshot(id, SnapshotFinish|SnapshotFailure) and RawNode.ReportUnreachable(id) on leaders and non-leaders included (inputs snapStatus / "
             "unreachable: term, vote, role, lead, commit, log and match[] of every peer must be what they were; the reported follower's Progress record - State, Match, "
             "Next, PendingSnapshot, ProbeSent, inflights - after the report must be RS.reportProg of the record before it; every message emitted afterwards, the Commit "
             "field of the next heartbeats included, a computed response or leaderOut of the model's node); reports made right after a MsgSnap was emitted and before it "
             "is delivered, heartbeats that overtake the snapshot, followers that restart without it", "correspondence", ok,
             "%d schedules, %d/%d events replayed, %d report events, %d mismatches, %d unknown, never seen: %s" % (
                 summ.get("schedules", 0), nev, len(evs), nrep, len(mism), len(unk), ",".join(missing) or "-"))
    R.oblige("safety predicates evaluated on the RawNodes' states after every event of the snap-report schedules (two entries committed at one index, a committed "
             "entry rewritten, a leader lacking a committed entry, a panic such as commitTo out of range)", "search", not safety, "%d violations" % len(safety))
    if damaged:
        hit = len(set(m.split()[1] for m in dc["mismatches"] + dc["unknown"] if len(m.split()) > 1))
        R.oblige("negative control snapstatus lock-step: the driver objects to a Progress record whose Match was raised to the pending snapshot's index by the report "
                 "(%d schedules damaged, %d objections)" % (damaged, hit), "control", hit >= damaged, "%d of %d" % (hit, damaged))
        R.extra.setdefault("negative_control", {})["snapstatus_lockstep"] = dict(damaged=damaged, reported=hit)
        if hit < damaged:
            R.violation("negative-control-snapstatus", dict(kind="tie-broken", summary="the snapstatus lock-step driver accepted damaged Progress records (%d of %d reported)" % (
                hit, damaged), trace=ctl[:60]), found_input=False)
    R.suites.append(dict(name="snapstatus-lockstep", schedules=summ.get("schedules", 0), events=nev, mismatches=len(mism) + len(unk),
                         safety_violations=len(safety), wall_s=round(time.time() - t_suite, 1), harness_s=round(harness_s, 1), driver_s=round(max(d["seconds"] for d in ds), 1), driver_processes=len(ds)))
    R.extra["snapstatus_lockstep"] = dict(
        schedules=summ.get("schedules", 0), events=nev, report_events=nrep, mismatches=len(mism) + len(unk),
        report_inputs={k[3:]: v for k, v in sorted(summ.items()) if k.startswith("in-report-")},
        scripted_prologues=agg.get("scripted-snap-report", 0), reports_before_snapshot_delivered=agg.get("report-before-snapshot-delivered", 0),
        heartbeats_overtaking_snapshot=agg.get("heartbeat-overtakes-snapshot", 0), snapshots_sent=agg.get("snap-sent", 0), snapshots_restored=agg.get("snap-restored", 0),
        restarts=agg.get("restarts", 0),
        note="report inputs by kind/state of the follower's Progress before the report (+next: Next moved; no-progress: the node is no leader and ignores the report). "
             "scripted prologue: a deposed leader with an uncommitted tail of term 1, the leader of term 2 compacts past it, MsgSnap in flight (or lost, the follower "
             "restarted), SnapshotFinish / Failure reported, the heartbeat delivered first - a leader that takes the report for an acknowledgement (Match = PendingSnapshot) "
             "differs from RS.handle at the report and makes the follower commit its stale tail (both seen with the seeded change C15-snapstatus-finish-sets-match). "
             "Theorems: RS.snapStatus_never_changes_match, RS.snapStatus_stutters, RS.heartbeat_commit_after_report (Props/C15SnapStatus.lean)")
    for k, sv in enumerate(safety[:2]):
        hdr, prefix = schedule_of_line(lines, sv[0])
        f = hdr.split()
        R.violation("raftsim-snapstatus-safety-%d" % k, dict(
            kind="impl-violates-spec", engine="raftsim", suite="snapstatus-lockstep", summary=sv[1][:300],
            schedule=dict(n=int(f[1]), seed=int(f[2]), profile=f[3], events=int(f[4])), trace=prefix[-400:],
            explanation="a C15 safety predicate failed (or RawNode panicked) on a schedule with transport reports; the trace is the schedule prefix"))
    for k, m in enumerate((mism + unk)[:3]):
        n = int(m.split()[1])
        hdr, prefix = schedule_of_line(lines, n)
        f = hdr.split()
        sched = dict(n=int(f[1]), seed=int(f[2]), profile=f[3], events=int(f[4])) if hdr.startswith("R ") and len(f) >= 5 else None
        R.violation("raftsim-snapstatus-lockstep-%d" % k, dict(
            kind="tie-broken", engine="raftsim", suite="snapstatus-lockstep", summary=m[:400], schedule=sched, trace=prefix[-400:] if sched else [lines[n - 1]],
            explanation="raft.RawNode and RS.handle / RS.reportProg disagree on this event: a report of the transport (ReportSnapshot / ReportUnreachable) must leave the "
                        "node's safety projection - Match of every follower included - alone and move the follower's Progress as tracker.Progress.BecomeProbe does"))
    return mism + unk + [l for _, l in safety]


def run_driver_chunks(lines, workers):
    """self-contained lines (no schedule state): split evenly over `workers` interpreted drivers"""
    if workers <= 1 or len(lines) < 4000:
        return [run_raft_driver(lines)]
    per = (len(lines) + workers - 1) // workers
    chunks = [lines[k:k + per] for k in range(0, len(lines), per)]
    with concurrent.futures.ThreadPoolExecutor(max_workers=workers) as ex:
        return list(ex.map(run_raft_driver, chunks))

def run(R, ctx):
    R.rule = ("one evaluation = one event on one RawNode (a RawNode call + the full Ready/Advance cycle) replayed through RS.handle and compared "
              "exactly, plus the Stage-A cases; a schedule is non-trivial when it had >= 2 leader terms, or a restart from persisted state, or a "
              "conflict truncation of a follower's log")
    binary, err = core.build_harness()
    R.oblige("harness builds against the repository working tree (-tags verif)", "build", binary is not None, err or "")
    if binary is None:
        R.violation("harness-build", dict(kind="tie-broken", summary="harness does not build: " + (err or "")[-800:]), found_input=False)
        return
    if R.tier == "quick":
        schedules, events, qa, workers = 190, 250, 3000, 2
    else:
        schedules, events, qa, workers = 4000, 600, 200000, max(2, min(12, (os.cpu_count() or 4) - 2))
    args = ["-schedules", str(schedules), "-events", str(events), "-seed", str(R.seed), "-stageA", str(qa)]
    t0 = time.time()
    lines, se, rc = core.run_harness(binary, "raftsim", [], args=args)
    harness_s = time.time() - t0
    R.oblige("harness raftsim engine ran to completion", "run", rc == 0 and any(l.startswith("R ") for l in lines), se[-400:])

    # ---- what the schedules actually did
    agg, per_profile, nontrivial, nsched = {}, {}, 0, 0
    for l in lines:
        if l.startswith("# STATS"):
            st = parse_stats(l)
            nsched += 1
            pp = per_profile.setdefault(st.get("profile", "?"), dict(schedules=0, events=0, leader_terms=0, max_commit=0))
            pp["schedules"] += 1
            pp["events"] += st.get("events", 0)
            pp["leader_terms"] += st.get("leader-terms", 0)
            pp["max_commit"] = max(pp["max_commit"], st.get("max-commit", 0))
            for k, v in st.items():
                if isinstance(v, int) and k not in ("n", "events"):
                    agg[k] = agg.get(k, 0) + v
            agg["n=%s" % st.get("n")] = agg.get("n=%s" % st.get("n"), 0) + 1
            if st.get("leader-terms", 0) >= 2 or st.get("restarts", 0) > 0 or st.get("truncations", 0) > 0:
                nontrivial += 1
    safety = [(n, l) for n, l in enumerate(lines, 1) if l.startswith("SAFETY-VIOLATION") or l.startswith("HARNESS-BUG")]
    # ---- library features outside the model (PreVote): many more schedules, judged by the safety predicates on the implementation only
    # (these never go through the Lean driver, so they are cheap: ~250 schedules x 300 events per second)
    extra_sched = 1500 if R.tier == "quick" else 40000
    extra_events = 0
    extra_profiles = ("prevote-reorder", "prevote-partition", "member-paged", "member-paged-partition", "member-batch-partition")
    for prof in extra_profiles:
        l2, se2, rc2 = core.run_harness(binary, "raftsim", [], args=["-schedules", str(extra_sched), "-events", "300", "-seed", str(R.seed * 13 + 5),
                                                                    "-profile", prof, "-stageA", "0"])
        extra_events += sum(parse_stats(l).get("events", 0) for l in l2 if l.startswith("# STATS"))
        for n2, l in enumerate(l2, 1):
            if l.startswith("SAFETY-VIOLATION") or l.startswith("HARNESS-BUG"):
                hdr2, prefix2 = schedule_of_line(l2, n2)
                safety.append((0, l + " (safety-only batch, profile %s)" % prof, hdr2, [x.lstrip("# ") for x in prefix2]))
    R.extra["safety_only_batches"] = dict(
        schedules=len(extra_profiles) * extra_sched, events=extra_events, profiles=list(extra_profiles),
        note="PreVote (prevote-*) and membership growth from a single voter with committed entries handed to the application one per Ready, the "
             "application handling one Ready per event and restarted nodes campaigning at once (member-paged*), proposal messages carrying several membership changes (member-batch-partition): outside the lock-step model, judged by "
             "the safety predicates on the implementation after every event")

    # ---- lock-step: every event replayed through RS.handle
    ds = run_driver_parallel(lines, workers)
    mism = [m for d in ds for m in d["mismatches"] if " impl-safety :: " not in m]
    unk = [u for d in ds for u in d["unknown"]]
    summ = {}
    for d in ds:
        for k, v in d["summary"].items():
            if v.isdigit():
                summ[k] = summ.get(k, 0) + int(v)
    nev, nqa = summ.get("events", 0), summ.get("stageA", 0)
    # negative control: in 24 schedules the term field of one event's projection is damaged; the lock-step driver must object to each
    ctl, damaged = [], 0
    for start, sched in split_schedules(lines)[:40]:
        es = [i for i, l in enumerate(sched) if l.startswith("E ")]
        if not sched or not sched[0].startswith("R ") or len(es) < 6 or damaged >= 24:
            continue
        sched = list(sched)
        f = sched[es[len(es) // 2]].split(" ")
        f[4] = str(int(f[4]) + 7) if f[4].isdigit() else "7"
        sched[es[len(es) // 2]] = " ".join(f)
        ctl += sched
        damaged += 1
    if damaged:
        dc = run_raft_driver(ctl)
        hit = len(set(m.split()[1] for m in dc["mismatches"] + dc["unknown"] if len(m.split()) > 1))
        R.oblige("negative control raftsim: the lock-step driver objects to damaged projections (%d schedules damaged, %d objections)" % (damaged, hit),
                 "control", hit >= damaged, "%d of %d" % (hit, damaged))
        R.extra.setdefault("negative_control", {})["raftsim"] = dict(damaged=damaged, reported=hit)
        if hit < damaged:
            R.violation("negative-control-raftsim", dict(kind="tie-broken", summary="the Raft lock-step driver accepted damaged projections (%d of %d "
                                                                                   "reported): it is not judging" % (hit, damaged), trace=ctl[:60]), found_input=False)
    evs = [l for l in lines if l.startswith("E ")]
    pick = [l for l in evs if ";selfAck" in l][:1] + [l for l in evs if " recv:snap" in l][:1] + [l for l in evs if " restart " in l][:1] + \
        [l for l in evs if "recv:app" in l and "/" in l][:1] + [l for l in evs if " hup " in l][:1] + [l for l in lines if l.startswith("Q ")][:1]
    R.add_cases(nev + nqa, nontrivial, samples=pick)
    ok = not mism and not unk and nev == len(evs)
    R.oblige("lock-step: raft.RawNode = RS.handle on every event (projection exact; every message a computed response or leaderOut; "
             "every recv enabled)", "correspondence", ok, "%d mismatches, %d unknown, %d/%d events replayed" % (len(mism), len(unk), nev, len(evs)))
    R.oblige("Stage A: quorum.MajorityConfig.CommittedIndex = RS.committedIndex = RS.qidx, VoteResult = wonVotes/lostVotes on random inputs",
             "correspondence", nqa == 2 * qa and not any(" CommittedIndex" in m or " VoteResult" in m for m in mism), "%d cases" % nqa)
    R.oblige("safety predicates evaluated on the implementation's states after every event (election safety, state-machine safety, "
             "committed prefix never rewritten, term/vote/commit never regress, leader completeness, log matching, no panic)",
             "search", not safety, "%d violations" % len(safety))
    R.suites.append(dict(name="raftsim", schedules=nsched, events=nev, stageA=nqa, mismatches=len(mism), safety_violations=len(safety),
                         harness_s=round(harness_s, 1), driver_s=round(max(d["seconds"] for d in ds), 1), driver_processes=len(ds)))
    R.extra["schedules"] = dict(total=nsched, nontrivial=nontrivial, events_per_schedule=events, by_profile=per_profile)
    R.extra["events_by_kind"] = {k[3:]: v for k, v in agg.items() if k.startswith("ev-")}
    R.extra["what_happened"] = dict(
        elections_started=agg.get("elections", 0), leader_terms=agg.get("leader-terms", 0), election_timeouts_by_tick=agg.get("tick-hup", 0),
        restarts_from_persisted_state=agg.get("restarts", 0), crashes=agg.get("crashes", 0), snapshots_sent=agg.get("snap-sent", 0),
        snapshots_restored=agg.get("snap-restored", 0), conflicting_appends_truncated=agg.get("truncations", 0),
        partitions=agg.get("partitions", 0), messages_dropped=agg.get("dropped", 0) + agg.get("lost-overflow", 0),
        messages_duplicated=agg.get("duplicated", 0), cluster_sizes={k: v for k, v in agg.items() if k.startswith("n=")},
        deliveries_by_message_kind={k[5:]: v for k, v in agg.items() if k.startswith("recv-")})
    sd = [l for l in lines if l.startswith("# E ")]
    R.extra["stageD_safety_predicates_only"] = dict(
        schedules=sum(v["schedules"] for k, v in per_profile.items() if k.startswith("member")), events=len(sd),
        confchanges_proposed={k[11:]: v for k, v in agg.items() if k.startswith("confchange-C")}, confchanges_applied=agg.get("confchange-applied", 0),
        note="add / add-learner / promote / remove events through ProposeConfChange + ApplyConfChange; not replayed on the model (outside the proved fragment), "
             "only the safety predicates are evaluated on the RawNodes")
    R.evaluations += len(sd)
    # ---- Stage D, step 4: the member / member-partition schedules are replayed event by event on the config-aware handler RHC.handleC
    mem_ev = [l for l in evs if len(l.split(" ")) == 16]
    mem_in = {k[3:]: v for k, v in summ.items() if k.startswith("in-c-")}
    mem_mism = [m for m in mism if len(m.split(" :: ", 1)[-1].split(" ")) == 16 and " :: E " in m]
    R.oblige("lock-step with membership changes: raft.RawNode = RHC.handleC on every event of the member / member-partition schedules (projection incl. "
             "applied index, voters and learners of the tracker config; every message a computed response or leaderOut; every recv enabled; "
             "ApplyConfChange / proposal gate / campaign gate / restarts from snapshots replayed)", "correspondence",
             not mem_mism and (summ.get("member-schedules", 0) > 0) == (len(mem_ev) > 0) and (len(mem_ev) > 0 or R.tier != "quick"),
             "%d member schedules, %d events, %d mismatches" % (summ.get("member-schedules", 0), len(mem_ev), len(mem_mism)))
    R.extra["stageD_member_lockstep"] = dict(schedules=summ.get("member-schedules", 0), events=len(mem_ev), mismatches=len(mem_mism), model_inputs=mem_in,
        note="inputs suffixed +config changed the node's configuration (cfgAt of its own log at its applied index), +commit moved its commit index")
    # ---- Stage D, protocol level: the configuration part of Raft/RSC.lean against RawNode (CF / GT / HP lines of the member-* schedules)
    tie = {k: summ.get(k, 0) for k in summ if k.startswith("d:CF") or k.startswith("d:GT") or k.startswith("d:HP")}
    tie_lines = [l for l in lines if l[:3] in ("CF ", "GT ", "HP ")]
    tie_mism = [m for m in mism if " CF " in m or " GT " in m or " HP " in m]
    n_tie = tie.get("d:CF", 0) + tie.get("d:GT", 0) + tie.get("d:HP", 0)
    R.oblige("Stage D tie: on membership schedules RawNode = RSC on every applied conf change (tracker voters/learners = RSC.applyChange), every "
             "conf-change proposal stepped on a leader (appended as conf change or replaced by an empty entry, new pendingConfIndex = RSC.gateSeq) "
             "and every Campaign() (campaigns iff RSC.campaignGate: not leader, voter of its own config, no conf change in (applied, committed])",
             "correspondence", not tie_mism and n_tie == len(tie_lines) and (n_tie > 0 or not sd),
             "%d lines judged of %d, %d mismatches" % (n_tie, len(tie_lines), len(tie_mism)))
    ctl_t = []
    for l in tie_lines:
        f = l.split(" ")
        if f[0] == "HP" and len(ctl_t) < 12:
            f[-1] = "0" if f[-1] == "1" else "1"
            ctl_t.append(" ".join(f))
        elif f[0] == "GT" and len(ctl_t) < 24 and f[6] != "-":
            f[6] = "".join("0" if c == "1" else "1" for c in f[6])
            ctl_t.append(" ".join(f))
    if ctl_t:
        dct = run_raft_driver(ctl_t)
        hit_t = len(dct["mismatches"])
        R.oblige("negative control Stage D tie: the driver objects to damaged campaign / gate outcomes (%d lines damaged, %d objections)" % (len(ctl_t), hit_t),
                 "control", hit_t >= len(ctl_t), "%d of %d" % (hit_t, len(ctl_t)))
        R.extra.setdefault("negative_control", {})["stageD_tie"] = dict(damaged=len(ctl_t), reported=hit_t)
    R.extra["stageD_protocol_tie"] = dict(lines=n_tie, by_kind=tie, mismatches=len(tie_mism),
        note="CF: one applied conf-change entry moves the node's tracker config as RSC.applyChange (the fold step of RSC.cfgAt); GT: the proposal gate "
             "(RSC.gateSeq / RSC.gate, pendingConfIndex read by reflection); HP: the campaign gate (RSC.campaignGate). The safety theorems RSC.C15_conf_holds are "
             "about the model whose configuration part is compared here; the rest of the membership schedules is still judged by the safety predicates only")
    R.evaluations += n_tie
    R.extra["model_inputs_by_kind"] = {k[3:]: v for k, v in summ.items() if k.startswith("in-")}
    R.extra["model_branch_coverage"] = {k[3:]: v for k, v in sorted(summ.items()) if k.startswith("br:")}
    R.extra["messages_checked"] = summ.get("messages", 0)
    R.extra["outside_lockstep"] = ["membership changes (Stage D): whole schedules are not replayed on a model; the quorum / confchange layer is tied separately "
                                   "(suite quorum+confchange) and the configuration part of Raft/RSC.lean (config after an applied conf change, proposal gate, "
                                   "campaign gate) by the CF / GT / HP lines (stageD_protocol_tie)", "ReadIndex, leader transfer, PreVote, CheckQuorum "
                                   "(off in raftexample's Config)", "which MsgApp slice is sent when (Progress/inflights/probing/RejectHint): any valid slice "
                                   "is accepted (leaderOut)"]

    # ---- Stage D, first step: quorum + confchange layer
    mism_d = run_stage_d(R, binary)

    # ---- Stage D, last step: joint configuration changes through RawNode against Raft/RSJ.lean
    mism_d = mism_d + run_stage_j(R, binary)

    # ---- Stage D, step 7: schedules with joint changes replayed on the executable joint handler RHJ.handleJ
    mism_d = mism_d + run_member_joint(R, binary)

    # ---- step 8: the transport's reports (ReportSnapshot / ReportUnreachable) in the lock-step
    mism_d = mism_d + run_snap_report(R, binary)

    # ---- failing schedules
    for k, sv in enumerate(safety[:3]):
        n, l = sv[0], sv[1]
        hdr, prefix = (sv[2], sv[3]) if len(sv) > 2 else schedule_of_line(lines, n)
        f = hdr.split()
        R.violation("raftsim-safety-%d" % k, dict(
            kind="impl-violates-spec", engine="raftsim", summary=l[:300], schedule=dict(n=int(f[1]), seed=int(f[2]), profile=f[3], events=int(f[4])),
            trace=prefix[-400:], explanation="a C15 safety predicate failed on the RawNodes' own states; the trace is the schedule prefix"))
    for k, m in enumerate((mism + unk)[:3]):
        n = int(m.split()[1])
        hdr, prefix = schedule_of_line(lines, n)
        f = hdr.split()
        sched = dict(n=int(f[1]), seed=int(f[2]), profile=f[3], events=int(f[4])) if hdr.startswith("R ") and len(f) >= 5 else None
        R.violation("raftsim-lockstep-%d" % k, dict(
            kind="tie-broken", engine="raftsim", summary=m[:400], schedule=sched, trace=prefix[-400:] if sched else [lines[n - 1]],
            explanation="raft.RawNode and RS.handle disagree on this event: the theorems (proved about RS.handle) no longer transfer to the code "
                        "until the model or the code is repaired"), found_input=not safety or True)
    if ctx.broken and not mism and not safety and not mism_d:
        R.violation("proof-broken", dict(kind="proof-broken", broken=ctx.broken,
                                         summary="theorem(s) no longer check: " + ", ".join(t for t, _ in ctx.broken)), found_input=False)


def replay(R, payload):
    """re-run the recorded schedule (same seed) on the current tree and replay it through the model"""
    binary, err = core.build_harness()
    if binary is None:
        print("harness does not build:", err)
        return 1
    sc = payload.get("schedule")
    if not sc:
        # a Stage-A line or a proof obligation: replay the recorded lines through the driver
        tr = payload.get("trace") or []
        if not tr:
            print(payload.get("summary", "nothing recorded"))
            return 1
        d = run_raft_driver(tr)
        for m in d["mismatches"] + d["unknown"]:
            print(m[:400])
        bad = bool(d["mismatches"] or d["unknown"])
        print("replay: %s" % ("still failing" if bad else "no longer failing"))
        return 1 if bad else 0
    args = ["-one", str(sc["seed"]), "-n", str(sc["n"]), "-profile", sc["profile"], "-events", str(sc["events"])]
    lines, se, rc = core.run_harness(binary, "raftsim", [], args=args)
    d = run_raft_driver(lines)
    saf = [l for l in lines if l.startswith("SAFETY-VIOLATION") or l.startswith("HARNESS-BUG")]
    for l in saf[:5]:
        print(l[:400])
    for m in (d["mismatches"] + d["unknown"])[:5]:
        print(m[:400])
    bad = bool(saf or d["mismatches"] or d["unknown"]) or rc != 0
    print("replay: schedule n=%d seed=%d profile=%s: %s" % (sc["n"], sc["seed"], sc["profile"], "still failing" if bad else "no longer failing"))
    return 1 if bad else 0
