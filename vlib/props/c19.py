"""C19 — published messages reach exactly the current subscribers, once, in order.
Theorems: PubSub.delivery_exact, publish_count; tie: serve engine (subscribers, publishers, disconnects) — sequential interleavings."""
from .. import core, servesuite, concsuite


def run(R, ctx):
    servesuite.run_serve_suite(R, ctx, "pubsub", (150, 3000),
                               "Pub/Sub: channels incl. the empty name and one containing CR/LF; payloads from the binary alphabet; a publisher "
                               "subscribed to its own channel; resubscription; client-side closes; publishing from another selected database.",
                               damage=False)
    rule = R.rule
    reports = concsuite.run_conc(R, ctx, "pubsub", ["pubsub"], (4, 40)) or []
    # lock-trace tie (hook H2b): every goroutine's Pub/Sub lock / access event sequence is a run of the operation automaton of the Lean model
    # Conc/PubSubConc.lean (harness/conc_pubsub_trace.go); the sequential path scenario covers every code path and every automaton state
    traced = sum(r.get("trace_events", 0) for r in reports)
    paths = [r for r in reports if r.get("scenario") == "pubsub-paths"]
    lt_bad = [r for r in reports if r.get("result") == "locktrace"]
    R.oblige("lock-trace tie (hook H2b): per goroutine, the table/channel lock, conns-map and table access events are a run of the model's operation "
             "automaton (table lock before channel lock, modes, accesses under the right lock, nothing held at quiescence); all automaton states "
             "visited by the sequential path scenario; negative control refused",
             "tie", bool(paths) and all(r.get("result") == "ok" for r in paths) and not lt_bad and traced > 0,
             "%d events checked in %d scenario rounds, %d path scenario(s), %d non-conforming" % (traced, len(reports), len(paths), len(lt_bad)))
    R.extra.setdefault("conc", {}).setdefault("pubsub", {})["locktrace_events"] = traced
    # the same judgement by the Lean automaton itself (PSC.TA.ok, proved to accept every thread of the model: PSC.thread_trace_accepted):
    # the whole event sequences of the small scenarios go through the compiled driver (engine PST)
    lines = []
    for r in reports:
        tag = "PST" if r.get("scenario") == "pubsub-paths" else "PSTP"
        for g, tr in sorted((r.get("traces") or {}).items()):
            lines.append("%s %s-%s-%s %s" % (tag, r.get("build", "b"), r.get("scenario"), g, tr))
    controls = {
        "release-channel-then-table": "TRL get TRU CL cr CU TRL get TRU CL TL",
        "inversion-in-loop": "TRL get TRU CL cr TL",
        "conns-write-no-channel-lock": "TL get cr",
        "iterate-no-channel-lock": "TRL get TRU cr",
        "table-write-under-read-lock": "TRL get del",
        "channel-lock-inside-read-section": "TRL get CL",
        "lookup-without-table-lock": "get",
        "unlock-table-before-channel": "TL get CL cr TU",
        "ends-holding-table-lock": "TL get",
    }
    lines += ["PSTN %s %s" % (k, v) for k, v in sorted(controls.items())]
    d = core.run_driver(lines)
    ok = bool(lines) and len(lines) > len(controls) and not d["mismatches"] and not d["unknown"]
    R.oblige("lock-trace tie, Lean side: the recorded event sequences are accepted by PSC.TA.ok / are runs of PSC.TA.step (compiled driver, engine PST); "
             "negative controls refused", "tie", ok,
             "%d goroutine traces + %d controls, %d mismatches%s" % (len(lines) - len(controls), len(controls), len(d["mismatches"]),
                                                                   (": " + d["mismatches"][0][:200]) if d["mismatches"] else ""))
    if d["mismatches"]:
        R.violation("pubsub-locktrace-lean", dict(kind="impl-violates-spec", engine="conc",
                                                  summary="a goroutine's Pub/Sub lock/access event sequence is not a run of the model's operation automaton: " + d["mismatches"][0][:300],
                                                  args=["conc", str(R.seed), "1", "pubsub"],
                                                  explanation="hook H2b events of one goroutine judged by PSC.TA (lean/RedisGoModel/Conc/PubSubTrace.lean)"))
    # slow consumers (model PSS = Conc/PubSubSlow.lean): the history the pubsub-stall scenario observed on the real code - who read its confirmation, when the slow
    # subscriber stopped / resumed / closed, each PUBLISH written and answered with which count, what every subscriber holds at the end, in real-time order - must be a
    # history of the model: the driver RUNS the model (PSS.Hist.judge: next0 / env) on it.  The verdict is the model's, not only the Go-side invariant.
    hlines = ["PSH %s-stall-%s %s" % (r.get("build", "b"), r.get("seed"), r["hist"]) for r in reports if r.get("scenario") == "pubsub-stall" and r.get("hist")]
    hcontrols = {
        # the seeded C19-publish-shared-deadline: the healthy subscribers visited after the slow one fail at once, PUBLISH answers 0 before the slow one reads again
        "reply-while-a-subscriber-is-not-reading": "sub:0 sub:1 sub:2 stall:0 ps:m1 pe:m1:0 resume:0 holds:0: holds:1: holds:2:",
        "healthy-subscribers-not-counted": "sub:0 sub:1 sub:2 stall:0 ps:m1 resume:0 pe:m1:1 holds:0:m1 holds:1: holds:2:",
        "healthy-subscriber-lost-a-message": "sub:0 sub:1 sub:2 stall:0 ps:m1 resume:0 pe:m1:3 ps:m2 pe:m2:3 holds:0:m1,m2 holds:1:m2 holds:2:m1,m2",
        "duplicate-delivery": "sub:0 sub:1 ps:m1 pe:m1:2 holds:0:m1 holds:1:m1,m1",
        "out-of-publish-order": "sub:0 sub:1 ps:m1 pe:m1:2 ps:m2 pe:m2:2 holds:0:m1,m2 holds:1:m2,m1",
        "closed-subscriber-counted": "sub:0 sub:1 stall:0 ps:m1 close:0 pe:m1:2 holds:1:m1",
        "healthy-subscriber-pruned-with-the-dead-one": "sub:0 sub:1 stall:0 ps:m1 close:0 pe:m1:1 ps:m2 pe:m2:0 holds:1:m1",
        # the seeded C19-subscribe-confirm-before-join, seen from outside: a PUBLISH after the confirmation does not count the subscriber
        "confirmed-subscriber-not-counted": "sub:0 ps:m1 pe:m1:0 holds:0:",
    }
    hlines += ["PSHN %s %s" % (k, v) for k, v in sorted(hcontrols.items())]
    hd = core.run_driver(hlines)
    hok = len(hlines) > len(hcontrols) and not hd["mismatches"] and not hd["unknown"]
    R.oblige("slow-consumer tie, Lean side: the histories observed by the pubsub-stall scenario (one subscriber stops reading, then reads on / closes) are histories of the "
             "model PSS (a write to a connection that is not reading blocks the Send, which holds the channel lock; ready: delivered; dead: pruned) - compiled driver, "
             "engine PSH runs PSS.next0 / PSS.env; negative controls refused", "tie", hok,
             "%d histories + %d controls, %d mismatches%s" % (len(hlines) - len(hcontrols), len(hcontrols), len(hd["mismatches"]),
                                                            (": " + hd["mismatches"][0][:300]) if hd["mismatches"] else ""))
    if hd["mismatches"]:
        R.violation("pubsub-stall-lean", dict(kind="impl-violates-spec", engine="conc",
                                              summary="the history observed with a slow subscriber is not a history of the model PSS: " + hd["mismatches"][0][:400],
                                              args=["conc", str(R.seed), "1", "pubsub"], check="psh",
                                              explanation="scenario pubsub-stall (harness/conc_pubsub_stall.go) judged by PSS.Hist.judge (lean/RedisGoModel/Conc/PubSubSlow.lean): "
                                                          "theorems PSS.healthy_not_affected / stall_only_delays / confirm_after_join speak about this model"))
    R.rule = rule + (" Concurrent exploration: 3 stable subscribers on two channels that keep issuing PING on their own connections, 4 publishers "
                     "publishing 25 messages each (8 B to 70 kB, CR/LF inside) and 2 churn connections subscribing and disconnecting; every subscriber's "
                     "byte stream must be well-formed pushes containing each message exactly once, intact, each publisher's in order; PUBLISH counts at "
                     "least the stable subscribers; publishers must get their reply within 10 s; repeated under the Go race detector. "
                     "Lock-trace tie: in every pubsub scenario (sockets, handover, prune; the first rounds of the stress loops) and in a sequential scenario "
                     "covering every code path of Subscribe/UnSubscribe/Send/PUBLISH, each goroutine's hook-H2b event sequence must be a run of the operation "
                     "automaton of the Lean model PSC (Conc/PubSubConc.lean) - the hypotheses of PSC.lock_order / pubsub_deadlock_free / send_sees_consistent_set.")


def replay_psh(R, payload):
    """run the pubsub scenarios again and let the Lean model judge the pubsub-stall histories (driver engine PSH)"""
    import json
    binary, err = core.build_harness()
    if not binary:
        print(err)
        return 1
    rc, so, se, dt = core.run([binary] + payload["args"], env=core.goenv(), timeout=600)
    lines = []
    for l in so.split("\n"):
        if l.strip().startswith("{"):
            try:
                r = json.loads(l)
            except ValueError:
                continue
            if r.get("scenario") == "pubsub-stall" and r.get("hist"):
                lines.append("PSH replay-stall-%s %s" % (r.get("seed"), r["hist"]))
    d = core.run_driver(lines) if lines else dict(mismatches=["no pubsub-stall history was produced"])
    for m in d["mismatches"]:
        print(m[:600])
    bad = bool(d["mismatches"])
    print("replay: %d histories judged by PSS.Hist.judge: %s" % (len(lines), "still failing" if bad else "not reproduced"))
    return 1 if bad else 0


def replay(R, payload):
    if payload.get("check") == "psh":
        return replay_psh(R, payload)
    if payload.get("engine") == "conc":
        return concsuite.replay_conc(R, payload)
    return core.generic_replay(R, payload)
