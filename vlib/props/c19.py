"""C19 — published messages reach exactly the current subscribers, once, in order.
Theorems: PubSub.delivery_exact, publish_count; tie: serve engine (subscribers, publishers, disconnects) — sequential interleavings."""
from .. import core, servesuite, concsuite


def run(R, ctx):
    servesuite.run_serve_suite(R, ctx, "pubsub", (150, 3000),
                               "Pub/Sub: channels incl. the empty name and one containing CR/LF; payloads from the binary alphabet; a publisher "
                               "subscribed to its own channel; resubscription; client-side closes; publishing from another selected database.",
                               damage=False)
    rule = R.rule
    concsuite.run_conc(R, ctx, "pubsub", ["pubsub"], (4, 40))
    R.rule = rule + (" Concurrent exploration: 3 stable subscribers on two channels that keep issuing PING on their own connections, 4 publishers "
                     "publishing 25 messages each (8 B to 70 kB, CR/LF inside) and 2 churn connections subscribing and disconnecting; every subscriber's "
                     "byte stream must be well-formed pushes containing each message exactly once, intact, each publisher's in order; PUBLISH counts at "
                     "least the stable subscribers; publishers must get their reply within 10 s; repeated under the Go race detector.")


def replay(R, payload):
    if payload.get("engine") == "conc":
        return concsuite.replay_conc(R, payload)
    return core.generic_replay(R, payload)
