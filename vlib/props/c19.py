"""C19 — published messages reach exactly the current subscribers, once, in order.
Theorems: PubSub.delivery_exact, publish_count; tie: serve engine (subscribers, publishers, disconnects) — sequential interleavings."""
from .. import core, servesuite


def run(R, ctx):
    servesuite.run_serve_suite(R, ctx, "pubsub", (150, 3000),
                               "Pub/Sub: channels incl. the empty name and one containing CR/LF; payloads from the binary alphabet; a publisher "
                               "subscribed to its own channel; resubscription; client-side closes; publishing from another selected database.",
                               damage=False)


def replay(R, payload):
    return core.generic_replay(R, payload)
