"""C19 — published messages reach exactly the current subscribers, once, in order.
Theorems: PubSub.delivery_exact, publish_count; tie: serve engine (subscribers, publishers, disconnects) — sequential interleavings."""
from .. import core, servesuite, concsuite


def run(R, ctx):
    servesuite.run_serve_suite(R, ctx, "pubsub", (150, 3000),
                               "Pub/Sub: channels incl. the empty name and one containing CR/LF; payloads from the binary alphabet; a publisher "
                               "subscribed to its own channel; resubscription; client-side closes; publishing from another selected database.",
                               damage=False)
    rule = R.rule
    reports = concsuite.run_conc(R, ctx, "pubsub", ["pubsub"], (4, 40)) or []
    # lock-trace tie (hook H2b): every goroutine's Pub/Sub lock / access event sequence is a run of the operation automaton of the Lean model
    # Conc/PubSubConc.lean (harness/conc_pubsub_trace.go); the sequential path scenario covers every code path and every automaton state
    traced = sum(r.get("trace_events", 0) for r in reports)
    paths = [r for r in reports if r.get("scenario") == "pubsub-paths"]
    lt_bad = [r for r in reports if r.get("result") == "locktrace"]
    R.oblige("lock-trace tie (hook H2b): per goroutine, the table/channel lock, conns-map and table access events are a run of the model's operation "
             "automaton (table lock before channel lock, modes, accesses under the right lock, nothing held at quiescence); all automaton states "
             "visited by the sequential path scenario; negative control refused",
             "tie", bool(paths) and all(r.get("result") == "ok" for r in paths) and not lt_bad and traced > 0,
             "%d events checked in %d scenario rounds, %d path scenario(s), %d non-conforming" % (traced, len(reports), len(paths), len(lt_bad)))
    R.extra.setdefault("conc", {}).setdefault("pubsub", {})["locktrace_events"] = traced
    # the same judgement by the Lean automaton itself (PSC.TA.ok, proved to accept every thread of the model: PSC.thread_trace_accepted):
    # the whole event sequences of the small scenarios go through the compiled driver (engine PST)
    lines = []
    for r in reports:
        tag = "PST" if r.get("scenario") == "pubsub-paths" else "PSTP"
        for g, tr in sorted((r.get("traces") or {}).items()):
            lines.append("%s %s-%s-%s %s" % (tag, r.get("build", "b"), r.get("scenario"), g, tr))
    controls = {
        "release-channel-then-table": "TRL get TRU CL cr CU TRL get TRU CL TL",
        "inversion-in-loop": "TRL get TRU CL cr TL",
        "conns-write-no-channel-lock": "TL get cr",
        "iterate-no-channel-lock": "TRL get TRU cr",
        "table-write-under-read-lock": "TRL get del",
        "channel-lock-inside-read-section": "TRL get CL",
        "lookup-without-table-lock": "get",
        "unlock-table-before-channel": "TL get CL cr TU",
        "ends-holding-table-lock": "TL get",
    }
    lines += ["PSTN %s %s" % (k, v) for k, v in sorted(controls.items())]
    d = core.run_driver(lines)
    ok = bool(lines) and len(lines) > len(controls) and not d["mismatches"] and not d["unknown"]
    R.oblige("lock-trace tie, Lean side: the recorded event sequences are accepted by PSC.TA.ok / are runs of PSC.TA.step (compiled driver, engine PST); "
             "negative controls refused", "tie", ok,
             "%d goroutine traces + %d controls, %d mismatches%s" % (len(lines) - len(controls), len(controls), len(d["mismatches"]),
                                                                   (": " + d["mismatches"][0][:200]) if d["mismatches"] else ""))
    if d["mismatches"]:
        R.violation("pubsub-locktrace-lean", dict(kind="impl-violates-spec", engine="conc",
                                                  summary="a goroutine's Pub/Sub lock/access event sequence is not a run of the model's operation automaton: " + d["mismatches"][0][:300],
                                                  args=["conc", str(R.seed), "1", "pubsub"],
                                                  explanation="hook H2b events of one goroutine judged by PSC.TA (lean/RedisGoModel/Conc/PubSubTrace.lean)"))
    R.rule = rule + (" Concurrent exploration: 3 stable subscribers on two channels that keep issuing PING on their own connections, 4 publishers "
                     "publishing 25 messages each (8 B to 70 kB, CR/LF inside) and 2 churn connections subscribing and disconnecting; every subscriber's "
                     "byte stream must be well-formed pushes containing each message exactly once, intact, each publisher's in order; PUBLISH counts at "
                     "least the stable subscribers; publishers must get their reply within 10 s; repeated under the Go race detector. "
                     "Lock-trace tie: in every pubsub scenario (sockets, handover, prune; the first rounds of the stress loops) and in a sequential scenario "
                     "covering every code path of Subscribe/UnSubscribe/Send/PUBLISH, each goroutine's hook-H2b event sequence must be a run of the operation "
                     "automaton of the Lean model PSC (Conc/PubSubConc.lean) - the hypotheses of PSC.lock_order / pubsub_deadlock_free / send_sees_consistent_set.")


def replay(R, payload):
    if payload.get("engine") == "conc":
        return concsuite.replay_conc(R, payload)
    return core.generic_replay(R, payload)
