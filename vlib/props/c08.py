"""C08 — acknowledged cluster writes survive crashes and restarts.

PROVED (kernel-checked): the recovery function — Recover.recover_replays_all (newest snapshot + the entries after it up to the
persisted commit index = the state machine after the committed prefix), Recover.rep_save / rep_snapshot / applied_is_image (the
representation is kept by the Ready loop's storage operations: append, raise commit, snapshot the applied state, compact), and
Recover.acked_survives (an entry at or below the persisted commit index contributes to the recovered state exactly as when it was
first applied); and `restore . serialize = id` for the keyspace snapshot: Snap.decode_encode (LoadSnapshot of GetSnapshot's bytes
succeeds and yields the canonical presentation of the keyspace), Snap.canon_equiv / snapshot_roundtrip_observable (every key holds the
same value and deadline afterwards), Snap.encode_deterministic (same keyspace => same bytes), Snap.encode_injective — theorems about
lean/RedisGoModel/Cluster/Snapshot.lean, which is TIED byte for byte to memdb/snapshot.go on every run (suite "snapshot": exec-engine
lines G / L / LB, vlib/snapgen.py: GetSnapshot bytes = Snap.encode, LoadSnapshot = Snap.decode incl. the shape of rebuilt sorted-set
trees, mutated snapshots).  HYPOTHESIS of the recovery theorems checked on every run: fact F4 (the Ready arm persists before it sends,
publishes and acknowledges — extracted from raftexample/raft.go; F4d: the wal.Save step is not inside any conditional), and its
BEHAVIOURAL TIE, suite "readyloop" (vlib/readygen.py, harness/readyloop.go, hook H4): ONE REAL RaftNode (id 2 of {1,2,3}; real WAL and
snapshot directory, real rafthttp transport, real serveChannels goroutine) with the harness playing the two other members through
RaftNode.Process; every message is observed synchronously inside rc.transport.Send, every delivery on the commit channel by its consumer,
and at that moment the node's directories are read from disk with a separate read-only open, as a restart would: E1 on-disk term >= the
message's term; E2 a granted vote (or the node's own candidacy) has (term, votedFor) on disk; E3 an accepted append / snapshot is on disk
with the leader's terms; E4 every applied proposal is in the on-disk log; E6 a commit index announced as leader that needs the node's own
copy is on disk; E5 clean restarts and crash images (restart from a copy of the files taken before the stop) keep everything that was
externalised, the restarted node equals what the oracle read, and no two grants of one term go to different candidates across lives.

NOT PROVED — EXPLORED by fault enumeration on real processes: workloads that cross the snapshot threshold (VERIF_SNAPCOUNT=5/20/50),
SIGKILL of any subset of nodes at random instants including all at once, restart in random order from the on-disk state, then a read
of every key through EVERY node: the linearizability check with those final reads, the per-node agreement and the ledger (INCR-only
counter, SADD-only set: every acknowledged operation must be reflected on every node) are the C08 verdict.  The minimal scenarios of
the three repaired defects (list in the keyspace at the snapshot threshold; snapshot + full restart; follower caught up by MsgSnap)
run on every check and must pass.  Thorough tier only: scenarios with proxied links (network partitions between live nodes, see
c07.py / harness/cluster_links.go) - a live follower cut off across the snapshot threshold and caught up by MsgSnap after the heal,
an isolated leader, each combined with SIGKILL of all nodes."""
import os

from .. import core, clustersuite, readygen, snapgen

LEVEL = "proof"
KNOWN_HERE = ["member-url-lost-after-compaction"]


def snaprace(R, binary):
    """engine snaprace (harness/snaprace.go, hook H4): the REAL publishEntries / maybeTriggerSnapshot / saveSnap of a RaftNode without raft, fed batches of
    committed entries with and without commands while the state machine applies each batch after a random delay; a snapshot at index i must hold exactly
    the commands of the entries up to i (a snapshot never loses acknowledged writes, at the place where the image is taken); in every third scenario membership-change
    entries sit between the commands of one Ready, and in all of them the state machine must have been handed exactly the commands of the log, once, in log order"""
    import json
    n = 120 if R.tier == "quick" else 3000
    env = core.goenv()
    env["VERIF_SNAPCOUNT"] = "1"      # catch-up window of the compaction: small, or the second snapshot of a short log cannot compact
    if os.path.isdir("/dev/shm") and os.access("/dev/shm", os.W_OK):
        env.setdefault("VERIF_TMP", "/dev/shm")
    with core.Workdir() as wd:
        rc, so, se, dt = core.run([binary, "snaprace", wd, str(R.seed), str(n)], env=env, timeout=1200)
    reps = []
    for l in so.split("\n"):
        if l.strip().startswith("{"):
            reps.append(json.loads(l))
    bad = [r for r in reps if r.get("result") != "ok"]
    R.oblige("snaprace: every snapshot taken by the real maybeTriggerSnapshot holds exactly the commands of the entries up to its index (%d scenarios, %d snapshots, %d batches "
             "without commands, state machine delayed up to 8 ms)" % (len(reps), sum(r.get("snapshots", 0) for r in reps), sum(r.get("batches_without_commands", 0) for r in reps)),
             "oracle", rc == 0 and len(reps) == n and not bad, ("%d scenarios failed; " % len(bad)) + se[-300:] if (bad or rc != 0) else "")
    if (rc != 0 or len(reps) != n) and not bad:
        R.violation("snaprace-crash", dict(kind="impl-violates-spec", engine="snaprace", args=["snaprace", str(R.seed), str(n)],
                                           summary=("the snaprace engine's process ended with rc %d after %d of %d scenarios: %s" % (rc, len(reps), n, se[-600:])).replace("\n", " | "),
                                           explanation="the real publishEntries / maybeTriggerSnapshot / saveSnap crashed or wedged the process"))
    R.add_cases(sum(r.get("batches", 0) for r in reps), sum(1 for r in reps if r.get("result") == "ok" and r.get("snapshots", 0) > 0))
    R.suites.append(dict(name="snaprace", scenarios=len(reps), failed=len(bad), seconds=round(dt, 1)))
    for r in bad[:2]:
        R.violation("snaprace-%d" % r.get("scenario", 0), dict(kind="impl-violates-spec", engine="snaprace", summary=("snaprace scenario %s: %s: %s" % (r.get("scenario"), r.get("result"), r.get("detail", "")))[:800],
                                                              args=["snaprace", str(R.seed), str(r.get("scenario", 0) + 1)], report=r,
                                                              explanation="the keyspace image of a snapshot does not correspond to its index: a node restored from it (restart, or a follower receiving it) loses or repeats acknowledged writes"))


def run(R, ctx):
    known = core.load_known().get("C08", {})
    binary, err = core.build_harness()
    R.oblige("harness builds against the repository working tree (-tags verif)", "build", binary is not None, err or "")
    if binary is None:
        R.violation("harness-build", dict(kind="tie-broken", summary="harness does not build: " + (err or "")[-800:]), found_input=False)
        return
    # correspondence of the snapshot model (Snap.encode / Snap.decode) with memdb/snapshot.go, before the cluster scenarios
    snapgen.run_snapshot_suite(R, ctx, binary)
    f4 = clustersuite.fact_f4(R, broken_is_violation=False)
    # the behavioural tie of F4: the real Ready loop of one node, every externalisation judged against the disk (fast: before the cluster runs)
    rl = readygen.run_suite(R, ctx, binary, f4)
    snaprace(R, binary)
    main = clustersuite.run_cluster(R, ctx, "C08", binary, known, KNOWN_HERE) or []
    if f4 is not None and not f4["unconditional"] and not rl["failing"]:
        # the persist step became conditional and no scenario of this run showed an externalisation without its disk write
        R.violation("F4-save-conditional", dict(kind="tie-broken", summary=clustersuite.F4D_SUMMARY % (f4["save_depth"], "see obligation F4d")),
                    found_input=False)
    if f4 is not None and not (f4["exact"] and f4["persist_first"]):
        # the hypothesis of the recovery theorems is gone; a failing input only if a cluster run also lost a write or a readyloop scenario failed
        lost = any(p.get("kind") in ("lost-write", "not-linearizable", "replicas-disagree") for r in main for p in (r.get("problems") or []))
        lost = lost or rl["failing"] > 0
        R.violation("F4-persist-before-ack", dict(
            kind="tie-broken", order=f4["order"], expected=clustersuite.F4_EXPECTED,
            summary="fact F4 broken: the Ready arm of serveChannels runs %s; Recover.acked_survives / rep_save assume that an entry is sent, "
                    "published and acknowledged only after the wal.Save that contains it returned" % " -> ".join(f4["order"])), found_input=lost)
    if f4 is not None and f4["unchecked"]:
        R.violation("F4-write-error-ignored", dict(kind="tie-broken", summary="the Ready arm discards the result of " + ", ".join(f4["unchecked"]) +
                                                   ": a failed write would still be acknowledged"), found_input=False)
    R.rule = ("snapshot: programs of every command family over all six value types (binary/empty keys and members, +-inf scores, deadlines) with "
              "G (GetSnapshot bytes = Snap.encode, byte for byte), L (load into a fresh MemDb = Snap.decode . Snap.encode, full dump incl. rebuilt tree "
              "shapes) and LB lines (mutated snapshots: accept/refuse and resulting keyspace vs the strict model decoder); a G/L line is non-trivial "
              "when the keyspace is not empty, an LB line when the model decoder accepts. "
              "readyloop: evaluations = clause evaluations (E1-E6), each against a fresh read of the node's directories; a scenario is non-trivial when "
              "the node lived more than once and at least one of E2/E3/E4 was judged. "
              "cluster: a scenario is non-trivial when clients got acknowledgements AND at least one fault was injected; a repaired-defect "
              "scenario counts when it passes; evaluations = client commands issued (acknowledged + unknown outcome).")
    if ctx.broken and not R.violations:
        R.violation("proof-broken", dict(kind="proof-broken", broken=ctx.broken,
                                         summary="theorem(s) no longer check: " + ", ".join(t for t, _ in ctx.broken)), found_input=False)


def replay(R, payload):
    if payload.get("engine") == "snaprace":
        binary, err = core.build_harness()
        if not binary:
            print(err)
            return 1
        env = core.goenv()
        env["VERIF_SNAPCOUNT"] = "1"
        with core.Workdir() as wd:
            rc, so, se, dt = core.run([binary] + payload["args"][:1] + [wd] + payload["args"][1:], env=env, timeout=600)
        bad = [l for l in so.split("\n") if l.strip().startswith("{") and '"result":"ok"' not in l]
        print("\n".join(l[:600] for l in bad[:3]))
        print("replay: %s" % ("still failing" if bad else "no longer failing"))
        return 1 if bad else 0
    if payload.get("engine") == "readyloop":
        return readygen.replay(R, payload)
    if payload.get("engine") == "ready":
        # an RD line carries both the input (records, files) and what the real functions returned: the driver alone re-judges it
        d = core.run_driver(payload.get("lines") or [])
        for m in d["mismatches"] + d["unknown"]:
            print(m[:600])
        bad = bool(d["mismatches"] or d["unknown"])
        print("replay: %s" % ("still failing" if bad else "no longer failing"))
        return 1 if bad else 0
    if payload.get("engine") == "cluster":
        return clustersuite.replay_cluster(R, payload)
    return core.generic_replay(R, payload)
