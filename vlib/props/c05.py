"""C05 — concurrent clients observe linearizable single-key operations.
Theorems (generic, any number of threads, any interleaving of the model's atomic actions): Cc.atomicity (strict two-phase locking
=> equivalent to atomic block execution incl. replies), no_lost_increment, setnx_one_winner; TraceCheck.access_held (what the
per-command trace check guarantees).  Tie: (1) hook H2 — the lock/access event trace of EVERY command of the exec correspondence
runs must satisfy TraceCheck.ok (the trace-level hypothesis of the theorems: every keyspace access inside its stripe, in a
sufficient mode, two-phase); (2) exploration: goroutines + porcupine + lockset + -race."""
from .. import core, execgen, execsuite, concsuite, families


def run(R, ctx):
    execsuite.run_exec_suite(R, ctx, name="lock-discipline", gens=families.all_gens(), nprog=(250, 4000), corpus="exec_c05",
                             what="every registered command family with hook H2 recording: per command the event trace must be accepted by "
                                  "TraceCheck.ok", events=True)
    rule = R.rule
    concsuite.run_conc(R, ctx, "single-key", families.conc_scenarios(), (6, 60))
    R.rule = rule + (" Concurrent exploration: 2-16 goroutines x 12-40 commands on 1-3 keys that collide on a stripe (ShardNum 1, 2, 1024); "
                     "each per-key history is checked for linearizability (porcupine), every goroutine's events for the lockset discipline, the keyspace "
                     "counter and KEYS/EXISTS at quiescence; run again under the Go race detector. Scenario bigread: containers of 2 000-4 000 elements (sorted set, hash, set, list) that only grow while 5 readers list them "
                     "through every listing command; each listing must contain every element acknowledged before its invocation, nothing not yet sent at its return, no element twice, in the family's order. "
                     "Scenario addrem (hash, set, sorted set): an adder and a remover work through the same elements, the remover only after the addition was acknowledged, the key ceasing to exist again and again; "
                     "every removal answers 1 and at quiescence the container is exactly the acknowledged additions minus removals. keysstable: 24 keys that are only ever overwritten (SET, SET GET, APPEND, SETRANGE, MSET) while "
                     "other keys come and go; every KEYS reply lists all 24. streamtrim: 4 producers XADD MAXLEN n * at the same moment; exactly the n greatest reported IDs remain. "
                     "A history is non-trivial with >= 2 goroutines.")


def replay(R, payload):
    if payload.get("engine") == "conc":
        return concsuite.replay_conc(R, payload)
    return core.generic_replay(R, payload)
