"""C14 — cluster mode does not change what a command means.
Model: lean/RedisGoModel/Cluster/Codec.lean (Go's json.Marshal rendering of raftexample.RaftProposal: JSON string escaping, base64
[]byte, omitempty; the decoder; the cluster command filter) and lean/RedisGoModel/Exec/* (the standalone meaning of every command);
theorems: lean/RedisGoModel/Props/C14.lean (C14_holds: the log entry decodes to the submitted vector and applying it equals Exec.exec).
Tie, two suites:
  codec         the bytes the real cluster path (server.VerifClusterRoundTrip: filter, newClusterProposal, RaftProposal.ToBytes,
                json.Unmarshal) writes and reads back, and json.Marshal/Unmarshal of RaftProposal with arbitrary Data/ID/Args, must be
                byte-identical to Codec.encodeProposalN / encodeStruct and decode as the model decoder says (and to what was submitted);
  cluster-path  programs of every command family executed through that same path (VERIF_CLUSTER_PATH=1) and judged, reply and
                keyspace dump, by the standalone keyspace model."""
import collections
import random

from .. import core, execgen, execsuite, families
from ..gen import BIN_ALPHABET

# byte strings that exercise encoding/json's string escaping and utf8.DecodeRune's acceptance table
UTF8_EDGE = [
    b"\xc2\x80", b"\xdf\xbf", b"\xc1\xbf", b"\xc0\x80", b"\xc2", b"\xc2\x7f", b"\xc2\xc0",
    b"\xe0\xa0\x80", b"\xe0\x9f\xbf", b"\xe0\xa0", b"\xe1\x80\x80", b"\xec\xbf\xbf", b"\xed\x9f\xbf", b"\xed\xa0\x80", b"\xed\xbf\xbf",
    b"\xee\x80\x80", b"\xef\xbf\xbd", b"\xef\xbf\xbf", b"\xe2\x80\xa8", b"\xe2\x80\xa9", b"\xe2\x80\xaa", b"\xe2\x80", b"\xe2\x80\xa8x",
    b"\xf0\x90\x80\x80", b"\xf0\x8f\xbf\xbf", b"\xf0\x9f\x98\x80", b"\xf3\xbf\xbf\xbf", b"\xf4\x8f\xbf\xbf", b"\xf4\x90\x80\x80",
    b"\xf5\x80\x80\x80", b"\xf0\x90\x80", b"\xf0\x90", b"\xf1\x80\x80\x7f", b"\xff", b"\xfe\xff", b"\x80", b"\xbf\xbf",
    b"<script>&amp;</script>", b"\"quoted\"", b"back\\slash", b"\x00\x01\x07\x08\x09\x0a\x0b\x0c\x0d\x0e\x1f\x7f", b"caf\xc3\xa9", b"\xe4\xb8\xad\xe6\x96\x87",
    b"a\xe2\x80\xa8b\xe2\x80\xa9c", b"\xed\xa0\x80\xed\xb0\x80", b"/", b"\\u0041", b"\\\"", b"null", b"[]", b"{\"Args\":[\"QQ==\"]}",
]
NAMES = [b"publish", b"PUBLISH", b"PuBlIsH", b"subscribe", b"SUBSCRIBE", b"Subscribe", b"publis", b"publishx", b"psubscribe", b"rconf", b"RCONF",
         b"unsubscribe", b"nosuchcommand", b"ECHOX", b"publish ", b"\xc5\xbfubscribe", b"PUBL\xc4\xb0SH"]


def rbytes(rng, n):
    return bytes(rng.randrange(256) for _ in range(n))


def arg(rng):
    r = rng.random()
    if r < 0.45:
        return rng.choice(BIN_ALPHABET)
    if r < 0.6:
        return rng.choice(UTF8_EDGE)
    if r < 0.95:
        return rbytes(rng, rng.randint(0, 20))
    return rbytes(rng, rng.choice([21, 22, 23, 57, 58, 59, 255, 256, 257, 1000]))


def tok(a):
    return "~" if a is None else core.hx(a)


def codec_lines(rng, n):
    lines = ["CW"]                                     # the empty array: refused by the filter (2f6ea0e: used to panic)
    # every length 0..20 (all three padding cases, repeatedly), alone and after a word
    for ln in range(0, 21):
        for _ in range(3):
            lines.append("CW " + tok(rbytes(rng, ln)))
            lines.append("CW %s %s %s" % (tok(b"k"), tok(rbytes(rng, ln)), tok(rbytes(rng, (ln * 7) % 21))))
    for b in range(256):                               # every single byte as an argument, and as Data / ID
        lines.append("CW %s %s" % (tok(b"k"), tok(bytes([b]))))
        lines.append("CP %s %s %s" % (tok(bytes([b])), tok(bytes([b, 0x41])), tok(bytes([b]))))
    for e in UTF8_EDGE + BIN_ALPHABET:
        lines.append("CW %s" % tok(e))
        lines.append("CP %s %s" % (tok(e), tok(b"x" + e)))
        lines.append("CP %s %s %s" % (tok(b"a" + e + b"\xc3"), tok(e + e), tok(e)))
    for nm in NAMES:
        lines.append("CW %s %s %s" % (tok(nm), tok(b"ch"), tok(b"m")))
    lines += ["CP - - []", "CP - -", "CP 6b - ~", "CP - - ~ ~ -", "CW ~", "CW ~ 61", "CW 61 ~ - ~"]
    for _ in range(n):
        k = rng.randint(1, 6)
        argv = [arg(rng) for _ in range(k)]
        if rng.random() < 0.05:
            argv[rng.randrange(k)] = None               # a nil []byte element: `null` on the wire
        if rng.random() < 0.1:
            argv[0] = rng.choice(NAMES)
        lines.append("CW " + " ".join(tok(a) for a in argv))
        if rng.random() < 0.5:
            data, pid = arg(rng), arg(rng)
            if rng.random() < 0.5:
                data = b"".join(rng.choice(UTF8_EDGE + BIN_ALPHABET) for _ in range(rng.randint(1, 4)))
            args = [] if rng.random() < 0.1 else argv
            lines.append(("CP %s %s " % (tok(data), tok(pid)) + " ".join(tok(a) for a in args)).rstrip())
    return lines


def codec_conc(R):
    """the cluster path taken by eight clients at the same time (harness `codec conc`): verdict of the filter, reply and log bytes as when submitted alone"""
    import json
    binary, err = core.build_harness()
    if binary is None:
        return
    reps = []
    for k in range(2 if R.tier == "quick" else 12):
        rc, so, se, dt = core.run([binary, "codec", "conc", str(R.seed * 100 + k), "20000" if R.tier == "quick" else "60000"], timeout=600)
        try:
            reps.append(json.loads(so.strip().split("\n")[-1]))
        except Exception:
            reps.append(dict(result="crash", detail=(se or so)[-600:], seed=R.seed * 100 + k))
    bad = [r for r in reps if r.get("result") != "ok"]
    R.oblige("cluster path under concurrent clients (8 connections, own keys, two of them submitting what the filter refuses): filter verdict, reply and "
             "log bytes of every command are those of the same command submitted alone", "exploration", not bad,
             "; ".join((r.get("detail") or "")[:300] for r in bad[:2]) or "%d commands, %d refused" % (sum(r.get("ops", 0) for r in reps), sum(r.get("refused", 0) for r in reps)))
    R.add_cases(sum(r.get("ops", 0) for r in reps), len(reps))
    R.suites.append(dict(name="codec-conc", runs=len(reps), ops=sum(r.get("ops", 0) for r in reps), refused=sum(r.get("refused", 0) for r in reps), failures=len(bad)))
    for r in bad[:1]:
        R.violation("codec-conc", dict(kind="impl-violates-spec", engine="codec-conc", report=r, seed_used=r.get("seed"),
                                       summary=("cluster path, concurrent clients: " + (r.get("detail") or r.get("result", "")))[:800],
                                       explanation="what a command means on the cluster path depends on what other connections submit at the same moment"))


def run_codec(R, ctx):
    binary, err = core.build_harness()
    R.oblige("harness builds against /repo working tree (-tags verif)", "build", binary is not None, err or "")
    if binary is None:
        R.violation("harness-build", dict(kind="tie-broken", summary="harness does not build: " + (err or "")[-800:]), found_input=False)
        return
    rng = random.Random(R.seed * 7919 + 14)
    n = 8000 if R.tier == "quick" else 200000
    lines = list(core.corpus("codec")) + codec_lines(rng, n)
    obs, crashes, se = core.run_harness_resilient(binary, "codec", lines, timeout=1800)
    d = core.run_driver(obs)
    core.negative_control(R, obs, "codec", skip=lambda l: " => " not in l or l.endswith("FILTERED"))
    pos = int(d["summary"].get("positive", 0))
    outcomes = collections.Counter(("FILTERED" if l.endswith("=> FILTERED") else l.split()[0]) for l in obs)
    arglens = collections.Counter()
    for l in obs:
        for t in l.split(" => ")[0].split()[1:]:
            if t not in ("~", "[]"):
                arglens[len(core.unhx(t)) % 3] += 1
    distinct = len(set(l.split(" => ")[0] for l in obs))
    R.add_cases(len(obs), min(pos, distinct), samples=[l[:300] for l in obs[1:3]] + [l[:300] for l in obs[-2:]])
    R.extra.setdefault("input_distribution", {})["codec"] = dict(
        lines=len(obs), outcomes=dict(outcomes), argument_length_mod_3=dict(arglens), distinct_lines=distinct,
        accepted_with_args=pos, harness_crashes=crashes)
    ok = not d["mismatches"] and not d["unknown"] and crashes == 0
    R.oblige("correspondence codec: log bytes written by the cluster path = Codec.encodeProposalN, json.Unmarshal = Codec.decodeProposalArgs "
             "= the submitted vector", "correspondence", ok, "%d mismatches, %d crashes" % (len(d["mismatches"]), crashes))
    R.suites.append(dict(name="codec", lines=len(obs), mismatches=len(d["mismatches"]), crashes=crashes, driver_s=round(d["seconds"], 1)))
    seen = 0
    for mm in d["mismatches"] + d["unknown"]:
        if seen >= 3:
            break
        seen += 1
        try:
            ix = int(mm.split()[1]) - 1
            line = obs[ix].split(" => ")[0]
            # the engine holds every encoded proposal back while the next 4 lines are encoded (as raft holds Entry.Data): they belong to the input
            follow = [o.split(" => ")[0] for o in obs[ix + 1:ix + 5]]
        except Exception:
            line, follow = "", []
        readable = " ".join(("nil" if t == "~" else t if t == "[]" else repr(core.unhx(t))[2:-1]) for t in line.split()[1:])
        R.violation("codec-%d" % seen, dict(
            kind="impl-violates-spec", engine="codec", summary=mm[:600], lines=([line] + follow) if line else [], program=[line.split()[0] + " " + readable] if line else [],
            explanation="the bytes the cluster path appends to the replicated log for this argument vector (or what json.Unmarshal reads back from them) "
                        "differ from the codec model, for which Props/C14.lean proves that the submitted vector comes back unchanged: either the "
                        "log alters the command, or the model no longer describes the wire format"))


def no_long_block(gen):
    """the list generator queues `BLPOP k 0` (or 1, 100 s) right after a push to k; in programs that mix families another family's
    command (DEL, EXPIRE -1, SET, a STORE) can remove the list in between, and the pop then blocks - standalone exactly as through the
    cluster path (checked) - until the harness watchdog reports HANG.  Blocking pops therefore wait at most 50 ms here."""
    def g(rng, keys):
        argv, ks = gen(rng, keys)
        if len(argv) >= 3 and argv[0].lower() in (b"blpop", b"brpop"):
            try:
                t = float(argv[-1])
                if t == 0 or t > 0.05:
                    argv = argv[:-1] + [b"0.05"]
            except ValueError:
                pass
        return argv, ks
    return g


def run(R, ctx):
    run_codec(R, ctx)
    codec_conc(R)
    from .. import clustersuite
    clustersuite.one_node_probe(R, "q-halfclose-cluster-1", R.seed * 1000 + 3,
                                "a real cluster node answers a pipeline written by a client that closes its sending side at once exactly as a standalone server does "
                                "(every command answered, in order, before the end of the stream is acted on)",
                                "the reply to a command submitted through a cluster node differs from the standalone server's")
    rule_codec = ("codec: argument vectors of 1-6 arguments from the binary alphabet (empty, spaces, CR/LF, NUL, 0xff, RESP fragments), UTF-8 edge cases "
                  "(every first-byte class, E0/ED/F0/F4 second-byte limits, truncated sequences, U+2028/9, surrogates), every single byte, random bytes of "
                  "every length 0..20 (all base64 padding cases) and longer, nil elements, the empty array, PUBLISH/SUBSCRIBE in every letter case; "
                  "the bytes of each proposal are held back, uncopied, while the next 4 proposals are encoded (raft keeps Entry.Data until the entry is applied) "
                  "and only then reported and decoded; non-trivial = accepted by the filter and carrying an Args array. ")
    execsuite.run_exec_suite(
        R, ctx, name="cluster-path",
        gens=families.all_gens(),
        nprog=(700, 8000), corpus="exec_c14", cluster=True,
        what="EVERY command family (strings/keys, lists, hashes, sets, sorted sets, streams; upper/lower/capitalised command and option words; keys and "
             "values with spaces, empty, CR/LF, NUL and 0xff bytes) submitted through the cluster path: ClusterCmdFilter -> newClusterProposal -> "
             "RaftProposal.ToBytes -> json.Unmarshal -> applyClusterProposal (server.VerifClusterRoundTrip, VERIF_CLUSTER_PATH=1). The judging model is "
             "the standalone keyspace model, so reply and effect through the cluster path are compared with the standalone meaning")
    R.rule = rule_codec + "cluster-path: " + R.rule
    if ctx.broken and not R.violations:
        R.violation("proof-broken", dict(kind="proof-broken", broken=ctx.broken,
                                         summary="theorem(s) no longer check: " + ", ".join(t for t, _ in ctx.broken)), found_input=False)


def replay_conc(R, payload):
    import json
    binary, err = core.build_harness()
    if binary is None:
        print(err)
        return 1
    bad = 0
    for k in range(5):
        rc, so, se, dt = core.run([binary, "codec", "conc", str((payload.get("seed_used") or 1) + k), "60000"], timeout=600)
        try:
            r = json.loads(so.strip().split("\n")[-1])
        except Exception:
            r = dict(result="crash", detail=(se or so)[-400:])
        if r.get("result") != "ok":
            bad += 1
            print("OBSERVED", (r.get("detail") or "")[:400])
            break
    print("replay: %s" % ("still failing" if bad else "not reproduced (concurrent schedules are not deterministic: a passing replay does not prove absence)"))
    return 1 if bad else 0


def replay(R, payload):
    if payload.get("engine") == "cluster":
        from .. import clustersuite
        return clustersuite.replay_cluster(R, payload)
    if payload.get("engine") == "codec-conc":
        return replay_conc(R, payload)
    """re-run the recorded lines through the recorded engine (cluster-path programs with VERIF_CLUSTER_PATH=1) and the driver"""
    binary, err = core.build_harness()
    if binary is None:
        print("harness does not build:", err)
        return 1
    lines = payload.get("lines") or []
    if not lines:
        print(payload.get("summary", "no input recorded (proof/tie broken without a failing input)"))
        return 1
    env = core.goenv()
    env.update(payload.get("env") or {})
    obs, se, rc = core.run_harness(binary, payload.get("engine", "exec"), lines, env=env)
    d = core.run_driver(obs)
    for l in obs[:20]:
        print("OBSERVED", l[:300])
    for m in d["mismatches"] + d["unknown"]:
        print(m[:400])
    bad = bool(d["mismatches"] or d["unknown"]) or rc != 0
    print("replay: %s" % ("still failing" if bad else "no longer failing"))
    return 1 if bad else 0
