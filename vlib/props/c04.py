"""C04 — no client input can crash, wedge or hang the server.
Theorems: Props/C04.lean (model total; every registered command modelled — regenerated fact F1; accepted traces end with no stripe held);
Props/C04Sites.lean (regenerated fact F3: every guarded index / slice / division site of the Go source lies within the length its dominating
guards guarantee, the unguarded ones equal a reviewed inventory).  When F3 breaks, the enumeration is aimed at the commands whose executors
hold the offending sites; a crash found is reported with its replay, otherwise `no-failing-input-found` names the theorem.
Tie: the property's own quantifier — bounded-exhaustive (command x arity x adversarial alphabet x key of each type) through the real
executors with hook H2 recording; every outcome is compared with the total Lean model, so PANIC / HANG / nil replies, wrong replies and
unbalanced locks are all mismatches; then the same vectors' survivors: later commands on the same and other keys still answer."""
import itertools
import os
import random

from .. import core, execgen, execsuite, facts

SEED = [
    [b"SET", b"ks", b"10"], [b"RPUSH", b"kl", b"a", b"b", b"c"], [b"SADD", b"kt", b"a", b"b"], [b"HSET", b"kh", b"f", b"1"],
    [b"ZADD", b"kz", b"1", b"a", b"2", b"b"], [b"XADD", b"kx", b"1-1", b"f", b"v"], [b"SET", b"ke", b"gone", b"EXAT", b"1"],
    # keys with a history: a deadline carried over by RENAME, a container that got a deadline, re-armed and persisted
    [b"SET", b"kr0", b"5", b"EX", b"1000"], [b"RENAME", b"kr0", b"kv"], [b"RPUSH", b"kw", b"a", b"b"], [b"EXPIRE", b"kw", b"1000"],
    [b"EXPIRE", b"kw", b"2000"], [b"SADD", b"kp", b"a"], [b"EXPIRE", b"kp", b"1000"], [b"PERSIST", b"kp"], [b"RENAME", b"kp", b"kq"],
    # a stream that exists with no entries (only trimming gets there)
    [b"XADD", b"k0", b"MAXLEN", b"0", b"1-1", b"f", b"v"],
]
# read every seeded key once before the vectors, write to every seeded key once after them: whatever a read leaves behind (a lock, a cache)
# and whatever the vectors did, the server must still take writes on every key
READS = [[b"GET", b"ks"], [b"LRANGE", b"kl", b"0", b"-1"], [b"SMEMBERS", b"kt"], [b"HGETALL", b"kh"], [b"ZRANGE", b"kz", b"0", b"-1"], [b"XRANGE", b"kx", b"-", b"+"],
         [b"XRANGE", b"k0", b"-", b"+"], [b"GET", b"kv"], [b"LRANGE", b"kw", b"0", b"-1"], [b"SMEMBERS", b"kq"], [b"TTL", b"kv"], [b"KEYS", b"k*"]]
WRITES = [[b"APPEND", b"ks", b"1"], [b"RPUSH", b"kl", b"z"], [b"SADD", b"kt", b"z"], [b"HSET", b"kh", b"z", b"1"], [b"ZADD", b"kz", b"9", b"z"],
          [b"XADD", b"kx", b"9999999999999-1", b"f", b"v"], [b"XADD", b"k0", b"9999999999999-1", b"f", b"v"], [b"APPEND", b"kv", b"1"], [b"RPUSH", b"kw", b"z"],
          [b"SADD", b"kq", b"z"]]
KEYS = [b"ks", b"kl", b"kt", b"kh", b"kz", b"kx", b"ke", b"missing", b"kv", b"kw", b"kq", b"k0"]
ALPHA = [b"", b"0", b"-1", b"1", b"2", b"9223372036854775807", b"-9223372036854775808", b"9223372036854775808", b"abc", b"*", b"[", b"nx", b"xx",
         b"ex", b"px", b"ch", b"incr", b"gt", b"withscores", b"rev", b"limit", b"count", b"~", b"=", b"maxlen", b"minid", b"nomkstream", b"left",
         b"right", b"rank", b"\r\n", b"1.5", b"inf", b"nan", b"-", b"+", b"1-1", b"5-*", b"a", b"f", b"keepttl", b"get", b"lt", b"withvalues",
         b"list", b"add", b"delete"]
BLOCKING = {"blpop", "brpop"}
EXCLUDE = {"subscribe"}     # needs a connection: exercised by the serve engine


def vectors(rng, commands, tier):
    """every command x arity 0..2 exhaustively over KEYS (first argument) x ALPHA; arities 3..6 sampled"""
    vecs = []
    for c in commands:
        if c in EXCLUDE:
            continue
        name = c.encode()
        timeouts = [b"0.05", b"-1", b"abc", b"", b"0.000000001", b"1e-10", b"5e-324", b"0.000000004", b"1e-7", b"nan", b"inf", b"-0.5"]
        vecs.append([name])
        for k in KEYS + [b""]:
            vecs.append([name, k])
            for a in ALPHA:
                if c in BLOCKING:
                    a = rng.choice(timeouts)
                vecs.append([name, k, a])
        n_samp = 250 if tier == "quick" else 6000
        for _ in range(n_samp):
            n = rng.randint(3, 6)
            args = [rng.choice(KEYS) if (i == 0 or rng.random() < 0.25) else rng.choice(ALPHA) for i in range(n)]
            if c in BLOCKING:
                args[-1] = rng.choice(timeouts)
                if rng.random() < 0.5:
                    args = [rng.choice(KEYS) for _ in range(len(args) - 1)] + [args[-1]]
            vecs.append([name] + args)
    return vecs


SMALL = [b"", b"0", b"1", b"-1", b"a", b"nx", b"count", b"limit", b"withscores", b"rank", b"maxlen", b"*", b"left"]


def directed(rng, fx, broken):
    """vectors aimed at the executors that hold a site F3 no longer closes: for a constant-bound site every command length between what
    the guards guarantee and what the access needs, exhaustively over the keys and a small alphabet; otherwise every length 1..8 sampled"""
    by_fn = {}
    for name, fn in (fx.get("commands") or {}).items():
        by_fn.setdefault(fn, []).append(name)
    targets = {}    # command -> set of total lengths (None = all)
    for s in broken.get("const", []):
        for c in by_fn.get(s["func"], []):
            targets.setdefault(c, set()).update(range(max(1, s["minlen"]), max(s["needed"], s["minlen"] + 1)))
    for s in broken.get("rel", []) + broken.get("new_dynamic", []):
        for c in by_fn.get(s["func"], []):
            targets.setdefault(c, set()).update(range(1, 9))
    vecs = []
    for c, lens in sorted(targets.items()):
        if c in EXCLUDE:
            continue
        name = c.encode()
        for n in sorted(lens):
            nargs = n - 1
            if nargs == 0:
                vecs.append([name])
                continue
            combos = len(KEYS) * len(SMALL) ** (nargs - 1)
            if combos <= 2500:
                for k in KEYS:
                    for rest in itertools.product(SMALL, repeat=nargs - 1):
                        vecs.append([name, k] + list(rest))
            else:
                for _ in range(2500):
                    vecs.append([name, rng.choice(KEYS)] + [rng.choice(SMALL + ALPHA) for _ in range(nargs - 1)])
        if c in BLOCKING:
            for v in vecs:
                if v[0] == name and len(v) > 2:
                    v[-1] = b"0.05"
    return vecs, sorted(targets)


def run(R, ctx):
    fx = facts.extract()
    commands = sorted(fx["commands"]) if fx else []
    R.oblige("fact F1: registered commands extracted from the source and written to Generated/Commands.lean (Props/C04 all_registered_modelled)",
             "facts", bool(commands), "%d commands" % len(commands))
    rng = random.Random(R.seed * 31 + 4)
    vecs = vectors(rng, commands, R.tier)
    broken = getattr(R, "sites_broken", None)
    aimed = []
    if broken and fx:
        extra_vecs, aimed = directed(rng, fx, broken)
        vecs += extra_vecs
        R.extra["f3_directed"] = dict(commands=aimed, vectors=len(extra_vecs))
    rng.shuffle(vecs)
    lines = []
    per = 25
    for i in range(0, len(vecs), per):
        lines.append("R")
        for s in SEED:
            lines.append(execgen.render(s, [s[1]] + ([s[2]] if s[0] == b"RENAME" else [])))
        for rd in READS:
            lines.append(execgen.render(rd, [rd[1]] if rd[0] != b"KEYS" else []))
        chunk = vecs[i:i + per]
        for j, v in enumerate(chunk):
            keys = [a for a in v[1:] if a in KEYS]
            lines.append(execgen.render(v, keys, full=(j == len(chunk) - 1)))
        # the server keeps serving: the same keys and a fresh one still answer
        for wr in WRITES:
            lines.append(execgen.render(wr, [wr[1]]))
        lines.append(execgen.render([b"GET", b"ks"], [b"ks"]))
        lines.append(execgen.render([b"SET", b"after", b"1"], [b"after"], full=True))
    # keys that are past their deadline and STILL STORED exist only while real time passes: one small batch of the ttl engine (every string/key probe, KEYS
    # included, and the container families' probes) so that a command that wedges on such a key is seen by this property's own check as well
    from .. import ttlgen, families
    ex = families.ttl_extras()
    lines += ttlgen.batch(rng, 80, extra_setup=ex[0], extra_probe=ex[1], attach_ms=520, only=["keys"] * 4 + ttlgen.PROBES)
    execsuite.run_exec_suite(R, ctx, name="crash-enumeration", gens=[(1, execgen.string_cmd)], nprog=(0, 0), corpus="exec_c04",
                             what="bounded-exhaustive vectors: every registered command (from fact F1) x arity 0-2 exhaustively over 13 first arguments "
                                  "(one key of each type, an expired key, a missing key, the empty key, a volatile key that was renamed, a volatile container with a re-armed deadline, a persisted and renamed set, a stream trimmed to zero entries) x a %d-word adversarial alphabet "
                                  "(numeric extremes, option words of every family, metacharacters, CR/LF, float specials), arities 3-6 sampled; "
                                  "each program seeds the keys, reads each of them once, runs 25 vectors, then writes to every seeded key and probes that old and new keys still answer" % len(ALPHA),
                             extra_lines=lines, events=True,
                             shards=([1] if R.tier == "quick" else [1, 2, 1024]))   # ShardNum 1: two lock stripes, so distinct keys collide
    if broken and not any(found for _p, _s, found in R.violations):
        # fact F3 is broken and neither the enumeration nor the vectors aimed at the offending executors produced a crash: say which site, not
        # only which theorem (the suite's generic `proof-broken` entry is replaced when everything that broke is Props/C04Sites)
        if all(t.startswith("Sites.") for t, _ in getattr(ctx, "broken", [])):
            R.violations = [v for v in R.violations if not v[0].endswith("/proof-broken.json")]
        msgs = [m for f, ms in getattr(R, "facts_broken", []) if f == "F3" for m in ms]
        R.violation("f3-sites", dict(kind="proof-broken", broken=msgs, theorems=["Sites.const_sites_safe", "Sites.rel_sites_safe",
                                                                                  "Sites.executor_entry_safe", "Sites.dynamic_inventory"],
                                     summary="index-safety obligation of Props/C04Sites no longer holds for the regenerated source facts: " + "; ".join(msgs)[:700] +
                                             " — no crashing vector found (enumeration + %d command(s) targeted: %s)" % (len(aimed), ",".join(aimed) or "none is a registered executor")),
                    found_input=False)
    if R.tier == "thorough":
        churn(R)
    R.extra["enumeration"] = dict(commands=len(commands), vectors=len(vecs), alphabet=len(ALPHA), keys=len(KEYS), exhaustive_arity_le=2, exhaustive=False)


def churn(R):
    """thorough tier: the real server binary under connection churn (harness engine `churn`): clients that connect and go away at once, half commands,
    unread replies, resets; the process must not exit, steady connections keep being served, a fresh connection is served afterwards"""
    import json
    from .. import clustersuite
    binary, err = core.build_harness()
    if binary is None:
        return
    with core.Workdir() as wd0:
        wd = wd0.lower()            # config.Parse lower-cases logdir; mkdtemp names are mixed case
        os.makedirs(wd, exist_ok=True)
        server, err, dt = clustersuite.build_server(wd)
        R.oblige("the real server builds from the repository working tree (go build -tags verif .)", "build", server is not None, err or "%.1fs" % dt)
        if server is None:
            return
        reports = []
        for k in range(4):
            env = core.goenv()
            if k % 2:
                env["VERIF_CHURN_PIN"] = str(k)       # all server threads on one cpu
            rc, so, se, dt = core.run([binary, "churn", server, wd, str(R.seed * 10 + k), "4000", "16"], env=env, timeout=300)
            for l in so.split("\n"):
                if l.strip().startswith("{"):
                    reports.append(json.loads(l))
        if wd != wd0:
            import shutil
            shutil.rmtree(wd, ignore_errors=True)
    if len(reports) != 4:
        reports.append(dict(result="engine-died", detail="the churn engine produced %d of 4 reports (rc %s): %s" % (len(reports), rc, (se or "")[-400:])))
    bad = [r for r in reports if r.get("result") != "ok"]
    R.oblige("churn: the server process survives %d short-lived connections (gone before / during / after a command, orderly and reset) and keeps serving"
             % sum(r.get("connections", 0) for r in reports), "exploration", len(reports) == 4 and not bad, "; ".join(r.get("detail", "")[:200] for r in bad))
    R.extra["churn"] = [dict(connections=r.get("connections"), steady_commands=r.get("steady_commands"), result=r.get("result"), seconds=round(r.get("seconds", 0), 1)) for r in reports]
    for r in bad[:1]:
        R.violation("churn-" + r.get("result", "x"), dict(kind="impl-violates-spec", engine="churn", summary=("connection churn: " + r.get("result", "") + ": " + r.get("detail", ""))[:900],
                                                        report=r, explanation="the server process died or stopped serving under connection churn"))


def replay(R, payload):
    return core.generic_replay(R, payload)
