"""Program generators for the exec engine: command programs over a small key alphabet, per command family."""
from . import core

KEYS = [b"k1", b"k2", b"K1", b"foo", b"Foo", b"", b"a b", b"k\r\n", b"\xff\x00"]
VALS = [b"", b"a", b"v1", b"Hello World", b"0", b"1", b"-1", b"10", b"+1", b"01", b"9223372036854775807", b"-9223372036854775808",
        b"9223372036854775806", b"abc", b"\r\n", b"\x00\xff", b"3.5", b"1e3", b"x" * 300, b"12", b"-0"]
INTS = [b"0", b"1", b"-1", b"2", b"3", b"5", b"-2", b"-3", b"100", b"-100", b"9223372036854775807", b"-9223372036854775808",
        b"9223372036854775808", b"x", b"", b"1.5", b"+2", b"4000000000"]
TTLS = [b"100", b"1000", b"5000", b"0", b"-1", b"86400", b"x", b"9223372036854775807", b"10"]


def up(rng, w):
    return w.upper() if rng.random() < 0.3 else (w.capitalize() if rng.random() < 0.2 else w)


def string_cmd(rng, keys):
    k = rng.choice(keys)
    k2 = rng.choice(keys)
    v = rng.choice(VALS)
    r = rng.random()
    c = rng.choice(["set", "set", "set", "get", "get", "getrange", "setrange", "mget", "mset", "setex", "setnx", "strlen", "incr", "decr",
                    "incrby", "decrby", "append", "del", "exists", "type", "rename", "keys", "ping", "expire", "persist", "ttl", "ttl",
                    "incrbyfloat"])
    ks = [k]
    if c == "set":
        a = [k, v]
        if rng.random() < 0.6:
            for _ in range(rng.randint(1, 3)):
                o = rng.choice([b"nx", b"xx", b"get", b"keepttl", b"ex", b"px", b"exat", b"bogus"])
                a.append(up(rng, o))
                if o in (b"ex", b"px", b"exat") and rng.random() < 0.9:
                    if o == b"exat":
                        a.append(rng.choice([b"4102444800", b"1", b"0", b"-5", b"x", b"4102444801"]))
                    elif o == b"px":
                        a.append(rng.choice([b"100000", b"1500000", b"0", b"-1", b"x", b"999", b"60000"]))
                    else:
                        a.append(rng.choice(TTLS))
        if rng.random() < 0.03:
            a = a[:rng.randint(0, 1)]
    elif c in ("get", "strlen", "incr", "decr", "type", "persist", "ttl"):
        a = [k]
    elif c == "getrange":
        a = [k, rng.choice(INTS), rng.choice(INTS)]
    elif c == "setrange":
        a = [k, rng.choice([b"0", b"1", b"2", b"5", b"10", b"-1", b"x", b"3"]), v]
    elif c == "mget":
        ks = [rng.choice(keys) for _ in range(rng.randint(1, 4))]
        a = list(ks)
    elif c == "mset":
        n = rng.randint(1, 3)
        ks = [rng.choice(keys) for _ in range(n)]
        a = []
        for kk in ks:
            a += [kk, rng.choice(VALS)]
        if rng.random() < 0.1:
            a = a[:-1]
    elif c == "setex":
        a = [k, rng.choice(TTLS), v]
    elif c in ("setnx", "append"):
        a = [k, v]
    elif c in ("incrby", "decrby"):
        a = [k, rng.choice(INTS)]
    elif c == "incrbyfloat":
        a = [k, rng.choice([b"1.5", b"2", b"-0.25", b"x", b"1e2", b"0.5"])]
    elif c in ("del", "exists"):
        ks = [rng.choice(keys) for _ in range(rng.randint(1, 3))]
        a = list(ks)
    elif c == "rename":
        ks = [k, k2]
        a = [k, k2]
    elif c == "keys":
        ks = []
        a = [rng.choice([b"*", b"k*", b"?1", b"[kK]1", b"foo", b"*o", b"\\*", b"k[1-2]", b"[^k]*", b"*x", b"k\\1", b"fo\\o", b"\\k1", b"k1\\", b"a\\ b", b"\\\\"])]
    elif c == "ping":
        ks = []
        a = [] if rng.random() < 0.5 else [v]
    elif c == "expire":
        a = [k, rng.choice(TTLS)]
        if rng.random() < 0.5:
            a.append(up(rng, rng.choice([b"nx", b"xx", b"gt", b"lt", b"zz"])))
    if c not in ("set",) and rng.random() < 0.03:
        # arity damage
        a = a[:-1] if (a and rng.random() < 0.6) else a + [b"extra"]
    return [up(rng, c.encode())] + a, ks


def render(argv, keys, full=False):
    spec = "*" if full else (",".join(core.hx(k) for k in dict.fromkeys(keys)) or "-")
    return "X %s %s" % (spec, " ".join(core.hx(a) for a in argv))


def programs(rng, nprog, gens, maxlen=40, keys=KEYS):
    """gens: list of (weight, generator(rng, keys) -> (argv, keys))"""
    lines = []
    tot = sum(w for w, _ in gens)
    for _ in range(nprog):
        lines.append("R")
        ks = rng.sample(keys, rng.randint(2, min(5, len(keys))))
        n = rng.randint(1, maxlen)
        for i in range(n):
            x = rng.random() * tot
            for w, g in gens:
                x -= w
                if x <= 0:
                    break
            argv, dk = g(rng, ks)
            lines.append(render(argv, dk, full=(i == n - 1 or rng.random() < 0.1)))
    return lines
