"""Which command families the exec generators cover (grows as family models land)."""
import importlib
import os

from . import execgen


def _opt(modname, attr):
    try:
        return getattr(importlib.import_module("vlib." + modname), attr)
    except Exception:
        return None


def all_gens():
    gens = [(3, execgen.string_cmd)]
    for mod, attr in (("execgen_list", "list_cmd"), ("execgen_hash", "hash_cmd"), ("execgen_set", "set_cmd"),
                      ("execgen_zset", "zset_cmd"), ("execgen_stream", "stream_cmd")):
        g = _opt(mod, attr)
        if g:
            gens.append((2, g))
    return gens


def multikey_cmd(rng, keys):
    k = [rng.choice(keys) for _ in range(4)]
    c = rng.choice(["mset", "mset", "rename", "mget", "del", "exists", "mset"])
    v = rng.choice(execgen.VALS)
    if c == "mset":
        n = rng.randint(1, 3)
        a = []
        for i in range(n):
            a += [k[i], rng.choice(execgen.VALS)]
        return [b"MSET"] + a, k[:n]
    if c == "rename":
        return [b"RENAME", k[0], k[1]], k[:2]
    if c == "mget":
        return [b"MGET"] + k[:3], k[:3]
    if c == "del":
        return [b"DEL"] + k[:3], k[:3]
    return [b"EXISTS"] + k[:3], k[:3]


def multikey_gens():
    gens = [(3, multikey_cmd), (1, execgen.string_cmd)]
    for mod, attr in (("execgen_list", "list_multikey_cmd"), ("execgen_set", "set_multikey_cmd")):
        g = _opt(mod, attr)
        if g:
            gens.append((2, g))
    return gens


def conc_scenarios():
    sc = ["counter", "register", "setnx"]
    if _opt("execgen_list", "list_cmd"):
        sc.append("queue")
    if _opt("execgen_set", "set_cmd"):
        sc.append("set")
    return sc


def conc_env():
    return {"VERIF_CONC_STORE": "1"} if _opt("execgen_set", "set_cmd") else {}


def ttl_extras():
    """(extra_setup, extra_probe) hooks of families that provide TTL scenarios for their value types; (None, None) otherwise"""
    setups, probes = [], []
    for mod in ("execgen_list", "execgen_hash", "execgen_set", "execgen_zset", "execgen_stream"):
        s, p = _opt(mod, "ttl_setup"), _opt(mod, "ttl_probe")
        if s and p:
            setups.append(s)
            probes.append(p)
    if not setups:
        return None, None
    return (lambda rng, k, ttl: rng.choice(setups)(rng, k, ttl)), (lambda rng, k, keys: rng.choice(probes)(rng, k, keys))
