"""Which command families the exec generators cover (grows as family models land)."""
import importlib
import os

from . import execgen


def _opt(modname, attr):
    try:
        return getattr(importlib.import_module("vlib." + modname), attr)
    except Exception:
        return None


def no_long_block(gen):
    """the list generator queues `BLPOP k 0` (or 1, 100 s) right after a push to k; in programs that MIX families another family's
    command (DEL, EXPIRE, SET, a STORE) can remove the list in between and the pop then blocks, by design, until its timeout — for
    timeout 0 for ever, which the harness watchdog would report as HANG.  In mixed programs blocking pops wait at most 50 ms."""
    def g(rng, keys):
        argv, ks = gen(rng, keys)
        if len(argv) >= 3 and argv[0].lower() in (b"blpop", b"brpop"):
            try:
                t = float(argv[-1])
                if t == 0 or t > 0.05:
                    argv = argv[:-1] + [b"0.05"]
            except ValueError:
                pass
        return argv, ks
    return g


def all_gens():
    """every family's command generator; programs mix families over one key alphabet, so every command also meets keys of other types"""
    gens = [(3, execgen.string_cmd)]
    lg = _opt("execgen_list", "ListGen")
    if lg:
        gens.append((2, no_long_block(lg())))
    for mod, attr in (("execgen_hash", "hash_cmd"), ("execgen_set", "set_cmd"), ("execgen_zset", "zset_cmd"), ("execgen_stream", "stream_cmd")):
        g = _opt(mod, attr)
        if g:
            gens.append((2, g))
    return gens


def multikey_cmd(rng, keys):
    k = [rng.choice(keys) for _ in range(4)]
    c = rng.choice(["mset", "mset", "rename", "mget", "del", "exists", "mset", "lmove", "smove", "sstore", "salg", "blpop", "rpush", "sadd",
                    "self", "rpush1", "lpop"])
    if c == "self":
        # the same key in both roles (rotation of a queue, a move onto itself), on whatever the key holds — often one element
        return rng.choice([[b"LMOVE", k[0], k[0], rng.choice([b"LEFT", b"RIGHT"]), rng.choice([b"LEFT", b"RIGHT"])], [b"RENAME", k[0], k[0]],
                           [b"SMOVE", k[0], k[0], rng.choice([b"a", b"b"])], [b"SUNIONSTORE", k[0], k[0]], [b"SDIFFSTORE", k[0], k[0], k[0]],
                           [b"MSET", k[0], b"1", k[0], b"2"], [b"RPOPLPUSH", k[0], k[0]]]), k[:1]
    if c == "rpush1":
        return [rng.choice([b"RPUSH", b"LPUSH"]), k[0], rng.choice([b"only", b""])], k[:1]
    if c == "lpop":
        return [rng.choice([b"LPOP", b"RPOP"]), k[0]], k[:1]
    if c == "lmove":
        return [b"LMOVE", k[0], k[1], rng.choice([b"LEFT", b"RIGHT"]), rng.choice([b"LEFT", b"RIGHT"])], k[:2]
    if c == "smove":
        return [b"SMOVE", k[0], k[1], rng.choice([b"a", b"b", b"c"])], k[:2]
    if c == "sstore":
        return [rng.choice([b"SUNIONSTORE", b"SINTERSTORE", b"SDIFFSTORE"]), k[0], k[1], k[2]], k[:3]
    if c == "salg":
        return [rng.choice([b"SUNION", b"SINTER", b"SDIFF"]), k[0], k[1], k[2]], k[:3]
    if c == "blpop":
        return [rng.choice([b"BLPOP", b"BRPOP"]), k[0], k[1], b"0.05"], k[:2]
    if c == "rpush":
        return [b"RPUSH", k[0], b"x", b"y"], k[:1]
    if c == "sadd":
        return [b"SADD", k[0], b"a", b"b"], k[:1]
    v = rng.choice(execgen.VALS)
    if c == "mset":
        n = rng.randint(1, 3)
        a = []
        for i in range(n):
            a += [k[i], rng.choice(execgen.VALS)]
        return [b"MSET"] + a, k[:n]
    if c == "rename":
        return [b"RENAME", k[0], k[1]], k[:2]
    if c == "mget":
        return [b"MGET"] + k[:3], k[:3]
    if c == "del":
        return [b"DEL"] + k[:3], k[:3]
    return [b"EXISTS"] + k[:3], k[:3]


def multikey_gens():
    return [(3, multikey_cmd), (1, execgen.string_cmd)]


def conc_scenarios():
    sc = ["counter", "register", "setnx", "expiry", "rearm", "bigvalue"]
    if _opt("execgen_list", "ListGen"):
        sc.append("queue")
        sc.append("bqueue")
    if _opt("execgen_set", "set_cmd"):
        sc.append("set")
        sc.append("storeacc")
    sc.append("bigread")
    sc += ["addrem", "keysstable", "streamtrim", "bpoptime", "counters", "bigmulti", "firsttouch"]
    return sc


def conc_env():
    return {"VERIF_CONC_STORE": "1"} if _opt("execgen_set", "set_cmd") else {}


def ttl_extras():
    """(extra_setup, extra_probe) hooks of families that provide TTL scenarios for their value types; (None, None) otherwise"""
    setups, probes = [], []
    for mod in ("execgen_list", "execgen_hash", "execgen_set", "execgen_zset", "execgen_stream"):
        s, p = _opt(mod, "ttl_setup"), _opt(mod, "ttl_probe")
        if s and p:
            setups.append(s)
            probes.append(p)
    if not setups:
        return None, None
    return (lambda rng, k, ttl: rng.choice(setups)(rng, k, ttl)), (lambda rng, k, keys: rng.choice(probes)(rng, k, keys))


# ---------------------------------------------------------------------------------------------------------------------------------------
# "a refused command changes nothing": multi-key / multi-argument commands whose LAST part is what gets them refused
# (a wrong-typed source behind good ones, an invalid score/pair behind valid ones), with the destination among the sources,
# followed by a full dump — a partial update before the error shows in the dump.
_MK = {
    "set": [[b"SADD", b"K", b"a"], [b"SADD", b"K", b"b", b"c"], [b"SADD", b"K", b"a", b"d", b""]],
    "list": [[b"RPUSH", b"K", b"a", b"b"], [b"RPUSH", b"K", b""]],
    "hash": [[b"HSET", b"K", b"f", b"1"]],
    "zset": [[b"ZADD", b"K", b"1", b"a", b"2", b"b"]],
    "str": [[b"SET", b"K", b"v"]],
    "stream": [[b"XADD", b"K", b"1-1", b"f", b"v"]],
}


def refused_changes_nothing(rng, n):
    from . import execgen
    lines = []
    for _ in range(n):
        names = [b"acc", b"s1", b"s2", b"w", b"dst"]
        lines.append("R")
        fam = rng.choice(["set", "set", "set", "list", "zset", "hash"])
        for k in (b"acc", b"s1", b"s2"):
            if rng.random() < 0.85:
                c = rng.choice(_MK[fam])
                lines.append(execgen.render([k if a == b"K" else a for a in c], [k]))
        wt = rng.choice([t for t in _MK if t != fam])
        lines.append(execgen.render([b"w" if a == b"K" else a for a in rng.choice(_MK[wt])], [b"w"]))
        if rng.random() < 0.3:
            lines.append(execgen.render([b"EXPIRE", b"acc", b"1000"], [b"acc"]))
        if fam == "set":
            op = rng.choice([b"SUNIONSTORE", b"SINTERSTORE", b"SDIFFSTORE", b"sunionstore", b"SMOVE", b"SUNION", b"SINTER", b"SDIFF"])
            dst = rng.choice([b"acc", b"acc", b"dst", b"s1"])
            if op == b"SMOVE":
                argv = [op] + rng.choice([[b"s1", b"w", b"a"], [b"w", b"acc", b"a"], [b"acc", b"w", b"zz"]])
            else:
                srcs = rng.sample([b"acc", b"s1", b"s2"], rng.randint(1, 3))
                if rng.random() < 0.7 and dst not in srcs:
                    srcs.insert(rng.randint(0, len(srcs)), dst)
                pos = rng.choice([len(srcs), len(srcs), rng.randint(0, len(srcs))])
                srcs.insert(pos, b"w")
                argv = ([op, dst] if op.upper().endswith(b"STORE") else [op]) + srcs
        elif fam == "list":
            argv = rng.choice([[b"LMOVE", b"acc", b"w", b"LEFT", b"RIGHT"], [b"LMOVE", b"w", b"acc", b"LEFT", b"LEFT"], [b"RPOPLPUSH", b"acc", b"w"],
                               [b"LMOVE", b"acc", b"s1", b"LEFT", b"MIDDLE"], [b"BLPOP", b"w", b"acc", b"0.01"], [b"LSET", b"acc", b"5", b"x"]])
        elif fam == "zset":
            argv = rng.choice([[b"ZADD", b"acc", b"5", b"n1", b"notanumber", b"n2"], [b"ZADD", b"acc", b"5", b"n1", b"6"],
                               [b"ZADD", b"acc", b"NX", b"XX", b"5", b"n1"], [b"ZADD", b"acc", b"INCR", b"5", b"n1", b"6", b"n2"],
                               [b"ZADD", b"acc", b"5", b"n1", b"nan", b"n2"], [b"ZADD", b"w", b"5", b"n1"]])
        else:
            argv = rng.choice([[b"HSET", b"acc", b"g", b"1", b"h"], [b"HINCRBY", b"acc", b"f", b"9223372036854775807"], [b"HINCRBYFLOAT", b"acc", b"f", b"x"],
                               [b"HSET", b"w", b"g", b"1"], [b"HINCRBY", b"acc", b"g", b"1.5"], [b"HSETNX", b"w", b"g", b"1"]])
        lines.append(execgen.render(argv, names, full=True))
        if rng.random() < 0.5:
            lines.append(execgen.render([b"TTL", b"acc"], names, full=True))
    return lines


# ---------------------------------------------------------------------------------------------------------------------------------------
# read - change - read again: whatever a reading command computes or caches must not outlive a change made through another command
class Reread:
    def __init__(self, gen, spec):
        """spec: {lower-case reading command: (changes(rng, k) -> [argv...], rereads(k) -> [argv...])}"""
        self.gen, self.spec, self.plan, self.owner = gen, spec, [], None

    def __call__(self, rng, keys):
        if self.plan and self.owner is keys:
            return self.plan.pop(0)
        self.plan = []
        argv, ks = self.gen(rng, keys)
        name = argv[0].lower() if argv else b""
        if name in self.spec and len(argv) >= 2 and rng.random() < 0.5:
            k = argv[1]
            changes, rereads = self.spec[name]
            self.plan = [(rng.choice(changes(rng, k)), [k])] + [(a, [k]) for a in rereads(k)]
            self.owner = keys
        return argv, ks


def hash_reread(gen):
    from . import execgen_hash as h
    ch = lambda rng, k: [[b"HDEL", k, rng.choice(h.FIELDS)], [b"HSET", k, rng.choice(h.FIELDS), rng.choice(h.VALS)], [b"HINCRBY", k, rng.choice(h.FIELDS), b"1"],
                         [b"HSETNX", k, rng.choice(h.FIELDS), b"z"], [b"HDEL", k] + list(h.FIELDS[:4])]
    # the random selection is re-read too: with a count of 1000 every field must come back, once (a sampling structure kept beside the table must
    # follow every change: seeded change C10-hrandfield-shuffle-stale-pos)
    rr = lambda k: [[b"HGETALL", k], [b"HLEN", k], [b"HRANDFIELD", k, b"1000"], [b"HRANDFIELD", k, b"1000", b"WITHVALUES"], [b"HRANDFIELD", k, b"-20"]]
    return Reread(gen, {n: (ch, rr) for n in (b"hgetall", b"hkeys", b"hvals", b"hlen", b"hrandfield", b"hget", b"hexists")})


def list_reread(gen):
    ch = lambda rng, k: [[b"LPOP", k], [b"RPOP", k], [b"LSET", k, b"0", b"changed"], [b"LREM", k, b"0", b"a"], [b"LTRIM", k, b"1", b"-1"],
                         [b"RPUSH", k, b"new"], [b"LMOVE", k, k, b"LEFT", b"RIGHT"]]
    rr = lambda k: [[b"LRANGE", k, b"0", b"-1"], [b"LLEN", k]]
    return Reread(gen, {n: (ch, rr) for n in (b"lrange", b"llen", b"lindex", b"lpos")})


def zset_reread(gen):
    ch = lambda rng, k: [[b"ZADD", k, rng.choice([b"1", b"5", b"-2", b"1.5"]), rng.choice([b"a", b"b", b"c", b"zz"])], [b"ZREM", k, rng.choice([b"a", b"b", b"c"])],
                         [b"ZADD", k, b"INCR", b"3", rng.choice([b"a", b"b"])]]
    rr = lambda k: [[b"ZRANGE", k, b"0", b"-1", b"WITHSCORES"], [b"ZRANK", k, b"a"]]
    return Reread(gen, {n: (ch, rr) for n in (b"zrange", b"zrank")})


# --- int64 boundary grid (added after the seeded change C10-hincrby-minint-sum: an overflow test that is wrong for exactly one pair of operands) -------------
_EDGE = [b"-9223372036854775808", b"-9223372036854775807", b"-4611686018427387904", b"-2", b"-1", b"0", b"1", b"2",
         b"4611686018427387904", b"9223372036854775806", b"9223372036854775807"]


def arith_grid(family):
    """every pair (stored value, operand) of the int64 edge values through the counter commands of one family, each in a fresh keyspace with a full dump after it:
    the result is the exact sum or the command is refused and the stored value is untouched"""
    from . import execgen
    lines = []
    for a in _EDGE:
        for b in _EDGE:
            if family == "string":
                for op in (b"INCRBY", b"DECRBY"):
                    lines += ["R", execgen.render([b"SET", b"c", a], [b"c"]), execgen.render([op, b"c", b], [b"c"], full=True)]
            else:
                lines += ["R", execgen.render([b"HSET", b"h", b"n", a], [b"h"]), execgen.render([b"HINCRBY", b"h", b"n", b], [b"h"], full=True),
                          execgen.render([b"HGET", b"h", b"n"], [b"h"])]
        if family == "string":
            for op in (b"INCR", b"DECR"):
                lines += ["R", execgen.render([b"SET", b"c", a], [b"c"]), execgen.render([op, b"c"], [b"c"], full=True)]
    return lines


def large_container_programs(rng, n, family):
    """containers of 33-120 DISTINCT members (the family generators keep them small): a stateful mix of positional / ranked reads, removals and
    re-insertions.  zset: ZRANK and ZRANGE windows (index, REV, WITHSCORES) between ZREM and ZADD (new member, score update moving a member across the
    set, ties); hash: HGET / HMGET / HSTRLEN / HEXISTS / HLEN between HDEL, HSET, HSETNX, HINCRBY crossing digit boundaries; set: SISMEMBER / SCARD /
    SINTER / SDIFF with a second large set between SREM, SADD, SMOVE; stream: XRANGE windows (inclusive, exclusive, COUNT) between XADD with MAXLEN."""
    from . import execgen
    lines = []
    X = lambda a, ks, full=False: execgen.render([x if isinstance(x, bytes) else str(x).encode() for x in a], ks, full)
    for _ in range(n):
        ln = rng.randint(33, 120)
        k, k2 = b"big", b"big2"
        lines.append("R")
        if family == "zset":
            members = [b"m%03d" % i for i in range(ln)]
            a = [b"ZADD", k]
            for i, m in enumerate(members):
                a += [b"%d" % (i * 10 if rng.random() < 0.9 else (i - 1) * 10), m]
            lines.append(X(a, [k]))
            for _ in range(rng.randint(10, 24)):
                c = rng.choice(["rank", "rank", "range", "range", "rev", "rem", "rem", "add", "move", "move", "tie"])
                m = rng.choice(members)
                i = rng.choice([0, 1, ln // 2, ln - 2, ln - 1, ln, 31, 32, 33, 63, 64, 65])
                if c == "rank":
                    a = [b"ZRANK", k, m]
                elif c == "range":
                    a = [b"ZRANGE", k, i - 2, i + 2] + ([b"WITHSCORES"] if rng.random() < 0.5 else [])
                elif c == "rev":
                    a = [b"ZRANGE", k, rng.choice([0, 1, 5]), rng.choice([3, 9, -1, -3]), b"REV"]
                elif c == "rem":
                    a = [b"ZREM", k, m] + ([rng.choice(members)] if rng.random() < 0.3 else [])
                elif c == "add":
                    a = [b"ZADD", k, rng.randint(-5, ln * 10 + 5), b"n%d" % rng.randint(0, 40)]
                elif c == "move":
                    a = [b"ZADD", k, rng.choice([-1, ln * 5, ln * 10 + 1, rng.randint(0, ln * 10)]), m]
                else:
                    a = [b"ZADD", k, 50, rng.choice(members), 50, rng.choice(members)]
                lines.append(X(a, [k]))
            lines.append(X([b"ZRANGE", k, 0, -1, b"WITHSCORES"], [k], full=True))
        elif family == "hash":
            a = [b"HSET", k]
            for i in range(ln):
                a += [b"f%03d" % i, b"%d" % rng.choice([9, 99, 999, -1, -10, 0, i])]
            lines.append(X(a, [k]))
            for _ in range(rng.randint(10, 24)):
                f = b"f%03d" % rng.randint(0, ln + 2)
                c = rng.choice(["get", "mget", "strlen", "exists", "len", "del", "del", "set", "setnx", "incr", "incr", "incr"])
                a = {"get": [b"HGET", k, f], "mget": [b"HMGET", k, f, b"f%03d" % rng.randint(0, ln), b"nosuch"], "strlen": [b"HSTRLEN", k, f], "exists": [b"HEXISTS", k, f],
                     "len": [b"HLEN", k], "del": [b"HDEL", k, f, b"f%03d" % rng.randint(0, ln)], "set": [b"HSET", k, f, b"v", b"new%d" % rng.randint(0, 9), b"w"],
                     "setnx": [b"HSETNX", k, f, b"nx"], "incr": [b"HINCRBY", k, f, rng.choice([1, -1, 1, 10, -10, 91, -1000])]}[c]
                lines.append(X(a, [k]))
            lines.append(X([b"HLEN", k], [k], full=True))
        elif family == "set":
            lines.append(X([b"SADD", k] + [b"m%03d" % i for i in range(ln)], [k]))
            lines.append(X([b"SADD", k2] + [b"m%03d" % i for i in range(ln // 2, ln + 20)], [k2]))
            for _ in range(rng.randint(10, 24)):
                m = b"m%03d" % rng.randint(0, ln + 25)
                c = rng.choice(["is", "is", "card", "inter", "diff", "rem", "rem", "add", "move", "istore", "ustore"])
                a = {"is": [b"SISMEMBER", rng.choice([k, k2]), m], "card": [b"SCARD", rng.choice([k, k2])], "inter": [b"SINTER", k, k2], "diff": [b"SDIFF", k2, k],
                     "rem": [b"SREM", k, m, b"m%03d" % rng.randint(0, ln)], "add": [b"SADD", rng.choice([k, k2]), m], "move": [b"SMOVE", k, k2, m],
                     "istore": [b"SINTERSTORE", b"dst", k, k2], "ustore": [b"SUNIONSTORE", k, k, k2]}[c]
                lines.append(X(a, [k, k2, b"dst"]))
            lines.append(X([b"SCARD", k], [k, k2, b"dst"], full=True))
        else:  # stream
            for i in range(ln):
                lines.append(X([b"XADD", k, b"%d-%d" % (i // 3 + 1, i % 3), b"f", b"v%d" % i], [k]))
            nxt = ln // 3 + 2
            for _ in range(rng.randint(8, 16)):
                c = rng.choice(["range", "range", "excl", "count", "add", "trim", "rev"])
                lo, hi = rng.randint(0, nxt), rng.randint(0, nxt + 1)
                if c == "range":
                    a = [b"XRANGE", k, b"%d" % lo, b"%d-%d" % (hi, rng.randint(0, 2))]
                elif c == "excl":
                    a = [b"XRANGE", k, b"(%d-1" % lo, b"+"] + ([b"COUNT", b"4"] if rng.random() < 0.5 else [])
                elif c == "count":
                    a = [b"XRANGE", k, b"-", b"+", b"COUNT", b"%d" % rng.choice([1, 2, 40, 200])]
                elif c == "rev":
                    a = [b"XRANGE", k, b"%d" % hi, b"%d" % lo]
                elif c == "add":
                    a = [b"XADD", k, b"%d-0" % nxt, b"g", b"h"]
                    nxt += 1
                else:
                    a = [b"XADD", k, b"MAXLEN", b"%d" % rng.choice([ln, ln - 5, 40, 33, 10]), b"%d-0" % nxt, b"t", b"u"]
                    nxt += 1
                lines.append(X(a, [k]))
            lines.append(X([b"XRANGE", k, b"-", b"+"], [k], full=True))
    return lines


# ---------------------------------------------------------------------------------------------------------------------------------------
# "a reply held across a write" (engine alias, harness/alias.go; source fact F7): the reply OBJECT of every reading command of the family is kept
# unencoded while every writing command of the family runs on the same key (strings: also on a neighbour created the same way), then encoded -
# it must read as it did when taken.  Sequential and deterministic; quick tier of C01, C09, C10, C11, C12, C18.
def alias_probe(R, ctx, family, also=()):
    from . import aliassuite
    rule = R.rule
    bad = aliassuite.run_alias(R, ctx, [family] + [f for f in also if f != family])
    _drop_generic_f7(R, ctx, bool(bad))
    R.rule = (rule or "") + (" Engine alias: the reply object of every reading command of the family is kept unencoded across every writing command on the "
                             "same key, then encoded - it must equal the encoding taken at once (no stored byte slice is rewritten in place, fact F7).")
    return bad


def _drop_generic_f7(R, ctx, found):
    """the suites' generic `proof-broken ... no-failing-input-found` entry is replaced when everything that broke is Props/C01Alias (fact F7) and
    either an input was found (it is reported with its scenario) or the specific f7-alias-sites entry names the site (as c03.py / c04.py do for F6 / F3)"""
    br = getattr(ctx, "broken", None) or []
    if found and br and all(t.startswith("AliasSites.") for t, _ in br):
        R.violations = [v for v in R.violations if not v[0].endswith("/proof-broken.json")]


def alias_aim(R, ctx, own=None, counters=True):
    """fact F7 is broken (a new in-place write to a possibly stored slice, or a non-owned slice handed to the keyspace): aim the input search at the
    executor family of the file that holds the new site - the alias probes of that family (all families when the file belongs to none), and the
    concurrent scenario `counters` (values oscillating across digit boundaries while other clients list them).  If nothing is found the check ends
    with `VIOLATION ... no-failing-input-found` naming the site and the theorem."""
    broken = getattr(R, "alias_broken", None)
    if not broken:
        return
    from . import aliassuite, concsuite
    fams = [f for f in aliassuite.families_of_sites(broken.get("new", [])) if f != own]
    R.extra["f7_directed"] = dict(families=fams, sites=["%s %s: %s" % (b["file"], b["func"], b["text"]) for b in broken.get("new", [])][:12])
    if fams:
        _drop_generic_f7(R, ctx, bool(aliassuite.run_alias(R, ctx, fams, label="aimed-" + "+".join(fams))))
    if counters and not any(found for _p, _s, found in R.violations):
        concsuite.run_conc(R, ctx, "f7-counters", ["counters"], (2, 8), race=False)
    if not any(found for _p, _s, found in R.violations):
        msgs = [m for f, ms in getattr(R, "facts_broken", []) if f == "F7" for m in ms]
        _drop_generic_f7(R, ctx, True)
        R.violation("f7-alias-sites", dict(kind="proof-broken", broken=msgs, theorems=["AliasSites.no_inplace_write_to_stored", "AliasSites.inventory",
                                                                                         "AliasSites.installed_values_own_their_bytes", "AliasSites.install_inventory"],
                                           summary="obligation of Props/C01Alias (stored byte slices are never rewritten in place) no longer holds for the regenerated source facts: " +
                                                   "; ".join(msgs)[:700] + " - no reply changed in the alias probes (families: %s) nor in the counters scenario" % (",".join([own] if own else []) + ",".join(fams))),
                    found_input=False)


def alias_replay(R, payload):
    from . import aliassuite
    return aliassuite.replay_alias(R, payload)
