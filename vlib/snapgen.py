"""C08 — keyspace snapshot correspondence: MemDb.GetSnapshot bytes = Snap.encode, MemDb.LoadSnapshot = Snap.decode.

Exec-engine line kinds (harness/exec.go, lean/RedisGoModel/Driver/Exec.lean):
  G          the harness prints the hex of GetSnapshot() of the current keyspace; the driver compares it byte for byte with Snap.encode
             of its model keyspace
  L          snapshot, LoadSnapshot into a FRESH MemDb that replaces the current database, full dump; the driver replaces its keyspace
             by Snap.decode (Snap.encode db) and compares the dump (sorted sets: the shape of the rebuilt AVL tree included)
  LB <hex>   LoadSnapshot of arbitrary bytes into the current database; if the strict model decoder accepts, the implementation must
             accept with the same keyspace; both refuse: keyspace unchanged; only Go accepts: counted as lenient

Phase 1: programs of every command family (families.all_gens) after a prologue that fills a larger key alphabet with all six value
types (binary and empty keys/values/members, +-inf scores, score ties, deadlines far, near and already reached), with G / L in the
middle and at the end.  Phase 2: snapshots observed in phase 1, mutated (byte flips, truncation, duplicated/reordered/dropped
records, wrong version/format/type, NaN and -0 scores, repeated members, non-increasing streams, numbers out of range or not canonical,
null, white space, reordered members) and hand-written documents, each as `LB` after a small prologue and followed by commands + G."""
import collections
import json
import random

from . import core, execgen, execsuite, families

KEYS = [b"", b"a", b"b", b"ab", b"a\x00", b"a\xff", b"B", b"k1", b"k2", b"k10", b"K1", b"\xff\x00", b"\x00", b"k\r\n", b"a b", b"zz", b"z",
        b"foo", b"Foo", b"\xc3\xa9", b"~", b"/", b"+", b"k" * 70]
VALS = [b"", b"a", b"b", b"ab", b"abc", b"abcd", b"\x00", b"\xff", b"\xff\xfe\xfd", b"\xfb\xef\xbe", b"hello world", b"\r\n", b"0", b"-1",
        b"x" * 57, b"y" * 58, b"z" * 300, b"\"", b"\\", b"<&>", b"\xe2\x80\xa8", b"null", b"AA==", bytes(range(256))]
SCORES = [b"0", b"-0", b"1", b"-1", b"1.5", b"2", b"2", b"inf", b"-inf", b"+inf", b"1e300", b"-1e300", b"5e-324", b"1.7976931348623157e308",
          b"0.1", b"3", b"4", b"5", b"6", b"7", b"8", b"9"]
TTLS = [b"1000", b"100000", b"1", b"2", b"4102444800", b"9223372036854775807", b"-1", b"0"]


def populate_cmd(rng, keys):
    k = rng.choice(keys)
    t = rng.choice(["str", "str", "list", "set", "hash", "zset", "zset", "stream", "expire", "setex"])
    if t == "str":
        return [b"SET", k, rng.choice(VALS)], [k]
    if t == "setex":
        return [b"SET", k, rng.choice(VALS), b"EX", rng.choice([b"1000", b"1", b"2", b"50000"])], [k]
    if t == "list":
        return [rng.choice([b"RPUSH", b"LPUSH"]), k] + [rng.choice(VALS) for _ in range(rng.randint(1, 6))], [k]
    if t == "set":
        return [b"SADD", k] + [rng.choice(VALS) for _ in range(rng.randint(1, 8))], [k]
    if t == "hash":
        a = []
        for _ in range(rng.randint(1, 6)):
            a += [rng.choice(VALS), rng.choice(VALS)]
        return [b"HSET", k] + a, [k]
    if t == "zset":
        a = []
        for _ in range(rng.randint(1, 9)):
            a += [rng.choice(SCORES), rng.choice(VALS)]
        return [b"ZADD", k] + a, [k]
    if t == "stream":
        a = []
        for _ in range(rng.randint(0, 3)):
            a += [rng.choice(VALS), rng.choice(VALS)]
        ident = rng.choice([b"*", b"1-1", b"2-0", b"5-5", b"18446744073709551615-18446744073709551615", b"7-*", b"1000-0", b"0-1"])
        return [b"XADD", k, ident, rng.choice(VALS), rng.choice(VALS)] + a, [k]
    return [b"EXPIRE", k, rng.choice(TTLS)], [k]


def pick(rng, gens):
    tot = sum(w for w, _ in gens)
    x = rng.random() * tot
    for w, g in gens:
        x -= w
        if x <= 0:
            return g
    return gens[-1][1]


def program(rng, gens, maxlen):
    """R, prologue, G/L, family commands, G [, L, commands, G]"""
    lines = ["R"]
    if rng.random() < 0.05:
        lines.append("G")                        # the empty keyspace
    pk = rng.sample(KEYS, rng.randint(1, 10))
    for _ in range(rng.randint(0, 12)):
        argv, dk = populate_cmd(rng, pk)
        lines.append(execgen.render(argv, dk))
    ks = rng.sample(execgen.KEYS, rng.randint(2, 5)) + rng.sample(pk, min(2, len(pk)))
    for _ in range(rng.randint(0, maxlen)):
        argv, dk = pick(rng, gens)(rng, ks)
        lines.append(execgen.render(argv, dk, full=rng.random() < 0.1))
    lines.append(rng.choice(["G", "L", "L"]))
    for rnd in range(rng.randint(1, 2)):
        for _ in range(rng.randint(1, 8)):
            g = populate_cmd if rng.random() < 0.3 else pick(rng, gens)
            argv, dk = g(rng, ks if g is not populate_cmd else pk)
            lines.append(execgen.render(argv, dk, full=rng.random() < 0.15))
        lines.append(rng.choice(["G", "G", "L"]))
    if lines[-1] == "L":
        lines.append("G")
    return lines


# ------------------------------------------------------------------------------------------------ mutated snapshots (LB)

def dumps(doc):
    return json.dumps(doc, separators=(",", ":")).encode()


NAN_BITS = [0x7ff8000000000000, 0x7ff0000000000001, 0xfff8000000000000, 0x7fffffffffffffff, 0xffffffffffffffff, 0xfff0000000000001]


def structural(rng, snap):
    """one structural mutation of a snapshot document (re-serialised compactly in Go's member order); None if it does not apply"""
    try:
        doc = json.loads(snap)
    except Exception:
        return None
    keys = doc.get("keys") or []
    kinds = ["version", "format", "nullkeys", "swapformat"]
    if keys:
        kinds += ["dupkey", "dupkey", "swap", "drop", "badtype", "notype", "typemix", "deadline", "deadline", "nullstr", "emptycont", "extra"]
    zs = [k for k in keys if k.get("zset")]
    if zs:
        kinds += ["nan", "nan", "negzero", "dupmember", "dupmember", "bigscore", "scoreform"]
    xs = [k for k in keys if k.get("stream", {}).get("entries")]
    if xs:
        kinds += ["xswap", "xlast", "xdup", "xbig"]
    ss = [k for k in keys if k.get("set") or k.get("hash") or k.get("list")]
    if ss:
        kinds += ["dupelem", "nullelem", "unsorted"]
    kind = rng.choice(kinds)
    if kind == "version":
        doc["version"] = rng.choice([0, 2, -1, 1.0, "1", None])
    elif kind == "format":
        doc["format"] = rng.choice(["", "redisgo-memdb-snapshot ", "Redisgo-memdb-snapshot", "rdb", None])
    elif kind == "nullkeys":
        doc["keys"] = None
    elif kind == "swapformat":
        doc = {"version": doc.get("version"), "format": doc.get("format"), "keys": doc.get("keys")}
    elif kind == "dupkey":
        i = rng.randrange(len(keys))
        keys.insert(rng.randrange(len(keys) + 1), json.loads(json.dumps(keys[i])))
    elif kind == "swap" and len(keys) > 1:
        i, j = rng.sample(range(len(keys)), 2)
        keys[i], keys[j] = keys[j], keys[i]
    elif kind == "drop":
        del keys[rng.randrange(len(keys))]
    elif kind == "badtype":
        rng.choice(keys)["type"] = rng.choice(["", "String", "strin", "none", "zset ", "lists"])
    elif kind == "notype":
        rng.choice(keys).pop("type", None)
    elif kind == "typemix":
        rng.choice(keys)["type"] = rng.choice(["string", "list", "set", "hash", "zset", "stream"])
    elif kind == "deadline":
        rng.choice(keys)["deadline"] = rng.choice([0, -1, 1, 4102444800, 9223372036854775807, -9223372036854775808, 9223372036854775808,
                                                   -9223372036854775809, 1.5, "5", None])
    elif kind == "nullstr":
        k = rng.choice(keys)
        k[rng.choice(["str", "list", "set", "hash", "zset", "key"])] = None
    elif kind == "emptycont":
        k = rng.choice(keys)
        k[rng.choice(["str", "list", "set", "hash", "zset"])] = rng.choice([[], ""])
    elif kind == "extra":
        rng.choice(keys)["comment"] = "x"
    elif kind == "nan":
        rng.choice(rng.choice(zs)["zset"])["score_bits"] = rng.choice(NAN_BITS)
    elif kind == "negzero":
        rng.choice(rng.choice(zs)["zset"])["score_bits"] = 0x8000000000000000
    elif kind == "dupmember":
        z = rng.choice(zs)["zset"]
        m = dict(rng.choice(z))
        if rng.random() < 0.7:
            m["score_bits"] = rng.choice([0, 4607182418800017408, 4611686018427387904, 9218868437227405312])
        z.insert(rng.randrange(len(z) + 1), m)
    elif kind == "bigscore":
        rng.choice(rng.choice(zs)["zset"])["score_bits"] = rng.choice([18446744073709551615, 18446744073709551616, -1])
    elif kind == "scoreform":
        rng.choice(rng.choice(zs)["zset"])["score_bits"] = rng.choice([1.0, 1e3, "1", None])
    elif kind == "xswap":
        es = rng.choice(xs)["stream"]["entries"]
        if len(es) > 1:
            i = rng.randrange(len(es) - 1)
            es[i], es[i + 1] = es[i + 1], es[i]
        else:
            es.append(dict(es[0]))
    elif kind == "xdup":
        es = rng.choice(xs)["stream"]["entries"]
        es.insert(rng.randrange(len(es) + 1), dict(rng.choice(es)))
    elif kind == "xlast":
        s = rng.choice(xs)["stream"]
        e = s["entries"][-1]
        if rng.random() < 0.5 and e["seq"] > 0:
            s["last_ms"], s["last_seq"] = e["ms"], e["seq"] - 1
        elif e["ms"] > 0:
            s["last_ms"], s["last_seq"] = e["ms"] - 1, 18446744073709551615
        else:
            s["last_ms"], s["last_seq"] = 0, 0
    elif kind == "xbig":
        s = rng.choice(xs)["stream"]
        s[rng.choice(["last_ms", "last_seq"])] = rng.choice([18446744073709551615, 18446744073709551616, -1])
    elif kind in ("dupelem", "nullelem", "unsorted"):
        k = rng.choice(ss)
        arr = k.get("set") or k.get("hash") or k.get("list")
        if kind == "dupelem":
            e = rng.choice(arr)
            e = dict(e, value="QQ==") if isinstance(e, dict) and rng.random() < 0.7 else (dict(e) if isinstance(e, dict) else e)
            arr.insert(rng.randrange(len(arr) + 1), e)
        elif kind == "nullelem":
            i = rng.randrange(len(arr))
            if isinstance(arr[i], dict):
                arr[i][rng.choice(["field", "value"])] = None
            else:
                arr[i] = None
        else:
            arr.reverse()
    else:
        return None
    return kind, dumps(doc)


def textual(rng, snap):
    kind = rng.choice(["flip", "flip", "flipbit", "trunc", "trunc", "ws", "b64", "numform", "append", "delbyte"])
    b = bytearray(snap)
    if not b:
        return kind, bytes(b)
    if kind == "flip":
        b[rng.randrange(len(b))] = rng.choice(b"\"{}[],:0123456789-=+/AZaz \\nu.e")
    elif kind == "flipbit":
        b[rng.randrange(len(b))] ^= 1 << rng.randrange(8)
    elif kind == "trunc":
        del b[rng.randrange(len(b)):]
    elif kind == "delbyte":
        del b[rng.randrange(len(b))]
    elif kind == "ws":
        pos = [i for i, c in enumerate(b) if c in b",:[]{}"]
        i = rng.choice(pos)
        b[i:i] = rng.choice([b" ", b"\n", b"\t", b"\r\n"])
    elif kind == "b64":
        pos = [i for i, c in enumerate(b) if c == ord("=")]
        if pos:
            i = rng.choice(pos)
            if rng.random() < 0.5:
                del b[i]                                   # missing padding
            else:
                b[i] = rng.choice(b"AB=")                    # padding replaced / non-canonical trailing bits
        else:
            b[rng.randrange(len(b))] = ord("=")
    elif kind == "numform":
        pos = [i for i in range(1, len(b)) if b[i - 1] == ord(":") and chr(b[i]).isdigit()]
        if pos:
            i = rng.choice(pos)
            b[i:i] = rng.choice([b"0", b"-", b"+", b"00", b"1e", b"0."])
    elif kind == "append":
        b += rng.choice([b" ", b"\n", b"}", b"{}", b"x", b"\x00"])
    return kind, bytes(b)


def b64(b):
    import base64
    return base64.b64encode(b).decode()


def handwritten():
    H = '{"format":"redisgo-memdb-snapshot","version":1,"keys":%s}'
    k = lambda name, typ, rest="": '{"key":"%s","type":"%s"%s}' % (b64(name), typ, rest)
    docs = [
        b"", b"{}", b"null", b"[]", b"{", H % "[]", H % "null", (H % "[]") + " ", " " + (H % "[]"), '{"format":"redisgo-memdb-snapshot","version":1}',
        '{"version":1,"format":"redisgo-memdb-snapshot","keys":[]}', '{"format":"redisgo-memdb-snapshot","version":2,"keys":[]}',
        '{"Format":"redisgo-memdb-snapshot","VERSION":1,"KEYS":[]}',
        H % ("[" + k(b"a", "string") + "]"), H % ("[" + k(b"a", "string", ',"str":""') + "]"), H % ("[" + k(b"a", "string", ',"str":null') + "]"),
        H % ("[" + k(b"a", "string", ',"str":"YQ"') + "]"), H % ("[" + k(b"a", "string", ',"str":"YR=="') + "]"),
        H % ("[" + k(b"a", "string", ',"str":"YQ==","str":"Yg=="') + "]"), H % ("[" + k(b"a", "string", ',"str":"\\u0059Q=="') + "]"),
        H % ("[" + k(b"a", "string", ',"str":"Y\\nQ=="') + "]"),
        H % ("[" + k(b"a", "list") + "]"), H % ("[" + k(b"a", "set") + "]"), H % ("[" + k(b"a", "hash") + "]"), H % ("[" + k(b"a", "zset") + "]"),
        H % ("[" + k(b"a", "stream") + "]"), H % ("[" + k(b"a", "stream", ',"stream":null') + "]"),
        H % ("[" + k(b"a", "stream", ',"stream":{"last_ms":0,"last_seq":0}') + "]"),
        H % ("[" + k(b"a", "stream", ',"stream":{"last_ms":3,"last_seq":4,"entries":[]}') + "]"),
        H % ("[" + k(b"a", "stream", ',"stream":{"last_ms":3,"last_seq":4,"entries":[{"ms":3,"seq":4,"fields":[]}]}') + "]"),
        H % ("[" + k(b"a", "stream", ',"stream":{"last_ms":3,"last_seq":4,"entries":[{"ms":3,"seq":4,"fields":null}]}') + "]"),
        H % ("[" + k(b"a", "stream", ',"stream":{"last_ms":3,"last_seq":4,"entries":[{"ms":3,"seq":4}]}') + "]"),
        H % ("[" + k(b"a", "stream", ',"stream":{"last_ms":3,"last_seq":3,"entries":[{"ms":3,"seq":4,"fields":["YQ==","Yg=="]}]}') + "]"),
        H % ("[" + k(b"a", "stream", ',"stream":{"last_ms":0,"last_seq":0,"entries":[{"ms":0,"seq":0,"fields":["YQ==","Yg=="]}]}') + "]"),
        H % ("[" + k(b"a", "list", ',"list":[]') + "]"), H % ("[" + k(b"a", "list", ',"list":[null,"",null]') + "]"),
        H % ("[" + k(b"a", "list", ',"list":["YQ==","YQ=="]') + "]"), H % ("[" + k(b"a", "set", ',"set":["YQ==","YQ==",""]') + "]"),
        H % ("[" + k(b"a", "set", ',"set":["Yg==","YQ=="]') + "]"), H % ("[" + k(b"a", "list", ',"set":["Yg=="]') + "]"),
        H % ("[" + k(b"a", "hash", ',"hash":[{"field":"Zg==","value":"MQ=="},{"field":"Zg==","value":"Mg=="},{"field":"","value":null}]') + "]"),
        H % ("[" + k(b"a", "hash", ',"hash":[{"value":"MQ==","field":"Zg=="}]') + "]"), H % ("[" + k(b"a", "hash", ',"hash":[{}]') + "]"),
        H % ("[" + k(b"a", "zset", ',"zset":[{"member":"YQ==","score_bits":0},{"member":"YQ==","score_bits":4607182418800017408}]') + "]"),
        H % ("[" + k(b"a", "zset", ',"zset":[{"member":"YQ==","score_bits":4607182418800017408},{"member":"YQ==","score_bits":4607182418800017408}]') + "]"),
        H % ("[" + k(b"a", "zset", ',"zset":[{"member":"YQ==","score_bits":9221120237041090560}]') + "]"),
        H % ("[" + k(b"a", "zset", ',"zset":[{"member":"YQ==","score_bits":9223372036854775808}]') + "]"),
        H % ("[" + k(b"a", "zset", ',"zset":[{"member":"YQ==","score_bits":9218868437227405312},{"member":"Yg==","score_bits":18442240474082181120}]') + "]"),
        H % ("[" + k(b"a", "zset", ',"zset":[{"member":"Yg==","score_bits":1},{"member":"YQ==","score_bits":2},{"member":"Yw==","score_bits":3},{"member":"ZA==","score_bits":3}]') + "]"),
        H % ("[" + k(b"a", "zset", ',"zset":[{"member":"YQ==","score_bits":01}]') + "]"), H % ("[" + k(b"a", "zset", ',"zset":[{"member":"YQ=="}]') + "]"),
        H % ("[" + k(b"a", "string", ',"deadline":-0,"str":"YQ=="') + "]"), H % ("[" + k(b"a", "string", ',"deadline":0') + "]"),
        H % ("[" + k(b"a", "string", ',"deadline":-5,"str":"YQ=="') + "]"), H % ("[" + k(b"a", "string", ',"deadline":007') + "]"),
        H % ("[" + k(b"a", "string", ',"deadline":4102444800,"str":"YQ=="') + "," + k(b"b", "list", ',"deadline":4102444801,"list":["eA=="]') + "]"),
        H % ("[" + k(b"a", "string", ',"str":"YQ==","deadline":4102444800') + "]"),
        H % ("[" + k(b"b", "string") + "," + k(b"a", "string") + "]"), H % ("[" + k(b"a", "string") + "," + k(b"a", "list") + "]"),
        H % ("[" + k(b"", "string") + "," + k(b"", "string") + "]"), H % ('[{"type":"string"}]'), H % ('[{"key":null,"type":"string"}]'),
        H % ('[{"type":"string"},{"key":"","type":"list"}]'), H % ('[{"key":"YQ=="}]'), H % ('[{"key":"YQ==","type":"none"}]'), H % "[null]", H % "[{}]",
        H % ("[" + k(b"a", "string") + ",]"), H % ("[" + k(b"a", "string") + "]]"),
    ]
    return [d if isinstance(d, bytes) else d.encode() for d in docs]


def lb_program(rng, gens, kind, data):
    lines = ["R"]
    pk = rng.sample(KEYS, rng.randint(1, 4))
    for _ in range(rng.randint(0, 3)):
        argv, dk = populate_cmd(rng, pk)
        lines.append(execgen.render(argv, dk))
    lines.append("LB " + core.hx(data))
    for _ in range(rng.randint(0, 3)):
        g = populate_cmd if rng.random() < 0.5 else pick(rng, gens)
        argv, dk = g(rng, pk)
        lines.append(execgen.render(argv, dk, full=True))
    lines.append("G")
    return lines


def obs_fields(l):
    """(tag, fields after =>) of an observed line"""
    a, _, b = l.partition(" => ")
    return a.split()[0] if a.split() else "", b.split()


def snapshot_of(l):
    tag, f = obs_fields(l)
    if tag in ("G", "L") and len(f) >= 3 and f[2] not in ("PANIC", "ERR"):
        try:
            return core.unhx(f[2])
        except Exception:
            return None
    return None


def run_snapshot_suite(R, ctx, binary, nprog=(400, 2500), nlb=(1500, 12000), maxlen=25):
    rng = random.Random(R.seed * 7919 + 808)
    gens = [(w, families.no_long_block(g)) for w, g in families.all_gens()]
    quick = R.tier == "quick"
    n1, n2 = (nprog[0], nlb[0]) if quick else (nprog[1], nlb[1])
    lines = list(core.corpus("exec_c08snap"))
    for _ in range(n1):
        lines += program(rng, gens, maxlen)
    obs, d, crashes, se = execsuite.judge(binary, lines)
    snaps = [s for s in (snapshot_of(l) for l in obs) if s]
    # ---- phase 2: mutated snapshots
    pool = sorted(set(snaps), key=len)
    big = [s for s in pool if len(s) > 120] or pool or [dumps({"format": "redisgo-memdb-snapshot", "version": 1, "keys": []})]
    lb_lines, kinds = [], collections.Counter()
    for doc in handwritten():
        lb_lines += lb_program(rng, gens, "hand", doc)
        kinds["handwritten"] += 1
    for _ in range(n2):
        s = rng.choice(big)
        r = rng.random()
        if r < 0.08:
            m = ("identity", s)
        elif r < 0.6:
            m = structural(rng, s) or textual(rng, s)
        else:
            m = textual(rng, s)
        if rng.random() < 0.1:
            m2 = textual(rng, m[1])
            m = (m[0] + "+" + m2[0], m2[1])
        kinds[m[0]] += 1
        lb_lines += lb_program(rng, gens, m[0], m[1])
    obs2, d2, crashes2, se2 = execsuite.judge(binary, lb_lines)
    # ---- evidence
    snaps2 = [x for x in (snapshot_of(l) for l in obs2) if x]
    all_obs = obs + obs2
    off = len(obs)
    mism = list(d["mismatches"]) + ["%s %d %s" % (m.split(" ", 2)[0], int(m.split(" ", 2)[1]) + off, m.split(" ", 2)[2]) for m in d2["mismatches"]]
    unk = list(d["unknown"]) + list(d2["unknown"])
    types, sizes, nkeys, deadlines = collections.Counter(), [], [], 0
    for s in snaps:
        try:
            doc = json.loads(s)
        except Exception:
            continue
        ks = doc.get("keys") or []
        nkeys.append(len(ks))
        sizes.append(len(s))
        for k in ks:
            types[k.get("type")] += 1
            deadlines += 1 if "deadline" in k else 0
    tags = collections.Counter(obs_fields(l)[0] for l in all_obs)
    lb_ok = sum(1 for l in obs2 if obs_fields(l)[0] == "LB" and obs_fields(l)[1][2:3] == ["ok"])
    lb_err = sum(1 for l in obs2 if obs_fields(l)[0] == "LB" and obs_fields(l)[1][2:3] == ["err"])
    lenient = int(d2["summary"].get("lenient", 0)) + int(d["summary"].get("lenient", 0))
    pos = int(d["summary"].get("positive", 0)) + int(d2["summary"].get("positive", 0))
    R.add_cases(len(all_obs), min(pos, len(set(l.split(" => ")[0] for l in all_obs))),
                samples=[l[:300] for l in obs if l.startswith(("G", "L"))][:2] + [l[:300] for l in obs2 if l.startswith("LB")][:2])
    R.extra.setdefault("input_distribution", {})["snapshot"] = dict(
        programs=n1, lines=len(all_obs), G_lines=tags["G"], L_lines=tags["L"], LB_lines=tags["LB"], commands=tags["X"],
        snapshots_compared=len(snaps) + len(snaps2), distinct_snapshots=len(set(snaps) | set(snaps2)), value_types_in_snapshots=dict(types), keys_with_deadline=deadlines,
        keys_per_snapshot=dict(min=min(nkeys or [0]), max=max(nkeys or [0]), mean=round(sum(nkeys) / max(1, len(nkeys)), 1)),
        snapshot_bytes=dict(min=min(sizes or [0]), max=max(sizes or [0]), mean=round(sum(sizes) / max(1, len(sizes)))),
        LB_mutations=dict(kinds),
        LB_outcomes=dict(implementation_accepts=lb_ok, implementation_refuses=lb_err, accepted_by_both=lb_ok - lenient,
                         lenient_go_only=lenient),
        harness_crashes=crashes + crashes2)
    ok = not mism and not unk and crashes + crashes2 == 0 and len(snaps) > 0
    R.oblige("correspondence snapshot: GetSnapshot bytes = Snap.encode, LoadSnapshot = Snap.decode", "correspondence", ok,
             "%d snapshots compared byte for byte (%d distinct), %d L, %d LB (%d accepted by both, %d refused by both sides or Go, %d lenient); "
             "%d mismatches, %d crashes" % (len(snaps) + len(snaps2), len(set(snaps) | set(snaps2)), tags["L"], tags["LB"], lb_ok - lenient, lb_err, lenient, len(mism), crashes + crashes2))
    R.suites.append(dict(name="snapshot", lines=len(all_obs), mismatches=len(mism), crashes=crashes + crashes2,
                         driver_s=round(d["seconds"] + d2["seconds"], 1)))
    seen = set()
    for mm in mism + unk:
        if len(seen) >= 3:
            break
        try:
            lineno = int(mm.split()[1])
        except Exception:
            lineno = None
        body = mm.split(" :: ", 1)[1] if " :: " in mm else mm
        sig = execsuite.cmd_of(body)
        detail = mm.split(" :: ")[0].split(" ", 2)[2][:24].replace(" ", "-") if " :: " in mm else ""
        sig = "%s-%s" % (sig, "".join(c for c in detail if c.isalnum() or c == "-"))
        if sig in seen:
            continue
        seen.add(sig)
        prog = execsuite.program_of(all_obs, lineno) if lineno else []

        def still_fails(cand):
            o2, dd, c2, _ = execsuite.judge(binary, cand, timeout=60)
            return any(int(m.split()[1]) == len(cand) for m in dd["mismatches"] if m.split()[1].isdigit()) or c2 > 0
        if prog and len(prog) <= 80:
            try:
                prog = execsuite.minimise(binary, prog, still_fails)
            except Exception:
                pass
        final = mm
        if prog:
            try:
                _o, _d, _c, _ = execsuite.judge(binary, prog, timeout=60)
                if _d["mismatches"]:
                    final = _d["mismatches"][-1]
            except Exception:
                pass
        readable = [" ".join(repr(core.unhx(a))[2:-1] for a in l.split()[2:]) if l.startswith("X") else
                    ("LB " + repr(core.unhx(l.split()[1]))[2:-1] if l.startswith("LB ") else l) for l in prog]
        R.violation("snapshot-%s" % sig, dict(
            kind="impl-violates-spec", engine="exec", summary=final[:700], first_seen=mm[:700], lines=prog, program=readable,
            explanation="G: the bytes of MemDb.GetSnapshot differ from Snap.encode of the model keyspace (first differing offset and both "
                        "excerpts in the summary); L: the keyspace restored by LoadSnapshot differs from Snap.decode (Snap.encode db), or "
                        "LoadSnapshot refused a snapshot GetSnapshot had just written; LB: the strict model decoder accepts bytes that "
                        "LoadSnapshot refuses or restores differently, or a refused LoadSnapshot changed the keyspace. Minimised program."))
    return ok
