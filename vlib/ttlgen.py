"""TTL batches on the real clock (C06): deadlines are attached late in a second, so that for ~0.8 s after the deadline only the
lazy expiry check can hide the key (the timer goroutine fires at deadline + fraction); every command then probes."""
from . import core, execgen

ATTACH = ["set_ex", "setex", "expire", "expire_nx", "expire_gt_after", "expire_lt", "set_px", "set_exat", "expire_xx_after"]
MODIFY = ["none", "none", "none", "persist", "set_plain", "set_keepttl", "expire_long", "rename", "del", "expire_gt_short", "expire_nx_again",
          "append", "mset", "setnx_fail", "set_nx_fail", "set_xx_keep"]
PROBES = ["get", "strlen", "append", "incr", "setnx", "set_nx", "set_xx", "set_get", "getrange", "setrange", "exists", "del", "type", "ttl",
          "persist", "expire", "rename_from", "rename_to", "keys", "mget", "incrby", "decr", "set_keepttl", "mset", "setex",
          # multi-key commands in which the expiring key comes FIRST and a key without any deadline follows (seeded change C01-del-expired-flag-sticky:
          # a per-key flag that was not reset made the keys after an expired one uncounted)
          "del_then_live", "exists_then_live", "mget_then_live", "del_live_between"]


def X(argv, keys, full=False):
    return execgen.render([a if isinstance(a, bytes) else a.encode() for a in argv], keys, full)


def scenario_setup(rng, k, ttl, plain=False):
    """returns (lines, expires: bool, final key name)"""
    lines = []
    att = rng.choice(ATTACH)
    t = str(ttl)
    v = rng.choice([b"v", b"10", b"hello"])
    if att == "set_ex":
        lines.append(X(["SET", k, v, "EX", t], [k]))
    elif att == "setex":
        lines.append(X(["SETEX", k, t, v], [k]))
    elif att == "set_px":
        lines.append(X(["SET", k, v, "PX", str(ttl * 1000)], [k]))
    elif att == "set_exat":
        lines.append(X(["SET", k, v, "EXAT", "@now+%d" % ttl], [k]))
    elif att == "expire":
        lines += [X(["SET", k, v], [k]), X(["EXPIRE", k, t], [k])]
    elif att == "expire_nx":
        lines += [X(["SET", k, v], [k]), X(["EXPIRE", k, t, "NX"], [k])]
    elif att == "expire_lt":
        lines += [X(["SET", k, v], [k]), X(["EXPIRE", k, t, "LT"], [k])]
    elif att == "expire_gt_after":
        lines += [X(["SET", k, v, "EX", "1000"], [k]), X(["EXPIRE", k, t, "GT"], [k]), X(["EXPIRE", k, t, "LT"], [k])]
    elif att == "expire_xx_after":
        lines += [X(["SET", k, v], [k]), X(["EXPIRE", k, t, "XX"], [k]), X(["EXPIRE", k, "500"], [k]), X(["EXPIRE", k, t, "XX"], [k])]
    mod = "none" if (plain or rng.random() < 0.5) else rng.choice(MODIFY)
    k2 = k + b"'"
    keys = [k, k2]
    if mod == "persist":
        lines.append(X(["PERSIST", k], keys))
    elif mod == "set_plain":
        lines.append(X(["SET", k, "w"], keys))
    elif mod == "set_keepttl":
        lines.append(X(["SET", k, "w", "KEEPTTL"], keys))
    elif mod == "expire_long":
        lines.append(X(["EXPIRE", k, "1000"], keys))
    elif mod == "rename":
        lines.append(X(["RENAME", k, k2], keys))
    elif mod == "del":
        lines += [X(["DEL", k], keys), X(["SET", k, "fresh"], keys)]
    elif mod == "expire_gt_short":
        lines.append(X(["EXPIRE", k, "1", "GT"], keys))
    elif mod == "expire_nx_again":
        lines.append(X(["EXPIRE", k, "1000", "NX"], keys))
    elif mod == "append":
        lines.append(X(["APPEND", k, "x"], keys))
    elif mod == "mset":
        lines.append(X(["MSET", k, "m"], keys))
    elif mod == "setnx_fail":
        lines.append(X(["SETNX", k, "n"], keys))
    elif mod == "set_nx_fail":
        lines.append(X(["SET", k, "n", "NX", "EX", "1000"], keys))
    elif mod == "set_xx_keep":
        lines.append(X(["SET", k, "n", "XX", "KEEPTTL"], keys))
    lines.append(X(["SET", b"live-" + k, "L"], [b"live-" + k]))     # a companion that never has a deadline
    lines.append(X(["TTL", k], keys))
    lines.append(X(["TTL", k2], keys))
    return lines, keys


# (no KEYS here: the KEYS executor reaps every expired key it walks over, after it nothing is "past its deadline and still stored" any more)
MULTI_PROBES = ["del_then_live", "exists_then_live", "mget_then_live", "del_live_between", "exists", "del", "mget"]


def probe(rng, k, keys, only=None):
    p = rng.choice(only or PROBES)
    k2 = keys[1]
    kk = k if rng.random() < 0.75 else k2
    table = {
        "get": ["GET", kk], "strlen": ["STRLEN", kk], "append": ["APPEND", kk, "z"], "incr": ["INCR", kk], "setnx": ["SETNX", kk, "s"],
        "set_nx": ["SET", kk, "s", "NX"], "set_xx": ["SET", kk, "s", "XX"], "set_get": ["SET", kk, "s", "GET"],
        "getrange": ["GETRANGE", kk, "0", "-1"], "setrange": ["SETRANGE", kk, "2", "q"], "exists": ["EXISTS", k, k2], "del": ["DEL", k2, k],
        "type": ["TYPE", kk], "ttl": ["TTL", kk], "persist": ["PERSIST", kk], "expire": ["EXPIRE", kk, "100"],
        "rename_from": ["RENAME", kk, b"other-" + k], "rename_to": ["RENAME", b"nosuch", kk], "keys": ["KEYS", k + b"*"],
        "mget": ["MGET", k, k2], "incrby": ["INCRBY", kk, "5"], "decr": ["DECR", kk], "set_keepttl": ["SET", kk, "s", "KEEPTTL"],
        "mset": ["MSET", kk, "m2"], "setex": ["SETEX", kk, "100", "s"],
        "del_then_live": ["DEL", k, b"live-" + k], "exists_then_live": ["EXISTS", k, b"live-" + k, k2, b"live-" + k],
        "mget_then_live": ["MGET", k, b"live-" + k, k2], "del_live_between": ["DEL", k, b"live-" + k, k2, b"nosuch-" + k],
    }
    argv = table[p]
    return [X(argv, keys + [b"other-" + k, b"live-" + k]), X(["TTL", kk], keys), X(["GET", kk], keys), X(["EXISTS", b"live-" + k], [b"live-" + k])]


def batch(rng, n, extra_setup=None, extra_probe=None, only=None, plain=False, attach_ms=820):
    """one batch ≈ 2-3 s of wall clock whatever n.  only: restrict the probes; plain: no modifier between attaching the deadline and the probe
    (a small batch of that kind finishes its set-up well inside the attach second, so every probe meets a key that is past its deadline and still stored)"""
    lines = ["R", "A %d" % attach_ms]
    scen = []
    for i in range(n):
        k = b"t%d" % i
        ttl = 1
        setup, keys = scenario_setup(rng, k, ttl, plain=plain)
        if extra_setup and rng.random() < 0.4:
            setup, keys = extra_setup(rng, k, ttl)
        lines += setup
        scen.append((k, keys))
    lines.append(X(["PING"], [], full=True))
    lines.append("A 30")      # the deadline second has begun: lazy expiry only
    for k, keys in scen:
        if extra_probe and rng.random() < 0.4:
            lines += extra_probe(rng, k, keys)
        else:
            lines += probe(rng, k, keys, only)
    lines.append(X(["PING"], [], full=True))
    lines.append("A 980")     # the timers have fired by now: same observations
    for k, keys in scen[: max(1, n // 4)]:
        lines += probe(rng, k, keys)
    lines.append(X(["PING"], [], full=True))
    return lines


def restore_across_deadline(rng, n=12):
    """a keyspace snapshot restored across a deadline (seeded change C06-loadsnapshot-skips-past-deadline): keys of every value type get a
    1-second deadline late in a second; in the next second - the deadline reached, the timers not yet fired - the keyspace is written to a
    snapshot and loaded into a fresh MemDb (line `L`: what a node restarting from its snapshot, or a follower that is sent one, does); every key
    is then probed, before and after the moment the timers of the restored keyspace fire.  A key restored past its deadline must stay invisible."""
    create = {
        "str": lambda k: [["SET", k, "v"]], "list": lambda k: [["RPUSH", k, "a", "b"]], "set": lambda k: [["SADD", k, "m1", "m2"]],
        "hash": lambda k: [["HSET", k, "f", "v"]], "zset": lambda k: [["ZADD", k, "1", "m"]], "stream": lambda k: [["XADD", k, "5-1", "f", "v"]],
    }
    reads = {"str": ["GET"], "list": ["LLEN"], "set": ["SCARD"], "hash": ["HLEN"], "zset": ["ZCARD"], "stream": ["XLEN"]}
    lines = ["R", "A 820"]
    scen = []
    for i in range(n):
        t = list(create)[i % 6]
        k = b"r%d" % i
        for c in create[t](k):
            lines.append(X(c, [k]))
        how = rng.choice(["expire1", "expire1", "expire1", "far", "none"]) if i >= 6 else "expire1"
        if how == "expire1":
            lines.append(X(["EXPIRE", k, "1"], [k]))
        elif how == "far":
            lines.append(X(["EXPIRE", k, "1000"], [k]))
        scen.append((k, t))
    lines.append(X(["PING"], [], full=True))
    lines.append("A 30")
    lines.append("L")
    for rnd in range(2):
        for k, t in scen:
            lines += [X([reads[t][0], k], [k]), X(["TTL", k], [k]), X(["EXISTS", k], [k]), X(["TYPE", k], [k])]
        lines.append(X(["KEYS", "r*"], [k for k, _ in scen], full=True))
        if rnd == 0:
            lines.append("A 980")
    return lines


def interplay(rng):
    """a TTL operation on ONE key must not change when ANOTHER key expires (seeded change C06-expiry-horizon-fastpath: a shared "earliest deadline" bound moved to
    the new deadline of the key that held it, so every key due in between stopped expiring).  Keys a* get a 1 s deadline (the earliest), keys b* a 2 s deadline, keys c*
    none, all late in a second; then the a* keys are extended / persisted / deleted / overwritten / renamed / re-set (each a way of replacing or dropping the earliest
    deadline), in a shuffled order.  One second later the b* keys are probed (alive, TTL 1), two seconds later they must all be gone whatever happened to the a* keys.
    ≈ 3.2 s of wall clock."""
    lines = ["R", "A 820"]
    na = 7
    a = [b"a%d" % i for i in range(na)]
    b = [b"b%d" % i for i in range(6)]
    for k in a:
        lines.append(X(["SET", k, "v", "EX", "1"], [k]))
    for i, k in enumerate(b):
        lines.append(X(["SET", k, "v", "EX", "2"] if i % 2 == 0 else ["SETEX", k, "2", "v"], [k]) if i % 3 else X(["SET", k, "v"], [k]))
        if i % 3 == 0:
            lines.append(X(["EXPIRE", k, "2"], [k]))
    lines.append(X(["SET", "c0", "stay"], [b"c0"]))
    mods = [["EXPIRE", a[0], "1000"], ["SETEX", a[1], "1000", "w"], ["PERSIST", a[2]], ["DEL", a[3]], ["SET", a[4], "w"], ["RENAME", a[5], b"a5'"], ["EXPIRE", a[6], "500", "GT"]]
    rng.shuffle(mods)
    for m in mods:
        lines.append(X(m, [m[1], b"a5'"]))
    lines.append(X(["PING"], [], full=True))
    for rnd in range(2):
        lines.append("A 30")
        for k in b:
            lines += [X(["GET", k], [k]), X(["TTL", k], [k]), X(["EXISTS", k], [k])]
        lines.append(X(["KEYS", "b*"], b))
        lines.append(X(["PING"], [], full=True))
    lines.append("A 980")
    for k in b:
        lines.append(X(["GET", k], [k]))
    lines.append(X(["PING"], [], full=True))
    return lines
