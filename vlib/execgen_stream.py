"""Program generator for the stream family (XADD / XRANGE) of the exec engine.

IDs come from a small colliding alphabet (so that equal / smaller / greater IDs, sequence overflow and the 2^63 / 2^64
boundaries all occur), mixed with auto IDs (`*`), partial IDs (`ms-*`, `ms`) and IDs far in the future (so that the clock
is behind the last ID).  Options are generated from the XADD grammar with mostly-valid values plus damage."""
import time

from . import execgen

U64 = b"18446744073709551615"
I63 = b"9223372036854775807"
FUTURE = b"99999999999999"        # a millisecond time beyond any clock reading of this century
MS = [b"0", b"1", b"2", b"3", b"5", b"5", b"7", b"10", b"1000", FUTURE, I63, b"9223372036854775808", U64, b"05"]
SEQ = [b"0", b"1", b"2", b"3", b"5", b"9", U64, I63, b"18446744073709551614", b"00"]
BAD_IDS = [b"", b"x", b"5-", b"-5", b"5-5-5", b"1e3", b"5.0", b"18446744073709551616", b"5-18446744073709551616", b"-", b"+",
           b"-1-1", b"5-x", b"5--1", b"*-1", b"**", b"(", b"(-", b"(+", b"5-*", b"$", b"1-1 "]
FIELDS = [b"f", b"g", b"a", b"field", b"", b"\x00\xff", b"\r\n", b"x" * 300, b"0", b"*", b"maxlen", b"~", b"=", b"5-1", b"nomkstream"]


M64 = 18446744073709551615

# approximate last ID per key of the program being generated (the generator is called with the same key list object for
# every command of one program); only used to make most IDs valid and most ranges non-empty
_state = {"ks": None, "last": {}}


def _last(keys, k):
    if _state["ks"] is not keys:
        _state["ks"] = keys
        _state["last"] = {}
    return _state["last"].get(k, (0, 0))


def _note(k, ms, seq):
    cur = _state["last"].get(k, (0, 0))
    if (ms, seq) > cur and ms <= M64 and seq <= M64:
        _state["last"][k] = (ms, seq)


def fmt(ms, seq):
    return b"%d-%d" % (ms, seq)


def full_id(rng):
    return rng.choice(MS) + b"-" + rng.choice(SEQ)


def near_id(rng, last):
    """an ID around the tracked last ID: mostly at or below it (for bounds and thresholds)"""
    ms, seq = last
    r = rng.random()
    if r < 0.3:
        return (ms, seq)
    if r < 0.5:
        return (ms, max(0, seq - rng.randint(1, 3)))
    if r < 0.7:
        return (max(0, ms - rng.randint(1, 3)), rng.choice([0, 1, 2, 5, M64]))
    if r < 0.85:
        return (ms // 2, 0)
    return (min(M64, ms + 1), 0)


def add_id(rng, keys, k):
    ms, seq = _last(keys, k)
    r = rng.random()
    if r < 0.15:
        _note(k, max(ms, int(time.time() * 1000) + 20000), 0)   # later explicit IDs stay ahead of the clock
        return b"*"
    if r < 0.27:
        m = min(M64, ms + rng.choice([0, 0, 0, 1, 2, 1000]))
        _note(k, m, seq + 1 if m == ms else 0)
        return b"%d-*" % m
    if r < 0.62:
        # greater than the last ID
        c = rng.random()
        if c < 0.4 and seq < M64:
            n = (ms, seq + rng.choice([1, 1, 1, 2, 5]))
        elif c < 0.8 and ms < M64:
            n = (ms + rng.choice([1, 1, 2, 3, 10]), rng.choice([0, 0, 1, 5, M64]))
        elif ms < M64:
            n = (ms + 1, 0)
        else:
            n = (ms, min(M64, seq + 1))
        n = (min(n[0], M64), min(n[1], M64))
        _note(k, *n)
        if n[1] == 0 and rng.random() < 0.3:
            return b"%d" % n[0]                # sequence-less = ms-0
        return fmt(*n)
    if r < 0.70:
        # equal or smaller
        c = rng.random()
        if c < 0.4:
            return fmt(ms, seq)
        if c < 0.7:
            return fmt(ms, max(0, seq - 1))
        return fmt(max(0, ms - 1), M64)
    if r < 0.74:
        return rng.choice(BAD_IDS)
    if r < 0.76:
        return b"0-0"
    if r < 0.82:
        m = rng.choice(MS)
        try:
            _note(k, int(m), 0)
        except ValueError:
            pass
        return m
    m, q = rng.choice(MS), rng.choice(SEQ)
    _note(k, int(m), int(q))
    return m + b"-" + q


def threshold_id(rng, keys, k):
    r = rng.random()
    if r < 0.6:
        n = near_id(rng, _last(keys, k))
        return b"%d" % n[0] if rng.random() < 0.2 else fmt(*n)
    if r < 0.7:
        return rng.choice(MS)
    if r < 0.78:
        return rng.choice(BAD_IDS)
    return full_id(rng)


def bound(rng, end, keys, k):
    r = rng.random()
    if r < 0.25:
        return b"+" if end else b"-"
    if r < 0.28:
        return b"-" if end else b"+"
    if r < 0.70:
        n = near_id(rng, _last(keys, k))
        if not end and rng.random() < 0.6:
            n = (n[0] // 2, n[1]) if rng.random() < 0.4 else (0, rng.choice([0, 1]))
        if end and rng.random() < 0.4:
            n = (min(M64, n[0] + rng.choice([0, 1, 5])), M64)
        b = b"%d" % n[0] if rng.random() < 0.3 else fmt(*n)   # start `5` = 5-0, end `5` = 5-maxseq
    elif r < 0.80:
        b = rng.choice(MS)
    elif r < 0.86:
        return rng.choice(BAD_IDS)
    else:
        b = full_id(rng)
    if rng.random() < 0.2:
        b = b"(" + b
    return b


def xadd_opts(rng, keys, k):
    a = []
    r = rng.random()
    shape = ["nomkstream"] if r < 0.08 else ["trim"] if r < 0.33 else ["nomkstream", "trim"] if r < 0.37 else \
        [rng.choice(["nomkstream", "trim", "limit", "bogus", "~", "="]) for _ in range(rng.randint(1, 4))] if r < 0.43 else []
    for o in shape:
        if o == "nomkstream":
            a.append(execgen.up(rng, b"nomkstream"))
        elif o == "trim":
            o = rng.choice(["maxlen", "minid"])
            a.append(execgen.up(rng, o.encode()))
            m = rng.random()
            approx = False
            if m < 0.3:
                a.append(b"~")
                approx = True
            elif m < 0.55:
                a.append(b"=")
            elif m < 0.57:
                a.append(b"~~")
            if rng.random() < 0.97:
                if o == "maxlen":
                    a.append(rng.choice([b"0", b"1", b"2", b"3", b"3", b"5", b"8", b"100"] * 3 + [b"-1", b"x", I63, b"9223372036854775808", b"", b"1.5"]))
                else:
                    a.append(threshold_id(rng, keys, k))
            if rng.random() < (0.5 if approx else 0.08):
                a.append(execgen.up(rng, b"limit"))
                if rng.random() < 0.95:
                    a.append(rng.choice([b"0", b"1", b"1", b"2", b"2", b"10", b"1000000", b"1000001", b"-1", b"x"]))
        elif o == "limit":
            a.append(execgen.up(rng, b"limit"))
            if rng.random() < 0.95:
                a.append(rng.choice([b"0", b"1", b"2", b"10", b"1000000", b"1000001", b"-1", b"x"]))
        elif o == "bogus":
            a.append(rng.choice([b"bogus", b"count", b"mkstream"]))
        else:
            a.append(o.encode())
    return a


def stream_cmd(rng, keys):
    k = rng.choice(keys)
    ks = [k]
    r = rng.random()
    if r < 0.6:
        c = b"xadd"
        a = [k] + xadd_opts(rng, keys, k) + [add_id(rng, keys, k)]
        n = rng.choice([1, 1, 1, 1, 2, 2, 3])
        for _ in range(n):
            a += [rng.choice(FIELDS), rng.choice(execgen.VALS)]
        d = rng.random()
        if d < 0.04:
            a = a[:-1]                          # odd number of field/value arguments
        elif d < 0.06:
            a = a[:rng.randint(0, 3)]           # arity damage
        elif d < 0.07:
            a = [k] + [rng.choice([b"nomkstream", b"~", b"=", b"maxlen", b"minid", b"limit", b"*"]) for _ in range(rng.randint(1, 5))]
    elif r < 0.92:
        c = b"xrange"
        a = [k, bound(rng, False, keys, k), bound(rng, True, keys, k)]
        d = rng.random()
        if d < 0.3:
            a += [execgen.up(rng, b"count"), rng.choice([b"0", b"1", b"2", b"3", b"10", b"-1", b"x", I63, b""])]
            if rng.random() < 0.1:
                a += [b"COUNT", rng.choice([b"1", b"2"])]
        elif d < 0.34:
            a += [rng.choice([b"count", b"limit", b"extra"])]
        elif d < 0.38:
            a = a[:rng.randint(0, 2)]
    else:
        # other types / deadlines on the same keys
        c, a = rng.choice([
            (b"set", [k, rng.choice(execgen.VALS)]),
            (b"expire", [k, b"1000"]),
            (b"expire", [k, b"-1"]),
            (b"del", [k]),
            (b"type", [k]),
            (b"exists", [k]),
            (b"ttl", [k]),
            (b"persist", [k]),
            (b"get", [k]),
        ])
        if c == b"set" and rng.random() < 0.3:
            k2 = rng.choice(keys)
            c, a, ks = b"rename", [k, k2], [k, k2]
    return [execgen.up(rng, c)] + a, ks
