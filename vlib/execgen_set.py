"""Program generator for the set family (C11): SADD/SREM/SISMEMBER/SCARD/SMEMBERS/SMOVE/SPOP/SRANDMEMBER/SUNION/SINTER/SDIFF and the
STORE forms, over a small colliding key alphabet, with members including the empty string, CR/LF and binary bytes, duplicates inside one
command, keys of another type (SET/RPUSH-free: SET only), keys with a long TTL (EXPIRE k 1000), already-expired keys (EXPIRE k -1),
numeric extremes for the SPOP/SRANDMEMBER count, and arity damage."""
from .execgen import up

KEYS = [b"s1", b"s2", b"S1", b"s3", b"", b"k\r\n", b"\xff\x00", b"d"]
MEMBERS = [b"", b"a", b"b", b"c", b"d", b"A", b"\r\n", b"\x00\xff", b"a b", b"1", b"01", b"x" * 40, b"e", b"f"]
# counts: small ones dominate (the reply has |count| elements for negative counts)
COUNTS_SMALL = [b"0", b"1", b"2", b"3", b"5", b"100", b"-1", b"-2", b"-3", b"-7", b"-100", b"+2", b"-0"]
COUNTS_ODD = [b"9223372036854775807", b"-9223372036854775808", b"-9223372036854775807", b"9223372036854775808", b"-9223372036854775809",
              b"x", b"", b"1.5", b"4000000000", b"-4000000000", b"-1048577", b"2147483648", b"-2147483649", b" 1", b"1 "]


COMMON = MEMBERS[:7]


def member(rng):
    # a small common alphabet keeps intersections/differences non-trivial; the rest appears now and then
    return rng.choice(COMMON) if rng.random() < 0.8 else rng.choice(MEMBERS)


def members(rng, lo=1, hi=4):
    return [member(rng) for _ in range(rng.randint(lo, hi))]


def count(rng):
    return rng.choice(COUNTS_SMALL) if rng.random() < 0.8 else rng.choice(COUNTS_ODD)


CMDS = (["sadd"] * 18 + ["srem"] * 4 + ["sismember"] * 2 + ["scard"] * 2 + ["smembers"] * 3 + ["smove"] * 4 + ["spop"] * 4 +
        ["srandmember"] * 4 + ["sunion"] * 2 + ["sinter"] * 3 + ["sdiff"] * 3 + ["sunionstore"] * 3 + ["sinterstore"] * 3 + ["sdiffstore"] * 3 +
        ["set"] * 1 + ["expire"] * 2 + ["del", "type", "ttl", "exists", "persist"])


def set_cmd(rng, keys):
    k = rng.choice(keys)
    c = rng.choice(CMDS)
    ks = [k]
    if c == "sadd":
        a = [k] + members(rng, 1, 6)
    elif c == "srem":
        a = [k] + members(rng, 1, 4)
    elif c == "sismember":
        a = [k, member(rng)]
    elif c in ("scard", "smembers", "type", "ttl", "persist", "del", "exists"):
        a = [k]
    elif c == "smove":
        k2 = rng.choice(keys)
        ks = [k, k2]
        a = [k, k2, member(rng)]
    elif c in ("spop", "srandmember"):
        a = [k] if rng.random() < 0.4 else [k, count(rng)]
    elif c in ("sunion", "sinter", "sdiff"):
        ks = [rng.choice(keys) for _ in range(rng.randint(1, 4))]
        a = list(ks)
    elif c in ("sunionstore", "sinterstore", "sdiffstore"):
        ks = [rng.choice(keys) for _ in range(rng.randint(2, 5))]
        a = list(ks)
    elif c == "set":
        a = [k, rng.choice([b"v", b"", b"10"])]
    elif c == "expire":
        a = [k, rng.choice([b"1000", b"1000", b"-1", b"5000", b"0"])]
    if rng.random() < 0.04:
        # arity damage
        r = rng.random()
        if r < 0.4 and a:
            a = a[:-1]
        elif r < 0.6:
            a = a[:1]
        elif r < 0.7:
            a = []
        else:
            a = a + [b"extra"]
    return [up(rng, c.encode())] + a, ks


class SetGen:
    """set_cmd with a little memory: a listing command is often followed by a removal through another path (SPOP, SREM, SMOVE away,
    an S*STORE onto the key) and by the same listing again on the same key — whatever a listing caches must not outlive a change"""

    def __init__(self):
        self.plan = []

    def __call__(self, rng, keys):
        if self.plan:
            return self.plan.pop(0)
        argv, ks = set_cmd(rng, keys)
        name = argv[0].lower()
        if name in (b"smembers", b"sunion", b"sinter", b"sdiff", b"scard", b"srandmember") and len(argv) >= 2 and rng.random() < 0.6:
            k = argv[1]
            other = rng.choice(keys)
            change = rng.choice([[b"SPOP", k], [b"SPOP", k, b"1"], [b"SPOP", k, b"2"], [b"SREM", k, member(rng)], [b"SMOVE", k, other, member(rng)],
                                 [b"SADD", k, member(rng)], [b"SINTERSTORE", k, k, other], [b"SDIFFSTORE", k, k, other], [b"SMOVE", other, k, member(rng)]])
            self.plan = [(change, [k, other]), ([b"SMEMBERS", k], [k]), ([b"SCARD", k], [k])]
        return argv, ks
