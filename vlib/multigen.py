"""Scenario generator and suite for the `multi` engine (C07, cross-node composition): M = 2..3 REAL Managers in one process, clients
on any node, ONE log owned by the harness (harness/multi.go), replayed on the Lean model Multi.next (Driver/Multi.lean).

A scenario is a list of `MZ …` lines.  The generator keeps the bookkeeping it needs to issue valid lines: which connection has a
proposal outstanding, whether raft has appended it, how long the shared log is and how far every node has applied it.

What makes the scenarios adversarial for the composition (state-machine safety + rendezvous on the id + real-time order):
  * clients of ALL nodes work on the SAME 5 keys with order-sensitive commands (rendezvousgen._cmd): a reply computed at another log
    position, on another node's keyspace, or delivered to another node's waiter differs;
  * raft appends the proposals in an order that is never the arrival order on purpose: reordered across nodes and connections,
    some left out for several rounds (delayed);
  * every node is handed the committed entries INDEPENDENTLY: random batch sizes, several batches back to back, and in most scenarios
    one node is a laggard that gets nothing (or single entries) for a long time and catches up late in one go - its clients wait,
    the other nodes' clients are answered, and the entries of its clients are applied on the other nodes first (foreign there);
  * clients pipeline: a connection's next proposal appears while the batch that answered it is still being applied;
  * commands the cluster filter refuses sit inside pipelines;
  * keyspace dumps of single nodes in the middle of a scenario (nodes at different applied prefixes) and of every node at the end.
The proposal ids are the ones the real code generates (uuid.NewString): cluster-wide uniqueness - the hypothesis of
C07Multi.own_reply_cluster - is a CHECKED fact of every run.  (HandleCluster offers no way to inject ids, so there is no scenario class
with ids colliding on purpose; the detection test for that is a mutation of the repository, see vlib/props/c07.py.)"""
import collections
import random

from . import core
from .rendezvousgen import _cmd, _refused, _case, tok

ENGINE = "multi"


class Scenario:
    def __init__(self, rng, nodes=None, steps=None, drain=None):
        self.rng = rng
        self.M = nodes or rng.choice([2, 2, 3, 3, 3])
        self.steps = steps or rng.randint(14, 46)
        self.drain = (rng.random() < 0.85) if drain is None else drain
        self.conns = [(n, c) for n in range(1, self.M + 1) for c in range(1, rng.randint(1, 3) + 1)]
        self.laggard = rng.randint(1, self.M) if rng.random() < 0.7 else 0
        self.lines = ["MZ new %d" % self.M]
        self.fifo = {p: [] for p in self.conns}          # (argv, refused)
        self.inflight = {p: False for p in self.conns}
        self.appended = {p: None for p in self.conns}    # log index of the outstanding proposal, once raft has appended it
        self.arrival = []                                # connections in the order their proposals reached raft, not yet appended
        self.owner = {}
        self.L = 0
        self.applied = {n: 0 for n in range(1, self.M + 1)}
        self.stats = collections.Counter()

    def fresh(self, p, refused):
        for _ in range(200):
            argv = _refused(self.rng) if refused else _cmd(self.rng)
            argv = [_case(self.rng, argv[0])] + argv[1:]
            t = tuple(argv)
            if self.owner.get(t, p) == p:
                self.owner[t] = p
                return argv
        argv = [b"SET", b"k%d" % self.rng.randrange(5), b"u%d" % len(self.owner)]
        self.owner[tuple(argv)] = p
        return argv

    def advance(self, p):
        while not self.inflight[p] and self.fifo[p]:
            argv, refused = self.fifo[p].pop(0)
            if not refused:
                self.inflight[p] = True
                self.appended[p] = None
                self.arrival.append(p)

    def write(self):
        p = self.rng.choice(self.conns)
        n = self.rng.choice([1, 1, 2, 3, 4])
        cmds = []
        for _ in range(n):
            refused = self.rng.random() < 0.06
            argv = self.fresh(p, refused)
            cmds.append(argv)
            self.fifo[p].append((argv, refused))
            self.stats["refused"] += refused
        if n > 1 or self.inflight[p]:
            self.stats["pipelined"] += 1
        self.stats["writes"] += 1
        self.stats["commands"] += n
        self.lines.append("MZ w %d %d %s" % (p[0], p[1], " ".join(tok(a) for a in cmds)))
        self.advance(p)

    def append(self, everything=False):
        ready = list(self.arrival)
        if not ready:
            return
        chosen = ready if everything else [p for p in ready if self.rng.random() < 0.6]
        if not chosen:
            return
        if len(chosen) < len(ready):
            self.stats["append_delayed"] += 1
        order = list(chosen)
        self.rng.shuffle(order)
        if order != chosen:
            self.stats["append_reordered"] += 1
        if len({p[0] for p in order}) > 1:
            self.stats["appends_across_nodes"] += 1
        for p in order:
            self.appended[p] = self.L
            self.L += 1
            self.arrival.remove(p)
        self.stats["appended"] += len(order)
        self.lines.append("MZ a " + " ".join("%d.%d" % p for p in order))

    def deliver(self, n=None, everything=False):
        if n is None:
            n = self.rng.randint(1, self.M)
            if n == self.laggard and self.rng.random() < 0.85:
                self.stats["laggard_skipped"] += 1
                return
        avail = self.L - self.applied[n]
        if avail <= 0:
            return
        total = avail if everything else (1 if n == self.laggard else self.rng.randint(1, avail))
        sizes, left = [], total
        while left > 0:
            k = self.rng.randint(1, left) if self.rng.random() < 0.6 else left
            sizes.append(k)
            left -= k
        if total >= 6:
            self.stats["catch_up_deliveries"] += 1
        self.stats["deliveries"] += 1
        self.stats["batches"] += len(sizes)
        self.stats["entries_delivered"] += total
        self.stats["max_lag"] = max(self.stats["max_lag"], max(self.applied.values()) - min(self.applied.values()))
        self.lines.append("MZ d %d %s" % (n, " | ".join(str(k) for k in sizes)))
        self.applied[n] += total
        freed = [p for p in self.conns if p[0] == n and self.inflight[p] and self.appended[p] is not None and self.appended[p] < self.applied[n]]
        for p in freed:
            self.inflight[p] = False
            self.appended[p] = None
            self.stats["local_replies"] += 1
        for p in freed:
            self.advance(p)

    def dump(self, n):
        self.stats["dumps"] += 1
        self.lines.append("MZ k %d" % n)

    def build(self):
        for _ in range(self.steps):
            x = self.rng.random()
            if x < 0.36:
                self.write()
            elif x < 0.60:
                self.append()
            elif x < 0.96:
                self.deliver()
            else:
                self.dump(self.rng.randint(1, self.M))
        if self.drain:
            guard = 0
            while (any(self.inflight.values()) or any(a < self.L for a in self.applied.values())) and guard < 400:
                guard += 1
                self.append(everything=self.rng.random() < 0.5)
                nodes = list(range(1, self.M + 1))
                self.rng.shuffle(nodes)
                for n in nodes:
                    if self.rng.random() < 0.7:
                        self.deliver(n, everything=self.rng.random() < 0.6)
            self.stats["drained"] += 1
        if len(set(self.applied.values())) == 1 and self.L > 0:
            self.stats["scenarios_all_nodes_same_prefix_at_end"] += 1
        for n in range(1, self.M + 1):
            self.dump(n)
        self.lines.append("MZ end")
        return self.lines


def scenario(rng, **kw):
    s = Scenario(rng, **kw)
    return s.build(), s.stats, s.M


def _judge(binary, lines, timeout=600):
    obs, se, rc = core.run_harness(binary, ENGINE, lines, timeout=timeout)
    d = core.run_driver(obs, timeout=timeout)
    return obs, d, se, rc


WRONG_DELIVERY = "ANOTHER node's command"


def _real_mismatch(d, must=None):
    """a disagreement about the implementation (not a scenario made invalid by the minimiser); `must`: of the same kind as the
    original one (a wrong delivery must stay a wrong delivery while the scenario is shortened)"""
    for m in d["mismatches"]:
        if not any(w in m for w in ("harness: x:nolabel", "harness: x:short", "harness: x:skipped", "generator:", "bad ")):
            if must is None or must in m:
                return m
    return None


def readable(lines):
    out = []
    for l in lines:
        f = l.split()
        if len(f) >= 4 and f[1] == "w":
            out.append("node %s conn %s writes: %s" % (f[2], f[3], " ; ".join(" ".join(repr(core.unhx(a))[2:-1] for a in t.split(":")) for t in f[4:])))
        elif len(f) >= 2 and f[1] == "a":
            out.append("raft appends the proposals of " + ", ".join(f[2:]))
        elif len(f) >= 3 and f[1] == "d":
            out.append("node %s applies its next entries, batches of %s" % (f[2], " ".join(f[3:])))
        else:
            out.append(l)
    return out


def run_suite(R, ctx, binary, nscen):
    rng = random.Random(R.seed * 7349 + 41)
    lines, total, sizes = list(core.corpus(ENGINE)), collections.Counter(), collections.Counter()
    for _ in range(nscen):
        sc, st, m = scenario(rng)
        lines += sc
        for k, v in st.items():
            total[k] = max(total[k], v) if k == "max_lag" else total[k] + v
        sizes[m] += 1
    obs, d, se, rc = _judge(binary, lines)
    core.negative_control(R, obs, ENGINE, skip=lambda l: " r:" not in l)
    replies = sum(l.count(" r:") for l in obs)
    proposals = sum(l.count(" p:") for l in obs)
    dumps = sum(l.count(" dump:") for l in obs)
    ids = [t.split(":")[2] for l in obs for t in l.split(" => ")[-1].split() if t.startswith("p:")]
    hangs = sum(1 for l in obs if " x:" in l)
    pos = int(d["summary"].get("positive", 0) or 0)
    ok = rc == 0 and len(obs) == len(lines) and not d["mismatches"] and not d["unknown"]
    R.oblige("correspondence multi: 2-3 REAL Managers (own keyspace, callback map, HandleCluster connections, handleClusterCommits loop) "
             "sharing ONE log owned by the harness (proposals appended reordered across nodes and delayed; every node handed its entries "
             "independently, random batches, a laggard catching up late; pipelining clients) = Multi.next (Cluster/Multi.lean) with Exec.exec "
             "as every node's state machine: proposal ids (uuid) pairwise distinct cluster-wide (hypothesis of C07Multi.own_reply_cluster, a "
             "checked fact of the run), every reply only after the node applied the connection's own entry and byte for byte the reply of its "
             "own command at its own position of the shared log, no lost wake-up, callback maps = waiting connections, every node's keyspace "
             "dump = the model's replica at that node's applied prefix",
             "correspondence", ok, "%d scenarios, %d lines, %d replies and %d keyspace dumps compared, %d distinct ids of %d, %d mismatches, %d unknown, "
             "harness rc=%d %s" % (nscen, len(obs), replies, dumps, len(set(ids)), len(ids), len(d["mismatches"]), len(d["unknown"]), rc, se[-200:]))
    R.add_cases(len(obs), pos, samples=[l[:300] for l in obs[1:4]])
    R.suites.append(dict(name=ENGINE, scenarios=nscen, lines=len(obs), replies_compared=replies, proposals=proposals, proposal_ids_distinct=len(set(ids)),
                         keyspace_dumps_compared=dumps, lines_with_comparison=pos, harness_gave_up=hangs, mismatches=len(d["mismatches"]),
                         driver_s=round(d["seconds"], 1)))
    R.extra.setdefault("input_distribution", {})[ENGINE] = dict(scenarios=nscen, nodes_per_scenario=dict(sizes), **dict(total))
    if len(obs) < len(lines):
        at = len(obs)
        start = max(i for i in range(at + 1) if lines[i].startswith("MZ new"))
        R.violation("multi-crash-" + core.sha(" ".join(lines[start:at + 1])), dict(
            kind="impl-violates-spec", engine=ENGINE, lines=lines[start:at + 1],
            summary="the process died while serving %r: %s" % (lines[at][:200], se[-600:]),
            explanation="HandleCluster / handleClusterCommits crashed the process holding the nodes (a fatal error in one goroutine ends it)"))
        return False
    for mm in (d["mismatches"] + d["unknown"])[:1]:
        try:
            lineno = int(mm.split()[1])
        except Exception:
            lineno = len(lines)
        start = max(i for i in range(lineno) if lines[i].startswith("MZ new"))
        prog = lines[start:lineno]
        if prog[-1] != "MZ end":
            prog = prog + ["MZ end"]
        budget = 60
        i = 1
        must = WRONG_DELIVERY if WRONG_DELIVERY in mm else None
        while i < len(prog) - 1 and budget > 0:
            cand = prog[:i] + prog[i + 1:]
            budget -= 1
            o2, d2, _, rc2 = _judge(binary, cand, timeout=120)
            if rc2 != 0 or len(o2) < len(cand) or _real_mismatch(d2, must):
                prog = cand
            else:
                i += 1
        o3, d3, _, _ = _judge(binary, prog, timeout=120)
        R.violation("multi-" + core.sha(" ".join(prog)), dict(
            kind="impl-violates-spec", engine=ENGINE, lines=prog, summary=((d3["mismatches"] + d3["unknown"] + [mm])[0])[:700], session=readable(prog),
            observed=[l[:400] for l in o3],
            explanation="what a client connection of some node received, or what a node's keyspace holds, differs from the multi-node model "
                        "for which own_reply_cluster / C07_linearizable_partial / applied_agree are proved (Props/C07Multi.lean): a reply that is "
                        "not the reply of the connection's own command at its position of the shared log (e.g. the reply of another node's "
                        "command that carries the same proposal id), a reply before the node applied the entry, a missing reply, proposal ids "
                        "that collide cluster-wide, or a replica whose keyspace is not the state after its applied prefix"))
    if R.tier == "thorough":
        race_run(R, rng)
    return ok


def race_run(R, rng, nscen=1000):
    """the same engine built with -race: the connection goroutines, apply loops and callback maps of SEVERAL Managers in one process
    (the callback maps share the package-level mutex) under the race detector"""
    rbin, err = core.build_harness(race=True)
    if rbin is None:
        R.oblige("multi under -race: harness builds", "build", False, (err or "")[-300:])
        return
    lines = []
    for _ in range(nscen):
        lines += scenario(rng)[0]
    obs, se, rc = core.run_harness(rbin, ENGINE, lines, timeout=1800)
    d = core.run_driver(obs)
    ok = rc == 0 and "DATA RACE" not in se and len(obs) == len(lines) and not d["mismatches"] and not d["unknown"]
    R.oblige("multi under the race detector: no data race between the connection goroutines, apply loops and callback maps of 2-3 Managers in "
             "one process; replies and keyspaces still agree", "exploration", ok,
             "%d scenarios, %d lines, rc=%d, %d mismatches %s" % (nscen, len(obs), rc, len(d["mismatches"]), se[-400:] if not ok else ""))
    R.suites.append(dict(name="multi-race", scenarios=nscen, lines=len(obs), data_race="DATA RACE" in se, mismatches=len(d["mismatches"])))
    if not ok:
        R.violation("multi-race", dict(kind="impl-violates-spec", engine=ENGINE, lines=lines[:200], args=None,
                                       summary="race detector / disagreement in the multi engine under -race: " + se[-1500:]))
