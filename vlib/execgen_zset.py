"""Program generator for the sorted-set family (C12): ZADD with every option combination, ZREM, ZRANGE by index (REV, WITHSCORES,
negative / out-of-range indexes), ZRANK; few distinct scores over few members so ties and moves abound; a second generator builds
deep trees and takes them apart so every deletion / rebalance case occurs."""
from . import execgen

ZKEYS = [b"z1", b"z2", b"Z1", b"zk", b"", b"z\r\n"]
MEMBERS = [b"a", b"b", b"c", b"d", b"e", b"f", b"A", b"", b"m\r\n", b"\xff\x00", b"ab"]
SCORES = [b"1", b"2", b"3", b"-1", b"0", b"-0", b"0.1", b"0.30000000000000004", b"1e300", b"-1e300", b"inf", b"-inf", b"+inf",
          b"2.5", b"1.0", b"1e0", b"100", b"-2", b"5e-324", b"1.7976931348623157e308", b"3.0000000000000004", b"-0.0",
          b"12345678901234567890", b"0.000001", b"Infinity"]
BADSCORES = [b"nan", b"x", b"", b"1e400", b" 1", b"1 ", b"NaN", b"--1", b"1,5"]
INDEXES = [b"0", b"1", b"2", b"3", b"-1", b"-2", b"-3", b"5", b"10", b"-10", b"100", b"-100", b"9223372036854775807",
           b"-9223372036854775808", b"4"]
BADINDEXES = [b"x", b"", b"1.5", b"9223372036854775808"]
ZOPTS = [b"nx", b"xx", b"gt", b"lt", b"ch", b"incr"]

up = execgen.up


def score(rng, pool):
    r = rng.random()
    if r < 0.03:
        return rng.choice(BADSCORES)
    if r < 0.75:
        return rng.choice(pool)
    return rng.choice(SCORES)


def zadd_args(rng, k, members, pool):
    a = [k]
    r = rng.random()
    if r < 0.5:
        opts = []
    elif r < 0.8:
        opts = [rng.choice(ZOPTS)]
    else:
        opts = rng.sample(ZOPTS, rng.randint(2, 4))
    a += [up(rng, o) for o in opts]
    n = 1 if (b"incr" in opts and rng.random() < 0.85) else rng.choice([1, 1, 1, 2, 2, 3, 4])
    for _ in range(n):
        a += [score(rng, pool), rng.choice(members)]
    if rng.random() < 0.03:
        a = a[:-1]
    return a


def zrange_args(rng, k):
    a = [k,
         rng.choice(INDEXES) if rng.random() < 0.97 else rng.choice(BADINDEXES),
         rng.choice(INDEXES) if rng.random() < 0.97 else rng.choice(BADINDEXES)]
    if rng.random() < 0.5:
        a.append(up(rng, b"withscores"))
    if rng.random() < 0.4:
        a.insert(rng.randint(3, len(a)), up(rng, b"rev"))
    if rng.random() < 0.02:
        a.append(b"bogus")
    return a


def zset_cmd(rng, keys, members=None, pool=None):
    members = members or MEMBERS[:7]
    pool = pool or SCORES[:4]
    k = rng.choice(keys)
    c = rng.choice(["zadd"] * 8 + ["zrem"] * 4 + ["zrange"] * 5 + ["zrank"] * 3 + ["set", "expire", "expire", "del", "type", "ttl", "persist", "get"])
    ks = [k]
    if c == "zadd":
        a = zadd_args(rng, k, members, pool)
    elif c == "zrem":
        a = [k] + [rng.choice(members) for _ in range(rng.choice([1, 1, 2, 3]))]
    elif c == "zrange":
        a = zrange_args(rng, k)
    elif c == "zrank":
        a = [k, rng.choice(members)]
    elif c == "set":
        a = [k, b"v"]
    elif c == "expire":
        a = [k, rng.choice([b"1000", b"-1", b"5000", b"0"])]
    elif c in ("del", "type", "ttl", "persist", "get"):
        a = [k]
    if c.startswith("z") and rng.random() < 0.03:
        a = a[:-1] if (a and rng.random() < 0.6) else a + [b"extra"]
    return [up(rng, c.encode())] + a, ks


def programs(rng, nprog, maxlen=60):
    """tie-heavy programs: each program draws its own small member and score pools"""
    lines = []
    for _ in range(nprog):
        lines.append("R")
        ks = rng.sample(ZKEYS, rng.randint(1, 3))
        members = rng.sample(MEMBERS, rng.randint(3, 7))
        pool = rng.sample(SCORES, rng.randint(2, 4))
        n = rng.randint(1, maxlen)
        for i in range(n):
            argv, dk = zset_cmd(rng, ks, members, pool)
            lines.append(execgen.render(argv, dk, full=(i == n - 1 or rng.random() < 0.1)))
    return lines


def deep_programs(rng, nprog):
    """trees of height >= 4: 12-40 distinct scores inserted in ascending / descending / zig-zag / random order (every rotation case),
    score-mates added to some nodes, members moved between nodes, then the tree is taken apart member by member (leaf, one-child,
    two-children and rebalancing deletions), with ZRANGE/ZRANK probes in between; the tree dump is compared after every command"""
    lines = []
    for _ in range(nprog):
        lines.append("R")
        k = rng.choice([b"z1", b"Z1", b"zk"])
        n = rng.randint(12, 40)
        order = rng.choice(["asc", "desc", "zigzag", "random", "random", "random"])
        vals = list(range(-n // 2, n - n // 2))
        if order == "desc":
            vals.reverse()
        elif order == "zigzag":
            vals = [v for p in zip(vals[:n // 2], reversed(vals[n // 2:])) for v in p] + ([vals[n // 2]] if n % 2 else [])
        elif order == "random":
            rng.shuffle(vals)
        scale = rng.choice([1, 1, 0.5, 1e300 / 64, 1e-3])

        def sc(v):
            return repr(v * scale).encode() if scale != 1 else str(v).encode()
        live = {}

        def emit(argv, full=False):
            lines.append(execgen.render(argv, [k], full=full))

        def probe():
            r = rng.random()
            if r < 0.4:
                emit([b"zrange"] + zrange_args(rng, k))
            elif r < 0.7 and live:
                emit([b"zrank", k, rng.choice(list(live))])
            elif r < 0.8:
                emit([b"zrange", k, b"0", b"-1", b"withscores"])
        for i, v in enumerate(vals):
            m = b"m%02d" % i
            emit([b"zadd", k, sc(v), m])
            live[m] = v
            if rng.random() < 0.25:
                m2 = b"t%02d" % i
                emit([b"zadd", k, sc(v), m2])
                live[m2] = v
            if rng.random() < 0.15:
                probe()
        for _ in range(rng.randint(0, n // 2)):
            m = rng.choice(list(live))
            v = rng.choice(vals + [n * 2, -n * 2])
            o = rng.choice([[], [], [b"ch"], [b"gt"], [b"lt"], [b"xx"], [b"incr"]])
            emit([b"zadd", k] + o + [sc(v), m])
            probe()
        names = list(live)
        rng.shuffle(names)
        if rng.random() < 0.3:
            names.sort()
        stop = rng.choice([0, 0, 0, len(names) // 2])
        while len(names) > stop:
            cnt = rng.choice([1, 1, 1, 2, 3])
            ms, names = names[:cnt], names[cnt:]
            emit([b"zrem", k] + ms)
            if rng.random() < 0.3:
                probe()
        emit([b"zrange", k, b"0", b"-1", b"withscores"], full=True)
    return lines
