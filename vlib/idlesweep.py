"""Idle / gap sweep (C02, thorough tier): the REAL server binary with the program's own defaults, clients that stay silent for T seconds and then
send a command whose bytes arrive in two pieces G seconds apart, the cut strictly inside a bulk payload or inside a header line.

"However the byte stream is split across network reads" includes WHEN the pieces arrive: anything in the connection loop that acts on time
(an idle timeout, a read deadline, a keep-alive) and resumes the decoder afterwards must not lose or re-read bytes.  Connection i is silent for
T_i = i*STEP seconds, then sends piece one, waits GAP > STEP seconds and sends piece two: every moment of (0, N*STEP+GAP) lies between the two
pieces of some connection, so a timer of any period below that bound, armed when the previous command was parsed, fires inside a command on at
least one connection.  All connections run at the same time: the sweep takes N*STEP+GAP seconds of wall time.

The expected replies are those of the model: `Resp.parse_chunking_independent` (Props/C02) says the decoded commands depend on the concatenation
of the pieces only; so the connection must answer exactly as if the command had been written whole: +OK for the SET, the payload for the GET.
Added after the seeded change C02-idle-timeout-mid-command (an idle timeout of 300 s whose expiry inside a command re-entered the decoder with
the consumed bytes dropped)."""
import os
import socket
import subprocess
import threading
import time

from . import core, clustersuite

STEP, GAP = 5.0, 5.6
NEUTRAL = ("ok", "idle-closed", "closed-unexecuted")


def _bulk(args):
    out = b"*%d\r\n" % len(args)
    for a in args:
        out += b"$%d\r\n" % len(a) + a + b"\r\n"
    return out


def _recv_until(s, want, timeout):
    """(bytes, eof seen)"""
    s.settimeout(timeout)
    buf, eof = b"", False
    try:
        while len(buf) < want:
            d = s.recv(65536)
            if not d:
                eof = True
                break
            buf += d
    except socket.timeout:
        pass
    except OSError:
        eof = True
    return buf, eof


def _peer_closed(s):
    s.settimeout(0.0)
    try:
        return s.recv(1, socket.MSG_PEEK) == b""
    except (BlockingIOError, socket.timeout):
        return False
    except OSError:
        return True


def _get(port, key):
    try:
        s = socket.create_connection(("127.0.0.1", port), timeout=5)
        s.sendall(_bulk([b"GET", key]))
        got, _ = _recv_until(s, 8, 3)
        s.close()
        return got
    except OSError as e:
        return b"error: " + str(e).encode()


def session(port, i, idle, gap, cutkind, results):
    key = b"idle-%d" % i
    payload = (b"p%03d\r\n" % i) * 9 + b"\x00\xfftail"      # 60 bytes with CR/LF/NUL/0xff inside
    cmd = _bulk([b"SET", key, payload]) + _bulk([b"GET", key])   # the GET is pipelined right behind the SET
    if cutkind == "payload":
        cut = cmd.index(payload) + 20
    elif cutkind == "crlf":
        cut = cmd.index(payload) + len(payload) + 1              # between the CR and the LF that end the payload
    else:
        cut = cmd.index(b"$%d\r\n" % len(payload)) + 2           # inside the `$60` header line
    want = b"+OK\r\n" + b"$%d\r\n" % len(payload) + payload + b"\r\n"
    rec = dict(conn=i, idle_s=idle, gap_s=gap, cut=cutkind, cut_at=cut, command=cmd.hex(), expected=want.hex())
    what = "after %.1f s of silence, `SET %s <%d bytes>` + `GET %s` written in two pieces %.1f s apart (cut inside the %s, byte %d)" % (
        idle, key.decode(), len(payload), key.decode(), gap, cutkind, cut)
    try:
        s = socket.create_connection(("127.0.0.1", port), timeout=5)
        s.sendall(_bulk([b"SET", key, b"v0"]))
        first, _ = _recv_until(s, 5, 5)
        if first != b"+OK\r\n":
            rec.update(result="bad-reply", detail="first command answered %r" % first[:80])
            results.append(rec)
            return
        time.sleep(idle)
        if _peer_closed(s):
            # the server closes connections that stay silent this long: its right (an idle timeout), nothing was being decoded
            rec.update(result="idle-closed", detail="closed by the server while silent")
            results.append(rec)
            return
        got, eof = b"", False
        try:
            s.sendall(cmd[:cut])
            time.sleep(gap)
            s.sendall(cmd[cut:])
            got, eof = _recv_until(s, len(want), 6)
        except OSError:
            eof = True
        rec["got"] = got.hex()
        if got == want:
            rec["result"] = "ok"
        elif got == b"" and eof:
            # closed in the middle of the command without a byte of reply: acceptable only if nothing of the command was executed
            cur = _get(port, key)
            if cur == b"$2\r\nv0\r\n":
                rec.update(result="closed-unexecuted", detail="closed by the server between the two pieces; nothing of the command was executed")
            else:
                rec.update(result="bad-reply", detail=what + ": the connection was closed without a reply, yet GET %s from another connection answers %r" % (key.decode(), cur[:80]))
        elif not eof and len(got) < len(want):
            rec.update(result="no-reply", detail=what + " got %r and then nothing for 6 s, the connection still open (the decoder waits for bytes the client already sent); "
                       "written whole it answers %r" % (got[:120], want[:40] + b"..."))
        else:
            rec.update(result="bad-reply", detail=what + " answered %r; written whole it answers %r" % (got[:160], want[:40] + b"..."))
        s.close()
    except OSError as e:
        rec.update(result="error", detail=str(e))
    results.append(rec)


def start_server(server, wd):
    port = None
    s = socket.socket()
    s.bind(("127.0.0.1", 0))
    port = s.getsockname()[1]
    s.close()
    # host, port and the log directory only: every other setting is the program's default, as in a deployment that follows the README
    open(os.path.join(wd, "redis.conf"), "w").write("host 127.0.0.1\n\nport %d\n\nlogdir %s\n" % (port, wd))
    p = subprocess.Popen([server, "--config=redis.conf"], cwd=wd, stdout=subprocess.DEVNULL, stderr=open(os.path.join(wd, "stderr.log"), "w"))
    open(os.path.join(wd, "pids.txt"), "w").write("%d\n" % p.pid)
    for _ in range(100):
        try:
            socket.create_connection(("127.0.0.1", port), timeout=1).close()
            return p, port
        except OSError:
            time.sleep(0.1)
    p.kill()
    return None, port


def sweep(R, n, only=None):
    """n connections (idle 0, STEP, ..., (n-1)*STEP seconds); `only` = [(i, idle, gap, cutkind)] replays single sessions"""
    with core.Workdir() as wd0:
        wd = wd0.lower()
        os.makedirs(wd, exist_ok=True)
        try:
            server, err, dt = clustersuite.build_server(wd)
            R.oblige("the real server builds from the repository working tree (go build -tags verif .)", "build", server is not None, err or "%.1fs" % dt)
            if server is None:
                return None
            proc, port = start_server(server, wd)
            if proc is None:
                R.oblige("the real server starts with a three-line configuration (host, port, logdir)", "build", False, open(os.path.join(wd, "stderr.log")).read()[-600:])
                return None
            plan = only or [(i, i * STEP, GAP, ("payload", "header", "crlf")[i % 3]) for i in range(n)]
            results, threads = [], []
            for (i, idle, gap, kind) in plan:
                t = threading.Thread(target=session, args=(port, i, idle, gap, kind, results), daemon=True)
                t.start()
                threads.append(t)
            for t in threads:
                t.join(max(x[1] for x in plan) + max(x[2] for x in plan) + 60)
            alive = proc.poll() is None
            try:
                proc.kill()
            except OSError:
                pass
            if not alive:
                results.append(dict(conn=-1, result="node-died", detail="the server process exited during the sweep: " + open(os.path.join(wd, "stderr.log")).read()[-500:]))
            return sorted(results, key=lambda r: r.get("conn", 0))
        finally:
            clustersuite.reap(wd)
            if wd != wd0:
                import shutil
                shutil.rmtree(wd, ignore_errors=True)


def run(R, n=62):
    t0 = time.time()
    results = sweep(R, n)
    if results is None:
        return
    bad = [r for r in results if r.get("result") not in NEUTRAL]
    served = [r for r in results if r.get("result") == "ok"]
    R.oblige("idle/gap sweep on the real binary (program defaults): %d connections silent for 0..%d s, then one SET+GET pipeline in two pieces %.1f s apart "
             "(cut inside a payload / a header line / a CRLF): every one answers as if written whole - every instant of (0, %d s) lies inside a command of some connection"
             % (n, int((n - 1) * STEP), GAP, int((n - 1) * STEP + GAP)), "exploration", len(results) == n and not bad and 2 * len(served) >= n,
             "; ".join((r.get("detail") or "")[:200] for r in bad[:3]) or "%d served, %d closed while silent, %d closed between the pieces with nothing executed" % (
                 len(served), sum(r.get("result") == "idle-closed" for r in results), sum(r.get("result") == "closed-unexecuted" for r in results)))
    R.add_cases(len(results), len(served))
    R.suites.append(dict(name="idle-gap-sweep", connections=n, longest_idle_s=(n - 1) * STEP, gap_s=GAP, failures=len(bad), wall_s=round(time.time() - t0, 1)))
    for r in bad[:2]:
        R.violation("idle-gap-%s-%s" % (r.get("result"), r.get("conn")), dict(
            kind="impl-violates-spec", engine="idlesweep", session=r, summary=("idle/gap sweep: " + r.get("result", "") + ": " + (r.get("detail") or ""))[:800],
            explanation="a well-formed command whose bytes arrived in two pieces was not decoded into the arguments that were encoded (decoding depends on when the pieces arrive)"))


def replay(R, payload):
    r = payload.get("session", {})
    if r.get("conn", -1) < 0:
        res = sweep(R, 62)
    else:
        res = sweep(R, 1, only=[(r["conn"], r["idle_s"], r["gap_s"], r["cut"])])
    bad = [x for x in (res or []) if x.get("result") not in NEUTRAL]
    for x in bad[:2]:
        print("OBSERVED", (x.get("detail") or "")[:400])
    print("replay: %s" % ("still failing" if bad else "no longer failing"))
    return 1 if bad else 0
