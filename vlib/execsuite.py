"""Shared driver for exec-engine properties: generate programs, run them on the real code, judge with the Lean model."""
import collections
import random

from . import core, execgen


def cmd_of(line):
    f = line.split()
    if len(f) > 2 and f[0] == "X":
        try:
            return core.unhx(f[2]).decode("latin-1").lower()
        except Exception:
            return "?"
    return f[0] if f else "?"


def program_of(obs, lineno):
    """input lines of the program that contains observed line `lineno` (1-based), up to and including it"""
    i = lineno - 1
    start = i
    while start > 0 and not obs[start].startswith("R"):
        start -= 1
    return [l.split(" => ")[0] for l in obs[start:i + 1]]


def minimise(binary, prog, still_fails):
    """delta-debugging on the command list (keeps the leading R): drop commands while the last line still mismatches"""
    cur = list(prog)
    changed = True
    budget = 60
    while changed and budget > 0:
        changed = False
        for i in range(len(cur) - 2, 0, -1):
            cand = cur[:i] + cur[i + 1:]
            budget -= 1
            if budget <= 0:
                break
            if still_fails(cand):
                cur = cand
                changed = True
    return cur


def judge(binary, lines, timeout=600, events=False, shards=None, cluster=False):
    env = core.goenv()
    if events:
        env["VERIF_EVENTS"] = "1"
    if cluster:
        # C14: every command goes through the cluster codec path (server.VerifClusterRoundTrip) instead of Manager.ExecCommand
        env["VERIF_CLUSTER_PATH"] = "1"
    if shards:
        env["VERIF_SHARDS"] = str(shards)
    timeout = max(timeout, 900 + len(lines) // 150)      # the thorough enumerations are millions of lines; the machine may be shared
    obs, crashes, se = core.run_harness_resilient(binary, "exec", lines, timeout=timeout, env=env)
    d = core.run_driver(obs)
    return obs, d, crashes, se


def footprint_control(R, obs, label):
    """Negative control of the footprint clause (C05/C13 tie): in a sample of traced commands that locked something, the stripe table
    `kp=` is shifted by one, so the stripes of the model footprint's keys are no longer the stripes the implementation locked; the
    driver must object to every such line (at most one per program: the driver stops judging a program at its first mismatch)."""
    lines, n, taken, k = [], 0, False, 0
    for l in obs:
        if l.startswith("R"):
            taken, k = False, 0
        f = l.split(" ")
        evs = [x for x in f if x.startswith("ev=")]
        kps = [i for i, x in enumerate(f) if x.startswith("kp=") and x != "kp=-"]
        locked = bool(evs) and any(e.startswith(("L", "RL")) for e in evs[0][3:].split(","))
        if l.startswith("X ") and locked and kps and cmd_of(l) != "keys" and not taken and n < 400:
            k += 1
            if k % 3 == 0:
                i = kps[0]
                f[i] = "kp=" + ",".join(str(int(x) + 1) for x in f[i][3:].split(","))
                lines.append(" ".join(f))
                n += 1
                taken = True
                continue
        lines.append(l)
    if n == 0:
        return
    d = core.run_driver(lines)
    hit = sum(1 for m in d["mismatches"] if "footprint:" in m)
    ok = hit >= max(1, int(n * 0.9))
    R.oblige("negative control %s/footprint: the driver objects when the locked stripes are not the stripes of the model footprint "
             "(%d of %d shifted stripe tables reported)" % (label, hit, n), "control", ok, "driver reported %d of %d" % (hit, n))
    R.extra.setdefault("negative_control", {})[label + "/footprint"] = dict(damaged=n, reported=hit)
    if not ok:
        R.violation("negative-control-footprint-" + label.replace("/", "-"), dict(
            kind="tie-broken", summary="the Lean driver accepted %d of %d observation lines whose stripe table had been shifted: the footprint "
                                       "clause (locked stripes = stripes of Exec.lockPlan's keys) is not judging" % (n - hit, n),
            lines=lines[:50]), found_input=False)


def order_control(R, obs, label):
    """Negative control of the acquisition-order clause (C13 tie, Driver.checkLockOrder): in a sample of traced commands whose trace
    begins with CheckTTL's read-locked look (`RL<p>,get:ttl:<p>,RU<p>,`) followed by further lock scopes, that first scope is removed.
    The trace stays disciplined (TraceCheck.ok) and locks the same SET of stripes (checkFootprint's comparison is blind to it), but it is
    no longer a block sequence of the model's lock program: the driver must report every such line as a lock-order mismatch."""
    import re
    lines, n, taken, k = [], 0, False, 0
    for l in obs:
        if l.startswith("R"):
            taken, k = False, 0
        f = l.split(" ")
        evi = [i for i, x in enumerate(f) if x.startswith("ev=")]
        if l.startswith("X ") and evi and any(x.startswith("kp=") for x in f) and cmd_of(l) != "keys" and not taken and n < 400:
            m = re.match(r"ev=RL(\d+),get:ttl:\1,RU\1,(.*(?:^|,)R?L\d+.*)$", f[evi[0]])
            if m:
                k += 1
                if k % 3 == 0:
                    f[evi[0]] = "ev=" + m.group(2)
                    lines.append(" ".join(f))
                    n += 1
                    taken = True
                    continue
        lines.append(l)
    if n == 0:
        return
    d = core.run_driver(lines)
    hit = sum(1 for m in d["mismatches"] if "lock order:" in m)
    # not every damaged line is wrong: with colliding stripes "look, look, block" minus the first look reads as "look, delete, return",
    # which IS a run of the program (seen: 3-8 % of the sample) — hence the floor of three quarters
    ok = hit >= max(1, int(n * 0.75))
    R.oblige("negative control %s/lock-order: the driver objects when a lock scope is missing from the acquisition sequence although the set of "
             "locked stripes is unchanged (%d of %d reported)" % (label, hit, n), "control", ok, "driver reported %d of %d" % (hit, n))
    R.extra.setdefault("negative_control", {})[label + "/lock-order"] = dict(damaged=n, reported=hit)
    if not ok:
        R.violation("negative-control-lockorder-" + label.replace("/", "-"), dict(
            kind="tie-broken", summary="the Lean driver accepted %d of %d observation lines from which CheckTTL's lock scope had been removed: the "
                                       "acquisition-order clause (observed lock scopes = a run of Exec.lockProg) is not judging" % (n - hit, n),
            lines=lines[:50]), found_input=False)


def run_exec_suite(R, ctx, name, gens, nprog, corpus, what, keys=None, maxlen=40, extra_lines=None, events=False, shards=None,
                   cluster=False):
    R.rule = ("programs: 1-%d commands over a small colliding key alphabet (case variants, empty key, CR/LF and binary keys), generated from the "
              "command family's grammar with mostly-valid arguments plus arity/option damage; after every command the reply bytes and the dump of "
              "the touched keys (every 10th command and the last: the whole keyspace and its counter) are compared with the Lean model%s "
              "Covers: %s. A command is non-trivial when the model's reply is not an error; distinct = distinct command lines."
              % (maxlen, " and, with hook H2 recording, the lock scopes of the command (which stripes, in which order and mode, scope after scope) with the model's lock program Exec.lockProg (whose keys are Exec.lockPlan's)."
                 if events else ".", what))
    binary, err = core.build_harness()
    R.oblige("harness builds against /repo working tree (-tags verif)", "build", binary is not None, err or "")
    if binary is None:
        R.violation("harness-build", dict(kind="tie-broken", summary="harness does not build: " + (err or "")[-800:]), found_input=False)
        return
    rng = random.Random(R.seed * 104729 + sum(map(ord, name)))
    n = nprog[0] if R.tier == "quick" else nprog[1]
    lines = list(core.corpus(corpus))
    lines += execgen.programs(rng, n, gens, maxlen=maxlen, keys=keys or execgen.KEYS)
    if extra_lines:
        lines += extra_lines
    if shards:
        # the same programs under several stripe counts (colliding stripes); results concatenated
        obs, crashes, se, mism, unk, secs, pos_total = [], 0, "", [], [], 0.0, 0
        for sh in shards:
            o, dd, c, s_ = judge(binary, lines, events=events, shards=sh, cluster=cluster)
            off = len(obs)
            for m in dd["mismatches"]:
                f = m.split(" ", 2)
                mism.append("%s %d %s" % (f[0], int(f[1]) + off, f[2]))
            unk += dd["unknown"]
            obs += o
            crashes += c
            se = s_ or se
            secs += dd["seconds"]
            pos_total += int(dd["summary"].get("positive", 0))
        d = dict(mismatches=mism, unknown=unk, seconds=secs, summary=dict(positive=str(pos_total)))
    else:
        obs, d, crashes, se = judge(binary, lines, events=events, cluster=cluster)
    core.negative_control(R, obs[:60000], "exec/" + name, skip=lambda l: not l.startswith("X ") or " => " not in l, group=True)
    if events:
        footprint_control(R, obs[:60000], "exec/" + name)
        order_control(R, obs[:60000], "exec/" + name)
    dist = collections.Counter(cmd_of(l) for l in obs if l.startswith("X"))
    errs = sum(1 for l in obs if " => " in l and l.split(" => ")[1].split()[2:3] and l.split(" => ")[1].split()[2].startswith("2d"))
    distinct = len(set(l.split(" => ")[0].split(" ", 2)[2] for l in obs if l.startswith("X") and len(l.split(" => ")[0].split(" ", 2)) > 2))
    pos = int(d["summary"].get("positive", 0))
    R.add_cases(len(obs), min(pos, distinct), samples=[l[:300] for l in obs[1:4]] + [obs[-1][:300]])
    R.extra.setdefault("input_distribution", {})[name] = dict(programs=n, lines=len(obs), commands=dict(dist), error_replies=errs,
                                                               distinct_command_lines=distinct, model_non_error=pos, harness_crashes=crashes)
    ok = not d["mismatches"] and not d["unknown"] and crashes == 0
    R.oblige("correspondence exec/%s: implementation = Lean model on every reply and dumped key" % name, "correspondence", ok,
             "%d mismatches, %d crashes" % (len(d["mismatches"]), crashes))
    R.suites.append(dict(name=name, lines=len(obs), mismatches=len(d["mismatches"]), crashes=crashes, driver_s=round(d["seconds"], 1)))
    seen = set()
    for mm in d["mismatches"] + d["unknown"]:
        if len(seen) >= 3:
            break
        try:
            lineno = int(mm.split()[1])
        except Exception:
            lineno = None
        sig = cmd_of(mm.split(" :: ", 1)[1]) if " :: " in mm else mm[:40]
        if sig in seen:
            continue
        seen.add(sig)
        prog = program_of(obs, lineno) if lineno else []

        def still_fails(cand):
            o2, d2, c2, _ = judge(binary, cand, timeout=60, events=events, shards=(shards[0] if shards else None), cluster=cluster)
            return any(int(m.split()[1]) == len(cand) for m in d2["mismatches"] if m.split()[1].isdigit()) or c2 > 0
        if prog and len(prog) <= 60:
            try:
                prog = minimise(binary, prog, still_fails)
            except Exception:
                pass
        final = mm
        if prog:
            try:
                _o, _d, _c, _ = judge(binary, prog, timeout=60, events=events, shards=(shards[0] if shards else None), cluster=cluster)
                if _d["mismatches"]:
                    final = _d["mismatches"][-1]
            except Exception:
                pass
        readable = [" ".join(repr(core.unhx(a))[2:-1] for a in l.split()[2:]) if l.startswith("X") else l for l in prog]
        R.violation("%s-%s" % (name, sig), dict(
            kind="impl-violates-spec", engine="exec", summary=final[:500], first_seen=mm[:500], lines=prog, program=readable,
            env=({"VERIF_CLUSTER_PATH": "1"} if cluster else {}),
            explanation="the implementation's reply or resulting keyspace differs from the Lean model of the command reference on this program "
                        "(minimised); expected/got in the summary. PANIC/HANG/NIL mean the executor crashed, did not answer within 10 s, or returned no reply."))
    if ctx.broken and not d["mismatches"]:
        R.violation("proof-broken", dict(kind="proof-broken", broken=ctx.broken,
                                         summary="theorem(s) no longer check: " + ", ".join(t for t, _ in ctx.broken)), found_input=False)
