"""Engine `alias` (harness/alias.go): a reply held across a write.  The executors hand STORED byte slices to their replies and the
connection loop encodes a reply after the key's lock is gone; that is sound only while no command rewrites a stored slice in place (source
fact F7, Props/C01Alias.lean).  This is the sequential, deterministic test of exactly that hazard: per family, every reading command R x
every writing command W (same key and - for strings - a neighbouring key whose value was produced the same way), values created through
every creating path (the parser's buffer, a counter command's own output, APPEND's grown slice, ...), arguments chosen to change the length
of the value and to keep it.  R's reply OBJECT is kept unencoded, W runs, then the reply is encoded: it must equal the encoding taken at
once in a control run."""
import json
import os

from . import core


def _b(x):
    return x if isinstance(x, bytes) else str(x).encode()


def _hx(argv):
    return [(_b(a).hex() or "-") for a in argv]


def _sc(out, fam, setup, read, writes, unordered=False, random=False):
    out.append(dict(id="%s/%d" % (fam, len(out)), setup=[_hx(a) for a in setup], read=_hx(read), writes=[_hx(a) for a in writes],
                    unordered=unordered, random=random))


def show(argv_hex):
    def one(h):
        b = b"" if h == "-" else bytes.fromhex(h)
        s = b.decode("latin-1")
        return s if s and all(33 <= ord(c) < 127 and c != '"' for c in s) else json.dumps(s)
    return " ".join(one(h) for h in argv_hex)


# ------------------------------------------------------------------------------------------------------------------------------ strings
def _string_paths(k, v):
    """ways a string key comes to hold the text v (each leaves a differently owned / differently sized buffer behind the value)"""
    v = _b(v)
    ps = [("set", [[b"SET", k, v]]), ("mset", [[b"MSET", k, v]]), ("setnx", [[b"SETNX", k, v]]), ("setex", [[b"SETEX", k, b"1000", v]]),
          ("append-new", [[b"APPEND", k, v]]), ("setrange-new", [[b"SETRANGE", k, b"0", v]])]
    if len(v) >= 2:
        ps.append(("append-grown", [[b"SET", k, v[:1]], [b"APPEND", k, v[1:]]]))
        ps.append(("append-twice", [[b"APPEND", k, v[:1]], [b"APPEND", k, v[1:]]]))
        ps.append(("setrange-over", [[b"SET", k, b"#" * len(v)], [b"SETRANGE", k, b"0", v]]))
    try:
        n = int(v)
    except ValueError:
        n = None
    if n is not None and str(n).encode() == v:
        ps += [("incrby-new", [[b"INCRBY", k, b"%d" % n]]), ("decrby-new", [[b"DECRBY", k, b"%d" % -n]]),
               ("incr", [[b"SET", k, b"%d" % (n - 1)], [b"INCR", k]]), ("decr", [[b"SET", k, b"%d" % (n + 1)], [b"DECR", k]]),
               ("incrby", [[b"SET", k, b"%d" % (n - 7)], [b"INCRBY", k, b"7"]]), ("decrby", [[b"SET", k, b"%d" % (n + 7)], [b"DECRBY", k, b"7"]]),
               ("incrbyfloat", [[b"SET", k, b"%d" % (n - 1)], [b"INCRBYFLOAT", k, b"1"]])]
        if n == 1:
            ps.append(("incr-new", [[b"INCR", k]]))
        if n == -1:
            ps.append(("decr-new", [[b"DECR", k]]))
    return ps


def _string_writes(k, v, other):
    ln = len(_b(v))
    return [[[b"APPEND", k, b"9"]], [[b"APPEND", k, b"xyzw"]], [[b"APPEND", k, b"1"], [b"APPEND", k, b"2"]],
            [[b"SETRANGE", k, b"0", b"Z" * max(1, ln)]], [[b"SETRANGE", k, b"0", b"7"]], [[b"SETRANGE", k, b"%d" % max(0, ln - 1), b"QQ"]],
            [[b"SETRANGE", k, b"%d" % (ln + 2), b"t"]],
            [[b"SET", k, b"8" * max(1, ln)]], [[b"SET", k, b"55555"]], [[b"MSET", k, b"8" * max(1, ln)]], [[b"SETEX", k, b"1000", b"8" * max(1, ln)]],
            [[b"INCR", k]], [[b"DECR", k]], [[b"INCRBY", k, b"1"]], [[b"INCRBY", k, b"-90"]], [[b"INCRBY", k, b"901"]], [[b"DECRBY", k, b"1"]],
            [[b"INCRBYFLOAT", k, b"1"]], [[b"INCRBYFLOAT", k, b"0.5"]], [[b"INCR", k], [b"DECR", k]],
            [[b"DEL", k]], [[b"DEL", k], [b"SET", k, b"8" * max(1, ln)]], [[b"RENAME", k, other]], [[b"EXPIRE", k, b"-1"]]]


def string_scenarios():
    out = []
    for v in (b"9", b"99", b"100", b"-1", b"0", b"1", b"ab"):
        for pname, setup in _string_paths(b"a", v):
            for read in ([b"GET", b"a"], [b"MGET", b"a", b"nosuch"], [b"GETRANGE", b"a", b"0", b"-1"]):
                if read[0] != b"GET" and v in (b"-1", b"0", b"1"):
                    continue
                for w in _string_writes(b"a", v, b"b"):
                    _sc(out, "string", setup, read, w)
    # a NEIGHBOUR: two keys whose values were produced by the same path, with adjacent / equal numeric values (values cut from one shared
    # buffer or one shared table overlap in memory: a write through one key reaches the bytes behind the other: seeded change
    # C01-shared-small-ints-append) - the reply for b is held while a is written, and the other way round
    for n in (0, 1, 9, 10, 99, 999, 9998):
        for d in (1, 0, -1):
            m = n + d
            if m < 0:
                continue
            for (pn, sa), (_, sb) in zip(_string_paths(b"a", b"%d" % n), _string_paths(b"b", b"%d" % m)):
                if pn in ("mset", "setnx", "setex", "setrange-new", "append-twice", "setrange-over", "decrby-new", "decrby", "incrbyfloat"):
                    continue
                for w in ([[b"APPEND", b"a", b"9"]], [[b"APPEND", b"a", b"0000"]], [[b"SETRANGE", b"a", b"0", b"77777"]], [[b"INCR", b"a"]], [[b"INCRBY", b"a", b"990"]],
                          [[b"APPEND", b"a", b"5"], [b"INCR", b"c"], [b"INCRBY", b"c", b"%d" % max(0, m - 1)]]):
                    for read in ([b"GET", b"b"], [b"MGET", b"b", b"a"]):
                        _sc(out, "string", sa + sb, read, w)
    # one multi-key command storing several values cut from ONE request
    for w in ([[b"APPEND", b"a", b"9"]], [[b"APPEND", b"a", b"zzzzzzzzzz"]], [[b"SETRANGE", b"a", b"0", b"QQQQQQ"]], [[b"INCR", b"a"]]):
        _sc(out, "string", [[b"MSET", b"a", b"1", b"b", b"2", b"c", b"3"]], [b"MGET", b"a", b"b", b"c"], w)
        _sc(out, "string", [[b"MSET", b"a", b"1", b"b", b"2", b"c", b"3"]], [b"GET", b"b"], w)
    return out


# ------------------------------------------------------------------------------------------------------------------------------ hashes
def hash_scenarios():
    out = []
    k = b"h"
    for v in (b"9", b"99", b"100", b"-1", b"0", b"9.5", b"ab"):
        isint = v.lstrip(b"-").isdigit()
        paths = [[[b"HSET", k, b"f", v, b"g", b"7"]], [[b"HSETNX", k, b"f", v], [b"HSET", k, b"g", b"7"]],
                 [[b"HSET", k, b"g", b"7", b"f", b"#"], [b"HSET", k, b"f", v]]]
        if isint:
            paths += [[[b"HINCRBY", k, b"f", v], [b"HSET", k, b"g", b"7"]], [[b"HSET", k, b"f", b"%d" % (int(v) - 1), b"g", b"7"], [b"HINCRBY", k, b"f", b"1"]],
                      [[b"HSET", k, b"f", b"%d" % (int(v) + 1), b"g", b"7"], [b"HINCRBY", k, b"f", b"-1"]],
                      [[b"HSET", k, b"f", b"%d" % (int(v) - 1), b"g", b"7"], [b"HINCRBYFLOAT", k, b"f", b"1"]]]
        elif v == b"9.5":
            paths += [[[b"HINCRBYFLOAT", k, b"f", v], [b"HSET", k, b"g", b"7"]], [[b"HSET", k, b"f", b"9", b"g", b"7"], [b"HINCRBYFLOAT", k, b"f", b"0.5"]]]
        reads = [([b"HGET", k, b"f"], False, False), ([b"HMGET", k, b"f", b"nosuch", b"g"], False, False), ([b"HVALS", k], True, False),
                 ([b"HGETALL", k], True, False), ([b"HRANDFIELD", k, b"10", b"WITHVALUES"], True, False), ([b"HRANDFIELD", k, b"-4", b"WITHVALUES"], False, True),
                 ([b"HKEYS", k], True, False)]
        writes = [[[b"HINCRBY", k, b"f", b"1"]], [[b"HINCRBY", k, b"f", b"-1"]], [[b"HINCRBY", k, b"f", b"-90"]], [[b"HINCRBY", k, b"f", b"901"]],
                  [[b"HINCRBY", k, b"f", b"1"], [b"HINCRBY", k, b"f", b"-1"]], [[b"HINCRBYFLOAT", k, b"f", b"0.5"]], [[b"HINCRBYFLOAT", k, b"f", b"1"]],
                  [[b"HINCRBYFLOAT", k, b"f", b"-9"]], [[b"HSET", k, b"f", b"8" * len(v)]], [[b"HSET", k, b"f", b"55555"]], [[b"HSET", k, b"f", b""]],
                  [[b"HSETNX", k, b"f", b"zz"]], [[b"HDEL", k, b"f"]], [[b"HDEL", k, b"f"], [b"HSET", k, b"f", b"8" * len(v)]], [[b"HDEL", k, b"f", b"g"]],
                  [[b"DEL", k]], [[b"HINCRBY", k, b"g", b"3"]], [[b"HINCRBY", k, b"g", b"-8"]], [[b"HSET", k, b"new", b"1"]], [[b"RENAME", k, b"h2"]],
                  [[b"SET", k, b"str"]], [[b"EXPIRE", k, b"-1"]]]
        for setup in paths:
            for read, unordered, rnd in reads:
                for w in writes:
                    _sc(out, "hash", setup, read, w, unordered, rnd)
    return out


# ------------------------------------------------------------------------------------------------------------------------------ lists
def list_scenarios():
    out = []
    k = b"l"
    setups = [[[b"RPUSH", k, b"a", b"bb", b"ccc"]], [[b"LPUSH", k, b"ccc", b"bb", b"a"]], [[b"RPUSH", k, b"a"], [b"RPUSH", k, b"bb"], [b"LPUSH", k, b"0"]],
              [[b"RPUSH", k, b"x", b"y", b"z"], [b"LSET", k, b"0", b"a"], [b"LSET", k, b"-1", b"ccc"]], [[b"RPUSH", b"src", b"a", b"bb"], [b"LMOVE", b"src", k, b"LEFT", b"RIGHT"],
                                                                                                      [b"LMOVE", b"src", k, b"LEFT", b"RIGHT"]]]
    reads = [[b"LRANGE", k, b"0", b"-1"], [b"LRANGE", k, b"1", b"1"], [b"LINDEX", k, b"0"], [b"LINDEX", k, b"-1"], [b"LPOP", k], [b"RPOP", k],
             [b"LMOVE", k, k, b"LEFT", b"RIGHT"]]
    writes = [[[b"LSET", k, b"0", b"Z"]], [[b"LSET", k, b"0", b"ZZZZZ"]], [[b"LSET", k, b"-1", b"Q"]], [[b"LSET", k, b"1", b""]], [[b"LPUSH", k, b"n"]], [[b"RPUSH", k, b"n", b"m"]],
              [[b"LPOP", k]], [[b"RPOP", k]], [[b"LPOP", k], [b"LPUSH", k, b"Z"]], [[b"LREM", k, b"0", b"a"]], [[b"LREM", k, b"0", b"bb"]], [[b"LTRIM", k, b"1", b"-1"]],
              [[b"LTRIM", k, b"5", b"9"]], [[b"LMOVE", k, k, b"LEFT", b"RIGHT"]], [[b"LMOVE", k, b"dst", b"RIGHT", b"LEFT"]], [[b"DEL", k]], [[b"RPUSHX", k, b"x"]],
              [[b"LPUSHX", k, b"x"]], [[b"RENAME", k, b"l2"]], [[b"SET", k, b"str"]], [[b"LPOP", k], [b"LPOP", k], [b"LPOP", k], [b"RPUSH", k, b"Z", b"YY", b"XXX"]]]
    for s in setups:
        for r in reads:
            for w in writes:
                _sc(out, "list", s, r, w)
    return out


# ------------------------------------------------------------------------------------------------------------------------------ sets
def set_scenarios():
    out = []
    k, t = b"s", b"t"
    setups = [[[b"SADD", k, b"a", b"bb", b"ccc"], [b"SADD", t, b"bb", b"d"]], [[b"SADD", t, b"a", b"bb", b"d"], [b"SUNIONSTORE", k, t, t], [b"SADD", k, b"ccc"]],
              [[b"SADD", t, b"bb", b"d", b"a"], [b"SMOVE", t, k, b"a"], [b"SADD", k, b"bb"]]]
    reads = [([b"SMEMBERS", k], True, False), ([b"SRANDMEMBER", k, b"10"], True, False), ([b"SRANDMEMBER", k, b"-4"], False, True), ([b"SUNION", k, t], True, False),
             ([b"SINTER", k, t], True, False), ([b"SDIFF", k, t], True, False), ([b"SPOP", k], False, True), ([b"SRANDMEMBER", k], False, True)]
    writes = [[[b"SADD", k, b"z"]], [[b"SREM", k, b"a"]], [[b"SREM", k, b"a", b"bb", b"ccc"]], [[b"SPOP", k]], [[b"SMOVE", k, t, b"a"]], [[b"SMOVE", t, k, b"d"]],
              [[b"SUNIONSTORE", k, k, t]], [[b"SDIFFSTORE", k, t, k]], [[b"SINTERSTORE", k, k, t]], [[b"DEL", k]], [[b"RENAME", k, b"s2"]], [[b"SET", k, b"str"]],
              [[b"SREM", k, b"a"], [b"SADD", k, b"A"]]]
    for s in setups:
        for r, u, rnd in reads:
            for w in writes:
                _sc(out, "set", s, r, w, u, rnd)
    return out


# ------------------------------------------------------------------------------------------------------------------------------ sorted sets
def zset_scenarios():
    out = []
    k = b"z"
    setups = [[[b"ZADD", k, b"1", b"a", b"2", b"bb", b"3", b"ccc"]], [[b"ZADD", k, b"3", b"ccc"], [b"ZADD", k, b"1.5", b"a"], [b"ZADD", k, b"INCR", b"2", b"bb"]],
              [[b"ZADD", k, b"9", b"a", b"99", b"bb", b"100", b"ccc"]]]
    reads = [[b"ZRANGE", k, b"0", b"-1"], [b"ZRANGE", k, b"0", b"-1", b"WITHSCORES"], [b"ZRANGE", k, b"0", b"-1", b"REV", b"WITHSCORES"], [b"ZRANGE", k, b"1", b"1"],
             [b"ZRANK", k, b"bb"], [b"ZADD", k, b"INCR", b"1", b"a"]]
    writes = [[[b"ZADD", k, b"5", b"a"]], [[b"ZADD", k, b"INCR", b"1", b"a"]], [[b"ZADD", k, b"INCR", b"-100.5", b"bb"]], [[b"ZADD", k, b"0", b"n"]], [[b"ZREM", k, b"a"]],
              [[b"ZREM", k, b"a", b"bb", b"ccc"]], [[b"ZREM", k, b"a"], [b"ZADD", k, b"1", b"A"]], [[b"DEL", k]], [[b"RENAME", k, b"z2"]], [[b"SET", k, b"str"]],
              [[b"ZADD", k, b"XX", b"CH", b"10", b"a", b"20", b"bb"]], [[b"ZADD", k, b"2", b"a", b"1", b"bb"]]]
    for s in setups:
        for r in reads:
            for w in writes:
                _sc(out, "zset", s, r, w)
    return out


# ------------------------------------------------------------------------------------------------------------------------------ streams
def stream_scenarios():
    out = []
    k = b"x"
    setups = [[[b"XADD", k, b"1-1", b"f", b"v", b"g", b"ww"], [b"XADD", k, b"2-0", b"f", b"99"]], [[b"XADD", k, b"1-1", b"f", b"v"], [b"XADD", k, b"1-2", b"f", b"v"], [b"XADD", k, b"5-0", b"a", b"b"]],
              [[b"XADD", k, b"MAXLEN", b"2", b"1-1", b"f", b"v"], [b"XADD", k, b"MAXLEN", b"2", b"2-1", b"f", b"v2"], [b"XADD", k, b"MAXLEN", b"2", b"3-1", b"f", b"v3"]]]
    reads = [[b"XRANGE", k, b"-", b"+"], [b"XRANGE", k, b"-", b"+", b"COUNT", b"1"], [b"XRANGE", k, b"2", b"+"], [b"XRANGE", k, b"(1-1", b"+"], [b"XADD", k, b"7-7", b"p", b"q"]]
    writes = [[[b"XADD", k, b"9-1", b"f", b"NEW"]], [[b"XADD", k, b"9-1", b"f", b"NEW"], [b"XADD", k, b"9-2", b"h", b"i"]], [[b"XADD", k, b"MAXLEN", b"1", b"9-1", b"g", b"h"]],
              [[b"XADD", k, b"MAXLEN", b"0", b"9-1", b"g", b"h"]], [[b"XADD", k, b"MAXLEN", b"2", b"9-1", b"g", b"h"], [b"XADD", k, b"MAXLEN", b"2", b"9-2", b"g", b"h"]],
              [[b"DEL", k]], [[b"DEL", k], [b"XADD", k, b"1-1", b"f", b"Z", b"g", b"ZZ"]], [[b"RENAME", k, b"x2"]], [[b"SET", k, b"str"]], [[b"EXPIRE", k, b"-1"]]]
    for s in setups:
        for r in reads:
            for w in writes:
                _sc(out, "stream", s, r, w)
    return out


FAMILIES = {"string": string_scenarios, "hash": hash_scenarios, "list": list_scenarios, "set": set_scenarios, "zset": zset_scenarios, "stream": stream_scenarios}
# which family a source file of memdb belongs to (a broken F7 aims the probes at the family of the file that holds the new site)
FILE_FAMILY = {"string.go": "string", "hash.go": "hash", "hash_struct.go": "hash", "list.go": "list", "list_struct.go": "list", "sets.go": "set", "sets_struct.go": "set",
               "sorted_set.go": "zset", "sorted_set_struct.go": "zset", "btree.go": "zset", "stream.go": "stream", "stream_struct.go": "stream"}


def families_of_sites(rows):
    fams = []
    for r in rows:
        f = FILE_FAMILY.get(os.path.basename(r.get("file", "")))
        if f and f not in fams:
            fams.append(f)
    return fams or list(FAMILIES)


def describe(sc, v):
    dec = lambda h: bytes.fromhex(h).decode("latin-1") if h else ""
    return ("reply held across a write (engine alias): after [%s] the reply of `%s` was kept unencoded while `%s` ran; encoded afterwards it reads %s, encoded at once "
            "(control run) it reads %s%s — bytes of a stored value were rewritten in place under a reply that still refers to them (%s)" % (
                "; ".join(show(a) for a in sc["setup"]), show(sc["read"]), "; ".join(show(a) for a in sc["writes"]), json.dumps(dec(v.get("late", ""))),
                json.dumps(dec(v.get("ctrl", ""))), (", a new `%s` now answers %s" % (show(sc["read"]), json.dumps(dec(v["fresh"])))) if v.get("fresh") else "",
                v.get("which", "")))


def run_scenarios(scs, timeout=600):
    binary, err = core.build_harness()
    if binary is None:
        return None, err
    lines = [json.dumps(s, separators=(",", ":")) for s in scs]
    out, crashes, tail = core.run_harness_resilient(binary, "alias", lines, timeout=timeout, crash_mark="CRASH")
    res = []
    for s, l in zip(scs, out):
        if l.endswith(" CRASH"):
            res.append(dict(id=s["id"], result="panic", detail="the harness process died: " + tail[-300:]))
            continue
        try:
            res.append(json.loads(l))
        except Exception:
            res.append(dict(id=s["id"], result="bad-output", detail=l[:200]))
    return res, None


def run_alias(R, ctx, fams, label=None, aimed=False):
    """run the R x W pairs of the given families; every changed reply is a VIOLATION with its scenario as replay"""
    import time
    t0 = time.time()
    scs = []
    for f in fams:
        scs += FAMILIES[f]()
    res, err = run_scenarios(scs)
    name = label or "+".join(fams)
    if res is None:
        R.oblige("alias/%s: harness builds" % name, "build", False, (err or "")[-300:])
        return []
    bad = [(s, v) for s, v in zip(scs, res) if v.get("result") != "ok"]
    missing = len(scs) - len(res)
    R.add_cases(len(res), sum(1 for v in res if v.get("result") == "ok" and v.get("ctrl") not in (None, "", "4e494c")))
    R.suites.append(dict(name="alias/%s" % name, scenarios=len(scs), answered=len(res), changed=len(bad), seconds=round(time.time() - t0, 1)))
    R.oblige("alias/%s: %d scenarios (reading command x writing command x way the value was created): a reply object kept unencoded across the write "
             "encodes to the bytes it had when taken" % (name, len(scs)), "exploration", not bad and not missing,
             "%d replies changed, %d scenarios unanswered" % (len(bad), missing))
    seen = set()
    for s, v in bad:
        key = (s["read"][0], tuple(w[0] for w in s["writes"]), v.get("result"))
        if key in seen or len(seen) >= 3:
            continue
        seen.add(key)
        cmdname = bytes.fromhex(s["read"][0]).decode("latin-1").lower()
        wname = bytes.fromhex(s["writes"][0][0]).decode("latin-1").lower() if s["writes"] else "none"
        summary = describe(s, v) if v.get("result") == "changed" else "alias: %s in scenario [%s] / %s / [%s]: %s" % (
            v.get("result"), "; ".join(show(a) for a in s["setup"]), show(s["read"]), "; ".join(show(a) for a in s["writes"]), v.get("detail", ""))
        R.violation("alias-%s-%s-%s%s" % (s["id"].split("/")[0], cmdname, wname, "" if len(s["writes"]) < 2 else "-%d" % len(s["writes"])), dict(
            kind="impl-violates-spec", engine="alias", summary=summary, lines=[json.dumps(s, separators=(",", ":"))], verdict=v,
            explanation="the reply of a reading command refers to stored bytes; the connection encodes it after the key's lock is released, so a write that "
                        "lands in between (another client; in cluster mode the next applied entry) must not change those bytes: every write has to install a "
                        "fresh slice.  Deterministic: the reply object is simply encoded after the write instead of before."))
    if missing and not bad:
        R.violation("alias-%s-unanswered" % name, dict(kind="tie-broken", summary="alias engine answered %d of %d scenarios" % (len(res), len(scs))), found_input=False)
    return bad


def replay_alias(R, payload):
    scs = [json.loads(l) for l in payload.get("lines") or []]
    res, err = run_scenarios(scs)
    if res is None:
        print("harness does not build:", err)
        return 1
    bad = False
    for s, v in zip(scs, res):
        print("SCENARIO setup=[%s] read=`%s` writes=[%s]" % ("; ".join(show(a) for a in s["setup"]), show(s["read"]), "; ".join(show(a) for a in s["writes"])))
        print("VERDICT", json.dumps(v))
        if v.get("result") != "ok":
            bad = True
            if v.get("result") == "changed":
                print(describe(s, v))
    print("replay: %s" % ("still failing" if bad else "no longer failing"))
    return 1 if bad else 0



