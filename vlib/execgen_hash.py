"""Program generator for the hash family (C10): mostly-valid HSET/HGET/... programs over a small colliding field alphabet, with
empty / numeric / extreme / float / binary values, arity and option damage, keys of other types, long and already-passed deadlines."""
from .execgen import up, KEYS  # noqa: F401

FIELDS = [b"f1", b"f2", b"f3", b"F1", b"", b"a b", b"\r\n", b"\x00\xff", b"n", b"m", b"x" * 70]
VALS = [b"", b"", b"a", b"v1", b"Hello World", b"0", b"1", b"-1", b"10", b"+1", b"01", b"9223372036854775807", b"-9223372036854775808",
        b"9223372036854775806", b"-9223372036854775807", b"9223372036854775808", b"abc", b"\r\n", b"\x00\xff", b"3.5", b"0.25", b"-0.5",
        b"1e3", b"1e308", b"-1e308", b"inf", b"nan", b" 1", b"1 ", b"x" * 300, b"12", b"-0", b"5e-1", b".5", b"1."]
INTS = [b"0", b"1", b"-1", b"2", b"3", b"5", b"-2", b"-3", b"100", b"-100", b"9223372036854775807", b"-9223372036854775808",
        b"9223372036854775808", b"-9223372036854775809", b"x", b"", b"1.5", b"+2", b"4000000000", b" 1", b"9223372036854775806"]
FLOATS = [b"1.5", b"2", b"-0.25", b"x", b"1e2", b"0.5", b"", b"inf", b"-inf", b"nan", b"1e308", b"-1e308", b"0", b"3", b"-3.5",
          b"0.125", b"1e-3", b"+Inf", b"Infinity", b" 1", b"1,5"]
# |count| stays small where a reply of that size is expected; the extremes must be refused or answered at once
COUNTS = [b"0", b"1", b"2", b"3", b"5", b"-1", b"-2", b"-3", b"-5", b"10", b"-10", b"-100", b"1", b"-1", b"2", b"-2",
          b"4000000000", b"4611686018427387903", b"4611686018427387904", b"9223372036854775807", b"9223372036854775808",
          b"-9223372036854775808", b"-9223372036854775807", b"-2147483648", b"-4611686018427387904", b"x", b"", b"1.5", b"+2", b"-0"]
TTLS = [b"1000", b"100", b"-1", b"0", b"5000"]

CMDS = (["hset"] * 8 + ["hsetnx"] * 3 + ["hget"] * 4 + ["hmget"] * 3 + ["hgetall"] * 3 + ["hkeys", "hvals"] + ["hlen"] * 2 +
        ["hexists"] * 2 + ["hstrlen"] * 2 + ["hdel"] * 5 + ["hincrby"] * 4 + ["hincrbyfloat"] * 3 + ["hrandfield"] * 5 +
        ["set", "del", "expire", "expire", "ttl", "type", "exists", "persist", "get", "rename"])


def hash_cmd(rng, keys):
    k = rng.choice(keys)
    c = rng.choice(CMDS)
    f = rng.choice(FIELDS)
    v = rng.choice(VALS)
    ks = [k]
    if c == "hset":
        n = rng.choice([1, 1, 1, 2, 2, 3, 4])
        a = [k]
        for _ in range(n):
            a += [rng.choice(FIELDS[:4]) if rng.random() < 0.4 else rng.choice(FIELDS), rng.choice(VALS)]
        if rng.random() < 0.06:
            a = a[:-1]                       # odd number of field/value arguments
    elif c == "hsetnx":
        a = [k, f, v]
    elif c in ("hget", "hexists", "hstrlen"):
        a = [k, f]
    elif c == "hmget":
        a = [k] + [rng.choice(FIELDS) for _ in range(rng.randint(1, 4))]
    elif c in ("hgetall", "hkeys", "hvals", "hlen"):
        a = [k]
    elif c == "hdel":
        a = [k] + [rng.choice(FIELDS) for _ in range(rng.choice([1, 1, 2, 3, 6]))]
    elif c == "hincrby":
        a = [k, rng.choice([b"n", b"m", f]), rng.choice(INTS)]
    elif c == "hincrbyfloat":
        a = [k, rng.choice([b"n", b"m", f]), rng.choice(FLOATS)]
    elif c == "hrandfield":
        a = [k]
        r = rng.random()
        if r > 0.25:
            a.append(rng.choice(COUNTS))
            if r > 0.6:
                a.append(up(rng, rng.choice([b"withvalues", b"withvalues", b"withvalues", b"bogus", b""])))
    elif c == "set":
        a = [k, v]
    elif c in ("del", "ttl", "type", "exists", "persist", "get"):
        a = [k]
    elif c == "expire":
        a = [k, rng.choice(TTLS)]
    elif c == "rename":
        k2 = rng.choice(keys)
        ks = [k, k2]
        a = [k, k2]
    if rng.random() < 0.04:
        # arity damage
        a = a[:-1] if (a and rng.random() < 0.6) else a + [b"extra"]
    return [up(rng, c.encode())] + a, ks
