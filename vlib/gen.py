"""Seeded input generators shared by the property checks."""

BIN_ALPHABET = [b"", b"a", b"b", b"A", b"key", b"Key", b"0", b"1", b"-1", b"10", b"\r", b"\n", b"\r\n", b"\x00", b"\xff", b" ",
                b"a b", b"hello world", b"\r\nx\r\n", b"$3\r\nabc\r\n", b"*1\r\n", b"+OK", b"-ERR x", b":1", b"\xc3\x28", b"9223372036854775807"]


def bin_arg(rng, big=False):
    r = rng.random()
    if r < 0.7:
        return rng.choice(BIN_ALPHABET)
    if r < 0.9:
        return bytes(rng.randrange(256) for _ in range(rng.randint(1, 12)))
    if big and r < 0.93:
        n = rng.choice([4090, 4094, 4095, 4096, 4097, 5000, 9000, 10000])
        return bytes(rng.choice(b"ab\r\n\x00") for _ in range(n))
    return bytes(rng.choice(b"ab\r\n") for _ in range(rng.randint(1, 40)))


def enc_cmd(args):
    out = b"*%d\r\n" % len(args)
    for a in args:
        out += b"$%d\r\n%s\r\n" % (len(a), a)
    return out
