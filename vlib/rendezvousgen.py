"""Scenario generator for the `rendezvous` engine (C07 own_reply): client pipelines against the real HandleCluster, the harness as raft.

A scenario is a list of `RZ …` lines (see harness/rendezvous.go).  The generator keeps the little bookkeeping it needs to issue
valid commit items: which connection has a proposal outstanding (the head of its pipeline, after the commands the cluster filter
refuses, which are answered at once), and which log entries may be replayed (their id is not registered any more).

What makes the scenarios adversarial for the rendezvous on the proposal id:
  * 2-6 connections work on the SAME 3 keys with order-sensitive commands (INCR, APPEND, LPUSH/LPOP, SADD, GETs): a reply delivered to
    the wrong waiter, or computed at another log position, differs;
  * commits are delayed (a connection's proposal is left out for several rounds), reordered across connections (never in arrival
    order on purpose), cut into batches of random sizes, several batches back to back;
  * foreign entries (ids nobody registered here: other nodes' clients) and replays of earlier entries are mixed in, and they change
    the keys the local clients read;
  * clients pipeline: a connection's next proposal appears while the batch that answered it is still being applied;
  * commands the filter refuses (PUBLISH/SUBSCRIBE) sit inside pipelines: answered directly, in order, without a log entry.
Commands of different connections are pairwise distinct as byte strings (the harness attributes a proposal to a connection by its
argument vector); the command name's letter case supplies the variants."""
from . import core

KEYS = [b"k0", b"k1", b"k2", b"k3", b"k4"]
STR, LST, SET_, HSH = [b"k0", b"k1"], [b"k2"], [b"k3"], [b"k4"]


def _case(rng, name):
    return bytes(c ^ 0x20 if rng.random() < 0.5 else c for c in name)


def _cmd(rng):
    """mostly type-correct commands on few keys (two strings/counters, a list, a set, a hash), 12% aimed at a key of another type"""
    v = rng.choice([b"a", b"bb", b"7", b"-3", b"", b"x y", b"10"])
    fam = rng.choice(["s", "s", "s", "l", "l", "e", "h", "g"])
    def key(home):
        return rng.choice(KEYS) if rng.random() < 0.12 else rng.choice(home)
    if fam == "s":
        k = key(STR)
        return rng.choice([
            lambda: [b"SET", k, v], lambda: [b"GET", k], lambda: [b"GET", k], lambda: [b"APPEND", k, v], lambda: [b"INCR", k], lambda: [b"INCR", k],
            lambda: [b"DECR", k], lambda: [b"INCRBY", k, rng.choice([b"5", b"-2", b"x"])], lambda: [b"STRLEN", k], lambda: [b"SETNX", k, v],
            lambda: [b"SET", k, rng.choice([b"0", b"41", b"-9"])]])()
    if fam == "l":
        k = key(LST)
        return rng.choice([
            lambda: [b"LPUSH", k, v], lambda: [b"RPUSH", k, v, v + b"'"], lambda: [b"LPOP", k], lambda: [b"RPOP", k], lambda: [b"LLEN", k],
            lambda: [b"LRANGE", k, b"0", b"-1"], lambda: [b"LINDEX", k, rng.choice([b"0", b"-1", b"2"])]])()
    if fam == "e":
        k = key(SET_)
        return rng.choice([lambda: [b"SADD", k, v], lambda: [b"SREM", k, v], lambda: [b"SCARD", k], lambda: [b"SISMEMBER", k, v]])()
    if fam == "h":
        k = key(HSH)
        f = rng.choice([b"f", b"g"])
        return rng.choice([lambda: [b"HSET", k, f, v], lambda: [b"HGET", k, f], lambda: [b"HLEN", k], lambda: [b"HDEL", k, f],
                           lambda: [b"HINCRBY", k, f, rng.choice([b"1", b"-4"])]])()
    k = rng.choice(KEYS)
    return rng.choice([lambda: [b"DEL", k], lambda: [b"EXISTS", k], lambda: [b"TYPE", k], lambda: [b"MGET"] + STR, lambda: [b"NOSUCHCMD", k],
                       lambda: [b"GET"], lambda: [b"EXISTS"] + KEYS])()


def _refused(rng):
    return [rng.choice([b"PUBLISH", b"SUBSCRIBE", b"publish", b"Subscribe"]), rng.choice(KEYS), b"m"]


def tok(argv):
    return ":".join(core.hx(a) for a in argv)


class Scenario:
    def __init__(self, rng, nconn=None, steps=None, drain=None):
        self.rng = rng
        self.nconn = nconn or rng.randint(2, 6)
        self.steps = steps or rng.randint(12, 40)
        self.drain = (rng.random() < 0.8) if drain is None else drain
        self.lines = ["RZ new"]
        self.fifo = {c: [] for c in range(1, self.nconn + 1)}      # (argv, refused)
        self.inflight = {c: False for c in self.fifo}
        self.owner = {}                                            # argv tuple -> connection
        self.log = []                                              # True = replayable (id not registered after its line)
        self.nforeign = 0
        self.stats = dict(writes=0, commands=0, refused=0, commits=0, batches=0, local_entries=0, foreign_entries=0, replays=0,
                          delayed=0, reordered=0, pipelined=0)
        self.arrival = []                                          # connections in the order their proposals reached raft

    def fresh(self, c, refused):
        for _ in range(200):
            argv = _refused(self.rng) if refused else _cmd(self.rng)
            argv = [_case(self.rng, argv[0])] + argv[1:]
            t = tuple(argv)
            if self.owner.get(t, c) == c:
                self.owner[t] = c
                return argv
        # give up on variety: a unique value
        argv = [b"SET", self.rng.choice(KEYS), b"u%d" % len(self.owner)]
        self.owner[tuple(argv)] = c
        return argv

    def advance(self, c):
        while not self.inflight[c] and self.fifo[c]:
            argv, refused = self.fifo[c].pop(0)
            if not refused:
                self.inflight[c] = True
                self.arrival.append(c)

    def write(self):
        c = self.rng.randint(1, self.nconn)
        n = self.rng.choice([1, 1, 2, 3, 4])
        cmds = []
        for _ in range(n):
            refused = self.rng.random() < 0.08
            argv = self.fresh(c, refused)
            cmds.append(argv)
            self.fifo[c].append((argv, refused))
            self.stats["refused"] += refused
        if n > 1 or self.inflight[c]:
            self.stats["pipelined"] += 1
        self.stats["writes"] += 1
        self.stats["commands"] += n
        self.lines.append("RZ w %d %s" % (c, " ".join(tok(a) for a in cmds)))
        self.advance(c)

    def commit(self, everything=False):
        ready = [c for c in self.arrival if self.inflight[c]]
        if everything:
            chosen = list(ready)
        else:
            chosen = [c for c in ready if self.rng.random() < 0.6]
        if len(chosen) < len(ready):
            self.stats["delayed"] += 1
        order = list(chosen)
        self.rng.shuffle(order)
        if order != chosen:
            self.stats["reordered"] += 1
        items = ["c:%d" % c for c in order]
        # foreign entries and replays, anywhere in the batch
        for _ in range(self.rng.choice([0, 0, 1, 1, 2, 3])):
            self.nforeign += 1
            items.insert(self.rng.randint(0, len(items)), "f:n2-%d:%s" % (self.nforeign, tok(_cmd(self.rng))))
        if self.log and self.rng.random() < 0.15:
            items.insert(self.rng.randint(0, len(items)), "d:%d" % self.rng.randrange(len(self.log)))
        if not items:
            return
        # cut into batches
        out = []
        for i, it in enumerate(items):
            if i > 0 and self.rng.random() < 0.3:
                out.append("|")
                self.stats["batches"] += 1
            out.append(it)
        self.stats["batches"] += 1
        self.stats["commits"] += 1
        for it in items:
            self.log.append(True)
            if it.startswith("c:"):
                self.stats["local_entries"] += 1
            elif it.startswith("f:"):
                self.stats["foreign_entries"] += 1
            else:
                self.stats["replays"] += 1
        self.lines.append("RZ c " + " ".join(out))
        for c in order:
            self.inflight[c] = False
            self.arrival.remove(c)
        for c in order:
            self.advance(c)

    def build(self):
        for _ in range(self.steps):
            if self.rng.random() < 0.5:
                self.write()
            else:
                self.commit()
        if self.drain:
            guard = 0
            while any(self.inflight.values()) and guard < 200:
                self.commit(everything=self.rng.random() < 0.5)
                guard += 1
        self.lines.append("RZ end")
        return self.lines


def scenario(rng, **kw):
    s = Scenario(rng, **kw)
    return s.build(), s.stats


# ------------------------------------------------------------------------------------------ suite

def _judge(binary, lines, timeout=600):
    obs, se, rc = core.run_harness(binary, "rendezvous", lines, timeout=timeout)
    d = core.run_driver(obs, timeout=timeout)
    return obs, d, se, rc


def _real_mismatch(d):
    """a disagreement about the implementation (not a scenario made invalid by the minimiser)"""
    for m in d["mismatches"]:
        if not any(w in m for w in ("harness: x:nolabel", "generator:", "has no outstanding proposal", "not in the log", "bad ")):
            return m
    return None


def run_suite(R, ctx, binary, nscen):
    import collections
    import random
    rng = random.Random(R.seed * 6151 + 29)
    lines, starts, total = list(core.corpus("rendezvous")), [], collections.Counter()
    conns = collections.Counter()
    for _ in range(nscen):
        starts.append(len(lines))
        sc, st = scenario(rng)
        lines += sc
        total.update(st)
        conns[max(int(l.split()[2]) for l in sc if l.startswith("RZ w ")) if any(l.startswith("RZ w ") for l in sc) else 0] += 1
    obs, d, se, rc = _judge(binary, lines)
    if not any(" x:hang" in l for l in obs):   # after a hang the stream is cut short and the control's damaged lines would be judged on a broken world
        core.negative_control(R, obs, "rendezvous", skip=lambda l: not l.startswith("RZ c ") or " => " not in l)
    replies = sum(l.count(" r:") for l in obs)
    proposals = sum(l.count(" p:") for l in obs)
    hangs = sum(1 for l in obs if " x:" in l)
    pos = int(d["summary"].get("positive", 0) or 0)
    ok = rc == 0 and len(obs) == len(lines) and not d["mismatches"] and not d["unknown"]
    R.oblige("correspondence rendezvous: the real Manager.HandleCluster + handleClusterCommits (harness as raft: delayed, reordered, batched "
             "commits with foreign and replayed entries, pipelining clients) = Rendezvous.next with Exec.exec as the state machine: every "
             "proposal from an idle connection with its next command, every reply only after its entry was applied, byte for byte the "
             "reply the model delivered to that connection, no lost wake-up, callback map = waiting connections",
             "correspondence", ok, "%d scenarios, %d lines, %d replies compared, %d mismatches, %d unknown, harness rc=%d %s" % (
                 nscen, len(obs), replies, len(d["mismatches"]), len(d["unknown"]), rc, se[-200:]))
    R.add_cases(len(obs), pos, samples=[l[:300] for l in obs[1:4]])
    R.suites.append(dict(name="rendezvous", scenarios=nscen, lines=len(obs), replies_compared=replies, proposals=proposals,
                         lines_with_delivery=pos, harness_gave_up=hangs, mismatches=len(d["mismatches"]), driver_s=round(d["seconds"], 1)))
    R.extra.setdefault("input_distribution", {})["rendezvous"] = dict(scenarios=nscen, connections_per_scenario=dict(conns), **dict(total))
    hung = [i for i, l in enumerate(obs) if " x:hang" in l]
    if hung:
        # the engine ends a scenario at its first hang and stops after three: the observed stream is shorter than the input by design
        at = hung[0]
        start = max(i for i in range(at + 1) if obs[i].startswith("RZ new"))
        R.violation("rendezvous-hang-" + core.sha(" ".join(obs[start:at + 1])), dict(
            kind="impl-violates-spec", engine="rendezvous", lines=[l.split(" => ")[0] for l in obs[start:at + 1]], observed=obs[start:at + 1],
            summary="a reply or a proposal that is due never arrived (6 s): %s" % obs[at][:300],
            explanation="a command read from a connection got no reply (or its connection never proposed): the rendezvous between the apply loop and the "
                        "waiting connection lost a wake-up or delivered the result elsewhere"))
    elif len(obs) < len(lines):
        at = len(obs)
        start = max(i for i in range(at + 1) if lines[i] == "RZ new")
        R.violation("rendezvous-crash-" + core.sha(" ".join(lines[start:at + 1])), dict(
            kind="impl-violates-spec", engine="rendezvous", lines=lines[start:at + 1],
            summary="the process died while serving %r: %s" % (lines[at][:200], se[-600:]),
            explanation="HandleCluster / handleClusterCommits crashed the node (a fatal error in one goroutine ends the process)"))
        return False
    for mm in (d["mismatches"] + d["unknown"])[:1]:
        try:
            lineno = int(mm.split()[1])
        except Exception:
            lineno = len(lines)
        start = max(i for i in range(lineno) if lines[i] == "RZ new")
        prog = lines[start:lineno]
        if prog[-1] != "RZ end":
            prog = prog + ["RZ end"]
        budget = 80
        i = 1
        while i < len(prog) - 1 and budget > 0:
            cand = prog[:i] + prog[i + 1:]
            budget -= 1
            o2, d2, _, rc2 = _judge(binary, cand, timeout=120)
            if rc2 != 0 or len(o2) < len(cand) or _real_mismatch(d2):
                prog = cand
            else:
                i += 1
        R.violation("rendezvous-" + core.sha(" ".join(prog)), dict(
            kind="impl-violates-spec", engine="rendezvous", lines=prog, summary=mm[:500], session=readable(prog),
            explanation="what a client connection received in cluster mode differs from the rendezvous model for which own_reply is "
                        "proved (Props/C07Own.lean): a reply that is not the reply of the connection's own command at its log position, a "
                        "reply before the entry was applied, a missing reply, or a proposal out of turn"))
    if R.tier == "thorough":
        race_run(R, rng)
    return ok


def race_run(R, rng, nscen=1500):
    """the same engine built with -race: HandleCluster goroutines, the apply loop and the shared callback map under the race detector"""
    rbin, err = core.build_harness(race=True)
    if rbin is None:
        R.oblige("rendezvous under -race: harness builds", "build", False, (err or "")[-300:])
        return
    lines = []
    for _ in range(nscen):
        lines += scenario(rng)[0]
    obs, se, rc = core.run_harness(rbin, "rendezvous", lines, timeout=1800)
    d = core.run_driver(obs)
    ok = rc == 0 and "DATA RACE" not in se and len(obs) == len(lines) and not d["mismatches"] and not d["unknown"]
    R.oblige("rendezvous under the race detector: no data race between connection goroutines, apply loop and callback map; replies still agree",
             "exploration", ok, "%d scenarios, %d lines, rc=%d, %d mismatches %s" % (nscen, len(obs), rc, len(d["mismatches"]), se[-400:] if not ok else ""))
    R.suites.append(dict(name="rendezvous-race", scenarios=nscen, lines=len(obs), data_race="DATA RACE" in se, mismatches=len(d["mismatches"])))
    if not ok:
        R.violation("rendezvous-race", dict(kind="impl-violates-spec", engine="rendezvous", lines=lines[:200], args=None,
                                            summary="race detector / disagreement in the rendezvous engine under -race: " + se[-1500:]))


def readable(lines):
    out = []
    for l in lines:
        f = l.split()
        if len(f) >= 3 and f[1] == "w":
            out.append("w conn %s: %s" % (f[2], " ; ".join(" ".join(repr(core.unhx(a))[2:-1] for a in t.split(":")) for t in f[3:])))
        elif len(f) >= 2 and f[1] == "c":
            its = []
            for t in f[2:]:
                if t.startswith("f:"):
                    p = t.split(":")
                    its.append("foreign[%s] %s" % (p[1], " ".join(repr(core.unhx(a))[2:-1] for a in p[2:])))
                else:
                    its.append(t)
            out.append("commit " + ", ".join(its))
        else:
            out.append(l)
    return out
