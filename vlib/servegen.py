"""Session generator for the serve engine: several connections, pipelines, SELECT, Pub/Sub, protocol damage."""
from . import core, execgen, gen

SELECT_ARGS = [b"0", b"1", b"2", b"15", b"16", b"-1", b"x", b"", b"1 ", b"+1", b"01", b"99999999999999999999", b"3"]
CHANNELS = [b"ch1", b"ch2", b"", b"c\r\nh"]
DAMAGE = [b"\n", b"\r\n", b"$-2\r\n", b"*x\r\n", b"$abc\r\n", b":x\r\n", b"*1\r\n$3\r\nabcde\r\n", b"$1\r\nab\r\n", b"\x00\r\n", b"*-5\r\n"]
IGNORED = [b"+OK\r\n", b"PING\r\n", b":12\r\n", b"$3\r\nabc\r\n", b"$-1\r\n"]   # well-formed values that are not commands: no reply


def session(rng, crlf_payloads=True, pubsub=True, damage=True, nsteps=None, reconnect=False):
    """reconnect: a connection the server dropped (protocol damage) or the client closed is replaced by a NEW connection under a fresh id,
    so that later steps run on connections opened after other connections ended in every possible way"""
    ndb = rng.choice([1, 2, 16, 16])
    lines = ["S %d" % ndb]
    nconn = rng.randint(1, 4)
    alias = {i: i for i in range(1, nconn + 1)}
    next_id = [nconn + 10]

    def renew(c):
        if reconnect:
            alias[c] = next_id[0]
            next_id[0] += 1
    keys = rng.sample(execgen.KEYS, 3)
    subscribed = set()
    for _ in range(nsteps or rng.randint(3, 25)):
        slot = rng.randint(1, nconn)
        c = alias[slot]
        r = rng.random()
        if r < 0.04:
            lines.append("K %d" % c)
            renew(slot)
            continue
        if r < 0.12 and pubsub:
            lines.append("D %d" % c)
            continue
        damaged = False
        payload = b""
        published = False
        for _ in range(rng.randint(1, 5)):
            x = rng.random()
            if x < 0.45:
                argv, _ = execgen.string_cmd(rng, keys)
                if argv[0].lower() == b"incrbyfloat":
                    argv = [b"GET", argv[1] if len(argv) > 1 else b"k"]   # float arithmetic needs the exec engine's annotations
                payload += gen.enc_cmd(argv)
            elif x < 0.65:
                payload += gen.enc_cmd([execgen.up(rng, b"select"), rng.choice(SELECT_ARGS)] + ([b"extra"] if rng.random() < 0.05 else []))
            elif x < 0.75 and pubsub:
                chs = [rng.choice(CHANNELS) for _ in range(rng.randint(1, 2))]
                payload += gen.enc_cmd([b"subscribe"] + chs)
                subscribed.add(c)
            elif x < 0.9 and pubsub:
                payload += gen.enc_cmd([b"PUBLISH", rng.choice(CHANNELS), gen.bin_arg(rng)])
                published = True
            elif x < 0.93:
                payload += rng.choice(IGNORED)
            elif x < 0.96:
                payload += gen.enc_cmd([b"nosuch\r\ncmd", b"x"]) if rng.random() < 0.5 else b"*0\r\n"
            elif damage:
                payload += rng.choice(DAMAGE)
                payload += gen.enc_cmd([b"SET", b"after-error", b"1"])
                damaged = True
        lines.append("C %d %s" % (c, core.hx(payload)))
        if damaged:
            renew(slot)
        if published:
            for s in sorted(subscribed):
                lines.append("D %d" % s)
    for s in sorted(subscribed):
        lines.append("D %d" % s)
    # nothing of a malformed tail may have been executed
    lines.append("C %d %s" % (nconn + 5, core.hx(gen.enc_cmd([b"GET", b"after-error"]))))
    return lines


def parallel_session(rng):
    """Connections that each own their keys and are served at the same moment: large array replies (LRANGE/MGET/SMEMBERS on a one-member set) pipelined on 4-10 connections at once.  Key sets are disjoint, so every serial order produces the same reply bytes
    per connection — what each client must receive is exactly its own replies, whole and in order."""
    nconn = rng.randint(4, 10)
    lines = ["S 16"]
    own = {}
    setup = b""
    for c in range(1, nconn + 1):
        lk, zk, sk, k1, k2 = (b"%s:%d" % (t, c) for t in (b"l", b"z", b"s", b"a", b"b"))
        own[c] = (lk, zk, sk, k1, k2)
        n = rng.choice([3, 40, 150, 300])
        elems = [b"%d/%d/" % (c, i) + bytes([97 + (c + i) % 26]) * rng.choice([1, 30, 90, 200]) for i in range(n)]
        for i in range(0, n, 50):
            setup += gen.enc_cmd([b"RPUSH", lk] + elems[i:i + 50])
        # (no sorted sets: score parsing needs the exec engine's float annotations)
        setup += gen.enc_cmd([b"RPUSH", zk] + [b"m%d-%d" % (c, i) + b"z" * rng.choice([0, 50]) for i in range(rng.choice([2, 60]))])
        setup += gen.enc_cmd([b"SADD", sk, b"only-%d" % c])
        setup += gen.enc_cmd([b"MSET", k1, b"v%d" % c * 40, k2, b"w%d\r\n" % c * 10])
        if len(setup) > 60000:
            lines.append("C %d %s" % (nconn + 1, core.hx(setup)))
            setup = b""
    if setup:
        lines.append("C %d %s" % (nconn + 1, core.hx(setup)))
    for _ in range(rng.randint(2, 4)):
        items = []
        for c in range(1, nconn + 1):
            lk, zk, sk, k1, k2 = own[c]
            payload = b""
            for _ in range(rng.randint(4, 14)):
                x = rng.random()
                if x < 0.5:
                    payload += gen.enc_cmd([b"LRANGE", lk, b"0", rng.choice([b"-1", b"-1", b"10"])])
                elif x < 0.65:
                    payload += gen.enc_cmd([b"LRANGE", zk, rng.choice([b"0", b"1", b"-3"]), b"-1"])
                elif x < 0.75:
                    payload += gen.enc_cmd([b"MGET", k1, k2, b"missing:%d" % c, k1])
                elif x < 0.85:
                    payload += gen.enc_cmd([b"SMEMBERS", sk])
                elif x < 0.95:
                    payload += gen.enc_cmd([b"RPUSH", lk, b"more-%d" % c])
                else:
                    payload += gen.enc_cmd([b"GET", k2])
            items.append("%d:%s" % (c, core.hx(payload)))
        lines.append("PAR " + " ".join(items))
    return lines


def slow_reader_session(rng, ms):
    """a client that pipelines large replies and then does not read for `ms` milliseconds while the connection stays open: when it reads
    on, it must find every reply whole and in order (a server-side write timeout that gives up in the middle of a reply and serves on
    would splice the next reply into the truncated one)"""
    big = bytes(rng.choice(b"abcdefgh") for _ in range(64)) * rng.choice([4096, 16384])     # 256 KiB / 1 MiB
    lines = ["S 16", "C 1 %s" % core.hx(gen.enc_cmd([b"SET", b"big", big]) + gen.enc_cmd([b"RPUSH", b"bl"] + [b"e%03d" % i * 50 for i in range(300)]))]
    payload = gen.enc_cmd([b"GET", b"big"]) + gen.enc_cmd([b"PING"]) + gen.enc_cmd([b"LRANGE", b"bl", b"0", b"-1"]) + gen.enc_cmd([b"STRLEN", b"big"])
    lines.append("STALL 1 %d %s" % (ms, core.hx(payload)))
    lines.append("C 1 %s" % core.hx(gen.enc_cmd([b"GET", b"big"]) + gen.enc_cmd([b"PING"])))
    return lines


def parallel_select_session(rng):
    """every connection selects its own database again and again and works on the SAME key names as the others, all at the same moment:
    whatever another connection selects, a connection's commands run on the database it selected itself"""
    nconn = rng.randint(4, 10)
    lines = ["S 16"]
    for _ in range(rng.randint(2, 3)):
        items = []
        for c in range(1, nconn + 1):
            db = b"%d" % (c % 16)
            payload = b""
            for r in range(rng.randint(60, 200)):
                payload += gen.enc_cmd([b"SELECT", db])
                x = rng.random()
                if x < 0.5:
                    payload += gen.enc_cmd([b"SET", b"k", b"conn%d-%d" % (c, r)]) + gen.enc_cmd([b"GET", b"k"])
                elif x < 0.8:
                    payload += gen.enc_cmd([b"INCR", b"n"])
                else:
                    payload += gen.enc_cmd([b"APPEND", b"a", b"%d" % c]) + gen.enc_cmd([b"STRLEN", b"a"])
            items.append("%d:%s" % (c, core.hx(payload)))
        lines.append("PAR " + " ".join(items))
    # afterwards every database holds exactly what its own connection wrote
    for c in range(1, nconn + 1):
        lines.append("C %d %s" % (nconn + 20, core.hx(gen.enc_cmd([b"SELECT", b"%d" % (c % 16)]) + gen.enc_cmd([b"GET", b"k"]) + gen.enc_cmd([b"GET", b"n"]) + gen.enc_cmd([b"GET", b"a"]))))
    return lines


def select_sweep(ndb):
    """the argument space of SELECT, swept deterministically (added after the seeded change C20-select-single-digit-fastpath: a one-byte fast path
    that accepted the bytes following '9' as indexes 10-15): every one-byte argument, every two-digit argument, and the spellings strconv.Atoi
    accepts or refuses for its own reasons.  Before each probe the connection selects database 1 (0 when there is only one) and afterwards it writes the
    probe's text under one key: a SELECT that was wrongly accepted moves that write into another database, which the final read of every
    database shows; a wrongly refused one leaves it in the home database."""
    home = b"1" if ndb > 1 else b"0"
    args = [bytes([b]) for b in range(256)]
    args += [b"%d%d" % (a, b) for a in range(10) for b in range(10)]
    args += [b"+0", b"-0", b"+7", b"00", b"007", b"015", b"0x1", b"1e0", b"1.0", b" 1", b"1 ", b"1\n", b"\t1", b"1_0", b"1,0", b"", "٣".encode(), "１".encode(),
             b"16", b"17", b"255", b"256", b"65536", b"4294967296", b"4294967297", b"18446744073709551616", b"18446744073709551617",
             b"9223372036854775807", b"9223372036854775808", b"-9223372036854775808", b"-1", b"-16"]
    lines = ["S %d" % ndb]
    for i in range(0, len(args), 12):
        payload = b""
        for a in args[i:i + 12]:
            payload += gen.enc_cmd([b"SELECT", home]) + gen.enc_cmd([b"SELECT", a]) + gen.enc_cmd([b"SET", b"probe", a]) + gen.enc_cmd([b"GET", b"probe"])
        lines.append("C 1 %s" % core.hx(payload))
    payload = b""
    for db in range(ndb):
        payload += gen.enc_cmd([b"SELECT", b"%d" % db]) + gen.enc_cmd([b"GET", b"probe"])
    lines.append("C 2 %s" % core.hx(payload))
    return lines


def first_select_race(rng):
    """several connections select the SAME database for the first time in this server's life at the same moment (one PAR step per database index), each
    writes its own key there, and a late connection then reads every key from that database: a database is ONE keyspace whoever selected it first
    (added after the seeded change C20-lazy-db-first-select-race: databases built on first SELECT, the loser of the creation race kept a private instance)"""
    nconn = rng.randint(4, 8)
    lines = ["S 16"]
    order = list(range(1, 16))
    rng.shuffle(order)
    for db in order:
        items = []
        for c in range(1, nconn + 1):
            payload = gen.enc_cmd([b"SELECT", b"%d" % db]) + gen.enc_cmd([b"SET", b"own%d" % c, b"db%d-conn%d" % (db, c)]) + gen.enc_cmd([b"GET", b"own%d" % c])
            items.append("%d:%s" % (c, core.hx(payload)))
        lines.append("PAR " + " ".join(items))
    for db in order:
        payload = gen.enc_cmd([b"SELECT", b"%d" % db])
        for c in range(1, nconn + 1):
            payload += gen.enc_cmd([b"GET", b"own%d" % c])
        lines.append("C %d %s" % (nconn + 30, core.hx(payload)))
    # and every connection, re-selecting, still sees its own write
    for c in range(1, nconn + 1):
        db = order[c % len(order)]
        lines.append("C %d %s" % (c, core.hx(gen.enc_cmd([b"SELECT", b"%d" % db]) + gen.enc_cmd([b"GET", b"own%d" % c]))))
    return lines


def halfclose_session(rng):
    """pipelines of 50-400 commands written on a fresh TCP connection whose sending side is closed at once (as `printf ... | nc -N` does), the client reading to the
    end of the stream: every command written is executed and answered, in order; a second connection then reads the state (added after the seeded change
    C02-hangup-cancels-queued-commands: the end of the client's stream cancelled the handler while decoded commands were still queued)"""
    lines = ["S 16"]
    cid = 50
    for _ in range(rng.randint(2, 4)):
        n = rng.choice([50, 120, 300, 400])
        payload = b""
        for i in range(n):
            x = rng.random()
            if x < 0.6:
                payload += gen.enc_cmd([b"INCR", b"hc"])
            elif x < 0.8:
                payload += gen.enc_cmd([b"APPEND", b"hs", b"x"])
            elif x < 0.9:
                payload += gen.enc_cmd([b"SET", b"k%d" % (i % 7), gen.bin_arg(rng)])
            else:
                payload += gen.enc_cmd([b"RPUSH", b"hl", b"e%d" % i])
        cid += 1
        lines.append("HC %d %s" % (cid, core.hx(payload)))
        lines.append("C 1 %s" % core.hx(gen.enc_cmd([b"GET", b"hc"]) + gen.enc_cmd([b"STRLEN", b"hs"]) + gen.enc_cmd([b"LLEN", b"hl"])))
    return lines
