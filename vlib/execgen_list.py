"""Program generator for the list family (C09): LPUSH/RPUSH(X), LPOP/RPOP [count], LLEN, LINDEX, LRANGE, LSET, LREM, LTRIM,
LPOS RANK/COUNT/MAXLEN, LMOVE, BLPOP/BRPOP, mixed with SET (keys of another type), EXPIRE (long and already-passed deadlines),
TTL, TYPE, DEL, EXISTS.  Values come from three letters plus the empty string so duplicates abound; indexes and counts straddle
both ends of the short lists that result."""
from .execgen import up

VALS = [b"a", b"b", b"c", b"a", b"b", b"", b"0", b"-1", b"A"]
IDX = [b"0", b"1", b"-1", b"2", b"-2", b"3", b"-3", b"4", b"5", b"-5", b"7", b"-7", b"100", b"-100", b"9223372036854775807",
       b"-9223372036854775808", b"0", b"1", b"-1", b"2", b"-2"]
BADINT = [b"x", b"", b"1.5", b"9223372036854775808", b"-9223372036854775809", b"1 ", b"0x1"]
CNT = [b"0", b"1", b"2", b"3", b"5", b"100", b"1", b"2", b"9223372036854775807"]
DIRS = [b"left", b"right", b"LEFT", b"RIGHT", b"Left", b"left", b"right"]
# a blocking pop that finds nothing waits this long (kept short and rare: the run is sequential)
TIMEOUTS = [b"0.1", b"0.15", b"0.2", b"0.1", b"0.3", b"0.000000001", b"1e-10", b"5e-324", b"0.000000004", b"1e-7", b"0.0001"]
BADTIMEOUTS = [b"-1", b"x", b"", b"-0.5", b"1e400x", b"--1"]


def idx(rng):
    return rng.choice(BADINT) if rng.random() < 0.04 else rng.choice(IDX)


class ListGen:
    """one command per call; remembers a follow-up (a blocking pop with timeout 0 right after a push to one of its keys, which is
    therefore always answered at once) for the same program (identified by its key-list object)"""

    def __init__(self):
        self.pending = None

    def __call__(self, rng, keys):
        if self.pending is not None:
            pk, argv, ks = self.pending
            self.pending = None
            if pk is keys:
                return argv, ks
        return self.gen(rng, keys)

    def gen(self, rng, keys):
        k = rng.choice(keys)
        k2 = rng.choice(keys)
        c = rng.choice(["lpush", "rpush", "lpush", "rpush", "rpush", "lpushx", "rpushx", "lpop", "rpop", "lpop", "rpop", "llen", "lindex",
                        "lindex", "lrange", "lrange", "lrange", "lset", "lset", "lrem", "lrem", "lrem", "ltrim", "ltrim", "lpos", "lpos",
                        "lpos", "lmove", "lmove", "bpop", "bpop", "set", "expire", "ttl", "type", "del", "exists", "llen", "bpopwait"])
        ks = [k]
        if c in ("lpush", "rpush", "lpushx", "rpushx"):
            a = [k] + [rng.choice(VALS) for _ in range(rng.choice([1, 1, 2, 3, 4]))]
            if c in ("lpush", "rpush") and rng.random() < 0.15:
                # follow-up: blocking pop with timeout 0 on keys that include the one just pushed to
                bk = [k]
                if rng.random() < 0.4:
                    bk = [rng.choice(keys), k] if rng.random() < 0.6 else [k, rng.choice(keys)]
                bc = rng.choice([b"blpop", b"brpop"])
                self.pending = (keys, [up(rng, bc)] + bk + [rng.choice([b"0", b"0", b"0.0", b"1", b"0.5", b"100"])], list(bk))
        elif c in ("lpop", "rpop"):
            a = [k]
            r = rng.random()
            if r < 0.55:
                a.append(rng.choice(CNT))
            elif r < 0.62:
                a.append(rng.choice([b"-1", b"x", b"", b"-9223372036854775808", b"1.0"]))
        elif c == "llen":
            a = [k]
        elif c == "lindex":
            a = [k, idx(rng)]
        elif c in ("lrange", "ltrim"):
            a = [k, idx(rng), idx(rng)]
        elif c == "lset":
            a = [k, idx(rng), rng.choice(VALS)]
        elif c == "lrem":
            a = [k, rng.choice([b"0", b"1", b"-1", b"2", b"-2", b"3", b"-3", b"100", b"-100", b"9223372036854775807",
                                b"-9223372036854775808"]) if rng.random() > 0.04 else rng.choice(BADINT), rng.choice(VALS)]
        elif c == "lpos":
            a = [k, rng.choice(VALS)]
            for _ in range(rng.choice([0, 1, 1, 2, 2, 3, 4])):
                o = rng.choice([b"rank", b"count", b"maxlen", b"rank", b"count", b"maxlen", b"bogus"])
                a.append(up(rng, o))
                if rng.random() < 0.95:
                    if o == b"rank":
                        a.append(rng.choice([b"1", b"-1", b"2", b"-2", b"3", b"-3", b"0", b"100", b"-100", b"x", b"9223372036854775807"]))
                    elif o == b"count":
                        a.append(rng.choice([b"0", b"1", b"2", b"3", b"100", b"-1", b"x", b"0", b"2"]))
                    else:
                        a.append(rng.choice([b"0", b"1", b"2", b"3", b"4", b"100", b"-1", b"x", b"1", b"2"]))
        elif c == "lmove":
            ks = [k, k2]
            a = [k, k2, rng.choice(DIRS) if rng.random() > 0.05 else rng.choice([b"up", b"", b"l", b"leftt"]),
                 rng.choice(DIRS) if rng.random() > 0.05 else rng.choice([b"down", b"", b"r"])]
        elif c == "bpop":
            # invalid timeouts answer at once whatever the keyspace holds
            n = rng.choice([1, 1, 2, 3])
            ks = [rng.choice(keys) for _ in range(n)]
            a = list(ks) + [rng.choice(BADTIMEOUTS)]
            c = rng.choice(["blpop", "brpop"])
            if rng.random() < 0.15:
                a = a[:1]
        elif c == "bpopwait":
            # may have to wait for its (short) timeout; rare
            if rng.random() < 0.25:
                n = rng.choice([1, 1, 2, 3])
                ks = [rng.choice(keys) for _ in range(n)]
                a = list(ks) + [rng.choice(TIMEOUTS)]
                c = rng.choice(["blpop", "brpop"])
            else:
                c = "lrange"
                a = [k, b"0", b"-1"]
        elif c == "set":
            a = [k, rng.choice(VALS)]
        elif c == "expire":
            a = [k, rng.choice([b"1000", b"1000", b"-1", b"100", b"0"])]
        elif c in ("ttl", "type"):
            a = [k]
        elif c in ("del", "exists"):
            ks = [rng.choice(keys) for _ in range(rng.randint(1, 2))]
            a = list(ks)
        if c not in ("bpop", "bpopwait", "blpop", "brpop", "set", "expire", "del", "exists", "ttl", "type") and rng.random() < 0.04:
            # arity damage (never on a blocking pop: dropping its timeout would turn a key into the timeout)
            a = a[:-1] if (a and rng.random() < 0.6) else a + [b"extra"]
            if rng.random() < 0.2:
                a = []
            self.pending = None
        return [up(rng, c.encode())] + a, ks


def text_program(cmds):
    """helper for hand-written corpus programs: list of (argv as list of bytes/str, dump-spec keys) -> exec lines"""
    from .execgen import render
    lines = ["R"]
    for argv in cmds:
        argv = [x.encode() if isinstance(x, str) else x for x in argv]
        lines.append(render(argv, [], full=True))
    return lines


def small_scope(maxlen=4, lpos_len=6, span=6):
    """exhaustive small-scope programs: every list over {a, b} up to `maxlen` elements against every index pair / count in
    [-span, span] for LRANGE, LINDEX, LTRIM, LSET, LREM, LPOP/RPOP count, and (lists up to `lpos_len`) every LPOS option triple"""
    import itertools
    from .execgen import render
    k = b"k"
    rngi = [str(i).encode() for i in range(-span, span + 1)]
    lines = []
    for n in range(1, maxlen + 1):
        for t in itertools.product([b"a", b"b"], repeat=n):
            fill = [b"rpush", k] + list(t)
            lines.append("R")
            lines.append(render(fill, [k]))
            for s in rngi:
                lines.append(render([b"lindex", k, s], [k]))
                for e in rngi:
                    lines.append(render([b"lrange", k, s, e], [k]))
            for s in rngi:
                for e in rngi:
                    lines += [render([b"del", k], [k]), render(fill, [k]), render([b"ltrim", k, s, e], [k])]
                lines += [render([b"del", k], [k]), render(fill, [k]), render([b"lset", k, s, b"z"], [k])]
                for v in (b"a", b"b"):
                    lines += [render([b"del", k], [k]), render(fill, [k]), render([b"lrem", k, s, v], [k])]
                for c in (b"lpop", b"rpop"):
                    lines += [render([b"del", k], [k]), render(fill, [k]), render([c, k, s], [k])]
    for n in range(1, lpos_len + 1):
        for t in itertools.product([b"a", b"b"], repeat=n):
            lines.append("R")
            lines.append(render([b"rpush", k] + list(t), [k]))
            for rank in [None, 1, 2, 3, -1, -2, -3]:
                for count in [None, 0, 1, 2, 3]:
                    for ml in [None, 0, 1, 2, 3, 4, 5, 6, 7]:
                        a = [b"lpos", k, b"a"]
                        if rank is not None:
                            a += [b"rank", str(rank).encode()]
                        if count is not None:
                            a += [b"count", str(count).encode()]
                        if ml is not None:
                            a += [b"maxlen", str(ml).encode()]
                        lines.append(render(a, [k]))
    return lines


def long_list_programs(rng, n):
    """lists of 33-90 DISTINCT elements (every generator above keeps lists short): positional reads and writes (LINDEX / LSET / LRANGE windows / LPOS) at
    non-negative and negative positions near the tail, the head and the middle, interleaved with pops and pushes at both ends, LMOVE, LREM, LTRIM - a
    position cached by one command and used by a later one (seeded change C09-index-cursor-stale-after-rpop: LINDEX k <tail>; RPOP; RPUSH; LINDEX k <tail>)
    shows as a wrong element, since every element is different."""
    from . import execgen
    lines = []
    for p in range(n):
        k, k2 = b"long", b"long2"
        ln = rng.randint(33, 90)
        lines.append("R")
        lines.append(execgen.render([b"RPUSH", k] + [b"e%d" % i for i in range(ln)], [k]))
        fresh = 0
        last_pos = ln - 1
        for _ in range(rng.randint(12, 30)):
            c = rng.choice(["lindex", "lindex", "lindex", "lset", "lset", "rpop", "rpop", "lpop", "rpush", "rpush", "lpush", "lrange", "lmove", "lrem", "ltrim", "lpos", "llen", "again"])
            near = rng.choice([ln - 1, ln - 1, ln - 2, ln, ln + 1, ln + 2, 32, 33, 31, ln // 2, 0, 1, last_pos, last_pos, last_pos + 1])
            pos = near if rng.random() < 0.8 else -rng.choice([1, 2, 3, ln, ln + 1])
            if c in ("lindex", "again"):
                if c == "again":
                    pos = last_pos
                a = [b"LINDEX", k, b"%d" % pos]
                last_pos = pos if pos >= 0 else last_pos
            elif c == "lset":
                fresh += 1
                a = [b"LSET", k, b"%d" % pos, b"w%d" % fresh]
                last_pos = pos if pos >= 0 else last_pos
            elif c == "rpop":
                cnt = rng.choice([None, None, 1, 2, 3])
                a = [b"RPOP", k] + ([b"%d" % cnt] if cnt else [])
                ln = max(0, ln - (cnt or 1))
            elif c == "lpop":
                a = [b"LPOP", k]
                ln = max(0, ln - 1)
            elif c in ("rpush", "lpush"):
                m = rng.choice([1, 1, 2, 3])
                vals = []
                for _ in range(m):
                    fresh += 1
                    vals.append(b"f%d" % fresh)
                a = [b"RPUSH" if c == "rpush" else b"LPUSH", k] + vals
                ln += m
            elif c == "lrange":
                a = [b"LRANGE", k, b"%d" % max(0, pos - 2), b"%d" % (pos + 2)]
            elif c == "lmove":
                a = [b"LMOVE", k, rng.choice([k, k2]), rng.choice([b"RIGHT", b"LEFT"]), rng.choice([b"RIGHT", b"LEFT"])]
            elif c == "lrem":
                a = [b"LREM", k, rng.choice([b"0", b"1", b"-1"]), b"e%d" % rng.randint(0, 95)]
                ln = max(0, ln - 1)
            elif c == "ltrim":
                a = [b"LTRIM", k, rng.choice([b"0", b"1", b"2"]), b"%d" % rng.choice([-1, -2, ln - 2, ln + 5])]
            elif c == "lpos":
                a = [b"LPOS", k, b"e%d" % rng.randint(0, 95)]
            else:
                a = [b"LLEN", k]
            lines.append(execgen.render(a, [k, k2]))
        lines.append(execgen.render([b"LRANGE", k, b"0", b"-1"], [k, k2], full=True))
    return lines
