"""Runner for the concurrent engine (goroutines against one server.Manager; porcupine linearizability, lockset, watchdog, -race)."""
import collections
import json
import os

from . import core


def run_conc(R, ctx, name, scenarios, rounds, race=True, env_extra=None):
    binary, err = core.build_harness()
    R.oblige("harness builds against /repo working tree (-tags verif)", "build", binary is not None, err or "")
    if binary is None:
        R.violation("harness-build", dict(kind="tie-broken", summary="harness does not build: " + (err or "")[-800:]), found_input=False)
        return
    n = rounds[0] if R.tier == "quick" else rounds[1]
    bins = [("plain", binary)]
    if race:
        rb, rerr = core.build_harness(race=True)
        R.oblige("harness builds with the race detector (-race)", "build", rb is not None, (rerr or "")[-300:])
        if rb:
            bins.append(("race", rb))
    counts = collections.Counter()
    reports = []
    races = 0
    crashes = []
    for label, b in bins:
        env = core.goenv()
        env.update(env_extra or {})
        if label == "race":
            env["GORACE"] = "halt_on_error=0"
        rounds_here = n if label == "plain" else max(2, n // 3)
        rc, so, se, dt = core.run([b, "conc", str(R.seed * 31 + (7 if label == "race" else 0)), str(rounds_here), ",".join(scenarios)],
                                  env=env, timeout=1500)
        nrace = se.count("WARNING: DATA RACE")
        races += nrace
        for l in so.split("\n"):
            if not l.strip():
                continue
            try:
                r = json.loads(l)
            except Exception:
                continue
            r["build"] = label
            reports.append(r)
            counts[(r["scenario"], r["result"])] += 1
        if rc != 0:
            # the engine's process ended abnormally: a Go runtime fatal error (unlock of an unlocked mutex, concurrent map writes, out of memory) or a panic outside
            # any recover kills the whole process - in the server that is every client's connection.  rc 124 = the orchestrator's timeout.
            at = se.find("fatal error:")
            if at < 0:
                at = se.find("panic:")
            tail = se[at:][:2500] if at >= 0 else se[-1500:]
            done = [r["scenario"] for r in reports if r["build"] == label]
            crashes.append((label, rc))
            R.violation("%s-crash-%s" % (name, label), dict(kind="impl-violates-spec", engine="conc", summary=("the conc engine's process %s (rc %d) after %d reports (last finished scenario: %s): %s" % (
                "was killed at the time limit" if rc == 124 else "died", rc, len(done), done[-1] if done else "none", tail.split("\n\n")[0][:600])).replace("\n", " | "),
                stderr=tail, args=["conc", str(R.seed * 31 + (7 if label == "race" else 0)), str(rounds_here), ",".join(scenarios)],
                explanation="concurrent use crashed the process (or wedged it): in the server that ends every connection"))
        if nrace:
            first = se[se.find("WARNING: DATA RACE"):][:3000]
            R.violation("%s-race" % name, dict(kind="impl-violates-spec", engine="conc", summary="data race reported by the Go race detector (%d reports)" % nrace,
                                              race_report=first, args=["conc", str(R.seed), str(rounds_here), ",".join(scenarios)],
                                              explanation="two goroutines access the same memory without synchronisation while serving commands"))
        R.suites.append(dict(name="conc/%s/%s" % (name, label), reports=len([r for r in reports if r["build"] == label]), races=nrace, seconds=round(dt, 1)))
    ops = sum(r.get("ops", 0) for r in reports)
    nontriv = sum(1 for r in reports if r["result"] == "ok" and r.get("goroutines", 0) >= 2 and r.get("ops", 0) > 0)
    R.add_cases(ops, nontriv, samples=[{k: r[k] for k in ("scenario", "seed", "goroutines", "ops", "shards", "result", "build")} for r in reports[:4]])
    R.extra.setdefault("conc", {})[name] = dict(histories=len(reports), operations=ops, results={"%s/%s" % k: v for k, v in counts.items()}, race_reports=races)
    bad = [r for r in reports if r["result"] != "ok"]
    R.oblige("conc/%s: every history linearizable, lockset discipline kept, invariants hold at quiescence, nothing stuck, no data race" % name,
             "exploration", not bad and races == 0 and not crashes, "%d bad histories, %d race reports%s" % (len(bad), races, "; engine process died: %s" % crashes if crashes else ""))
    seen = set()
    for r in bad:
        key = (r["scenario"], r["result"])
        if key in seen or len(seen) >= 3:
            continue
        seen.add(key)
        R.violation("%s-%s-%s" % (name, r["scenario"], r["result"]), dict(
            kind="impl-violates-spec", engine="conc", summary="%s: %s: %s" % (r["scenario"], r["result"], r.get("detail", "")[:300]),
            report=r, args=["conc", str(r["seed"]), "1", r["scenario"]],
            explanation="concurrent history that no sequential order explains (not-linearizable), an access outside its stripe lock (lockset), "
                        "a broken invariant at quiescence, or a command that never returned (stuck = deadlock)"))
    return reports


def replay_conc(R, payload):
    binary, err = core.build_harness()
    if not binary:
        print(err)
        return 1
    rc, so, se, dt = core.run([binary] + payload["args"], env=core.goenv(), timeout=600)
    print(so[-3000:])
    bad = any('"result":"ok"' not in l for l in so.split("\n") if l.strip())
    print("replay: %s (concurrent schedules are not deterministic: a passing replay does not prove absence)" % ("still failing" if bad else "not reproduced"))
    return 1 if bad else 0
