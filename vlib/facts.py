"""Facts regenerated from /repo's SOURCE on every run (harness `facts` engine: go/parser + go/ast) and checked against the model:
F1 (registered commands) is written to lean/RedisGoModel/Generated/Commands.lean and a `decide`d Lean theorem (Props/C04.lean) requires
every registered command to be one the model knows; F3 (index / slice / assertion / make / division sites with the minimum length the
dominating guards guarantee, harness/sites.go) is written to Generated/Sites.lean and closed by Props/C04Sites.lean; F4 is also written to
Generated/ReadyArm.lean and `ReadyLoop.C08Ready.arm_is_source_arm` (Props/C08Ready.lean) requires it to be the arm of the loop model;
F2 (CheckTTL/lock skeleton per executor; ALSO written to Generated/Skeletons.lean and closed by Props/FactsF2.lean), F4 (order of the Ready arm) and F5 (raft
Config literals) are compared with the committed expectations in /verif/expectations/facts.json."""
import collections
import json
import os
import re

from . import core

GEN = os.path.join(core.LEAN, "RedisGoModel", "Generated", "Commands.lean")
GEN_SKEL = os.path.join(core.LEAN, "RedisGoModel", "Generated", "Skeletons.lean")
GEN_REPLY = os.path.join(core.LEAN, "RedisGoModel", "Generated", "ReplySites.lean")
REPLY_PROP = os.path.join(core.LEAN, "RedisGoModel", "Props", "C03Sites.lean")
GEN_SITES = os.path.join(core.LEAN, "RedisGoModel", "Generated", "Sites.lean")
SITES_PROP = os.path.join(core.LEAN, "RedisGoModel", "Props", "C04Sites.lean")
GEN_ALIAS = os.path.join(core.LEAN, "RedisGoModel", "Generated", "AliasSites.lean")
ALIAS_PROP = os.path.join(core.LEAN, "RedisGoModel", "Props", "C01Alias.lean")
GEN_ARM = os.path.join(core.LEAN, "RedisGoModel", "Generated", "ReadyArm.lean")
EXPECT = os.path.join(core.VERIF, "expectations", "facts.json")
# which properties lean on which fact
USERS = {"F1": ["C04"], "F3": ["C04"], "F6": ["C03"], "F7": ["C01", "C10", "C03"], "F2": ["C05", "C06", "C13"], "F4": ["C08"], "F5": ["C15"]}
_cache = {}


def extract():
    if "facts" in _cache:
        return _cache["facts"]
    binary, err = core.build_harness()
    if binary is None:
        return None
    rc, so, se, dt = core.run([binary, "facts", core.REPO], env=core.goenv(), timeout=120)
    try:
        facts = json.loads(so)
    except Exception:
        facts = None
    _cache["facts"] = facts
    return facts


def write_generated(facts):
    names = sorted(facts["commands"])
    src = ("/-! GENERATED on every check run from /repo/memdb/*.go (RegisterCommand calls) — do not edit. -/\n"
           "namespace Generated\n\n/-- fact F1: the command names the server registers -/\n"
           "def commands : List String := [" + ", ".join('"%s"' % n for n in names) + "]\n\nend Generated\n")
    old = open(GEN).read() if os.path.exists(GEN) else None
    if old != src:
        os.makedirs(os.path.dirname(GEN), exist_ok=True)
        open(GEN, "w").write(src)
    # fact F4 for the loop model: Props/C08Ready.lean proves `ReadyLoop.armOrder = Generated.readyArm` by `decide` on every run, so the
    # theorems about the model's arm are theorems about the arm in the source (a reordered / dropped call breaks that proof)
    arm = facts.get("ready_arm") or []
    src = ("/-! GENERATED on every check run from /repo/raftexample/raft.go (calls of serveChannels' Ready arm, go/ast) — do not edit. -/\n"
           "namespace Generated\n\n/-- fact F4: the calls of the Ready arm in source order -/\n"
           "def readyArm : List String := [" + ", ".join('"%s"' % n for n in arm) + "]\n\nend Generated\n")
    old = open(GEN_ARM).read() if os.path.exists(GEN_ARM) else None
    if old != src:
        open(GEN_ARM, "w").write(src)


def _lstr(x):
    return '"' + x.replace("\\", "\\\\").replace('"', '\\"') + '"'


def _llist(rows, per=1):
    if not rows:
        return "[]"
    return "[\n  " + ",\n  ".join(rows) + "]"


def site_lists(facts):
    """the five lists of Generated/Sites.lean, as Python data (sorted; the dynamic list carries NO line numbers)"""
    sites = facts.get("sites") or []
    const = sorted((s["file"], s["func"], s["line"], s["needed"], s["minlen"]) for s in sites if s["class"] == "const")
    rel = sorted((s["file"], s["func"], s["line"], s["needed"], s["minlen"]) for s in sites if s["class"] == "rel")
    dyn = sorted((s["file"], s["func"], s["kind"] + " " + s["text"]) for s in sites if s["class"] == "dynamic")
    calls = sorted((c["file"], c["func"], c["line"], c["minlen"]) for c in facts.get("exec_calls") or [])
    return const, rel, dyn, calls


def nil_lists(facts):
    """fact F3, second part: (guarded, unguarded) non-`,ok` assertions and dereferences of possibly-nil lookup results — no line numbers"""
    ns = facts.get("nil_sites") or []
    row = lambda n: (n["file"], n["func"], n["kind"] + " " + n["text"] + ((" <- " + n["from"]) if n.get("from") else ""))
    return sorted(row(n) for n in ns if n["class"] == "guarded"), sorted(row(n) for n in ns if n["class"] != "guarded")


def write_sites(facts):
    const, rel, dyn, calls = site_lists(facts)
    nil_g, nil_u = nil_lists(facts)
    q5 = lambda r: "(%s, %s, %d, %d, %d)" % (_lstr(r[0]), _lstr(r[1]), r[2], r[3], r[4])
    src = ("/-! GENERATED on every check run from /repo's source by the harness `facts` engine (harness/sites.go) — do not edit.\n"
           "Fact F3: the panic-capable expressions of memdb, server, resp, util, raftexample with what the dominating guards guarantee. -/\n"
           "namespace Generated\n\n"
           "/-- `x[c]`, `x[len(x)-k]`, `x[a:b]`, `… / len(x)` on a local `x`: (file, function, line, length the access needs, minimum `len(x)`\n"
           "    guaranteed at that point by the guards every path to it has passed) -/\n"
           "def constSites : List (String × String × Nat × Nat × Nat) := " + _llist([q5(r) for r in const]) + "\n\n"
           "/-- `x[v+d]`, `x[v+d:]` … with an integer local `v ≥ -d`: (file, function, line, d+1, c) where the guards give `len(x) ≥ v + c` -/\n"
           "def relSites : List (String × String × Nat × Nat × Nat) := " + _llist([q5(r) for r in rel]) + "\n\n"
           "/-- what the analysis of a registered executor assumes about `len(cmd)` on entry -/\n"
           "def executorEntryMin : Nat := %d\n\n" % int(facts.get("exec_entry_min") or 0) +
           "/-- every call of a registered executor (through the command table or by name): (file, function, line, guaranteed `len` of the command passed) -/\n"
           "def executorCalls : List (String × String × Nat × Nat) := " +
           _llist(["(%s, %s, %d, %d)" % (_lstr(r[0]), _lstr(r[1]), r[2], r[3]) for r in calls]) + "\n\n"
           "/-- sites for which no bound could be established: (file, function, kind and normalised source text) — no line numbers -/\n"
           "def dynamicSites : List (String × String × String) := " +
           _llist(["(%s, %s, %s)" % (_lstr(r[0]), _lstr(r[1]), _lstr(r[2])) for r in dyn]) + "\n\n"
           "/-- type assertions without `, ok` and dereferences (`p.f`, `*p`, `p.m()`) of a local assigned from a call of a function that can return\n"
           "    nil, where the value is known present on every path (its `ok` flag was tested true, or `p != nil`): (file, function, kind text <- callee) -/\n"
           "def nilGuardedSites : List (String × String × String) := " +
           _llist(["(%s, %s, %s)" % (_lstr(r[0]), _lstr(r[1]), _lstr(r[2])) for r in nil_g]) + "\n\n"
           "/-- … and those with no such guard -/\n"
           "def nilUnguardedSites : List (String × String × String) := " +
           _llist(["(%s, %s, %s)" % (_lstr(r[0]), _lstr(r[1]), _lstr(r[2])) for r in nil_u]) + "\n\nend Generated\n")
    old = open(GEN_SITES).read() if os.path.exists(GEN_SITES) else None
    if old != src:
        os.makedirs(os.path.dirname(GEN_SITES), exist_ok=True)
        open(GEN_SITES, "w").write(src)


def expected_dynamic():
    """the reviewed list of Props/C04Sites.lean (for the diagnostics only: the verdict is Lean's `Sites.dynamic_inventory`)"""
    try:
        src = open(SITES_PROP).read()
    except OSError:
        return None
    m = re.search(r"def expectedDynamic[^\n]*:= \[\n(.*?)\n\]|def expectedDynamic[^\n]*:= \[\n(.*?)\]\n", src, re.S)
    if not m:
        return None
    body = m.group(1) or m.group(2)
    un = lambda x: x.replace('\\"', '"').replace("\\\\", "\\")
    return [tuple(un(g) for g in t) for t in re.findall(r'^\s*\("((?:[^"\\]|\\.)*)", "((?:[^"\\]|\\.)*)", "((?:[^"\\]|\\.)*)"\)', body, re.M)]


def check_sites(facts):
    """what Lean will say about Generated/Sites.lean, with the offending sites named: returns (ok, [messages], structured)"""
    msgs, broken = [], dict(const=[], rel=[], calls=[], new_dynamic=[], gone_dynamic=[])
    if facts.get("sites") is None:
        return False, ["site extraction failed: %s" % facts.get("sites_error", "no sites in the extractor's output")], broken
    for s in facts["sites"]:
        if s["class"] in ("const", "rel") and s["needed"] > s["minlen"]:
            broken[s["class"]].append(s)
            msgs.append("%s %s line %d: `%s` needs %s%d element(s), the guards before it guarantee only %d (Sites.%s_sites_safe)" % (
                s["file"], s["func"], s["line"], s["text"], (s.get("base", "") + "+") if s["class"] == "rel" else "", s["needed"], s["minlen"], s["class"]))
    emin = int(facts.get("exec_entry_min") or 0)
    for c in facts.get("exec_calls") or []:
        if c["minlen"] < emin:
            broken["calls"].append(c)
            msgs.append("%s %s line %d: `%s` may pass a command shorter than %d word(s) to an executor (Sites.executor_entry_safe)" % (
                c["file"], c["func"], c["line"], c["text"], emin))
    expn = _expected_list(SITES_PROP, "expectedNilUnguarded")
    if expn is not None:
        have, want = collections.Counter(nil_lists(facts)[1]), collections.Counter(expn)
        for row, n in sorted((have - want).items()):
            broken["new_dynamic"].append(dict(file=row[0], func=row[1], text=row[2], lines=[]))
            msgs.append("%s %s: `%s` asserts / dereferences a value that may be absent or nil with no `, ok` / `!= nil` test on every path before it, and is not "
                        "in the reviewed inventory (Sites.nil_unguarded_inventory)" % row)
        for row, n in sorted((want - have).items()):
            broken["gone_dynamic"].append(dict(file=row[0], func=row[1], text=row[2]))
            msgs.append("%s %s: reviewed site `%s` is no longer unguarded in the source (Sites.nil_unguarded_inventory; remove it from expectedNilUnguarded)" % row)
    exp = expected_dynamic()
    if exp is not None:
        have = collections.Counter(site_lists(facts)[2])
        want = collections.Counter(exp)
        byrow = collections.defaultdict(list)
        for s in facts["sites"]:
            if s["class"] == "dynamic":
                byrow[(s["file"], s["func"], s["kind"] + " " + s["text"])].append(s)
        for row, n in sorted((have - want).items()):
            lines = [str(x["line"]) for x in byrow.get(row, [])]
            broken["new_dynamic"].append(dict(file=row[0], func=row[1], text=row[2], lines=lines))
            msgs.append("%s %s (line %s): `%s` has no length guard the extractor can establish and is not in the reviewed inventory "
                        "(Sites.dynamic_inventory)" % (row[0], row[1], "/".join(lines), row[2]))
        for row, n in sorted((want - have).items()):
            broken["gone_dynamic"].append(dict(file=row[0], func=row[1], text=row[2]))
            msgs.append("%s %s: reviewed site `%s` is no longer in the source (Sites.dynamic_inventory; remove it from expectedDynamic)" % row)
    return not msgs, msgs, broken


def reply_lists(facts):
    """fact F6: (non-literal line-reply sites, the client-derived ones among them, the ones tainted only through an error value)"""
    rs = facts.get("reply_sites") or []
    row = lambda r: (r["file"], r["func"], r["text"])
    return sorted(row(r) for r in rs), sorted(row(r) for r in rs if r["client"]), sorted(row(r) for r in rs if r.get("via_err"))


def write_reply_sites(facts):
    nonlit, client, viaerr = reply_lists(facts)
    q3 = lambda r: "(%s, %s, %s)" % (_lstr(r[0]), _lstr(r[1]), _lstr(r[2]))
    src = ("/-! GENERATED on every check run from /repo's source by the harness `facts` engine (harness/sites.go) — do not edit.\n"
           "Fact F6: calls of the constructors whose payload goes out as a LINE (resp.MakeStringData, MakeErrorData, MakeWrongNumberArgs,\n"
           "MakePlainData, and StringData/ErrorData/PlainData literals) in memdb, server, resp, util, raftexample. -/\n"
           "namespace Generated\n\n"
           "/-- how many such calls have a compile-time constant payload -/\n"
           "def literalLineReplies : Nat := %d\n\n" % int(facts.get("reply_literal") or 0) +
           "/-- the calls whose payload is NOT a compile-time constant: (file, function, normalised source text) — no line numbers -/\n"
           "def nonLiteralLineReplies : List (String × String × String) := " + _llist([q3(r) for r in nonlit]) + "\n\n"
           "/-- … those among them whose payload is derived from the command words (cmd[i], string(cmd[i]), strings.ToLower(…), concatenation,\n"
           "    fmt.Sprintf, locals assigned from these) -/\n"
           "def clientDerivedLineReplies : List (String × String × String) := " + _llist([q3(r) for r in client]) + "\n\n"
           "/-- … those that mention an error VALUE returned by a call that received command words, where the callee is not shown to return\n"
           "    only errors with constant texts -/\n"
           "def errorDerivedLineReplies : List (String × String × String) := " + _llist([q3(r) for r in viaerr]) + "\n\nend Generated\n")
    old = open(GEN_REPLY).read() if os.path.exists(GEN_REPLY) else None
    if old != src:
        os.makedirs(os.path.dirname(GEN_REPLY), exist_ok=True)
        open(GEN_REPLY, "w").write(src)


def _expected_list(path, name):
    try:
        src = open(path).read()
    except OSError:
        return None
    m = re.search(r"def %s[^\n]*:= \[\n(.*?)\]\n" % name, src, re.S)
    if not m:
        return None
    un = lambda x: x.replace('\\"', '"').replace("\\\\", "\\")
    return [tuple(un(g) for g in t) for t in re.findall(r'^\s*\("((?:[^"\\]|\\.)*)", "((?:[^"\\]|\\.)*)", "((?:[^"\\]|\\.)*)"\)', m.group(1), re.M)]


def check_replies(facts):
    """what Lean will say about Generated/ReplySites.lean, with the offending calls named: (ok, [messages], structured)"""
    msgs, broken = [], dict(client=[], new=[], gone=[])
    if facts.get("reply_sites") is None:
        return False, ["reply-site extraction failed: %s" % facts.get("sites_error", "no reply_sites in the extractor's output")], broken
    lines = collections.defaultdict(list)
    for r in facts["reply_sites"]:
        lines[(r["file"], r["func"], r["text"])].append(str(r["line"]))
        if r["client"]:
            broken["client"].append(r)
            msgs.append("%s %s line %d: `%s` puts bytes of the command words into a line reply (simple string / error): an argument containing CR LF "
                        "breaks the framing (ReplySites.no_client_bytes_in_line_replies)" % (r["file"], r["func"], r["line"], r["text"]))
    exp = _expected_list(REPLY_PROP, "expectedNonLiteral")
    if exp is not None:
        have, want = collections.Counter(reply_lists(facts)[0]), collections.Counter(exp)
        for row, n in sorted((have - want).items()):
            if any(r["client"] and (r["file"], r["func"], r["text"]) == row for r in facts["reply_sites"]):
                continue
            broken["new"].append(dict(file=row[0], func=row[1], text=row[2]))
            msgs.append("%s %s (line %s): `%s` builds a line reply from a non-constant payload and is not in the reviewed inventory "
                        "(ReplySites.inventory)" % (row[0], row[1], "/".join(lines[row]), row[2]))
        for row, n in sorted((want - have).items()):
            broken["gone"].append(dict(file=row[0], func=row[1], text=row[2]))
            msgs.append("%s %s: reviewed call `%s` is no longer in the source (ReplySites.inventory; remove it from expectedNonLiteral)" % row)
    return not msgs, msgs, broken


# ---- fact F7: stored byte slices are never rewritten in place (harness/sites_alias.go -> Generated/AliasSites.lean -> Props/C01Alias.lean)
_WRITE_KINDS = ("index-assign", "copy", "append", "append-reslice", "append-call", "fill")


def alias_lists(facts):
    """(write sites, install sites) as rows (file, function, kind, normalised text, class) - no line numbers"""
    rows = facts.get("alias_sites") or []
    row = lambda a: (a["file"], a["func"], a["kind"], a["text"], a["class"])
    return (sorted(row(a) for a in rows if a["kind"] in _WRITE_KINDS), sorted(row(a) for a in rows if a["kind"] not in _WRITE_KINDS))


def write_alias_sites(facts):
    writes, installs = alias_lists(facts)
    q = lambda r: "⟨%s, %s, %s, %s, .%s⟩" % (_lstr(r[0]), _lstr(r[1]), _lstr(r[2]), _lstr(r[3]), r[4])
    src = ("/-! GENERATED on every check run from /repo/memdb/*.go by the harness `facts` engine (harness/sites_alias.go) — do not edit.\n"
           "Fact F7: every in-place write to a byte slice and every byte slice installed in the keyspace, with the provenance class of the slice\n"
           "(fresh: allocated in the function / by a callee that only returns fresh slices; param: a parameter or part of one — in an executor the\n"
           "command words, each in the parser's own buffer; stored: read from a map / field / package variable / stored value; unknown). -/\n"
           "namespace Generated\n\n"
           "inductive AliasCls where\n  | fresh | param | stored | unknown\n  deriving DecidableEq, Repr\n\n"
           "structure AliasSite where\n  file : String\n  fn : String\n  kind : String\n  text : String\n  cls : AliasCls\n  deriving DecidableEq, Repr\n\n"
           "/-- `x[i] = …`, `x[i] op= …`, `copy(x…, …)`, `append(x…, …)`, `strconv.Append*(x…, …)`, `Read/Put*(x…)` on a `[]byte` x: the class is that of the\n"
           "    slice whose array is written -/\n"
           "def aliasWriteSites : List AliasSite := " + _llist([q(r) for r in writes]) + "\n\n"
           "/-- a `[]byte` assigned to a map element / field / package variable, or passed to a function of the repository (outside resp): the class is\n"
           "    that of the slice handed over -/\n"
           "def aliasInstallSites : List AliasSite := " + _llist([q(r) for r in installs]) + "\n\nend Generated\n")
    old = open(GEN_ALIAS).read() if os.path.exists(GEN_ALIAS) else None
    if old != src:
        os.makedirs(os.path.dirname(GEN_ALIAS), exist_ok=True)
        open(GEN_ALIAS, "w").write(src)


def _expected_alias(name):
    try:
        src = open(ALIAS_PROP).read()
    except OSError:
        return None
    m = re.search(r"def %s\b[^\n]*:= \[\n(.*?)\]\n" % name, src, re.S)
    if not m:
        return None
    un = lambda x: x.replace('\\"', '"').replace("\\\\", "\\")
    S = r'"((?:[^"\\]|\\.)*)"'
    return [tuple(un(g) for g in t[:4]) + (t[4],) for t in re.findall(r'^\s*⟨%s, %s, %s, %s, \.(\w+)⟩' % (S, S, S, S), m.group(1), re.M)]


def check_alias(facts):
    """what Lean will say about Generated/AliasSites.lean, with the offending sites named: (ok, [messages], structured)"""
    msgs, broken = [], dict(new=[], gone=[])
    if facts.get("alias_sites") is None:
        return False, ["alias-site extraction failed: %s" % facts.get("sites_error", "no alias_sites in the extractor's output")], broken
    writes, installs = alias_lists(facts)
    byrow = collections.defaultdict(list)
    for a in facts["alias_sites"]:
        byrow[(a["file"], a["func"], a["kind"], a["text"], a["class"])].append(a)
    for rows, name, okcls, thm, what in (
            (writes, "reviewed", ("fresh",), "AliasSites.no_inplace_write_to_stored / inventory",
             "writes INTO a byte slice that is not a fresh local (class %s: it is or may alias a stored value; a reply that still refers to those bytes is encoded after the lock is released)"),
            (installs, "reviewedInstalls", ("fresh", "param"), "AliasSites.installed_values_own_their_bytes / install_inventory",
             "hands on a byte slice that is neither freshly allocated nor the command's own argument (class %s: two stored values sharing one array make the reviewed in-place append of APPEND write through one key into the other)")):
        exp = _expected_alias(name)
        if exp is None:
            continue
        have = collections.Counter(r for r in rows if r[4] not in okcls)
        want = collections.Counter(exp)
        for row, n in sorted((have - want).items()):
            sites = byrow.get(row, [])
            broken["new"].append(dict(file=row[0], func=row[1], kind=row[2], text=row[3], cls=row[4], lines=[x["line"] for x in sites]))
            msgs.append("%s %s (line %s): `%s` %s%s — not in the reviewed inventory (%s)" % (
                row[0], row[1], "/".join(str(x["line"]) for x in sites), row[3], what % row[4],
                ("; " + sites[0]["evidence"]) if sites and sites[0].get("evidence") else "", thm))
        for row, n in sorted((want - have).items()):
            broken["gone"].append(dict(file=row[0], func=row[1], kind=row[2], text=row[3], cls=row[4]))
            msgs.append("%s %s: reviewed site `%s` (%s) is no longer in the source (%s; remove it from %s)" % (row[0], row[1], row[3], row[4], thm, name))
    return not msgs, msgs, broken


def skeleton_rows(facts):
    """fact F2 keyed by command name: (command, executor, tokens)"""
    sk = facts.get("skeletons") or {}
    return sorted((name, fn, sk.get(fn) or []) for name, fn in (facts.get("commands") or {}).items())


def write_skeletons(facts):
    rows = ["(%s, %s, [%s])" % (_lstr(n), _lstr(fn), ", ".join(_lstr(t) for t in toks)) for n, fn, toks in skeleton_rows(facts)]
    src = ("/-! GENERATED on every check run from /repo/memdb/*.go by the harness `facts` engine — do not edit.\n"
           "Fact F2: per registered command, its executor and the syntactic order of the CheckTTL / locks.* calls in the executor's body\n"
           "(TTL, L/U, RL/RU, LM/UM, RLM/RUM, `defer:` prefix for deferred releases, `loop{` where a for/range statement starts). -/\n"
           "namespace Generated\n\ndef skeletons : List (String × String × List String) := " + _llist(rows) + "\n\nend Generated\n")
    old = open(GEN_SKEL).read() if os.path.exists(GEN_SKEL) else None
    if old != src:
        os.makedirs(os.path.dirname(GEN_SKEL), exist_ok=True)
        open(GEN_SKEL, "w").write(src)


def regenerate(R):
    """returns (ok, detail); registers one obligation per fact this property uses"""
    facts = extract()
    if facts is None:
        R.oblige("facts extracted from the source (go/ast)", "facts", False, "extractor failed")
        return False, "extractor failed"
    write_generated(facts)
    write_sites(facts)
    write_skeletons(facts)
    write_reply_sites(facts)
    write_alias_sites(facts)
    exp = json.load(open(EXPECT)) if os.path.exists(EXPECT) else {}
    diffs = {}
    sk, esk = facts.get("skeletons", {}), exp.get("skeletons", {})
    d2 = ["%s: expected %s, source has %s" % (k, esk.get(k), sk.get(k)) for k in sorted(set(sk) | set(esk)) if sk.get(k) != esk.get(k)]
    if d2:
        diffs["F2"] = d2
    if facts.get("ready_arm") != exp.get("ready_arm"):
        diffs["F4"] = ["Ready arm order: expected %s, source has %s" % (exp.get("ready_arm"), facts.get("ready_arm"))]
    bad5 = ["%s: expected %s, source has %s" % (k, exp.get("consts", {}).get(k), facts.get("consts", {}).get(k))
            for k in sorted(set(facts.get("consts", {})) | set(exp.get("consts", {}))) if facts.get("consts", {}).get(k) != exp.get("consts", {}).get(k)]
    if bad5:
        diffs["F5"] = bad5
    ok = True
    R.facts_broken = []
    if R.prop in USERS["F3"]:
        good, msgs, broken = check_sites(facts)
        const, rel, dyn, calls = site_lists(facts)
        R.oblige("fact F3: %d constant-bound + %d variable-offset index/slice/division sites lie within the length their dominating guards guarantee, "
                 "%d executor calls pass a non-empty command, %d unguarded sites equal the reviewed inventory; of the non-`,ok` assertions / dereferences of "
                 "possibly-nil lookup results %d are guarded by a presence / nil test, the %d others equal a reviewed list (regenerated into Generated/Sites.lean; "
                 "closed in Lean by Props/C04Sites)" % ((len(const), len(rel), len(calls), len(dyn)) + tuple(len(x) for x in nil_lists(facts))), "facts", good, "; ".join(msgs)[:900])
        R.extra["sites"] = dict(const=len(const), rel=len(rel), dynamic=len(dyn), executor_calls=len(calls),
                                by_kind=dict(collections.Counter(s["kind"] + "/" + s["class"] for s in facts.get("sites") or [])))
        if not good:
            ok = False
            R.facts_broken.append(("F3", msgs))
            diffs["F3"] = msgs
            R.sites_broken = broken
    if R.prop in USERS["F6"]:
        good, msgs, broken = check_replies(facts)
        nonlit, client, viaerr = reply_lists(facts)
        R.oblige("fact F6: of the line-reply constructor calls in the source (%d with a constant payload) the %d with a non-constant payload equal the "
                 "reviewed inventory and none is built from the command words (regenerated into Generated/ReplySites.lean; closed in Lean by Props/C03Sites)"
                 % (int(facts.get("reply_literal") or 0), len(nonlit)), "facts", good, "; ".join(msgs)[:900])
        R.extra["reply_sites"] = dict(literal=int(facts.get("reply_literal") or 0), non_literal=len(nonlit), client_derived=len(client), error_derived=len(viaerr))
        if not good:
            ok = False
            R.facts_broken.append(("F6", msgs))
            diffs["F6"] = msgs
            R.replies_broken = broken
    if R.prop in USERS["F7"]:
        good, msgs, broken = check_alias(facts)
        writes, installs = alias_lists(facts)
        R.oblige("fact F7: stored byte slices are never rewritten in place: of the %d in-place writes to byte slices in memdb (index assignment, copy, append, "
                 "strconv.Append*) %d go to a slice allocated in the function, the others equal the reviewed inventory; of the %d byte slices handed to the "
                 "keyspace %d are fresh allocations or the command's own arguments, the others equal a reviewed list (regenerated into Generated/AliasSites.lean; "
                 "closed in Lean by Props/C01Alias)" % (len(writes), sum(1 for r in writes if r[4] == "fresh"), len(installs),
                                                        sum(1 for r in installs if r[4] in ("fresh", "param"))), "facts", good, "; ".join(msgs)[:900])
        R.extra["alias_sites"] = dict(writes=len(writes), installs=len(installs),
                                      by_kind_class=dict(collections.Counter(r[2] + "/" + r[4] for r in writes + installs)))
        if not good:
            ok = False
            R.facts_broken.append(("F7", msgs))
            diffs["F7"] = msgs
            R.alias_broken = broken
    for fid, props in USERS.items():
        if R.prop not in props or fid in ("F1", "F3", "F6", "F7"):
            continue
        good = fid not in diffs
        what = {"F2": "CheckTTL / lock-call skeleton of every registered executor equals the recorded one (%d executors; also closed in Lean: "
                      "Generated/Skeletons.lean = Expect.skeletons, every acquire released, no CheckTTL under a held stripe — Props/FactsF2)" % len(sk),
                "F4": "order of the calls in serveChannels' Ready arm equals the recorded one (persist before send/publish)",
                "F5": "raft.Config literal of startRaft equals the recorded one (no PreVote/CheckQuorum)"}[fid]
        R.oblige("fact %s: %s" % (fid, what), "facts", good, "; ".join(diffs.get(fid, []))[:600])
        if not good:
            ok = False
            R.facts_broken.append((fid, diffs[fid]))
    R.extra["facts"] = dict(commands=len(facts["commands"]), executors_with_skeleton=len(sk), ready_arm=facts.get("ready_arm"))
    return ok, "; ".join("%s: %s" % (k, v[0]) for k, v in diffs.items())


def record_expectations():
    facts = extract()
    json.dump(dict(skeletons=facts["skeletons"], ready_arm=facts["ready_arm"], consts=facts["consts"]), open(EXPECT, "w"), indent=1, sort_keys=True)
