"""Facts regenerated from /repo's SOURCE on every run (harness `facts` engine: go/parser + go/ast) and checked against the model:
F1 (registered commands) is written to lean/RedisGoModel/Generated/Commands.lean and a `decide`d Lean theorem (Props/C04.lean) requires
every registered command to be one the model knows; F4 is also written to Generated/ReadyArm.lean and `ReadyLoop.C08Ready.arm_is_source_arm`
(Props/C08Ready.lean) requires it to be the arm of the loop model; F2 (CheckTTL/lock skeleton per executor), F4 (order of the Ready arm) and F5 (raft
Config literals) are compared with the committed expectations in /verif/expectations/facts.json."""
import json
import os

from . import core

GEN = os.path.join(core.LEAN, "RedisGoModel", "Generated", "Commands.lean")
GEN_ARM = os.path.join(core.LEAN, "RedisGoModel", "Generated", "ReadyArm.lean")
EXPECT = os.path.join(core.VERIF, "expectations", "facts.json")
# which properties lean on which fact
USERS = {"F1": ["C04"], "F2": ["C05", "C06", "C13"], "F4": ["C08"], "F5": ["C15"]}
_cache = {}


def extract():
    if "facts" in _cache:
        return _cache["facts"]
    binary, err = core.build_harness()
    if binary is None:
        return None
    rc, so, se, dt = core.run([binary, "facts", core.REPO], env=core.goenv(), timeout=120)
    try:
        facts = json.loads(so)
    except Exception:
        facts = None
    _cache["facts"] = facts
    return facts


def write_generated(facts):
    names = sorted(facts["commands"])
    src = ("/-! GENERATED on every check run from /repo/memdb/*.go (RegisterCommand calls) — do not edit. -/\n"
           "namespace Generated\n\n/-- fact F1: the command names the server registers -/\n"
           "def commands : List String := [" + ", ".join('"%s"' % n for n in names) + "]\n\nend Generated\n")
    old = open(GEN).read() if os.path.exists(GEN) else None
    if old != src:
        os.makedirs(os.path.dirname(GEN), exist_ok=True)
        open(GEN, "w").write(src)
    # fact F4 for the loop model: Props/C08Ready.lean proves `ReadyLoop.armOrder = Generated.readyArm` by `decide` on every run, so the
    # theorems about the model's arm are theorems about the arm in the source (a reordered / dropped call breaks that proof)
    arm = facts.get("ready_arm") or []
    src = ("/-! GENERATED on every check run from /repo/raftexample/raft.go (calls of serveChannels' Ready arm, go/ast) — do not edit. -/\n"
           "namespace Generated\n\n/-- fact F4: the calls of the Ready arm in source order -/\n"
           "def readyArm : List String := [" + ", ".join('"%s"' % n for n in arm) + "]\n\nend Generated\n")
    old = open(GEN_ARM).read() if os.path.exists(GEN_ARM) else None
    if old != src:
        open(GEN_ARM, "w").write(src)


def regenerate(R):
    """returns (ok, detail); registers one obligation per fact this property uses"""
    facts = extract()
    if facts is None:
        R.oblige("facts extracted from the source (go/ast)", "facts", False, "extractor failed")
        return False, "extractor failed"
    write_generated(facts)
    exp = json.load(open(EXPECT)) if os.path.exists(EXPECT) else {}
    diffs = {}
    sk, esk = facts.get("skeletons", {}), exp.get("skeletons", {})
    d2 = ["%s: expected %s, source has %s" % (k, esk.get(k), sk.get(k)) for k in sorted(set(sk) | set(esk)) if sk.get(k) != esk.get(k)]
    if d2:
        diffs["F2"] = d2
    if facts.get("ready_arm") != exp.get("ready_arm"):
        diffs["F4"] = ["Ready arm order: expected %s, source has %s" % (exp.get("ready_arm"), facts.get("ready_arm"))]
    bad5 = ["%s: expected %s, source has %s" % (k, exp.get("consts", {}).get(k), facts.get("consts", {}).get(k))
            for k in sorted(set(facts.get("consts", {})) | set(exp.get("consts", {}))) if facts.get("consts", {}).get(k) != exp.get("consts", {}).get(k)]
    if bad5:
        diffs["F5"] = bad5
    ok = True
    R.facts_broken = []
    for fid, props in USERS.items():
        if R.prop not in props or fid == "F1":
            continue
        good = fid not in diffs
        what = {"F2": "CheckTTL / lock-call skeleton of every registered executor equals the recorded one (%d executors)" % len(sk),
                "F4": "order of the calls in serveChannels' Ready arm equals the recorded one (persist before send/publish)",
                "F5": "raft.Config literal of startRaft equals the recorded one (no PreVote/CheckQuorum)"}[fid]
        R.oblige("fact %s: %s" % (fid, what), "facts", good, "; ".join(diffs.get(fid, []))[:600])
        if not good:
            ok = False
            R.facts_broken.append((fid, diffs[fid]))
    R.extra["facts"] = dict(commands=len(facts["commands"]), executors_with_skeleton=len(sk), ready_arm=facts.get("ready_arm"))
    return ok, "; ".join("%s: %s" % (k, v[0]) for k, v in diffs.items())


def record_expectations():
    facts = extract()
    json.dump(dict(skeletons=facts["skeletons"], ready_arm=facts["ready_arm"], consts=facts["consts"]), open(EXPECT, "w"), indent=1, sort_keys=True)
