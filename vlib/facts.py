"""Facts regenerated from /repo's source on every run (go/ast extractor -> lean/RedisGoModel/Generated/*.lean)."""


def regenerate(R):
    # filled in when the extractor lands; a no-op keeps the pipeline shape
    return True, "extractor not yet wired"
