/-! GENERATED on every check run from /repo's source by the harness `facts` engine (harness/sites.go) — do not edit.
Fact F6: calls of the constructors whose payload goes out as a LINE (resp.MakeStringData, MakeErrorData, MakeWrongNumberArgs,
MakePlainData, and StringData/ErrorData/PlainData literals) in memdb, server, resp, util, raftexample. -/
namespace Generated

/-- how many such calls have a compile-time constant payload -/
def literalLineReplies : Nat := 325

/-- the calls whose payload is NOT a compile-time constant: (file, function, normalised source text) — no line numbers -/
def nonLiteralLineReplies : List (String × String × String) := [
  ("memdb/raft_command.go", "MemberList", "resp.MakeStringData(k)"),
  ("memdb/stream.go", "xadd", "resp.MakeErrorData(err.Error())"),
  ("memdb/stream.go", "xadd", "resp.MakeErrorData(err.Error())"),
  ("memdb/stream.go", "xadd", "resp.MakeStringData(ID.Format())"),
  ("memdb/stream.go", "xrange", "resp.MakeErrorData(err.Error())"),
  ("memdb/stream.go", "xrange", "resp.MakeErrorData(err.Error())"),
  ("resp/parser.go", "parseSingleLine", "MakeErrorData(msgData)"),
  ("resp/parser.go", "parseSingleLine", "MakePlainData(msgData)"),
  ("resp/parser.go", "parseSingleLine", "MakeStringData(msgData)"),
  ("resp/structure.go", "MakeWrongType", "ErrorData{data: fmt.Sprintf(\"WRONGTYPE Operation against a key holding the wrong kind of value\")}"),
  ("server/db_manager.go", "(*Manager).selectDB", "resp.MakeErrorData(fmt.Sprintf(\"ERR DB index is out of range with maximum %d\", len(m.DBs)))")]

/-- … those among them whose payload is derived from the command words (cmd[i], string(cmd[i]), strings.ToLower(…), concatenation,
    fmt.Sprintf, locals assigned from these) -/
def clientDerivedLineReplies : List (String × String × String) := []

/-- … those that mention an error VALUE returned by a call that received command words, where the callee is not shown to return
    only errors with constant texts -/
def errorDerivedLineReplies : List (String × String × String) := [
  ("memdb/stream.go", "xadd", "resp.MakeErrorData(err.Error())")]

end Generated
