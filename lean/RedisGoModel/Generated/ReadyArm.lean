/-! GENERATED on every check run from /repo/raftexample/raft.go (calls of serveChannels' Ready arm, go/ast) — do not edit. -/
namespace Generated

/-- fact F4: the calls of the Ready arm in source order -/
def readyArm : List String := ["saveSnap", "wal.Save", "ApplySnapshot", "wal.Sync", "publishSnapshot", "raftStorage.Append", "transport.Send", "publishEntries", "maybeTriggerSnapshot", "Node.Advance"]

end Generated
