/-! GENERATED on every check run from /repo/memdb/*.go (RegisterCommand calls) — do not edit. -/
namespace Generated

/-- fact F1: the command names the server registers -/
def commands : List String := ["append", "blpop", "brpop", "decr", "decrby", "del", "exists", "expire", "get", "getrange", "hdel", "hexists", "hget", "hgetall", "hincrby", "hincrbyfloat", "hkeys", "hlen", "hmget", "hrandfield", "hset", "hsetnx", "hstrlen", "hvals", "incr", "incrby", "incrbyfloat", "keys", "lindex", "llen", "lmove", "lpop", "lpos", "lpush", "lpushx", "lrange", "lrem", "lset", "ltrim", "member", "mget", "mset", "persist", "ping", "publish", "rconf", "rename", "rpop", "rpush", "rpushx", "sadd", "scard", "sdiff", "sdiffstore", "set", "setex", "setnx", "setrange", "sinter", "sinterstore", "sismember", "smembers", "smove", "spop", "srandmember", "srem", "strlen", "subscribe", "sunion", "sunionstore", "ttl", "type", "xadd", "xrange", "zadd", "zrange", "zrank", "zrem"]

end Generated
