/-! GENERATED on every check run from /repo/memdb/*.go by the harness `facts` engine (harness/sites_alias.go) — do not edit.
Fact F7: every in-place write to a byte slice and every byte slice installed in the keyspace, with the provenance class of the slice
(fresh: allocated in the function / by a callee that only returns fresh slices; param: a parameter or part of one — in an executor the
command words, each in the parser's own buffer; stored: read from a map / field / package variable / stored value; unknown). -/
namespace Generated

inductive AliasCls where
  | fresh | param | stored | unknown
  deriving DecidableEq, Repr

structure AliasSite where
  file : String
  fn : String
  kind : String
  text : String
  cls : AliasCls
  deriving DecidableEq, Repr

/-- `x[i] = …`, `x[i] op= …`, `copy(x…, …)`, `append(x…, …)`, `strconv.Append*(x…, …)`, `Read/Put*(x…)` on a `[]byte` x: the class is that of the
    slice whose array is written -/
def aliasWriteSites : List AliasSite := [
  ⟨"memdb/stream.go", "xrange", "append", "append([]byte{}, val...)", .fresh⟩,
  ⟨"memdb/string.go", "appendString", "append", "append(typeVal, val...)", .stored⟩,
  ⟨"memdb/string.go", "setRangeString", "copy", "copy(newVal, oldVal)", .fresh⟩,
  ⟨"memdb/string.go", "setRangeString", "copy", "copy(newVal[offset:], cmd[3])", .fresh⟩]

/-- a `[]byte` assigned to a map element / field / package variable, or passed to a function of the repository (outside resp): the class is
    that of the slice handed over -/
def aliasInstallSites : List AliasSite := [
  ⟨"memdb/hash.go", "hSetHash", "install-call", "hash.Set(field, value)", .param⟩,
  ⟨"memdb/hash.go", "hSetNxHash", "install-call", "hash.Set(field, value)", .param⟩,
  ⟨"memdb/hash_struct.go", "(*Hash).IncrBy", "install-call", "h.Set(key, []byte(strconv.Itoa(incr)))", .fresh⟩,
  ⟨"memdb/hash_struct.go", "(*Hash).IncrBy", "install-call", "h.Set(key, []byte(strconv.Itoa(value)))", .fresh⟩,
  ⟨"memdb/hash_struct.go", "(*Hash).IncrByFloat", "install-call", "h.Set(key, []byte(strconv.FormatFloat(incr, 'f', -1, 64)))", .fresh⟩,
  ⟨"memdb/hash_struct.go", "(*Hash).IncrByFloat", "install-call", "h.Set(key, []byte(strconv.FormatFloat(value, 'f', -1, 64)))", .fresh⟩,
  ⟨"memdb/hash_struct.go", "(*Hash).Set", "install-assign", "h.table[key] = value", .param⟩,
  ⟨"memdb/list.go", "lMoveList", "install-call", "desList.LPush(popElem.Val)", .stored⟩,
  ⟨"memdb/list.go", "lMoveList", "install-call", "desList.RPush(popElem.Val)", .stored⟩,
  ⟨"memdb/list.go", "lPosList", "install-call", "list.Pos(elem)", .param⟩,
  ⟨"memdb/list.go", "lPushList", "install-call", "list.LPush(cmd[i])", .param⟩,
  ⟨"memdb/list.go", "lPushXList", "install-call", "list.LPush(cmd[i])", .param⟩,
  ⟨"memdb/list.go", "lRemList", "install-call", "list.RemoveElement(cmd[3], count)", .param⟩,
  ⟨"memdb/list.go", "lSetList", "install-call", "list.Set(index, cmd[3])", .param⟩,
  ⟨"memdb/list.go", "rPushList", "install-call", "list.RPush(cmd[i])", .param⟩,
  ⟨"memdb/list.go", "rPushXList", "install-call", "list.RPush(cmd[i])", .param⟩,
  ⟨"memdb/list_struct.go", "(*List).Set", "install-assign", "node.Val = val", .param⟩,
  ⟨"memdb/list_struct.go", "(*List).Set", "install-assign", "node.Val = val", .param⟩,
  ⟨"memdb/snapshot.go", "restoreValue", "install-call", "h.Set(string(f.Field), v)", .stored⟩,
  ⟨"memdb/snapshot.go", "restoreValue", "install-call", "l.RPush(e)", .stored⟩,
  ⟨"memdb/snapshot.go", "snapshotValue", "install-assign", "e.Fields[i] = []byte(f)", .fresh⟩,
  ⟨"memdb/snapshot.go", "snapshotValue", "install-assign", "k.Str = t", .param⟩,
  ⟨"memdb/string.go", "appendString", "install-call", "m.db.Set(key, newVal)", .stored⟩,
  ⟨"memdb/string.go", "appendString", "install-call", "m.db.Set(key, val)", .param⟩,
  ⟨"memdb/string.go", "decrByString", "install-call", "m.db.Set(key, []byte(strconv.FormatInt(-dec, 10)))", .fresh⟩,
  ⟨"memdb/string.go", "decrByString", "install-call", "m.db.Set(key, []byte(strconv.FormatInt(intVal, 10)))", .fresh⟩,
  ⟨"memdb/string.go", "decrString", "install-call", "m.db.Set(key, []byte(\"-1\"))", .fresh⟩,
  ⟨"memdb/string.go", "decrString", "install-call", "m.db.Set(key, []byte(strconv.FormatInt(intVal, 10)))", .fresh⟩,
  ⟨"memdb/string.go", "incrByFloatString", "install-call", "m.db.Set(key, []byte(strconv.FormatFloat(floatVal, 'f', -1, 64)))", .fresh⟩,
  ⟨"memdb/string.go", "incrByFloatString", "install-call", "m.db.Set(key, []byte(strconv.FormatFloat(inc, 'f', -1, 64)))", .fresh⟩,
  ⟨"memdb/string.go", "incrByString", "install-call", "m.db.Set(key, []byte(strconv.FormatInt(inc, 10)))", .fresh⟩,
  ⟨"memdb/string.go", "incrByString", "install-call", "m.db.Set(key, []byte(strconv.FormatInt(intVal, 10)))", .fresh⟩,
  ⟨"memdb/string.go", "incrString", "install-call", "m.db.Set(key, []byte(\"1\"))", .fresh⟩,
  ⟨"memdb/string.go", "incrString", "install-call", "m.db.Set(key, []byte(strconv.FormatInt(intVal, 10)))", .fresh⟩,
  ⟨"memdb/string.go", "mSetString", "install-call", "m.db.Set(keys[i], vals[i])", .param⟩,
  ⟨"memdb/string.go", "setExString", "install-call", "m.db.Set(key, val)", .param⟩,
  ⟨"memdb/string.go", "setNxString", "install-call", "m.db.SetIfNotExist(key, val)", .param⟩,
  ⟨"memdb/string.go", "setRangeString", "install-call", "m.db.Set(key, newVal)", .fresh⟩,
  ⟨"memdb/string.go", "setString", "install-call", "m.db.Set(cmdKey, cmd[2])", .param⟩]

end Generated
