/-! Prototypes for C10 and C20. C10: a hash as a field table without duplicate fields (what a Go map is): each field
    maps to the last value written, the empty value is a value, HSET reports whether the field is new, HDEL removes
    that field only, HLEN counts fields. C20: numbered databases are isolated and the selected index is a
    per-connection variable; SELECT accepts exactly the configured indexes. Core Lean only. -/
namespace HashSel
abbrev Bytes := List UInt8

/-! ### C10 -/
abbrev Hash := List (Bytes × Bytes)
def Ok (h : Hash) : Prop := (h.map Prod.fst).Nodup

def hget (h : Hash) (f : Bytes) : Option Bytes := (h.find? (fun p => p.1 == f)).map Prod.snd
def hset (h : Hash) (f v : Bytes) : Hash × Nat :=
  if (h.any (fun p => p.1 == f)) then (h.map (fun p => if p.1 == f then (f, v) else p), 0) else ((f, v) :: h, 1)
def hdel (h : Hash) (f : Bytes) : Hash × Nat :=
  if (h.any (fun p => p.1 == f)) then (h.filter (fun p => !(p.1 == f)), 1) else (h, 0)

theorem map_fst_replace (h : Hash) (f v : Bytes) :
    (h.map (fun p => if p.1 == f then (f, v) else p)).map Prod.fst = h.map Prod.fst := by
  induction h with
  | nil => rfl
  | cons p r ih =>
    simp only [List.map_cons, ih]
    congr 1
    split
    · rename_i e; simpa using (beq_iff_eq.mp e).symm
    · rfl

theorem hset_ok (h : Hash) (f v : Bytes) (ok : Ok h) : Ok (hset h f v).1 := by
  unfold hset Ok at *
  split
  · simp only; rw [map_fst_replace]; exact ok
  · rename_i hn
    simp only [List.map_cons, List.nodup_cons]
    refine ⟨?_, ok⟩
    intro hm
    apply hn
    obtain ⟨p, hp, e⟩ := List.mem_map.mp hm
    exact List.any_eq_true.mpr ⟨p, hp, by simpa using e⟩

/-- each field maps to the last value written — whatever the value's bytes, the empty string included -/
theorem hget_hset_same (h : Hash) (f v : Bytes) : hget (hset h f v).1 f = some v := by
  unfold hset hget
  split
  · rename_i ha
    simp only
    induction h with
    | nil => simp at ha
    | cons p r ih =>
      simp only [List.map_cons, List.find?_cons]
      by_cases e : (p.1 == f) = true
      · simp [e]
      · have e' : (p.1 == f) = false := by simpa using e
        simp only [e', Bool.false_eq_true, if_false]
        have : r.any (fun p => p.1 == f) = true := by simpa [List.any_cons, e'] using ha
        exact ih this
  · simp

theorem find_replace_other (h : Hash) (f v g : Bytes) (hg : g ≠ f) :
    ((h.map (fun p => if p.1 == f then (f, v) else p)).find? (fun p => p.1 == g)).map Prod.snd =
    (h.find? (fun p => p.1 == g)).map Prod.snd := by
  have hfg : (f == g) = false := by simpa using fun e' => hg e'.symm
  induction h with
  | nil => rfl
  | cons p r ih =>
    simp only [List.map_cons, List.find?_cons]
    by_cases e : (p.1 == f) = true
    · have pf : p.1 = f := beq_iff_eq.mp e
      have h2 : (p.1 == g) = false := by rw [pf]; exact hfg
      simp only [e, if_true, hfg, h2]
      exact ih
    · have e' : (p.1 == f) = false := by simpa using e
      simp only [e', Bool.false_eq_true, if_false]
      split
      · rfl
      · exact ih

theorem hget_hset_other (h : Hash) (f v g : Bytes) (hg : g ≠ f) : hget (hset h f v).1 g = hget h g := by
  unfold hset hget
  split
  · exact find_replace_other h f v g hg
  · have : (f == g) = false := by simpa using fun e' => hg e'.symm
    simp [List.find?_cons, this]

theorem isSome_find_any (h : Hash) (f : Bytes) :
    (h.find? (fun p => p.1 == f)).isSome = h.any (fun p => p.1 == f) := by
  induction h with
  | nil => rfl
  | cons p r ih =>
    simp only [List.find?_cons, List.any_cons]
    by_cases e : (p.1 == f) = true
    · simp [e]
    · have e' : (p.1 == f) = false := by simpa using e
      simp [e', ih]

theorem hset_reports_new (h : Hash) (f v : Bytes) : (hset h f v).2 = if (hget h f).isSome then 0 else 1 := by
  unfold hset hget
  rw [Option.isSome_map, isSome_find_any]
  split <;> rename_i ha <;> simp [ha]

theorem find_filter_other (h : Hash) (f g : Bytes) (hg : g ≠ f) :
    ((h.filter (fun p => !(p.1 == f))).find? (fun p => p.1 == g)).map Prod.snd = (h.find? (fun p => p.1 == g)).map Prod.snd := by
  induction h with
  | nil => rfl
  | cons p r ih =>
    simp only [List.filter_cons]
    by_cases e : (p.1 == f) = true
    · have pf : p.1 = f := beq_iff_eq.mp e
      have h2 : (p.1 == g) = false := by rw [pf]; simpa using fun e' => hg e'.symm
      simp only [e, Bool.not_true, Bool.false_eq_true, if_false, List.find?_cons, h2]
      exact ih
    · have e' : (p.1 == f) = false := by simpa using e
      simp only [e', Bool.not_false, if_true, List.find?_cons]
      split
      · rfl
      · exact ih

theorem hdel_spec (h : Hash) (f g : Bytes) (ok : Ok h) :
    Ok (hdel h f).1 ∧ hget (hdel h f).1 f = none ∧ (g ≠ f → hget (hdel h f).1 g = hget h g) := by
  unfold hdel
  split
  · refine ⟨?_, ?_, fun hg => find_filter_other h f g hg⟩
    · unfold Ok at *
      exact List.Nodup.sublist (List.Sublist.map _ List.filter_sublist) ok
    · simp only [hget]
      rw [Option.map_eq_none_iff, List.find?_eq_none]
      intro p hp
      have := (List.mem_filter.mp hp).2
      simpa using this
  · rename_i hn
    refine ⟨ok, ?_, fun _ => rfl⟩
    simp only [hget]
    rw [Option.map_eq_none_iff, List.find?_eq_none]
    intro p hp e
    exact hn (List.any_eq_true.mpr ⟨p, hp, e⟩)

/-- HLEN -/
theorem hlen_hset (h : Hash) (f v : Bytes) : (hset h f v).1.length = h.length + (hset h f v).2 := by
  unfold hset; split <;> simp

/-! ### C20 -/
abbrev Key := Bytes
abbrev Conn := Nat

structure Srv (n : Nat) where
  dbs : Fin n → Key → Option Bytes
  sel : Conn → Fin n

/-- SELECT with an argument that parsed to `arg` (`none` = not an integer) -/
def select {n : Nat} (s : Srv n) (c : Conn) (arg : Option Int) : Srv n × Bool :=
  match arg with
  | none => (s, false)
  | some i =>
    if h : 0 ≤ i ∧ i < n then
      ({ s with sel := fun c' => if c' = c then ⟨i.toNat, by omega⟩ else s.sel c' }, true)
    else (s, false)

def set {n : Nat} (s : Srv n) (c : Conn) (k : Key) (v : Bytes) : Srv n :=
  { s with dbs := fun i => if i = s.sel c then (fun k' => if k' = k then some v else s.dbs i k') else s.dbs i }
def get {n : Nat} (s : Srv n) (c : Conn) (k : Key) : Option Bytes := s.dbs (s.sel c) k

/-- SELECT accepts exactly the configured indexes, and a rejected SELECT changes nothing -/
theorem select_accepts_exactly {n : Nat} (s : Srv n) (c : Conn) (arg : Option Int) :
    ((select s c arg).2 = true ↔ ∃ i, arg = some i ∧ 0 ≤ i ∧ i < n) ∧ ((select s c arg).2 = false → (select s c arg).1 = s) := by
  unfold select
  cases arg with
  | none => simp
  | some i =>
    by_cases h : 0 ≤ i ∧ i < n
    · simp [h]
    · have h' : ¬ (0 ≤ i ∧ i < (n : Int)) := h
      simp only [h, dite_false]
      constructor
      · constructor
        · intro e; cases e
        · rintro ⟨j, hj, hh⟩
          cases hj
          exact absurd hh h'
      · intro _; trivial

/-- the selected database is the connection's own state -/
theorem selection_is_per_connection {n : Nat} (s : Srv n) (c c' : Conn) (arg : Option Int) (hc : c' ≠ c) :
    (select s c arg).1.sel c' = s.sel c' := by
  unfold select
  cases arg with
  | none => rfl
  | some i => by_cases h : 0 ≤ i ∧ i < n <;> simp [h, hc]

/-- a key written in one database is invisible in every other -/
theorem isolation {n : Nat} (s : Srv n) (c c' : Conn) (k k' : Key) (v : Bytes) (hd : s.sel c' ≠ s.sel c) :
    get (set s c k v) c' k' = get s c' k' ∧ get (set s c k v) c k = some v := by
  simp [get, set, hd]

#print axioms hget_hset_same
#print axioms hdel_spec
#print axioms select_accepts_exactly
#print axioms isolation
end HashSel
