/-! Prototype for C19: published messages reach exactly the connections subscribed at that moment, once each, in
    publish order, and PUBLISH reports how many received it. The model keeps, like memdb's pub/sub table, an ordered
    list of (channel, connection) subscriptions and appends to per-connection outboxes; the specification is stated
    over the *history* of operations. Core Lean only. -/
namespace PubSub
abbrev Chan := List UInt8
abbrev Conn := Nat
abbrev Payload := List UInt8

inductive Op
| subscribe (c : Conn) (ch : Chan)
| unsubscribe (c : Conn) (ch : Chan)
| publish (ch : Chan) (m : Payload)
| disconnect (c : Conn)

structure St where
  subs   : List (Chan × Conn)
  outbox : Conn → List (Chan × Payload)
  counts : List Nat                       -- the integer replies of the PUBLISH commands, in order

def init : St := ⟨[], fun _ => [], []⟩

def deliver (subs : List (Chan × Conn)) (ch : Chan) (m : Payload) (ob : Conn → List (Chan × Payload)) :
    Conn → List (Chan × Payload) :=
  fun c => if (ch, c) ∈ subs then ob c ++ [(ch, m)] else ob c

def step (s : St) : Op → St
| .subscribe c ch => if (ch, c) ∈ s.subs then s else { s with subs := s.subs ++ [(ch, c)] }
| .unsubscribe c ch => { s with subs := s.subs.filter (fun p => p ≠ (ch, c)) }
| .publish ch m => { s with outbox := deliver s.subs ch m s.outbox,
                            counts := s.counts ++ [(s.subs.filter (fun p => p.1 = ch)).length] }
| .disconnect c => { s with subs := s.subs.filter (fun p => p.2 ≠ c) }

def run (ops : List Op) : St := ops.foldl step init

/-! ### the specification, over histories -/

/-- is `c` subscribed to `ch` after the history `h`? (last relevant event decides) -/
def subscribed (c : Conn) (ch : Chan) : List Op → Bool
| [] => false
| op :: h =>
  -- `h` is the history *before* `op` (newest first)
  match op with
  | .subscribe c' ch' => if c' = c ∧ ch' = ch then true else subscribed c ch h
  | .unsubscribe c' ch' => if c' = c ∧ ch' = ch then false else subscribed c ch h
  | .disconnect c' => if c' = c then false else subscribed c ch h
  | .publish _ _ => subscribed c ch h

/-- what `c` must have received after the history (newest first): one copy of every message published to a channel
    it was subscribed to at that moment, in publish order -/
def expected (c : Conn) : List Op → List (Chan × Payload)
| [] => []
| .publish ch m :: h => if subscribed c ch h then expected c h ++ [(ch, m)] else expected c h
| _ :: h => expected c h

structure Inv (s : St) (h : List Op) : Prop where
  nodup : s.subs.Nodup
  subs  : ∀ c ch, (ch, c) ∈ s.subs ↔ subscribed c ch h = true
  out   : ∀ c, s.outbox c = expected c h

theorem inv_step (s : St) (h : List Op) (op : Op) (i : Inv s h) : Inv (step s op) (op :: h) := by
  cases op with
  | subscribe c ch =>
    simp only [step]
    by_cases hin : (ch, c) ∈ s.subs
    · rw [if_pos hin]
      refine ⟨i.nodup, fun c' ch' => ?_, fun c' => by simpa [expected] using i.out c'⟩
      simp only [subscribed]
      by_cases he : c = c' ∧ ch = ch'
      · obtain ⟨rfl, rfl⟩ := he; simp [hin]
      · rw [if_neg he]; exact i.subs c' ch'
    · rw [if_neg hin]
      refine ⟨?_, fun c' ch' => ?_, fun c' => by simpa [expected] using i.out c'⟩
      · rw [List.nodup_append]
        refine ⟨i.nodup, by simp, ?_⟩
        intro a ha b hb
        simp only [List.mem_singleton] at hb
        subst hb
        exact fun e => hin (e ▸ ha)
      · simp only [subscribed, List.mem_append, List.mem_singleton, Prod.mk.injEq]
        by_cases he : c = c' ∧ ch = ch'
        · obtain ⟨rfl, rfl⟩ := he; simp
        · rw [if_neg he, ← i.subs c' ch']
          constructor
          · rintro (h1 | ⟨h1, h2⟩)
            · exact h1
            · exact absurd ⟨h2.symm, h1.symm⟩ he
          · exact Or.inl
  | unsubscribe c ch =>
    simp only [step]
    refine ⟨i.nodup.filter _, fun c' ch' => ?_, fun c' => by simpa [expected] using i.out c'⟩
    simp only [subscribed, List.mem_filter, ne_eq, decide_not, Bool.not_eq_true', decide_eq_false_iff_not, Prod.mk.injEq]
    by_cases he : c = c' ∧ ch = ch'
    · obtain ⟨rfl, rfl⟩ := he; simp
    · rw [if_neg he, ← i.subs c' ch']
      constructor
      · exact fun h1 => h1.1
      · exact fun h1 => ⟨h1, fun e => he ⟨e.2.symm, e.1.symm⟩⟩
  | publish ch m =>
    simp only [step]
    refine ⟨i.nodup, fun c' ch' => by simpa [subscribed] using i.subs c' ch', fun c' => ?_⟩
    simp only [deliver, expected]
    by_cases hs : (ch, c') ∈ s.subs
    · rw [if_pos hs, if_pos ((i.subs c' ch).mp hs), i.out c']
    · rw [if_neg hs, i.out c']
      have : subscribed c' ch h ≠ true := fun e => hs ((i.subs c' ch).mpr e)
      simp [this]
  | disconnect c =>
    simp only [step]
    refine ⟨i.nodup.filter _, fun c' ch' => ?_, fun c' => by simpa [expected] using i.out c'⟩
    simp only [subscribed, List.mem_filter, ne_eq, decide_not, Bool.not_eq_true', decide_eq_false_iff_not]
    by_cases he : c = c'
    · subst he; simp
    · rw [if_neg he, ← i.subs c' ch']
      constructor
      · exact fun h1 => h1.1
      · exact fun h1 => ⟨h1, fun e => he e.symm⟩

theorem inv_run : ∀ (ops : List Op) (s : St) (h : List Op), Inv s h → Inv (ops.foldl step s) (ops.reverse ++ h) := by
  intro ops
  induction ops with
  | nil => intro s h i; simpa using i
  | cons op ops ih =>
    intro s h i
    have := ih (step s op) (op :: h) (inv_step s h op i)
    simpa using this

/-- **delivery is exact**: after any sequence of subscribe / unsubscribe / publish / disconnect operations every
    connection has received exactly the messages published to channels it was subscribed to at that moment, once
    each, in publish order — and nothing else -/
theorem delivery_exact (ops : List Op) (c : Conn) : (run ops).outbox c = expected c ops.reverse := by
  have := (inv_run ops init [] ⟨List.nodup_nil, fun _ _ => by simp [init, subscribed], fun _ => rfl⟩).out c
  simpa [run] using this

/-- PUBLISH replies with the number of connections that received the message -/
theorem publish_count (s : St) (h : List Op) (i : Inv s h) (ch : Chan) (m : Payload) :
    (step s (.publish ch m)).counts = s.counts ++ [(s.subs.filter (fun p => p.1 = ch)).length] ∧
    ∀ c, ((step s (.publish ch m)).outbox c ≠ s.outbox c ↔ (ch, c) ∈ s.subs) := by
  refine ⟨rfl, fun c => ?_⟩
  simp only [step, deliver]
  by_cases hs : (ch, c) ∈ s.subs <;> simp [hs]

example : (run [.subscribe 1 [97], .publish [97] [1], .unsubscribe 1 [97], .publish [97] [2], .subscribe 2 [97],
    .publish [97] [3]]).outbox 1 = [([97], [1])] := by decide

#print axioms delivery_exact
#print axioms publish_count
end PubSub
