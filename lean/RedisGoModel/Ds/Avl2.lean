import RedisGoModel.Ds.Avl
/-! C12 continued: the tree stays a search tree under insertion and deletion, and deletion removes exactly the key. -/
namespace Avl
open T

abbrev Sorted (l : List Nat) : Prop := l.Pairwise (· < ·)

theorem bst_iff (t : T) : Bst t ↔ Sorted (inorder t) := by
  induction t with
  | nil => simp [inorder, Bst.nil]
  | node l k h r ihl ihr =>
    simp only [inorder, Sorted, List.pairwise_append, List.pairwise_cons]
    constructor
    · intro b
      cases b with
      | node bl br hl hr =>
        refine ⟨ihl.mp bl, ⟨hr, ihr.mp br⟩, ?_⟩
        intro a ha b hb
        rcases List.mem_cons.mp hb with rfl | hb
        · exact hl a ha
        · exact Nat.lt_trans (hl a ha) (hr b hb)
    · rintro ⟨sl, ⟨hr, sr⟩, hx⟩
      exact .node (ihl.mpr sl) (ihr.mpr sr) (fun y hy => hx y hy k (by simp)) hr

theorem mem_oins (x : Nat) (l : List Nat) (y : Nat) : y ∈ oins x l ↔ y = x ∨ y ∈ l := by
  induction l with
  | nil => simp [oins]
  | cons a l ih =>
    simp only [oins]
    split
    · simp
    · split
      · simp [ih]; constructor <;> (intro h; rcases h with h | h | h <;> simp [h])
      · have : x = a := by omega
        subst this; simp

theorem oins_sorted (x : Nat) (l : List Nat) (s : Sorted l) : Sorted (oins x l) := by
  induction l with
  | nil => simp [oins, Sorted]
  | cons a l ih =>
    simp only [Sorted, List.pairwise_cons] at s
    simp only [oins]
    split
    · rename_i h
      simp only [Sorted, List.pairwise_cons]
      refine ⟨?_, s⟩
      intro b hb
      rcases List.mem_cons.mp hb with rfl | hb
      · exact h
      · exact Nat.lt_trans h (s.1 b hb)
    · split
      · rename_i h
        simp only [Sorted, List.pairwise_cons]
        refine ⟨?_, ih s.2⟩
        intro b hb
        rcases (mem_oins x l b).mp hb with rfl | hb
        · exact h
        · exact s.1 b hb
      · simp only [Sorted, List.pairwise_cons]; exact s

/-- insertion keeps the search-tree order -/
theorem insert_bst (t : T) (x : Nat) (b : Bst t) : Bst (insert t x) := by
  rw [bst_iff, inorder_insert x t b]
  exact oins_sorted x _ ((bst_iff t).mp b)

/-- membership after insertion -/
theorem mem_insert (t : T) (x y : Nat) (b : Bst t) : y ∈ inorder (insert t x) ↔ y = x ∨ y ∈ inorder t := by
  rw [inorder_insert x t b, mem_oins]

theorem inorder_rebalance (l : T) (k : Nat) (r : T) : inorder (rebalance l k r) = inorder l ++ k :: inorder r := by
  unfold rebalance
  split
  · split
    · rw [inorder_rotR, inorder_mk]
    · rw [inorder_rotR, inorder_mk, inorder_rotL]
  · split
    · split
      · rw [inorder_rotL, inorder_mk]
      · rw [inorder_rotL, inorder_mk, inorder_rotR]
    · rw [inorder_mk]

theorem minKey_head : ∀ (l : T) (k h : Nat) (r : T), ∃ tl, inorder (node l k h r) = minKey (node l k h r) :: tl := by
  intro l
  induction l with
  | nil => intro k h r; exact ⟨inorder r, by simp [inorder, minKey]⟩
  | node ll lk lh lr ih _ =>
    intro k h r
    obtain ⟨tl, e⟩ := ih lk lh lr
    refine ⟨tl ++ k :: inorder r, ?_⟩
    have : minKey (node (node ll lk lh lr) k h r) = minKey (node ll lk lh lr) := by simp [minKey]
    rw [this]
    show inorder (node ll lk lh lr) ++ k :: inorder r = _
    rw [e]; simp

theorem erase_not_mem {l : List Nat} {x : Nat} (h : x ∉ l) : l.erase x = l := List.erase_of_not_mem h

/-- deletion removes exactly the key: the in-order sequence loses `x` and nothing else -/
theorem inorder_delete (x : Nat) : ∀ t, Bst t → inorder (delete t x) = (inorder t).erase x := by
  intro t
  induction t generalizing x with
  | nil => intro _; rfl
  | node l k h r ihl ihr =>
    intro b
    cases b with
    | node bl br hlk hrk =>
    have hkl : k ∉ inorder l := fun hm => Nat.lt_irrefl _ (hlk k hm)
    simp only [delete]
    by_cases hlt : x < k
    · simp only [hlt, if_true]
      rw [inorder_rebalance, ihl x bl]
      simp only [inorder]
      have hxr : x ∉ inorder r := fun hm => by have := hrk x hm; omega
      by_cases hm : x ∈ inorder l
      · rw [List.erase_append_left _ hm]
      · rw [List.erase_append_right _ hm, erase_not_mem hm]
        have : ¬ k = x := by omega
        simp [List.erase_cons, this, erase_not_mem hxr]
    · simp only [hlt, if_false]
      by_cases hgt : k < x
      · simp only [hgt, if_true]
        rw [inorder_rebalance, ihr x br]
        simp only [inorder]
        have hm : x ∉ inorder l := fun hm => by have := hlk x hm; omega
        rw [List.erase_append_right _ hm]
        have : ¬ k = x := by omega
        simp [List.erase_cons, this]
      · simp only [hgt, if_false]
        have hx : x = k := by omega
        subst hx
        have goal_rhs : (inorder (node l x h r)).erase x = inorder l ++ inorder r := by
          simp only [inorder]
          rw [List.erase_append_right _ hkl]; simp
        rw [goal_rhs]
        cases l with
        | nil => simp [inorder]
        | node ll lk lh lr =>
          cases r with
          | nil => simp [inorder]
          | node rl rk rh rr =>
            simp only
            rw [inorder_rebalance, ihr _ br]
            obtain ⟨tl, e⟩ := minKey_head rl rk rh rr
            rw [e]; simp

/-- deletion keeps the search-tree order, and membership is as expected -/
theorem delete_bst (t : T) (x : Nat) (b : Bst t) : Bst (delete t x) := by
  rw [bst_iff, inorder_delete x t b]
  exact List.Pairwise.sublist List.erase_sublist ((bst_iff t).mp b)

theorem mem_delete (t : T) (x y : Nat) (b : Bst t) : y ∈ inorder (delete t x) ↔ y ≠ x ∧ y ∈ inorder t := by
  rw [inorder_delete x t b]
  have s := (bst_iff t).mp b
  exact List.Nodup.mem_erase_iff (List.Pairwise.imp (fun h => Nat.ne_of_lt h) s)

#print axioms insert_bst
#print axioms inorder_delete
#print axioms delete_bst
#print axioms mem_delete
end Avl
