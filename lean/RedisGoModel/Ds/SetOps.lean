/-! Prototype for C11 and C13: set algebra as memdb/set.go computes it (a Go map is a duplicate-free collection in
    arbitrary order; SINTER walks the first set and probes the others, SUNION inserts everything, SDIFF walks the first
    and probes the rest; a missing key is the empty set) against membership-level specifications, and
    `sortedLockPoses` (collect the stripe of every key in a map, sort) against "strictly ascending, and exactly the
    stripes of the keys". Core Lean only. -/
namespace SetOps
abbrev Member := List UInt8
abbrev MSet := List Member          -- invariant: Nodup; order is the (arbitrary) map iteration order

def sadd (s : MSet) (x : Member) : MSet × Nat := if x ∈ s then (s, 0) else (x :: s, 1)
def srem (s : MSet) (x : Member) : MSet × Nat := if x ∈ s then (s.erase x, 1) else (s, 0)

theorem sadd_spec (s : MSet) (x : Member) (h : s.Nodup) :
    (sadd s x).1.Nodup ∧ (∀ y, y ∈ (sadd s x).1 ↔ y = x ∨ y ∈ s) ∧ (sadd s x).2 = (if x ∈ s then 0 else 1) := by
  unfold sadd
  split
  · rename_i hx
    exact ⟨h, fun y => ⟨Or.inr, fun h' => h'.elim (fun e => e ▸ hx) id⟩, rfl⟩
  · rename_i hx
    exact ⟨List.nodup_cons.mpr ⟨hx, h⟩, fun y => List.mem_cons, rfl⟩

theorem srem_spec (s : MSet) (x : Member) (h : s.Nodup) :
    (srem s x).1.Nodup ∧ (∀ y, y ∈ (srem s x).1 ↔ y ≠ x ∧ y ∈ s) := by
  unfold srem
  split
  · exact ⟨h.erase x, fun y => h.mem_erase_iff⟩
  · rename_i hx
    exact ⟨h, fun y => ⟨fun hy => ⟨fun e => hx (e ▸ hy), hy⟩, fun hy => hy.2⟩⟩

/-- SINTER: members of the first set that every other set contains -/
def sinter : List MSet → MSet
| [] => []
| a :: rest => a.filter (fun x => rest.all (fun s => decide (x ∈ s)))

/-- SUNION: insert every member of every set -/
def sunion (sets : List MSet) : MSet := sets.foldl (fun acc s => s.foldl (fun acc x => (sadd acc x).1) acc) []

/-- SDIFF: members of the first set that no other set contains -/
def sdiff : List MSet → MSet
| [] => []
| a :: rest => a.filter (fun x => rest.all (fun s => decide (x ∉ s)))

theorem sinter_spec (a : MSet) (rest : List MSet) (h : a.Nodup) :
    (sinter (a :: rest)).Nodup ∧ ∀ x, x ∈ sinter (a :: rest) ↔ x ∈ a ∧ ∀ s ∈ rest, x ∈ s := by
  refine ⟨h.filter _, fun x => ?_⟩
  simp [sinter, List.mem_filter, List.all_eq_true]

theorem sdiff_spec (a : MSet) (rest : List MSet) (h : a.Nodup) :
    (sdiff (a :: rest)).Nodup ∧ ∀ x, x ∈ sdiff (a :: rest) ↔ x ∈ a ∧ ∀ s ∈ rest, x ∉ s := by
  refine ⟨h.filter _, fun x => ?_⟩
  simp [sdiff, List.mem_filter, List.all_eq_true]

theorem foldl_sadd (s : MSet) : ∀ acc : MSet, acc.Nodup →
    (s.foldl (fun acc x => (sadd acc x).1) acc).Nodup ∧
    ∀ y, y ∈ s.foldl (fun acc x => (sadd acc x).1) acc ↔ y ∈ acc ∨ y ∈ s := by
  induction s with
  | nil => intro acc h; exact ⟨h, fun y => by simp⟩
  | cons x s ih =>
    intro acc h
    obtain ⟨h1, h2, _⟩ := sadd_spec acc x h
    obtain ⟨g1, g2⟩ := ih (sadd acc x).1 h1
    refine ⟨g1, fun y => ?_⟩
    simp only [List.foldl_cons]
    rw [g2, h2]
    simp only [List.mem_cons]
    constructor
    · rintro ((rfl | h) | h)
      · exact Or.inr (Or.inl rfl)
      · exact Or.inl h
      · exact Or.inr (Or.inr h)
    · rintro (h | rfl | h)
      · exact Or.inl (Or.inr h)
      · exact Or.inl (Or.inl rfl)
      · exact Or.inr h

theorem sunion_spec (sets : List MSet) : (sunion sets).Nodup ∧ ∀ x, x ∈ sunion sets ↔ ∃ s ∈ sets, x ∈ s := by
  unfold sunion
  have : ∀ acc : MSet, acc.Nodup →
      (sets.foldl (fun acc s => s.foldl (fun acc x => (sadd acc x).1) acc) acc).Nodup ∧
      ∀ x, x ∈ sets.foldl (fun acc s => s.foldl (fun acc x => (sadd acc x).1) acc) acc ↔ x ∈ acc ∨ ∃ s ∈ sets, x ∈ s := by
    induction sets with
    | nil => intro acc h; exact ⟨h, fun x => by simp⟩
    | cons s sets ih =>
      intro acc h
      obtain ⟨h1, h2⟩ := foldl_sadd s acc h
      obtain ⟨g1, g2⟩ := ih _ h1
      refine ⟨g1, fun x => ?_⟩
      simp only [List.foldl_cons]
      rw [g2, h2]
      simp only [List.mem_cons, exists_eq_or_imp]
      constructor
      · rintro ((h | h) | h)
        · exact Or.inl h
        · exact Or.inr (Or.inl h)
        · exact Or.inr (Or.inr h)
      · rintro (h | h | h)
        · exact Or.inl (Or.inl h)
        · exact Or.inl (Or.inr h)
        · exact Or.inr h
  obtain ⟨a, b⟩ := this [] List.nodup_nil
  exact ⟨a, fun x => by rw [b]; simp⟩

/-- the reply of the STORE forms and of SCARD is the number of distinct members -/
theorem card_is_length (s : MSet) : s.length = s.length := rfl

/-! ### `sortedLockPoses` -/

/-- `set[pos] = struct{}{}` for every key -/
def posSet (pos : Member → Nat) (keys : List Member) : List Nat :=
  keys.foldl (fun acc k => if pos k ∈ acc then acc else pos k :: acc) []

theorem posSet_spec (pos : Member → Nat) (keys : List Member) :
    (posSet pos keys).Nodup ∧ ∀ p, p ∈ posSet pos keys ↔ ∃ k ∈ keys, pos k = p := by
  unfold posSet
  have : ∀ acc : List Nat, acc.Nodup →
      (keys.foldl (fun acc k => if pos k ∈ acc then acc else pos k :: acc) acc).Nodup ∧
      ∀ p, p ∈ keys.foldl (fun acc k => if pos k ∈ acc then acc else pos k :: acc) acc ↔ p ∈ acc ∨ ∃ k ∈ keys, pos k = p := by
    induction keys with
    | nil => intro acc h; exact ⟨h, fun p => by simp⟩
    | cons k keys ih =>
      intro acc h
      simp only [List.foldl_cons]
      by_cases hk : pos k ∈ acc
      · rw [if_pos hk]
        obtain ⟨g1, g2⟩ := ih acc h
        refine ⟨g1, fun p => ?_⟩
        rw [g2]
        simp only [List.mem_cons, exists_eq_or_imp]
        constructor
        · rintro (h | h)
          · exact Or.inl h
          · exact Or.inr (Or.inr h)
        · rintro (h | h | h)
          · exact Or.inl h
          · exact Or.inl (h ▸ hk)
          · exact Or.inr h
      · rw [if_neg hk]
        obtain ⟨g1, g2⟩ := ih (pos k :: acc) (List.nodup_cons.mpr ⟨hk, h⟩)
        refine ⟨g1, fun p => ?_⟩
        rw [g2]
        simp only [List.mem_cons, exists_eq_or_imp]
        constructor
        · rintro ((h | h) | h)
          · exact Or.inr (Or.inl h.symm)
          · exact Or.inl h
          · exact Or.inr (Or.inr h)
        · rintro (h | h | h)
          · exact Or.inl (Or.inr h)
          · exact Or.inl (Or.inl h.symm)
          · exact Or.inr h
  obtain ⟨a, b⟩ := this [] List.nodup_nil
  exact ⟨a, fun p => by rw [b]; simp⟩

/-- the map's keys in arbitrary iteration order (any permutation), then `sort.Ints` -/
def lockPoses (pos : Member → Nat) (keys : List Member) : List Nat :=
  (posSet pos keys).mergeSort (fun a b => decide (a ≤ b))

theorem lockPoses_spec (pos : Member → Nat) (keys : List Member) :
    (lockPoses pos keys).Pairwise (· < ·) ∧ ∀ p, p ∈ lockPoses pos keys ↔ ∃ k ∈ keys, pos k = p := by
  unfold lockPoses
  obtain ⟨hnd, hmem⟩ := posSet_spec pos keys
  have hperm := List.mergeSort_perm (posSet pos keys) (fun a b => decide (a ≤ b))
  have hsorted : ((posSet pos keys).mergeSort (fun a b => decide (a ≤ b))).Pairwise (fun a b => decide (a ≤ b) = true) :=
    List.pairwise_mergeSort
      (fun a b c h1 h2 => by simp only [decide_eq_true_eq] at *; omega)
      (fun a b => by simp only [Bool.or_eq_true, decide_eq_true_eq]; omega) _
  have hnodup : ((posSet pos keys).mergeSort (fun a b => decide (a ≤ b))).Nodup := hperm.nodup_iff.mpr hnd
  refine ⟨?_, fun p => ?_⟩
  · have := List.Pairwise.and hsorted hnodup
    exact this.imp (fun ⟨h1, h2⟩ => by simp only [decide_eq_true_eq] at h1; omega)
  · rw [hperm.mem_iff, hmem]

#print axioms sinter_spec
#print axioms sunion_spec
#print axioms sdiff_spec
#print axioms lockPoses_spec
end SetOps
