/-! Prototype for C18: stream IDs stay strictly increasing under XADD (auto, auto-sequence and explicit IDs), a
    rejected XADD changes nothing, the linear scan of XRANGE returns exactly the entries in the inclusive range, and
    trimming removes only the oldest entries. The scan and the ID rules are written the way stream_struct.go is
    organised (append-only slice of IDs, one pass with a `flag` and a `break`), with its comparisons repaired to the
    lexicographic order. Core Lean only. -/
namespace StreamOps

structure Id where
  ms  : Nat
  seq : Nat
deriving DecidableEq, Repr

def Id.lt (a b : Id) : Prop := a.ms < b.ms ∨ (a.ms = b.ms ∧ a.seq < b.seq)
def Id.le (a b : Id) : Prop := a.ms < b.ms ∨ (a.ms = b.ms ∧ a.seq ≤ b.seq)
instance (a b : Id) : Decidable (a.lt b) := by unfold Id.lt; infer_instance
instance (a b : Id) : Decidable (a.le b) := by unfold Id.le; infer_instance

theorem Id.lt_trans {a b c : Id} (h1 : a.lt b) (h2 : b.lt c) : a.lt c := by unfold Id.lt at *; omega
theorem Id.le_of_lt {a b : Id} (h : a.lt b) : a.le b := by unfold Id.lt Id.le at *; omega
theorem Id.le_trans {a b c : Id} (h1 : a.le b) (h2 : b.le c) : a.le c := by unfold Id.le at *; omega
theorem Id.lt_of_lt_of_le {a b c : Id} (h1 : a.lt b) (h2 : b.le c) : a.lt c := by unfold Id.lt Id.le at *; omega
theorem Id.not_le {a b : Id} : ¬ a.le b ↔ b.lt a := by unfold Id.lt Id.le; omega
theorem Id.lt_irrefl (a : Id) : ¬ a.lt a := by unfold Id.lt; omega

abbrev Fields := List (List UInt8)
structure Entry where
  id  : Id
  val : Fields

abbrev Stream := List Entry      -- oldest first, like `timeStamps`

def Inv (s : Stream) : Prop := s.Pairwise (fun a b => a.id.lt b.id)

def top (s : Stream) : Id := match s.getLast? with | some e => e.id | none => ⟨0, 0⟩

inductive Req | auto | autoSeq (ms : Nat) | explicit (ms seq : Nat)

/-- the ID an XADD gets, or `none` when it must be rejected (`now` = `time.Now().UnixMilli()`) -/
def nextId (s : Stream) (now : Nat) : Req → Option Id
| .auto => if s = [] then some ⟨now, 0⟩
           else if (top s).ms < now then some ⟨now, 0⟩ else some ⟨(top s).ms, (top s).seq + 1⟩
| .autoSeq ms => if s = [] then some ⟨ms, if ms = 0 then 1 else 0⟩
           else if ms < (top s).ms then none
           else if ms = (top s).ms then some ⟨ms, (top s).seq + 1⟩ else some ⟨ms, 0⟩
| .explicit ms seq =>
    if ms = 0 ∧ seq = 0 then none
    else if s = [] then some ⟨ms, seq⟩
    else if (top s).lt ⟨ms, seq⟩ then some ⟨ms, seq⟩ else none

def xadd (s : Stream) (now : Nat) (r : Req) (v : Fields) : Stream × Option Id :=
  match nextId s now r with
  | some id => (s ++ [⟨id, v⟩], some id)
  | none => (s, none)

theorem top_ge {s : Stream} (h : Inv s) : ∀ e ∈ s, e.id.le (top s) := by
  induction s with
  | nil => intro e he; cases he
  | cons a r ih =>
    intro e he
    simp only [Inv, List.pairwise_cons] at h
    cases r with
    | nil =>
      simp only [List.mem_singleton] at he; subst he
      simp [top, Id.le]
    | cons b r' =>
      have htop : top (a :: b :: r') = top (b :: r') := by simp [top, List.getLast?_cons_cons]
      rw [htop]
      rcases List.mem_cons.mp he with rfl | he
      · exact Id.le_of_lt (Id.lt_of_lt_of_le (h.1 b (by simp)) (ih h.2 b (by simp)))
      · exact ih h.2 e he

theorem Id.lt_of_le_of_lt {a b c : Id} (h1 : a.le b) (h2 : b.lt c) : a.lt c := by unfold Id.lt Id.le at *; omega

theorem nextId_gt {s : Stream} {now : Nat} {r : Req} {id : Id} (hne : s ≠ []) (h : nextId s now r = some id) :
    (top s).lt id := by
  cases r with
  | auto =>
    simp only [nextId, hne, if_false] at h
    split at h <;> (simp only [Option.some.injEq] at h; subst h; simp [Id.lt] <;> omega)
  | autoSeq ms =>
    simp only [nextId, hne, if_false] at h
    split at h
    · cases h
    · split at h <;> (simp only [Option.some.injEq] at h; subst h; simp [Id.lt] <;> omega)
  | explicit ms seq =>
    simp only [nextId, hne, if_false] at h
    split at h
    · cases h
    · split at h
      · simp only [Option.some.injEq] at h; subst h; assumption
      · cases h

/-- **every appended entry gets an ID strictly greater than all IDs already in the stream** -/
theorem ids_strictly_increasing (s : Stream) (now : Nat) (r : Req) (v : Fields) (h : Inv s) :
    Inv (xadd s now r v).1 ∧ ∀ id, (xadd s now r v).2 = some id → ∀ e ∈ s, e.id.lt id := by
  unfold xadd
  cases hn : nextId s now r with
  | none => exact ⟨h, fun _ hh => by cases hh⟩
  | some id =>
    have hall : ∀ e ∈ s, e.id.lt id := by
      intro e he
      have hne : s ≠ [] := fun h0 => by subst h0; cases he
      exact Id.lt_of_le_of_lt (top_ge h e he) (nextId_gt hne hn)
    refine ⟨?_, fun id' hh => by simp only [Option.some.injEq] at hh; subst hh; exact hall⟩
    show List.Pairwise (fun a b => a.id.lt b.id) (s ++ [⟨id, v⟩])
    rw [List.pairwise_append]
    refine ⟨h, List.pairwise_singleton _ _, ?_⟩
    intro a ha b hb
    rw [List.mem_singleton] at hb
    subst hb
    exact hall a ha

/-- a rejected XADD changes nothing -/
theorem rejected_unchanged (s : Stream) (now : Nat) (r : Req) (v : Fields) (h : (xadd s now r v).2 = none) :
    (xadd s now r v).1 = s := by
  unfold xadd at *
  cases hn : nextId s now r with
  | none => rfl
  | some id => rw [hn] at h; cases h

/-- an explicit ID that is not greater than the last one is rejected -/
theorem explicit_not_greater_rejected (s : Stream) (now ms seq : Nat) (v : Fields) (hne : s ≠ [])
    (h : ¬ (top s).lt ⟨ms, seq⟩) : (xadd s now (.explicit ms seq) v).2 = none := by
  unfold xadd nextId
  by_cases h0 : ms = 0 ∧ seq = 0
  · simp [h0]
  · simp [h0, hne, h]

/-- `Stream.Range`: one pass, `break` beyond the end, `flag` set at the first ID not below the start -/
def scan (lo hi : Id) : Stream → Bool → Stream
| [], _ => []
| e :: r, flag =>
    if hi.lt e.id then []
    else
      let flag' := flag || decide (lo.le e.id)
      if flag' then e :: scan lo hi r flag' else scan lo hi r flag'

/-- **XRANGE returns exactly the stored entries whose IDs lie in the inclusive range, in ID order** -/
theorem xrange_exact (lo hi : Id) : ∀ (s : Stream) (flag : Bool), Inv s → (flag = true → ∀ e ∈ s, lo.le e.id) →
    scan lo hi s flag = s.filter (fun e => decide (lo.le e.id ∧ e.id.le hi)) := by
  intro s
  induction s with
  | nil => intro _ _ _; rfl
  | cons e r ih =>
    intro flag h hf
    simp only [Inv, List.pairwise_cons] at h
    simp only [scan]
    by_cases hbreak : hi.lt e.id
    · simp only [hbreak, if_true]
      symm
      rw [List.filter_eq_nil_iff]
      intro x hx
      have hxe : e.id.le x.id := by
        rcases List.mem_cons.mp hx with rfl | hx
        · unfold Id.le; omega
        · exact Id.le_of_lt (h.1 x hx)
      have : ¬ x.id.le hi := by
        rw [Id.not_le]; exact Id.lt_of_lt_of_le hbreak hxe
      simp [this]
    · simp only [hbreak, if_false]
      have hle : e.id.le hi := by
        unfold Id.lt at hbreak; unfold Id.le; omega
      by_cases hfl : (flag || decide (lo.le e.id)) = true
      · simp only [hfl, if_true]
        have hlo : lo.le e.id := by
          rcases Bool.or_eq_true_iff.mp hfl with h1 | h1
          · exact hf h1 e (by simp)
          · simpa using h1
        have hrest : ∀ x ∈ r, lo.le x.id := fun x hx => Id.le_trans hlo (Id.le_of_lt (h.1 x hx))
        rw [ih true h.2 (fun _ => hrest)]
        simp [List.filter_cons, hlo, hle]
      · simp only [hfl]
        have hfl' : flag = false ∧ ¬ lo.le e.id := by
          simp only [Bool.or_eq_true, decide_eq_true_eq, not_or] at hfl
          exact ⟨by simpa using hfl.1, hfl.2⟩
        obtain ⟨rfl, hnlo⟩ := hfl'
        have hd : decide (lo.le e.id) = false := by simpa using hnlo
        simp only [Bool.false_or, hd, Bool.false_eq_true, if_false]
        rw [ih false h.2 (fun hh => by cases hh)]
        simp [List.filter_cons, hnlo]

/-- the result is in ID order and carries the stored field lists unchanged (it is a sublist of the stream) -/
theorem xrange_sorted (lo hi : Id) (s : Stream) (h : Inv s) : Inv (scan lo hi s false) := by
  rw [xrange_exact lo hi s false h (fun hh => by cases hh)]
  exact List.Pairwise.sublist List.filter_sublist h

/-- MAXLEN: `DropFirstN (len − m)` — only the oldest entries go, the newest `m` stay as they were -/
def trimMaxLen (s : Stream) (m : Nat) : Stream := s.drop (s.length - m)

theorem trim_oldest_only (s : Stream) (m : Nat) (h : Inv s) :
    Inv (trimMaxLen s m) ∧ (trimMaxLen s m).length = min s.length m ∧
    ∃ dropped, s = dropped ++ trimMaxLen s m ∧ ∀ d ∈ dropped, ∀ e ∈ trimMaxLen s m, d.id.lt e.id := by
  unfold trimMaxLen
  refine ⟨List.Pairwise.sublist (List.drop_sublist _ _) h, by simp; omega, s.take (s.length - m), (List.take_append_drop _ _).symm, ?_⟩
  intro d hd e he
  have := h
  rw [← List.take_append_drop (s.length - m) s, Inv, List.pairwise_append] at this
  exact this.2.2 d hd e he

/-- MINID: entries below the threshold form a prefix of the stream (so dropping them is again "oldest only") -/
def trimMinId (s : Stream) (t : Id) : Stream := s.dropWhile (fun e => decide (e.id.lt t))

theorem trimMinId_exact (s : Stream) (t : Id) (h : Inv s) :
    trimMinId s t = s.filter (fun e => decide (t.le e.id)) := by
  unfold trimMinId
  induction s with
  | nil => rfl
  | cons e r ih =>
    simp only [Inv, List.pairwise_cons] at h
    simp only [List.dropWhile_cons]
    by_cases hlt : e.id.lt t
    · have : ¬ t.le e.id := by rw [Id.not_le]; exact hlt
      simp [hlt, List.filter_cons, this, ih h.2]
    · have hle : t.le e.id := by
        unfold Id.lt at hlt; unfold Id.le; omega
      simp only [hlt, decide_false, Bool.false_eq_true, if_false]
      symm
      rw [List.filter_eq_self]
      intro x hx
      rcases List.mem_cons.mp hx with rfl | hx
      · simpa using hle
      · simpa using Id.le_trans hle (Id.le_of_lt (h.1 x hx))

#print axioms ids_strictly_increasing
#print axioms xrange_exact
#print axioms trim_oldest_only
#print axioms trimMinId_exact
end StreamOps
