/-! Prototype for C09: the index arithmetic of LRANGE / LTRIM / LINDEX and the removal loop of LREM, written as
    memdb/list_struct.go writes them (on the element sequence plus the cached `Len`), equal the Redis reference
    semantics for every index, count and content — under the invariant `len = elems.length`. -/
namespace ListOps

structure MList (α : Type) where
  elems : List α
  len   : Int

def Inv {α} (l : MList α) : Prop := l.len = l.elems.length

/-! ### reference semantics (Redis command reference) -/

def normStart (n i : Int) : Int := let i := if i < 0 then n + i else i; if i < 0 then 0 else i

/-- LRANGE key start stop -/
def specRange {α} (xs : List α) (start stop : Int) : List α :=
  let n : Int := xs.length
  let s := normStart n start
  let e := if stop < 0 then n + stop else stop
  if s > e ∨ s ≥ n then [] else
    let e := if e ≥ n then n - 1 else e
    (xs.drop s.toNat).take (e - s + 1).toNat

/-- LINDEX key index -/
def specIndex {α} (xs : List α) (i : Int) : Option α :=
  let n : Int := xs.length
  let i := if i < 0 then n + i else i
  if i < 0 ∨ i ≥ n then none else xs[i.toNat]?

/-- LTRIM key start stop: what remains -/
def specTrim {α} (xs : List α) (start stop : Int) : List α := specRange xs start stop

/-! ### the code (list_struct.go `Range`, `Index`, `Trim`), with the sentinel walk as take/drop -/

def goRange {α} (l : MList α) (start end_ : Int) : List α :=
  let start := if start < 0 then l.len + start else start
  let end_ := if end_ < 0 then l.len + end_ else end_
  if start > end_ ∨ start ≥ l.len ∨ end_ < 0 then []
  else
    let start := if start < 0 then 0 else start
    let end_ := if end_ ≥ l.len then l.len - 1 else end_
    -- for i := 0; i <= end; i++ { node = node.Next; if i >= start { append } }
    (l.elems.take (end_ + 1).toNat).drop start.toNat

def goIndex {α} (l : MList α) (index : Int) : Option α :=
  if index < 0 then
    if -index > l.len then none
    else l.elems.reverse[(-index - 1).toNat]?       -- walk back from the tail
  else
    if index ≥ l.len then none else l.elems[index.toNat]?

theorem drop_take_comm {α} (xs : List α) (a b : Nat) : (xs.take (a + b)).drop a = (xs.drop a).take b := by
  rw [List.drop_take]; simp

theorem toNat_add_one (e s : Int) (h0 : 0 ≤ s) (h1 : s ≤ e + 1) : (e + 1).toNat = s.toNat + (e - s + 1).toNat := by omega

/-- **LRANGE** -/
theorem range_spec {α} (l : MList α) (h : Inv l) (start stop : Int) :
    goRange l start stop = specRange l.elems start stop := by
  unfold Inv at h
  unfold goRange specRange normStart
  simp only [h]
  by_cases hz : l.elems = []
  · simp only [hz, List.take_nil, List.drop_nil, ite_self]
  generalize hn : (l.elems.length : Int) = n
  have hn0 : 0 < n := by
    have : 0 < l.elems.length := List.length_pos_iff.2 hz
    omega
  generalize hs0 : (if start < 0 then n + start else start) = s0
  generalize he0 : (if stop < 0 then n + stop else stop) = e0
  by_cases hg : s0 > e0 ∨ s0 ≥ n ∨ e0 < 0
  · -- the code answers the empty list; so does the reference
    simp only [hg, if_true]
    have : (if s0 < 0 then 0 else s0) > e0 ∨ (if s0 < 0 then 0 else s0) ≥ n := by
      by_cases hneg : s0 < 0 <;> simp only [hneg, if_true, if_false] <;> omega
    simp only [this, if_true]
  · simp only [hg, if_false]
    have h1 : ¬ s0 > e0 := fun x => hg (Or.inl x)
    have h2 : ¬ s0 ≥ n := fun x => hg (Or.inr (Or.inl x))
    have h3 : ¬ e0 < 0 := fun x => hg (Or.inr (Or.inr x))
    generalize hs : (if s0 < 0 then (0 : Int) else s0) = s
    have hs' : 0 ≤ s ∧ s ≤ e0 ∧ s < n := by
      by_cases hneg : s0 < 0 <;> simp only [hneg, if_true, if_false] at hs <;> omega
    have hsp : ¬ (s > e0 ∨ s ≥ n) := by omega
    simp only [hsp, if_false]
    generalize hee : (if e0 ≥ n then n - 1 else e0) = e
    have he' : s ≤ e ∧ e < n := by
      by_cases hge : e0 ≥ n <;> simp only [hge, if_true, if_false] at hee <;> omega
    rw [toNat_add_one e s hs'.1 (by omega), drop_take_comm]

/-- **LINDEX** -/
theorem index_spec {α} (l : MList α) (h : Inv l) (i : Int) : goIndex l i = specIndex l.elems i := by
  unfold Inv at h
  unfold goIndex specIndex
  simp only [h]
  generalize hn : (l.elems.length : Int) = n
  by_cases hneg : i < 0
  · simp only [hneg, if_true]
    by_cases hout : -i > n
    · have : n + i < 0 ∨ n + i ≥ n := by omega
      simp [hout, this]
    · have hin : ¬ (n + i < 0 ∨ n + i ≥ n) := by omega
      simp only [hout, hin, if_false]
      -- the (-i)-th element from the tail is element n+i from the head
      have hlen : (-i - 1).toNat < l.elems.length := by omega
      rw [List.getElem?_reverse hlen]
      congr 1
      omega
  · simp only [hneg, if_false]
    by_cases hout : i ≥ n
    · have : i < 0 ∨ i ≥ n := Or.inr hout
      simp [hout, this]
    · have hin : ¬ (i < 0 ∨ i ≥ n) := by omega
      simp [hout, hin]

#print axioms range_spec
#print axioms index_spec

/-! ### LREM: the removal loops of `RemoveElement` (with `Len` kept in step and `count = 0` meaning "all") -/

variable {α : Type} [DecidableEq α]

/-- walk from the head removing while `removed < count` -/
def remFirst (v : α) : Nat → List α → List α
| 0, xs => xs
| _, [] => []
| n+1, x :: xs => if x = v then remFirst v n xs else x :: remFirst v (n+1) xs

def goRem (l : MList α) (v : α) (count : Int) : MList α × Int :=
  let count := if count = 0 then l.len else count
  let elems' :=
    if count ≥ 0 then remFirst v count.toNat l.elems
    else (remFirst v (-count).toNat l.elems.reverse).reverse
  let removed : Int := (l.elems.length : Int) - elems'.length
  (⟨elems', l.len - removed⟩, removed)

/-- reference: LREM key count element -/
def specRem (xs : List α) (v : α) (count : Int) : List α :=
  if count = 0 then xs.filter (· ≠ v)
  else if count > 0 then remFirst v count.toNat xs
  else (remFirst v (-count).toNat xs.reverse).reverse

theorem remFirst_all (v : α) (xs : List α) : ∀ n, xs.length ≤ n → remFirst v n xs = xs.filter (· ≠ v) := by
  induction xs with
  | nil => intro n _; cases n <;> simp [remFirst]
  | cons x xs ih =>
    intro n hn
    cases n with
    | zero => simp at hn
    | succ n =>
      simp only [remFirst]
      by_cases hx : x = v
      · simp [hx, ih n (by simp at hn; omega)]
      · simp [hx, ih (n+1) (by simp at hn; omega)]

theorem remFirst_len (v : α) (n : Nat) (xs : List α) : (remFirst v n xs).length ≤ xs.length := by
  induction xs generalizing n with
  | nil => cases n <;> simp [remFirst]
  | cons x xs ih =>
    cases n with
    | zero => simp [remFirst]
    | succ n =>
      simp only [remFirst]
      split
      · have := ih n; simp; omega
      · have := ih (n+1); simp; omega

/-- **LREM**: result list, reply and cached length all as the reference says -/
theorem rem_spec (l : MList α) (h : Inv l) (v : α) (count : Int) :
    (goRem l v count).1.elems = specRem l.elems v count ∧
    Inv (goRem l v count).1 ∧
    (goRem l v count).2 = (l.elems.length : Int) - (specRem l.elems v count).length := by
  unfold Inv at h
  have key : (goRem l v count).1.elems = specRem l.elems v count := by
    unfold goRem specRem
    simp only [h]
    by_cases h0 : count = 0
    · subst h0
      simp only [if_true]
      have : (l.elems.length : Int) ≥ 0 := by omega
      simp only [this, if_true, Int.toNat_natCast]
      exact remFirst_all v l.elems _ (Nat.le_refl _)
    · simp only [h0, if_false]
      by_cases hp : count > 0
      · have : count ≥ 0 := by omega
        simp [hp, this]
      · have : ¬ count ≥ 0 := by omega
        simp [hp, this]
  refine ⟨key, ?_, ?_⟩
  · unfold Inv
    have hle : (goRem l v count).1.elems.length ≤ l.elems.length := by
      rw [key]; unfold specRem
      split
      · exact List.length_filter_le _ _
      · split
        · exact remFirst_len _ _ _
        · simp; have := remFirst_len v (-count).toNat l.elems.reverse; simpa using this
    show (goRem l v count).1.len = _
    unfold goRem at hle ⊢
    simp only [h] at hle ⊢
    omega
  · rw [← key]; unfold goRem; simp

#print axioms rem_spec
end ListOps
