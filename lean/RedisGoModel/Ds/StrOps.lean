/-! Prototype for C01: the index arithmetic of GETRANGE / SETRANGE and the overflow guard of INCRBY, written the way
    memdb/string.go computes them (with the two slices repaired: `end` clamped to the length, the tail kept),
    against list-level specifications. Every Go slice expression is a checked access. Core Lean only. -/
namespace StrOps

inductive Out (α : Type) | ok (a : α) | panic (site : String)
deriving Repr

/-- Go `b[lo:hi]` on a slice whose capacity equals its length: panics unless `0 ≤ lo ≤ hi ≤ len` -/
def slice (b : List UInt8) (lo hi : Int) (site : String) : Out (List UInt8) :=
  if 0 ≤ lo ∧ lo ≤ hi ∧ hi ≤ b.length then .ok ((b.take hi.toNat).drop lo.toNat) else .panic site

/-- `getRangeString` after the key lookup: `start`, `end` as parsed by `strconv.Atoi` -/
def goGetRange (val : List UInt8) (start stop : Int) : Out (List UInt8) :=
  let n : Int := val.length
  let start := if start < 0 then n + start else start
  let stop := if stop < 0 then n + stop else stop
  let stop := stop + 1
  let stop := if stop > n then n else stop              -- repair: clamp to the length
  if start > stop ∨ start ≥ n ∨ stop < 0 then .ok []
  else
    let start := if start < 0 then 0 else start
    slice val start stop "string.go:211"

/-- specification: normalise negative indexes from the tail, clamp to the string, take the inclusive range -/
def specGetRange (val : List UInt8) (start stop : Int) : List UInt8 :=
  let n : Int := val.length
  let lo := (if start < 0 then n + start else start).toNat
  let hi := ((if stop < 0 then n + stop else stop) + 1).toNat
  (val.take hi).drop lo

theorem getrange_spec (val : List UInt8) (start stop : Int) :
    goGetRange val start stop = .ok (specGetRange val start stop) := by
  unfold goGetRange specGetRange slice
  simp only
  generalize hs : (if start < 0 then (val.length : Int) + start else start) = s
  generalize he : (if stop < 0 then (val.length : Int) + stop else stop) = e
  by_cases hgt : e + 1 > (val.length : Int)
  · simp only [hgt, if_true]
    by_cases h1 : s > (val.length : Int) ∨ s ≥ (val.length : Int) ∨ (val.length : Int) < 0
    · rw [if_pos h1]
      have hlo : val.length ≤ s.toNat := by omega
      congr 1
      rw [List.drop_eq_nil_of_le]
      rw [List.length_take]; omega
    · rw [if_neg h1]
      have hs0 : 0 ≤ (if s < 0 then 0 else s) ∧ (if s < 0 then 0 else s) ≤ (val.length : Int) := by
        split <;> omega
      rw [if_pos ⟨hs0.1, hs0.2, Int.le_refl _⟩]
      congr 1
      have e1 : ((val.length : Int)).toNat = val.length := by omega
      have e2 : (if s < 0 then (0 : Int) else s).toNat = s.toNat := by split <;> omega
      rw [e1, e2, List.take_of_length_le (Nat.le_refl _), List.take_of_length_le (by omega)]
  · simp only [hgt, if_false]
    by_cases h1 : s > e + 1 ∨ s ≥ (val.length : Int) ∨ e + 1 < 0
    · rw [if_pos h1]
      congr 1
      rw [List.drop_eq_nil_of_le]
      rw [List.length_take]; omega
    · rw [if_neg h1]
      have hs0 : 0 ≤ (if s < 0 then 0 else s) ∧ (if s < 0 then 0 else s) ≤ e + 1 := by
        split <;> omega
      rw [if_pos ⟨hs0.1, hs0.2, by omega⟩]
      congr 1
      have e2 : (if s < 0 then (0 : Int) else s).toNat = s.toNat := by split <;> omega
      rw [e2]

/-- `setRangeString` after the key lookup (`offset ≥ 0` was checked when parsing) -/
def goSetRange (old : List UInt8) (offset : Nat) (v : List UInt8) : Out (List UInt8) :=
  if offset > old.length then
    .ok (old ++ List.replicate (offset - old.length) 0 ++ v)
  else
    match slice old 0 offset "string.go:251" with
    | .panic s => .panic s
    | .ok head =>
      if offset + v.length < old.length then
        match slice old (offset + v.length : Nat) old.length "string.go:tail" with      -- repair: keep the tail
        | .panic s => .panic s
        | .ok tail => .ok (head ++ v ++ tail)
      else .ok (head ++ v)

/-- specification: pad with zero bytes up to the offset, overwrite, keep whatever lies beyond the written range -/
def specSetRange (old : List UInt8) (offset : Nat) (v : List UInt8) : List UInt8 :=
  (old ++ List.replicate (offset - old.length) 0).take offset ++ v ++ old.drop (offset + v.length)

theorem setrange_spec (old : List UInt8) (offset : Nat) (v : List UInt8) :
    goSetRange old offset v = .ok (specSetRange old offset v) := by
  unfold goSetRange specSetRange slice
  by_cases h : offset > old.length
  · simp only [h, if_true]
    congr 1
    rw [List.take_of_length_le (by simp; omega), List.drop_eq_nil_of_le (by omega), List.append_nil]
  · simp only [h, if_false]
    have h0 : (0 : Int) ≤ 0 ∧ (0 : Int) ≤ (offset : Int) ∧ (offset : Int) ≤ (old.length : Int) := by omega
    rw [if_pos h0]
    simp only [Int.toNat_natCast, Int.toNat_zero, List.drop_zero]
    have hpad : offset - old.length = 0 := by omega
    rw [hpad, List.replicate_zero, List.append_nil]
    by_cases ht : offset + v.length < old.length
    · simp only [ht, if_true]
      have h1 : (0 : Int) ≤ ((offset + v.length : Nat) : Int) ∧ ((offset + v.length : Nat) : Int) ≤ (old.length : Int) ∧
          (old.length : Int) ≤ (old.length : Int) := by omega
      rw [if_pos h1]
      simp only [Int.toNat_natCast]
      rw [List.take_of_length_le (Nat.le_refl _)]
    · simp only [ht, if_false]
      rw [List.drop_eq_nil_of_le (by omega), List.append_nil]

/-- the length reply of SETRANGE -/
theorem setrange_length (old : List UInt8) (offset : Nat) (v : List UInt8) :
    (specSetRange old offset v).length = max old.length (offset + v.length) := by
  unfold specSetRange
  simp only [List.length_append, List.length_take, List.length_replicate, List.length_drop]
  omega

def minI64 : Int := -9223372036854775808
def maxI64 : Int := 9223372036854775807
def wrap64 (x : Int) : Int := (x - minI64) % 18446744073709551616 + minI64

/-- INCRBY / DECRBY with the overflow guard computed in int64 like the Go code would: every intermediate is wrapped -/
def goIncrBy (old delta : Int) : Option Int :=
  if (delta > 0 ∧ old > wrap64 (maxI64 - delta)) ∨ (delta < 0 ∧ old < wrap64 (minI64 - delta)) then none
  else some (wrap64 (old + delta))

theorem incr_exact_or_rejected (old delta : Int) (ho : minI64 ≤ old ∧ old ≤ maxI64) (hd : minI64 ≤ delta ∧ delta ≤ maxI64) :
    goIncrBy old delta = if minI64 ≤ old + delta ∧ old + delta ≤ maxI64 then some (old + delta) else none := by
  unfold goIncrBy wrap64 minI64 maxI64 at *
  by_cases hp : delta > 0
  · have e : (9223372036854775807 - delta - -9223372036854775808) % 18446744073709551616 + -9223372036854775808 = 9223372036854775807 - delta := by omega
    rw [e]
    split <;> split <;> first | omega | (simp only [Option.some.injEq]; omega) | rfl
  · by_cases hn : delta < 0
    · have e : (-9223372036854775808 - delta - -9223372036854775808) % 18446744073709551616 + -9223372036854775808 = -9223372036854775808 - delta := by omega
      rw [e]
      split <;> split <;> first | omega | (simp only [Option.some.injEq]; omega) | rfl
    · have : delta = 0 := by omega
      subst this
      split <;> split <;> first | omega | (simp only [Option.some.injEq]; omega) | rfl

/-- without the guard the wrapped sum is wrong exactly when the true sum leaves the range (what the pinned code does) -/
example : wrap64 (maxI64 + 1) = minI64 := by decide

#print axioms getrange_spec
#print axioms setrange_spec
#print axioms incr_exact_or_rejected
end StrOps
