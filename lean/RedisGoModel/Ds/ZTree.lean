/-! The sorted-set tree of memdb/btree.go (C12), core Lean only (linked into the driver).

    An AVL tree keyed by score; every node holds the set of member names with that score (kept sorted here, a Go map there) and
    its stored height.  Scores are represented by their *order key*: the integer that orders IEEE-754 doubles (`skey` of the bit
    pattern; −0 and +0 share key 0; NaN never enters the tree).  `insert`, `rebalance` and `del` mirror `insert`, `rebalance`
    and `deleteNode` of btree.go as repaired (rotation case chosen by looking at the child on the heavy side; the two-children
    branch of `deleteNode` falls through to `rebalance`). -/
namespace ZT
abbrev Bytes := List UInt8

/-- lexicographic order on byte strings (Redis orders score-mates by `memcmp`) -/
def blt : Bytes → Bytes → Bool
| [], [] => false
| [], _ :: _ => true
| _ :: _, [] => false
| a :: as, b :: bs => if a < b then true else if b < a then false else blt as bs

/-- ordered insertion into a strictly sorted name list (a name already present is kept once) -/
def nins (m : Bytes) : List Bytes → List Bytes
| [] => [m]
| a :: l => if blt m a then m :: a :: l else if blt a m then a :: nins m l else a :: l

/-! ### scores -/

/-- the order key of a double given by its bits: sign-magnitude read as an integer (so −0 ↦ 0 = +0, −inf smallest, +inf largest) -/
def skey (b : UInt64) : Int :=
  if b < 0x8000000000000000 then (b.toNat : Int) else - ((b.toNat : Int) - 9223372036854775808)

/-- the bits of the double with order key `k` (key 0 ↦ +0) -/
def unkey (k : Int) : UInt64 :=
  if 0 ≤ k then UInt64.ofNat k.toNat else UInt64.ofNat ((-k).toNat + 9223372036854775808)

def isNaNBits (b : UInt64) : Bool :=
  (b &&& 0x7ff0000000000000) == 0x7ff0000000000000 && (b &&& 0x000fffffffffffff) != 0

def keyInf : Int := 0x7ff0000000000000
def keyNegInf : Int := -0x7ff0000000000000

/-- IEEE-754 addition of two scores given by their order keys; `none` when the sum is NaN (+inf + −inf).
    (The arithmetic is the platform's double addition; theorems treat it as an uninterpreted function.) -/
def fadd (a b : Int) : Option Int :=
  let r := (Float.ofBits (unkey a) + Float.ofBits (unkey b)).toBits
  if isNaNBits r then none else some (skey r)

/-! ### the tree -/

inductive T
| nil
| node (l : T) (k : Int) (ns : List Bytes) (h : Nat) (r : T)
deriving DecidableEq

open T

def ht : T → Nat
| nil => 0
| node _ _ _ h _ => h

/-- `n.height = n.maxHeight() + 1` -/
def mk (l : T) (k : Int) (ns : List Bytes) (r : T) : T := node l k ns (max (ht l) (ht r) + 1) r

def rotR : T → T
| node (node a x xs _ b) y ys _ c => mk a x xs (mk b y ys c)
| t => t

def rotL : T → T
| node a x xs _ (node b y ys _ c) => mk (mk a x xs b) y ys c
| t => t

def keyOf : T → Int
| nil => 0
| node _ k _ _ _ => k

def lft : T → T
| nil => nil
| node l _ _ _ _ => l
def rgt : T → T
| nil => nil
| node _ _ _ _ r => r

/-- `insert(n, target)` with `target = {Names: {m}, Score: s}` -/
def insert : T → Int → Bytes → T
| nil, s, m => node nil s [m] 1 nil
| node l k ns h r, s, m =>
  if s < k then
    let l' := insert l s m
    let n := mk l' k ns r
    if ht l' > ht r + 1 then
      (if s < keyOf l' then rotR n else rotR (mk (rotL l') k ns r))
    else n
  else if k < s then
    let r' := insert r s m
    let n := mk l k ns r'
    if ht r' > ht l + 1 then
      (if keyOf r' < s then rotL n else rotL (mk l k ns (rotR r')))
    else n
  else node l k (nins m ns) h r

def balL (t : T) : Bool := ht (lft t) ≥ ht (rgt t)     -- balance(n) ≥ 0
def balR (t : T) : Bool := ht (rgt t) ≥ ht (lft t)     -- balance(n) ≤ 0

/-- `rebalance(n)` applied to a node whose children are l and r -/
def rebalance (l : T) (k : Int) (ns : List Bytes) (r : T) : T :=
  if ht l > ht r + 1 then
    (if balL l then rotR (mk l k ns r) else rotR (mk (rotL l) k ns r))
  else if ht r > ht l + 1 then
    (if balR r then rotL (mk l k ns r) else rotL (mk l k ns (rotR r)))
  else mk l k ns r

/-- `n.min().Value` -/
def minNode : T → Int × List Bytes
| nil => (0, [])
| node nil k ns _ _ => (k, ns)
| node l _ _ _ _ => minNode l

/-- `deleteNode(n, target)`: `o = some m` is the target `{Names: {m}, Score: x}` (remove member `m` from the node with score `x`;
    the node itself goes when `m` was its only name), `o = none` is a target carrying all the names of the node (the recursive call
    of the two-children branch: the node goes). -/
def del : T → Int → Option Bytes → T
| nil, _, _ => nil
| node l k ns h r, x, o =>
  if x < k then rebalance (del l x o) k ns r
  else if k < x then rebalance l k ns (del r x o)
  else
    match o with
    | some m =>
      if ns.length ≤ 1 then
        (match l, r with
        | nil, _ => r
        | _, nil => l
        | _, _ => rebalance l (minNode r).1 (minNode r).2 (del r (minNode r).1 none))
      else node l k (ns.erase m) h r
    | none =>
      (match l, r with
      | nil, _ => r
      | _, nil => l
      | _, _ => rebalance l (minNode r).1 (minNode r).2 (del r (minNode r).1 none))

/-! ### views -/

/-- the nodes in order: (score key, names) -/
def nodes : T → List (Int × List Bytes)
| nil => []
| node l k ns _ r => nodes l ++ (k, ns) :: nodes r

/-- the members a node list stands for, in (score, name) order -/
def flat (L : List (Int × List Bytes)) : List (Bytes × Int) := L.flatMap fun p => p.2.map fun n => (n, p.1)

/-- the member sequence of the sorted set: in-order over the nodes, names ascending inside a node -/
def members (t : T) : List (Bytes × Int) := flat (nodes t)

/-- `Btree.len`: the number of nodes -/
def size (t : T) : Nat := (nodes t).length

/-- `tree.dict[m]`: the score under which `m` is held -/
def lookup (t : T) (m : Bytes) : Option Int := ((members t).find? fun p => p.1 == m).map (·.2)

/-- `if node != nil { Delete(member) }; Insert(r)` -/
def setScore (t : T) (m : Bytes) (s : Int) : T :=
  match lookup t m with
  | some old => insert (del t old (some m)) s m
  | none => insert t s m

/-- `Btree.Delete(name)` -/
def remove (t : T) (m : Bytes) : T :=
  match lookup t m with
  | some old => del t old (some m)
  | none => t

end ZT
