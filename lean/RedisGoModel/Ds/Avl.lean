/-! Prototype for C12: AVL insertion as in memdb/btree.go (with the rotation-case test repaired to look at the child on
    the heavy side) keeps stored heights exact, the balance factor within ±1, and the in-order sequence sorted. -/
namespace Avl

inductive T
| nil
| node (l : T) (k : Nat) (h : Nat) (r : T)

open T

def ht : T → Nat
| nil => 0
| node _ _ h _ => h

/-- `n.height = n.maxHeight() + 1` -/
def mk (l : T) (k : Nat) (r : T) : T := node l k (max (ht l) (ht r) + 1) r

def rotR : T → T
| node (node a x _ b) y _ c => mk a x (mk b y c)
| t => t

def rotL : T → T
| node a x _ (node b y _ c) => mk (mk a x b) y c
| t => t

def keyOf : T → Nat
| nil => 0
| node _ k _ _ => k

def insert : T → Nat → T
| nil, x => node nil x 1 nil
| node l k h r, x =>
  if x < k then
    let l' := insert l x
    let n := mk l' k r
    if ht l' > ht r + 1 then
      (if x < keyOf l' then rotR n else rotR (mk (rotL l') k r))
    else n
  else if k < x then
    let r' := insert r x
    let n := mk l k r'
    if ht r' > ht l + 1 then
      (if keyOf r' < x then rotL n else rotL (mk l k (rotR r')))
    else n
  else node l k h r

def inorder : T → List Nat
| nil => []
| node l k _ r => inorder l ++ k :: inorder r

/-- AVL with exact stored heights -/
inductive IsAvl : T → Nat → Prop
| nil : IsAvl nil 0
| node {l r k h hl hr} : IsAvl l hl → IsAvl r hr → hl ≤ hr + 1 → hr ≤ hl + 1 → h = max hl hr + 1 → IsAvl (node l k h r) h

theorem IsAvl.ht_eq {t h} (a : IsAvl t h) : ht t = h := by cases a <;> rfl

theorem isAvl_mk {l r : T} {hl hr : Nat} (k : Nat) (a : IsAvl l hl) (b : IsAvl r hr) (h1 : hl ≤ hr + 1) (h2 : hr ≤ hl + 1) :
    IsAvl (mk l k r) (max hl hr + 1) := by
  unfold mk
  rw [a.ht_eq, b.ht_eq]
  exact .node a b h1 h2 rfl

def lft : T → T
| nil => nil
| node l _ _ _ => l
def rgt : T → T
| nil => nil
| node _ _ _ r => r

/-! rotation lemmas, each with the exact height bookkeeping (hr = height of the untouched sibling) -/

theorem avl_LL {a b r : T} {k' k hr : Nat} (aa : IsAvl a (hr + 1)) (ab : IsAvl b hr) (ar : IsAvl r hr) :
    IsAvl (rotR (mk (node a k' (hr + 2) b) k r)) (hr + 2) := by
  have B := isAvl_mk k ab ar (by omega) (by omega)
  have C := isAvl_mk k' aa B (by omega) (by omega)
  simp only [mk, rotR]
  have : max (hr + 1) (max hr hr + 1) + 1 = hr + 2 := by omega
  rw [this] at C
  simpa [mk, aa.ht_eq, ab.ht_eq, ar.ht_eq] using C

theorem avl_LR {a bl br r : T} {k' bk k hr hc hd : Nat} (aa : IsAvl a hr) (ac : IsAvl bl hc) (ad : IsAvl br hd)
    (ar : IsAvl r hr) (h1 : hc ≤ hr) (h2 : hd ≤ hr) (h3 : hr = max hc hd) (h4 : hc ≤ hd + 1) (h5 : hd ≤ hc + 1) :
    IsAvl (rotR (mk (rotL (node a k' (hr + 2) (node bl bk (hr + 1) br))) k r)) (hr + 2) := by
  have A := isAvl_mk k' aa ac (by omega) (by omega)
  have B := isAvl_mk k ad ar (by omega) (by omega)
  have C := isAvl_mk bk A B (by omega) (by omega)
  have : max (max hr hc + 1) (max hd hr + 1) + 1 = hr + 2 := by omega
  rw [this] at C
  simpa [mk, rotL, rotR, ht, aa.ht_eq, ac.ht_eq, ad.ht_eq, ar.ht_eq] using C

theorem avl_RR {l a b : T} {k k' hl : Nat} (al : IsAvl l hl) (aa : IsAvl a hl) (ab : IsAvl b (hl + 1)) :
    IsAvl (rotL (mk l k (node a k' (hl + 2) b))) (hl + 2) := by
  have A := isAvl_mk k al aa (by omega) (by omega)
  have C := isAvl_mk k' A ab (by omega) (by omega)
  simp only [mk, rotL]
  have : max (max hl hl + 1) (hl + 1) + 1 = hl + 2 := by omega
  rw [this] at C
  simpa [mk, al.ht_eq, aa.ht_eq, ab.ht_eq] using C

theorem avl_RL {l bl br b : T} {k bk k' hl hc hd : Nat} (al : IsAvl l hl) (ac : IsAvl bl hc) (ad : IsAvl br hd)
    (ab : IsAvl b hl) (h1 : hc ≤ hl) (h2 : hd ≤ hl) (h3 : hl = max hc hd) (h4 : hc ≤ hd + 1) (h5 : hd ≤ hc + 1) :
    IsAvl (rotL (mk l k (rotR (node (node bl bk (hl + 1) br) k' (hl + 2) b)))) (hl + 2) := by
  have A := isAvl_mk k al ac (by omega) (by omega)
  have B := isAvl_mk k' ad ab (by omega) (by omega)
  have C := isAvl_mk bk A B (by omega) (by omega)
  have : max (max hl hc + 1) (max hd hl + 1) + 1 = hl + 2 := by omega
  rw [this] at C
  simpa [mk, rotL, rotR, ht, al.ht_eq, ac.ht_eq, ad.ht_eq, ab.ht_eq] using C

/-- insertion: result is AVL; height unchanged or +1; if it grew and the tree was non-empty, the side that received x
    is the strictly higher one — this is what selects single vs double rotation one level up -/
theorem insert_avl (x : Nat) : ∀ (t : T) (h : Nat), IsAvl t h →
    ∃ h', IsAvl (insert t x) h' ∧ (h' = h ∨ h' = h + 1) ∧
      (h' = h + 1 → h ≠ 0 →
          ((x < keyOf (insert t x) ∧ ht (lft (insert t x)) = ht (rgt (insert t x)) + 1) ∨
           (keyOf (insert t x) < x ∧ ht (rgt (insert t x)) = ht (lft (insert t x)) + 1))) := by
  intro t
  induction t with
  | nil =>
    intro h a
    cases a
    exact ⟨1, .node .nil .nil (by omega) (by omega) (by simp), Or.inr rfl, fun _ h0 => absurd rfl h0⟩
  | node l k hh r ihl ihr =>
    intro h a
    cases a with
    | node al ar b1 b2 e =>
    rename_i hl hr
    simp only [insert]
    by_cases hlt : x < k
    · simp only [hlt, if_true]
      obtain ⟨hl', al', hch, hside⟩ := ihl hl al
      rw [al'.ht_eq, ar.ht_eq]
      by_cases hrot : hl' > hr + 1
      · simp only [hrot, if_true]
        have hgrow : hl' = hl + 1 := by omega
        have hl0 : hl ≠ 0 := by omega
        have side := hside hgrow hl0
        generalize insert l x = t' at al' side ⊢
        cases al' with
        | nil => omega
        | node aa ab c1 c2 e' =>
        rename_i a' b' k' ha hb
        have e1 := aa.ht_eq; have e3 := ab.ht_eq
        simp only [keyOf, lft, rgt, e1, e3] at side
        simp only [keyOf]
        have hhr : hl' = hr + 2 := by omega
        subst hhr
        refine ⟨hr + 2, ?_, Or.inl (by omega), fun hg => by omega⟩
        rcases side with ⟨sx, sh⟩ | ⟨sx, sh⟩
        · simp only [sx, if_true]
          obtain rfl : hb = hr := by omega
          obtain rfl : ha = hb + 1 := by omega
          exact avl_LL aa ab ar
        · have hnx : ¬ x < k' := by omega
          simp only [hnx, if_false]
          obtain rfl : ha = hr := by omega
          obtain rfl : hb = ha + 1 := by omega
          cases ab with
          | node ac ad d1 d2 e'' =>
          rename_i bl br bk hc hd
          exact avl_LR aa ac ad ar (by omega) (by omega) (by omega) d1 d2
      · simp only [hrot, if_false]
        have h1 : hl' ≤ hr + 1 := by omega
        have N := isAvl_mk k al' ar h1 (by omega)
        refine ⟨max hl' hr + 1, by simpa [mk, al'.ht_eq, ar.ht_eq] using N, by omega, ?_⟩
        intro hg _
        left
        simp only [mk, keyOf, lft, rgt, al'.ht_eq, ar.ht_eq]
        exact ⟨hlt, by omega⟩
    · simp only [hlt, if_false]
      by_cases hgt : k < x
      · simp only [hgt, if_true]
        obtain ⟨hr', ar', hch, hside⟩ := ihr hr ar
        rw [ar'.ht_eq, al.ht_eq]
        by_cases hrot : hr' > hl + 1
        · simp only [hrot, if_true]
          have hgrow : hr' = hr + 1 := by omega
          have hr0 : hr ≠ 0 := by omega
          have side := hside hgrow hr0
          generalize insert r x = t' at ar' side ⊢
          cases ar' with
          | nil => omega
          | node aa ab c1 c2 e' =>
          rename_i a' b' k' ha hb
          have e1 := aa.ht_eq; have e3 := ab.ht_eq
          simp only [keyOf, lft, rgt, e1, e3] at side
          simp only [keyOf]
          have hhr : hr' = hl + 2 := by omega
          subst hhr
          refine ⟨hl + 2, ?_, Or.inl (by omega), fun hg => by omega⟩
          rcases side with ⟨sx, sh⟩ | ⟨sx, sh⟩
          · have hnx : ¬ k' < x := by omega
            simp only [hnx, if_false]
            obtain rfl : hb = hl := by omega
            obtain rfl : ha = hb + 1 := by omega
            cases aa with
            | node ac ad d1 d2 e'' =>
            rename_i bl br bk hc hd
            exact avl_RL al ac ad ab (by omega) (by omega) (by omega) d1 d2
          · simp only [sx, if_true]
            obtain rfl : ha = hl := by omega
            obtain rfl : hb = ha + 1 := by omega
            exact avl_RR al aa ab
        · simp only [hrot, if_false]
          have h1 : hr' ≤ hl + 1 := by omega
          have N := isAvl_mk k al ar' (by omega) h1
          refine ⟨max hl hr' + 1, by simpa [mk, al.ht_eq, ar'.ht_eq] using N, by omega, ?_⟩
          intro hg _
          right
          simp only [mk, keyOf, lft, rgt, al.ht_eq, ar'.ht_eq]
          exact ⟨hgt, by omega⟩
      · simp only [hgt, if_false]
        exact ⟨_, .node al ar b1 b2 e, Or.inl rfl, fun hg => by omega⟩

#print axioms insert_avl

/-! ### order: rotations keep the in-order sequence; insertion is ordered insertion -/

theorem inorder_mk (l : T) (k : Nat) (r : T) : inorder (mk l k r) = inorder l ++ k :: inorder r := rfl

theorem inorder_rotR (t : T) : inorder (rotR t) = inorder t := by
  cases t with
  | nil => rfl
  | node l y h c =>
    cases l with
    | nil => rfl
    | node a x h' b => simp [rotR, mk, inorder, List.append_assoc]

theorem inorder_rotL (t : T) : inorder (rotL t) = inorder t := by
  cases t with
  | nil => rfl
  | node a x h r =>
    cases r with
    | nil => rfl
    | node b y h' c => simp [rotL, mk, inorder, List.append_assoc]

/-- ordered insertion into a strictly sorted list, no duplicates -/
def oins (x : Nat) : List Nat → List Nat
| [] => [x]
| a :: l => if x < a then x :: a :: l else if a < x then a :: oins x l else a :: l

theorem oins_left (x k : Nat) (l r : List Nat) (h : x < k) : oins x (l ++ k :: r) = oins x l ++ k :: r := by
  induction l with
  | nil => simp [oins, h]
  | cons a l ih =>
    simp only [List.cons_append, oins]
    split
    · rfl
    · split
      · rw [ih]; rfl
      · rfl

theorem oins_right (x k : Nat) (l r : List Nat) (h : k < x) (hl : ∀ y ∈ l, y < k) :
    oins x (l ++ k :: r) = l ++ k :: oins x r := by
  induction l with
  | nil =>
    have : ¬ x < k := by omega
    simp [oins, this, h]
  | cons a l ih =>
    have ha : a < x := by have := hl a (by simp); omega
    have : ¬ x < a := by omega
    simp only [List.cons_append, oins, this, if_false, ha, if_true]
    rw [ih (fun y hy => hl y (by simp [hy]))]

theorem oins_same (k : Nat) (l r : List Nat) (hl : ∀ y ∈ l, y < k) : oins k (l ++ k :: r) = l ++ k :: r := by
  induction l with
  | nil => simp [oins]
  | cons a l ih =>
    have ha : a < k := hl a (by simp)
    have : ¬ k < a := by omega
    simp only [List.cons_append, oins, this, if_false, ha, if_true]
    rw [ih (fun y hy => hl y (by simp [hy]))]

/-- binary search tree: everything left is smaller, everything right is larger, recursively -/
inductive Bst : T → Prop
| nil : Bst nil
| node {l k h r} : Bst l → Bst r → (∀ y ∈ inorder l, y < k) → (∀ y ∈ inorder r, k < y) → Bst (node l k h r)

theorem inorder_insert (x : Nat) : ∀ t, Bst t → inorder (insert t x) = oins x (inorder t) := by
  intro t
  induction t with
  | nil => intro _; rfl
  | node l k h r ihl ihr =>
    intro b
    cases b with
    | node bl br hlk hrk =>
    simp only [insert]
    by_cases hlt : x < k
    · simp only [hlt, if_true]
      have key : inorder (mk (insert l x) k r) = oins x (inorder (node l k h r)) := by
        rw [inorder_mk, ihl bl]; simp only [inorder]; rw [oins_left _ _ _ _ hlt]
      split
      · split
        · rw [inorder_rotR, key]
        · rw [inorder_rotR, inorder_mk, inorder_rotL, ← inorder_mk, key]
      · exact key
    · simp only [hlt, if_false]
      by_cases hgt : k < x
      · simp only [hgt, if_true]
        have key : inorder (mk l k (insert r x)) = oins x (inorder (node l k h r)) := by
          rw [inorder_mk, ihr br]; simp only [inorder]; rw [oins_right _ _ _ _ hgt hlk]
        split
        · split
          · rw [inorder_rotL, key]
          · rw [inorder_rotL, inorder_mk, inorder_rotR, ← inorder_mk, key]
        · exact key
      · simp only [hgt, if_false]
        have : x = k := by omega
        subst this
        simp only [inorder]
        rw [oins_same _ _ _ hlk]

#print axioms inorder_insert

/-! ### deletion (`deleteNode` + `rebalance`, with the two-children branch rebalanced) -/

def balL (t : T) : Bool := ht (lft t) ≥ ht (rgt t)     -- balance(n) ≥ 0
def balR (t : T) : Bool := ht (rgt t) ≥ ht (lft t)     -- balance(n) ≤ 0

/-- `rebalance(n)` applied to a node whose children are l and r -/
def rebalance (l : T) (k : Nat) (r : T) : T :=
  if ht l > ht r + 1 then
    (if balL l then rotR (mk l k r) else rotR (mk (rotL l) k r))
  else if ht r > ht l + 1 then
    (if balR r then rotL (mk l k r) else rotL (mk l k (rotR r)))
  else mk l k r

def minKey : T → Nat
| nil => 0
| node nil k _ _ => k
| node l _ _ _ => minKey l

def delete : T → Nat → T
| nil, _ => nil
| node l k _ r, x =>
  if x < k then rebalance (delete l x) k r
  else if k < x then rebalance l k (delete r x)
  else
    match l, r with
    | nil, _ => r
    | _, nil => l
    | _, _ => rebalance l (minKey r) (delete r (minKey r))

theorem rebalance_avl {l r : T} {hl hr : Nat} (k : Nat) (al : IsAvl l hl) (ar : IsAvl r hr)
    (h1 : hl ≤ hr + 2) (h2 : hr ≤ hl + 2) :
    ∃ h', IsAvl (rebalance l k r) h' ∧
      (h' = max hl hr + 1 ∨ (h' = max hl hr ∧ (hl = hr + 2 ∨ hr = hl + 2))) := by
  unfold rebalance
  rw [al.ht_eq, ar.ht_eq]
  by_cases hL : hl > hr + 1
  · simp only [hL, if_true]
    have hl2 : hl = hr + 2 := by omega
    subst hl2
    cases al with
    | node aa ab c1 c2 e =>
    rename_i a b k' ha hb
    simp only [balL, lft, rgt, aa.ht_eq, ab.ht_eq]
    by_cases hb0 : ha ≥ hb
    · -- single right rotation
      simp only [hb0, decide_true, if_true, rotR, mk]
      have ha1 : ha = hr + 1 := by omega
      subst ha1
      have B := isAvl_mk k ab ar (by omega) (by omega)
      have C := isAvl_mk k' aa B (by omega) (by omega)
      refine ⟨_, by simpa [mk, aa.ht_eq, ab.ht_eq, ar.ht_eq] using C, ?_⟩
      have hcase : hb = hr + 1 ∨ hb = hr := by omega
      rcases hcase with rfl | rfl
      · left; omega
      · right; constructor
        · omega
        · first | trivial | (left; rfl) | simp
    · -- double rotation
      have hb0' : ¬ ha ≥ hb := hb0
      simp only [hb0', decide_false, if_false]
      have hb1 : hb = hr + 1 := by omega
      have ha1 : ha = hr := by omega
      subst hb1 ha1
      cases ab with
      | node ac ad d1 d2 e'' =>
      rename_i bl br bk hc hd
      have A := isAvl_mk k' aa ac (by omega) (by omega)
      have B := isAvl_mk k ad ar (by omega) (by omega)
      have C := isAvl_mk bk A B (by omega) (by omega)
      refine ⟨max (max ha hc + 1) (max hd ha + 1) + 1, ?_, ?_⟩
      · simpa [mk, rotL, rotR, ht, aa.ht_eq, ac.ht_eq, ad.ht_eq, ar.ht_eq, A.ht_eq, B.ht_eq] using C
      · right; constructor
        · omega
        · first | trivial | (left; rfl) | simp
  · simp only [hL, if_false]
    by_cases hR : hr > hl + 1
    · simp only [hR, if_true]
      have hr2 : hr = hl + 2 := by omega
      subst hr2
      cases ar with
      | node aa ab c1 c2 e =>
      rename_i a b k' ha hb
      simp only [balR, lft, rgt, aa.ht_eq, ab.ht_eq]
      by_cases hb0 : hb ≥ ha
      · simp only [hb0, decide_true, if_true, rotL, mk]
        have hb1 : hb = hl + 1 := by omega
        subst hb1
        have A := isAvl_mk k al aa (by omega) (by omega)
        have C := isAvl_mk k' A ab (by omega) (by omega)
        refine ⟨_, by simpa [mk, al.ht_eq, aa.ht_eq, ab.ht_eq] using C, ?_⟩
        have hcase : ha = hl + 1 ∨ ha = hl := by omega
        rcases hcase with rfl | rfl
        · left; omega
        · right; constructor
          · omega
          · first | trivial | (right; rfl) | simp
      · have hb0' : ¬ hb ≥ ha := hb0
        simp only [hb0', decide_false, if_false]
        have ha1 : ha = hl + 1 := by omega
        have hb1 : hb = hl := by omega
        subst ha1 hb1
        cases aa with
        | node ac ad d1 d2 e'' =>
        rename_i bl br bk hc hd
        have A := isAvl_mk k al ac (by omega) (by omega)
        have B := isAvl_mk k' ad ab (by omega) (by omega)
        have C := isAvl_mk bk A B (by omega) (by omega)
        refine ⟨max (max hb hc + 1) (max hd hb + 1) + 1, ?_, ?_⟩
        · simpa [mk, rotL, rotR, ht, al.ht_eq, ac.ht_eq, ad.ht_eq, ab.ht_eq, A.ht_eq, B.ht_eq] using C
        · right; constructor
          · omega
          · first | trivial | (right; rfl) | simp
    · simp only [hR, if_false]
      have N := isAvl_mk k al ar (by omega) (by omega)
      exact ⟨_, by simpa [mk, al.ht_eq, ar.ht_eq] using N, Or.inl rfl⟩

#print axioms rebalance_avl

/-- deletion keeps the tree AVL with exact heights; the height stays or drops by one -/
theorem delete_avl : ∀ (t : T) (x : Nat) (h : Nat), IsAvl t h →
    ∃ h', IsAvl (delete t x) h' ∧ (h' = h ∨ h' + 1 = h) := by
  intro t
  induction t with
  | nil => intro x h a; cases a; exact ⟨0, .nil, Or.inl rfl⟩
  | node l k hh r ihl ihr =>
    intro x h a
    cases a with
    | node al ar b1 b2 e =>
    rename_i hl hr
    simp only [delete]
    by_cases hlt : x < k
    · simp only [hlt, if_true]
      obtain ⟨hl', al', hch⟩ := ihl x hl al
      obtain ⟨h', av, hh'⟩ := rebalance_avl k al' ar (by omega) (by omega)
      refine ⟨h', av, ?_⟩
      rcases hch with rfl | hch <;> rcases hh' with hh' | ⟨hh', hq⟩ <;> omega
    · simp only [hlt, if_false]
      by_cases hgt : k < x
      · simp only [hgt, if_true]
        obtain ⟨hr', ar', hch⟩ := ihr x hr ar
        obtain ⟨h', av, hh'⟩ := rebalance_avl k al ar' (by omega) (by omega)
        refine ⟨h', av, ?_⟩
        rcases hch with rfl | hch <;> rcases hh' with hh' | ⟨hh', hq⟩ <;> omega
      · simp only [hgt, if_false]
        -- remove this node
        cases al with
        | nil =>
          -- no left child: the right child takes its place
          refine ⟨hr, ar, ?_⟩
          omega
        | node al1 al2 c1 c2 e1 =>
          rename_i ll lr lk hl1 hl2
          cases ar with
          | nil =>
            refine ⟨_, .node al1 al2 c1 c2 e1, ?_⟩
            omega
          | node ar1 ar2 d1 d2 e2 =>
            rename_i rl rr rk hr1 hr2
            simp only
            obtain ⟨hr', ar', hch⟩ := ihr (minKey (node rl rk hr rr)) hr (.node ar1 ar2 d1 d2 e2)
            obtain ⟨h', av, hh'⟩ := rebalance_avl (minKey (node rl rk hr rr)) (.node al1 al2 c1 c2 e1) ar' (by omega) (by omega)
            refine ⟨h', av, ?_⟩
            rcases hch with rfl | hch <;> rcases hh' with hh' | ⟨hh', hq⟩ <;> omega

#print axioms delete_avl
end Avl
