/-! Prototype for C17: the (repaired) KEYS glob scanner, restructured as list recursion, equals the
    token-level grammar semantics for every pattern and subject; broken patterns match nothing. -/
namespace GlobEq
abbrev Bytes := List UInt8

def STAR : UInt8 := 42
def QM : UInt8 := 63
def LB : UInt8 := 91
def RB : UInt8 := 93
def BS : UInt8 := 92
def CARET : UInt8 := 94
def DASH : UInt8 := 45

/-! ### the scanner, mirroring util.PattenMatch -/

def skipStars : Bytes → Bytes
| [] => []
| c :: p => if c == STAR then skipStars p else c :: p

theorem skipStars_len (p : Bytes) : (skipStars p).length ≤ p.length := by
  induction p with
  | nil => simp [skipStars]
  | cons c p ih => simp only [skipStars]; split <;> simp <;> omega

/-- the `[...]` scanner: `prev` is `pattern[patPos-1]`, `acc` is `match`; returns (match, rest after `]`) or none if broken -/
def cls (x : UInt8) : Bytes → UInt8 → Bool → Option (Bool × Bytes)
| [], _, _ => none
| c :: r, prev, acc =>
  if c == BS then
    match r with
    | [] => none
    | y :: r' => cls x r' y (acc || y == x)
  else if c == RB then some (acc, r)
  else if c == DASH then
    match r with
    | [] => none
    | e :: r' => if e == RB then none else cls x r' e (acc || (prev ≤ x && x ≤ e))
  else cls x r c (acc || c == x)
termination_by p => p.length

theorem cls_len {x : UInt8} {p : Bytes} {prev : UInt8} {acc ok : Bool} {rest : Bytes}
    (h : cls x p prev acc = some (ok, rest)) : rest.length < p.length := by
  fun_induction cls x p prev acc <;> simp_all <;> omega

/-- class header: optional `^`, then the items -/
def clsTop (x : UInt8) (p : Bytes) : Option (Bool × Bytes) :=
  match p with
  | [] => none
  | c :: r =>
    if c == CARET then
      match cls x r CARET false with
      | some (ok, rest) => some (!ok, rest)
      | none => none
    else cls x (c :: r) LB false

theorem clsTop_len {x : UInt8} {p : Bytes} {ok : Bool} {rest : Bytes} (h : clsTop x p = some (ok, rest)) :
    rest.length < p.length := by
  unfold clsTop at h
  split at h
  · cases h
  · rename_i c r
    split at h
    · split at h
      · rename_i ok' rest' hc
        have := cls_len hc
        simp at h; obtain ⟨_, rfl⟩ := h; simp; omega
      · cases h
    · exact cls_len h

mutual
/-- PattenMatch(pattern, src) -/
def m : Bytes → Bytes → Bool
| [], s => s.isEmpty
| c :: p', [] => skipStars (c :: p') == []
| c :: p', x :: s' =>
  if c == STAR then
    let q := skipStars p'
    if q == [] then true else anySuffix q (x :: s')
  else if c == QM then m p' s'
  else if c == LB then
    match clsTop x p' with
    | none => false
    | some (ok, rest) => if _h : rest.length < p'.length then ok && m rest s' else false
  else if c == BS then
    match p' with
    | [] => false
    | y :: p'' => y == x && m p'' s'
  else c == x && m p' s'
termination_by p s => (p.length, s.length + 1)
decreasing_by
  all_goals simp_wf
  · have := skipStars_len p'; exact Prod.Lex.left _ _ (by omega)
  · exact Prod.Lex.left _ _ (by omega)
  · exact Prod.Lex.left _ _ (by omega)
  · exact Prod.Lex.left _ _ (by omega)
  · exact Prod.Lex.left _ _ (by omega)

/-- the `for srcPos <= srcLen` loop of the `*` arm: try the rest of the pattern against every suffix, the empty one included -/
def anySuffix : Bytes → Bytes → Bool
| q, [] => m q []
| q, x :: s' => m q (x :: s') || anySuffix q s'
termination_by q s => (q.length, s.length + 2)
decreasing_by
  all_goals simp_wf
  · exact Prod.Lex.right _ (by omega)
  · exact Prod.Lex.right _ (by omega)
  · exact Prod.Lex.right _ (by omega)
end

/-! ### the grammar -/

inductive Item | one (b : UInt8) | range (lo hi : UInt8)
inductive Tok | any | star | lit (b : UInt8) | set (neg : Bool) (items : List Item)

def Item.has (x : UInt8) : Item → Bool
| .one b => b == x
| .range lo hi => lo ≤ x && x ≤ hi

/-- items of a class body, up to the closing `]` -/
def pItems : Bytes → UInt8 → Option (List Item × Bytes)
| [], _ => none
| c :: r, prev =>
  if c == BS then
    match r with
    | [] => none
    | y :: r' => (pItems r' y).map fun (is, rest) => (.one y :: is, rest)
  else if c == RB then some ([], r)
  else if c == DASH then
    match r with
    | [] => none
    | e :: r' => if e == RB then none else (pItems r' e).map fun (is, rest) => (.range prev e :: is, rest)
  else (pItems r c).map fun (is, rest) => (.one c :: is, rest)
termination_by p => p.length

def pClass (p : Bytes) : Option (Tok × Bytes) :=
  match p with
  | [] => none
  | c :: r =>
    if c == CARET then (pItems r CARET).map fun (is, rest) => (.set true is, rest)
    else (pItems (c :: r) LB).map fun (is, rest) => (.set false is, rest)

/-- relation between the scanner's class pass and the grammar's -/
theorem cls_pItems (x : UInt8) (p : Bytes) (prev : UInt8) (acc : Bool) :
    cls x p prev acc = (pItems p prev).map fun (is, rest) => (acc || is.any (Item.has x), rest) := by
  have e1 : (RB == BS) = false := by decide
  have e2 : (DASH == BS) = false := by decide
  have e3 : (DASH == RB) = false := by decide
  fun_induction cls x p prev acc
  all_goals (rw [pItems.eq_def]; simp_all [Item.has, Bool.or_assoc])
  all_goals (try (cases pItems _ _ <;> simp [Item.has, Bool.or_assoc]))

theorem clsTop_pClass (x : UInt8) (p : Bytes) :
    clsTop x p = (pClass p).map fun (t, rest) =>
      ((match t with | .set neg is => (is.any (Item.has x)) != neg | _ => false), rest) := by
  unfold clsTop pClass
  split
  · rfl
  · rename_i c r
    split
    · rw [cls_pItems]
      cases pItems r CARET <;> simp
    · rw [cls_pItems]
      cases pItems (c :: r) LB <;> simp

theorem pClass_len {p : Bytes} {t : Tok} {rest : Bytes} (h : pClass p = some (t, rest)) : rest.length < p.length := by
  have := clsTop_pClass 0 p
  rw [h] at this
  exact clsTop_len this

def parse : Bytes → Option (List Tok)
| [] => some []
| c :: p' =>
  if c == STAR then (parse (skipStars p')).map (Tok.star :: ·)
  else if c == QM then (parse p').map (Tok.any :: ·)
  else if c == LB then
    match pClass p' with
    | none => none
    | some (t, rest) => if _h : rest.length < p'.length then (parse rest).map (t :: ·) else none
  else if c == BS then
    match p' with
    | [] => none
    | y :: p'' => (parse p'').map (Tok.lit y :: ·)
  else (parse p').map (Tok.lit c :: ·)
termination_by p => p.length
decreasing_by
  all_goals simp_wf
  · have := skipStars_len p'; omega
  · omega
  · omega

def Tok.one (x : UInt8) : Tok → Bool
| .any => true
| .lit b => b == x
| .set neg is => (is.any (Item.has x)) != neg
| .star => false

/-- textbook semantics: `*` = any run of bytes -/
def matchToks : List Tok → Bytes → Bool
| [], s => s.isEmpty
| .star :: ts, [] => matchToks ts []
| .star :: ts, x :: s => matchToks ts (x :: s) || matchToks (.star :: ts) s
| _ :: _, [] => false
| t :: ts, x :: s => t.one x && matchToks ts s
termination_by ts s => (ts.length, s.length)

def spec (p s : Bytes) : Bool := match parse p with | some ts => matchToks ts s | none => false







theorem skipStars_idem (p : Bytes) : skipStars (skipStars p) = skipStars p := by
  induction p with
  | nil => rfl
  | cons c p ih =>
    simp only [skipStars]
    split
    · exact ih
    · rename_i h; simp [skipStars, h]

theorem skipStars_not_star (p : Bytes) : ∀ c r, skipStars p = c :: r → (c == STAR) = false := by
  induction p with
  | nil => intro c r h; simp [skipStars] at h
  | cons a p ih =>
    intro c r h
    simp only [skipStars] at h
    split at h
    · exact ih c r h
    · rename_i hne
      simp at h; obtain ⟨rfl, _⟩ := h; simpa using hne

theorem matchToks_star_nil (ts : List Tok) : matchToks (.star :: ts) [] = matchToks ts [] := by
  rw [matchToks.eq_def]

theorem matchToks_star_cons (ts : List Tok) (x : UInt8) (s : Bytes) :
    matchToks (.star :: ts) (x :: s) = (matchToks ts (x :: s) || matchToks (.star :: ts) s) := by
  rw [matchToks.eq_def]

theorem matchToks_only_star (s : Bytes) : matchToks [.star] s = true := by
  induction s with
  | nil => rw [matchToks_star_nil]; rw [matchToks.eq_def]; rfl
  | cons x s ih => rw [matchToks_star_cons, ih]; simp

/-- the `*` loop against the grammar, given the equivalence for the rest of the pattern on all subjects -/
theorem anySuffix_spec (q : Bytes) (ih : ∀ t, m q t = spec q t) (s : Bytes) :
    anySuffix q s = (match parse q with | some ts => matchToks (.star :: ts) s | none => false) := by
  induction s with
  | nil =>
    rw [anySuffix.eq_def]; simp only
    rw [ih, spec]
    cases parse q with
    | none => rfl
    | some ts => simp [matchToks_star_nil]
  | cons x s ihs =>
    rw [anySuffix.eq_def]; simp only
    rw [ih, ihs, spec]
    cases parse q with
    | none => rfl
    | some ts => simp [matchToks_star_cons]

theorem parse_star (p' : Bytes) : parse (STAR :: p') = (parse (skipStars p')).map (Tok.star :: ·) := by
  rw [parse.eq_def]; simp

theorem mt_nil : matchToks [] ([] : Bytes) = true := by rw [matchToks.eq_def]; rfl
theorem mt_nil_cons (x : UInt8) (s : Bytes) : matchToks [] (x :: s) = false := by rw [matchToks.eq_def]; rfl
theorem mt_any_nil (ts : List Tok) : matchToks (.any :: ts) [] = false := by rw [matchToks.eq_def]
theorem mt_lit_nil (b : UInt8) (ts : List Tok) : matchToks (.lit b :: ts) [] = false := by rw [matchToks.eq_def]
theorem mt_set_nil (n : Bool) (i : List Item) (ts : List Tok) : matchToks (.set n i :: ts) [] = false := by rw [matchToks.eq_def]
theorem mt_any_cons (ts : List Tok) (x : UInt8) (s : Bytes) : matchToks (.any :: ts) (x :: s) = matchToks ts s := by
  rw [matchToks.eq_def]; simp [Tok.one]
theorem mt_lit_cons (b : UInt8) (ts : List Tok) (x : UInt8) (s : Bytes) :
    matchToks (.lit b :: ts) (x :: s) = (b == x && matchToks ts s) := by
  rw [matchToks.eq_def]; simp [Tok.one]
theorem mt_set_cons (n : Bool) (i : List Item) (ts : List Tok) (x : UInt8) (s : Bytes) :
    matchToks (.set n i :: ts) (x :: s) = ((i.any (Item.has x) != n) && matchToks ts s) := by
  rw [matchToks.eq_def]; simp [Tok.one]

theorem pClass_is_set {p : Bytes} {t : Tok} {rest : Bytes} (h : pClass p = some (t, rest)) : ∃ n i, t = .set n i := by
  unfold pClass at h
  split at h
  · cases h
  · split at h <;>
    · rw [Option.map_eq_some_iff] at h
      obtain ⟨⟨is, r⟩, _, hf⟩ := h
      simp at hf
      exact ⟨_, _, hf.1.symm⟩

/-- **C17**: the scanner equals the grammar semantics, for every pattern and every subject -/
theorem m_eq_spec : ∀ (n : Nat) (p : Bytes), p.length ≤ n → ∀ s, m p s = spec p s := by
  intro n
  induction n with
  | zero =>
    intro p hp s
    have : p = [] := by cases p <;> simp_all
    subst this
    rw [m.eq_def, spec, parse.eq_def]
    cases s <;> simp [mt_nil, mt_nil_cons]
  | succ n ih =>
    intro p hp s
    cases p with
    | nil =>
      rw [m.eq_def, spec, parse.eq_def]
      cases s <;> simp [mt_nil, mt_nil_cons]
    | cons c p' =>
      have hp' : p'.length ≤ n := by simp at hp; omega
      by_cases hstar : (c == STAR) = true
      · -- `*`
        have hc : c = STAR := by simpa using hstar
        subst hc
        have hq : (skipStars p').length ≤ n := by have := skipStars_len p'; omega
        have ihq := ih (skipStars p') hq
        rw [spec, parse_star]
        cases s with
        | nil =>
          have hm : m (STAR :: p') [] = (skipStars p' == []) := by
            rw [m.eq_def]; simp [skipStars]
          rw [hm]
          have h0 := ihq []
          have hm0 : m (skipStars p') [] = (skipStars p' == []) := by
            rw [m.eq_def]
            cases hsk : skipStars p' with
            | nil => rfl
            | cons a r =>
              have hne := skipStars_not_star p' a r hsk
              simp [skipStars, hne]
          rw [hm0, spec] at h0
          rw [h0]
          cases parse (skipStars p') <;> simp [matchToks_star_nil]
        | cons x s' =>
          have hm : m (STAR :: p') (x :: s') = (if skipStars p' == [] then true else anySuffix (skipStars p') (x :: s')) := by
            rw [m.eq_def]; simp
          rw [hm]
          cases hsk : skipStars p' with
          | nil =>
            rw [parse.eq_def]; simp [matchToks_only_star]
          | cons a r =>
            have : ((a :: r) == ([] : Bytes)) = false := by rfl
            simp only [this]
            rw [← hsk, anySuffix_spec _ ihq]
            cases parse (skipStars p') <;> simp
      · have hns : (c == STAR) = false := by simpa using hstar
        rw [spec]
        cases s with
        | nil =>
          have hm : m (c :: p') [] = false := by
            rw [m.eq_def]; simp [skipStars, hns]
          rw [hm, parse.eq_def]; simp only [hns]
          by_cases hq : (c == QM) = true
          · simp only [hq, if_true]
            cases parse p' <;> simp [mt_any_nil]
          · simp only [hq]
            by_cases hl : (c == LB) = true
            · simp only [hl, if_true]
              cases hcl : pClass p' with
              | none => simp
              | some tr =>
                obtain ⟨t, rest⟩ := tr
                obtain ⟨ng, it, rfl⟩ := pClass_is_set hcl
                simp only [dif_pos (pClass_len hcl)]
                cases parse rest <;> simp [mt_set_nil]
            · simp only [hl]
              by_cases hb : (c == BS) = true
              · simp only [hb, if_true]
                cases p' with
                | nil => simp
                | cons y p'' =>
                  simp only
                  cases parse p'' <;> simp [mt_lit_nil]
              · simp only [hb]
                cases parse p' <;> simp [mt_lit_nil]
        | cons x s' =>
          rw [m.eq_def, parse.eq_def]; simp only [hns]
          by_cases hq : (c == QM) = true
          · simp only [hq, if_true]
            rw [ih p' hp' s', spec]
            cases parse p' <;> simp [mt_any_cons]
          · simp only [hq]
            by_cases hl : (c == LB) = true
            · simp only [hl, if_true]
              rw [clsTop_pClass]
              cases hcl : pClass p' with
              | none => simp
              | some tr =>
                obtain ⟨t, rest⟩ := tr
                obtain ⟨ng, it, rfl⟩ := pClass_is_set hcl
                have hr : rest.length ≤ n := by have := pClass_len hcl; omega
                simp only [Option.map, dif_pos (pClass_len hcl)]
                rw [ih rest hr s', spec]
                cases parse rest <;> simp [mt_set_cons]
            · simp only [hl]
              by_cases hb : (c == BS) = true
              · simp only [hb, if_true]
                cases p' with
                | nil => simp
                | cons y p'' =>
                  have hp'' : p''.length ≤ n := by simp at hp'; omega
                  simp only
                  rw [ih p'' hp'' s', spec]
                  cases parse p'' <;> simp [mt_lit_cons]
              · simp only [hb]
                rw [ih p' hp' s', spec]
                cases parse p' <;> simp [mt_lit_cons]

theorem C17_agrees (p s : Bytes) : m p s = spec p s := m_eq_spec p.length p (Nat.le_refl _) s

/-- a syntactically broken pattern matches nothing -/
theorem C17_broken (p s : Bytes) (h : parse p = none) : m p s = false := by
  rw [C17_agrees, spec, h]

#print axioms C17_agrees
end GlobEq
