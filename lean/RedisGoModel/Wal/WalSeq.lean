import RedisGoModel.Wal.WalCodec
/-! C16, one level up: a sequence of records written through the encoder's rolling CRC and read back through the
    decoder's check returns exactly what was written, then stops at the zero-filled preallocated tail. Abstract in the
    CRC update function (any function into 32 bits), so it holds for the concrete CRC-32C of Crc32c.lean. -/
namespace WalCodec

variable (upd : Nat → Bytes → Nat)

/-- eight zero bytes — what the preallocated tail looks like to the decoder -/
theorem decodeFrame_zeros (tail : Bytes) : decodeFrame (List.replicate 8 0 ++ tail) = none := by
  simp [decodeFrame, List.replicate, readLE64]

theorem readAll_roundtrip (hupd : ∀ c d, upd c d < 2 ^ 32) (items : List Item) (crc : Nat)
    (hok : ∀ it ∈ items, it.type < 2 ^ 64 ∧ it.data.length < 2 ^ 55) (tail : Bytes) :
    decodeAll upd (items.length + 1) crc (encodeAll upd crc items ++ (List.replicate 8 0 ++ tail)) = some items := by
  induction items generalizing crc with
  | nil =>
    simp only [encodeAll, List.length_nil, List.nil_append, Nat.zero_add]
    rw [decodeAll, decodeFrame_zeros]
  | cons it rest ih =>
    have h1 := hok it (by simp)
    have hsz : (marshal ⟨it.type, upd crc it.data, some it.data⟩).length < 2 ^ 56 := by
      -- tag + ≤10 + tag + ≤5 + tag + ≤10 + data; crude bound through the varint length bound
      have hv : ∀ n, n < 2 ^ 64 → (encVarint n).length ≤ 10 := by
        intro n hn
        have : ∀ k n, n < 2 ^ (7 * k) → 1 ≤ k → (encVarint n).length ≤ k := by
          intro k
          induction k with
          | zero => intro n _ h; omega
          | succ k ihk =>
            intro n hn _
            rw [encVarint]
            split
            · simp
            · rename_i hge
              simp only [List.length_cons]
              have hk : 1 ≤ k := by
                rcases Nat.eq_zero_or_pos k with rfl | h
                · simp at hn; omega
                · exact h
              have : n / 128 < 2 ^ (7 * k) := by
                have e : 2 ^ (7 * (k + 1)) = 128 * 2 ^ (7 * k) := by
                  rw [show 7 * (k + 1) = 7 * k + 7 from by ring, Nat.pow_add]; ring
                rw [e] at hn
                exact Nat.div_lt_of_lt_mul hn
              have := ihk (n / 128) this hk
              omega
        exact this 10 n (Nat.lt_of_lt_of_le hn (by decide)) (by omega)
      have a := hv it.type h1.1
      have b := hv (upd crc it.data) (Nat.lt_of_lt_of_le (hupd _ _) (by decide))
      have c := hv it.data.length (Nat.lt_trans h1.2 (by decide))
      simp only [marshal, List.length_append, List.length_cons, List.length_nil]
      have : (2 : Nat) ^ 55 + 100 < 2 ^ 56 := by decide
      omega
    simp only [encodeAll, List.length_cons, List.append_assoc]
    rw [decodeAll, frame_roundtrip ⟨it.type, upd crc it.data, some it.data⟩ h1.1 (hupd _ _)
      (fun d hd => by simp at hd; subst hd; exact Nat.lt_trans h1.2 (by decide)) hsz]
    simp only [if_true]
    rw [ih (upd crc it.data) (fun x hx => hok x (by simp [hx]))]

#print axioms readAll_roundtrip
end WalCodec
