import Mathlib.Tactic.Ring
import RedisGoModel.Wal.Codec
/-! C16, concrete layer, proofs: the round trips of the byte format defined in Codec.lean — varints, the three fields
    of `walpb.Record`, the 8-byte length field with its padding bits, little-endian words — up to
    `frame_roundtrip : decodeFrame (encodeFrame r ++ rest) = some (r, rest)`, which is what the abstract torn-write
    argument (WalTorn.lean) assumes of frames. Definitions are core-only (Codec.lean); only proofs use a Mathlib tactic. -/
namespace WalCodec

theorem pow_split (s : Nat) : 2 ^ (s + 7) = 128 * 2 ^ s := by rw [Nat.pow_add]; ring

theorem two_pow_64_split {s : Nat} (h : s ≤ 64) : 2 ^ 64 = 2 ^ (64 - s) * 2 ^ s := by
  rw [← Nat.pow_add]; congr 1; omega

theorem varint_aux (n : Nat) : ∀ (s acc : Nat) (rest : Bytes), s < 64 → n < 2 ^ (64 - s) → acc < 2 ^ s →
    decVarintAux s acc (encVarint n ++ rest) = .ok (acc + n * 2 ^ s, rest) := by
  induction n using Nat.strongRecOn with
  | ind n ih =>
    intro s acc rest hs hn hacc
    have hbound : acc + n * 2 ^ s < 2 ^ 64 := by
      rw [two_pow_64_split (Nat.le_of_lt hs)]
      have : (n + 1) * 2 ^ s ≤ 2 ^ (64 - s) * 2 ^ s := Nat.mul_le_mul_right _ hn
      have h2 : (n + 1) * 2 ^ s = n * 2 ^ s + 2 ^ s := by ring
      omega
    rw [encVarint]
    by_cases hlt : n < 128
    · simp only [hlt, if_true, List.cons_append, List.nil_append, decVarintAux]
      have hb : (UInt8.ofNat n).toNat = n := by rw [UInt8.toNat_ofNat']; omega
      have hs' : ¬ s ≥ 64 := by omega
      rw [if_neg hs', hb, if_pos hlt, Nat.mod_eq_of_lt hlt, Nat.mod_eq_of_lt hbound]
    · simp only [hlt, if_false, List.cons_append, decVarintAux]
      have hb : (UInt8.ofNat (n % 128 + 128)).toNat = n % 128 + 128 := by rw [UInt8.toNat_ofNat']; omega
      have hs' : ¬ s ≥ 64 := by omega
      have hbig : ¬ (n % 128 + 128 < 128) := by omega
      have hmod : (n % 128 + 128) % 128 = n % 128 := by omega
      rw [if_neg hs', hb, if_neg hbig, hmod]
      -- n ≥ 128 and n < 2^(64-s) force s + 7 < 64
      have hs7 : s + 7 < 64 := by
        rcases Nat.lt_or_ge (s + 7) 64 with h | h
        · exact h
        · exfalso
          have : 2 ^ (64 - s) ≤ 2 ^ 7 := Nat.pow_le_pow_right (by omega) (by omega)
          omega
      have hstep : acc + n % 128 * 2 ^ s < 2 ^ (s + 7) := by
        rw [pow_split]
        have : n % 128 * 2 ^ s ≤ 127 * 2 ^ s := Nat.mul_le_mul_right _ (by omega)
        omega
      have hstep64 : acc + n % 128 * 2 ^ s < 2 ^ 64 :=
        Nat.lt_of_lt_of_le hstep (Nat.pow_le_pow_right (by omega) (by omega))
      rw [Nat.mod_eq_of_lt hstep64]
      have hdiv : n / 128 < 2 ^ (64 - (s + 7)) := by
        have e : 2 ^ (64 - s) = 128 * 2 ^ (64 - (s + 7)) := by
          have : 64 - s = (64 - (s + 7)) + 7 := by omega
          rw [this, pow_split]
        rw [e] at hn
        exact Nat.div_lt_of_lt_mul hn
      rw [ih (n / 128) (by omega) (s + 7) _ rest hs7 hdiv hstep]
      congr 2
      rw [pow_split]
      have := Nat.div_add_mod n 128
      calc acc + n % 128 * 2 ^ s + n / 128 * (128 * 2 ^ s)
          = acc + (128 * (n / 128) + n % 128) * 2 ^ s := by ring
        _ = acc + n * 2 ^ s := by rw [this]

theorem varint_roundtrip (n : Nat) (h : n < 2 ^ 64) (rest : Bytes) : decVarint (encVarint n ++ rest) = .ok (n, rest) := by
  unfold decVarint
  rw [varint_aux n 0 0 rest (by omega) (by simpa using h) (by simp)]
  simp

theorem encVarint_ne_nil (n : Nat) : encVarint n ≠ [] := by
  rw [encVarint]; split <;> simp

theorem tag_byte (t : Nat) (h : t < 128) (rest : Bytes) : decVarint (UInt8.ofNat t :: rest) = .ok (t, rest) := by
  have := varint_roundtrip t (by omega) rest
  rw [encVarint, if_pos h] at this
  exact this

theorem fieldNum_8 : fieldNum 8 = some 1 := by decide
theorem fieldNum_16 : fieldNum 16 = some 2 := by decide
theorem fieldNum_26 : fieldNum 26 = some 3 := by decide

theorem step_type (f : Nat) (r : Record) (v : Nat) (hv : v < 2 ^ 64) (rest : Bytes) :
    unmarshalAux (f + 1) r (0x08 :: (encVarint v ++ rest)) = unmarshalAux f { r with type := v } rest := by
  rw [unmarshalAux, if_neg (by simp), show (0x08 : UInt8) = UInt8.ofNat 8 from rfl, tag_byte 8 (by omega)]
  simp [varint_roundtrip v hv, fieldNum_8]

theorem step_crc (f : Nat) (r : Record) (v : Nat) (hv : v < 2 ^ 32) (rest : Bytes) :
    unmarshalAux (f + 1) r (0x10 :: (encVarint v ++ rest)) = unmarshalAux f { r with crc := v } rest := by
  rw [unmarshalAux, if_neg (by simp), show (0x10 : UInt8) = UInt8.ofNat 16 from rfl, tag_byte 16 (by omega)]
  have hm : v % 4294967296 = v := Nat.mod_eq_of_lt (by simpa using hv)
  simp [varint_roundtrip v (Nat.lt_of_lt_of_le hv (by decide)), hm, fieldNum_16]

theorem step_data (f : Nat) (r : Record) (d : Bytes) (hd : d.length < 2 ^ 63) (rest : Bytes) :
    unmarshalAux (f + 1) r (0x1a :: (encVarint d.length ++ (d ++ rest))) = unmarshalAux f { r with data := some d } rest := by
  rw [unmarshalAux, if_neg (by simp), show (0x1a : UInt8) = UInt8.ofNat 26 from rfl, tag_byte 26 (by omega)]
  have hd' : ¬ (9223372036854775808 ≤ d.length) := by
    have : (2 : Nat) ^ 63 = 9223372036854775808 := by decide
    omega
  simp [varint_roundtrip d.length (Nat.lt_trans hd (by decide)), hd', fieldNum_26]

theorem unmarshal_marshal (r : Record) (ht : r.type < 2 ^ 64) (hc : r.crc < 2 ^ 32)
    (hd : ∀ d, r.data = some d → d.length < 2 ^ 63) : unmarshal (marshal r) = .ok r := by
  obtain ⟨ty, crc, data⟩ := r
  simp only at ht hc hd
  unfold unmarshal
  have hlen : 4 ≤ (marshal ⟨ty, crc, data⟩).length := by
    have h1 := encVarint_ne_nil ty
    have h2 := encVarint_ne_nil crc
    simp only [marshal, List.length_append, List.length_cons, List.length_nil]
    have : 0 < (encVarint ty).length := List.length_pos_iff.mpr h1
    have : 0 < (encVarint crc).length := List.length_pos_iff.mpr h2
    omega
  obtain ⟨f, hf⟩ : ∃ f, (marshal ⟨ty, crc, data⟩).length + 1 = f + 4 :=
    ⟨(marshal ⟨ty, crc, data⟩).length - 3, by omega⟩
  rw [hf]
  simp only [marshal, List.cons_append, List.nil_append, List.append_assoc]
  rw [step_type _ _ ty ht, step_crc _ _ crc hc]
  cases data with
  | none => simp [unmarshalAux]
  | some d =>
    simp only [List.cons_append, List.nil_append]
    have := step_data (f + 1) ⟨ty, crc, none⟩ d (hd d rfl) []
    rw [List.append_nil] at this
    rw [this]
    simp [unmarshalAux]

theorem frameSize_lt (n : Nat) (h : n < 2 ^ 56) : (encodeFrameSize n).1 < 2 ^ 64 := by
  unfold encodeFrameSize
  simp only
  split
  · have hp : (8 - n % 8) % 8 < 8 := Nat.mod_lt _ (by omega)
    have e1 : (0x80 ||| (8 - n % 8) % 8) = 128 + (8 - n % 8) % 8 := by
      have := Nat.two_pow_add_eq_or_of_lt (i := 7) (b := (8 - n % 8) % 8) (by omega) 1
      simpa [Nat.add_comm] using this.symm
    rw [e1, Nat.or_comm, ← Nat.shiftLeft_add_eq_or_of_lt h, Nat.shiftLeft_eq]
    omega
  · omega

theorem frameSize_roundtrip (n : Nat) (h : n < 2 ^ 56) :
    decodeFrameSize (encodeFrameSize n).1 = (n, (encodeFrameSize n).2) := by
  unfold encodeFrameSize decodeFrameSize
  simp only
  have hp : (8 - n % 8) % 8 < 8 := Nat.mod_lt _ (by omega)
  by_cases hpad : (8 - n % 8) % 8 ≠ 0
  · simp only [hpad, ne_eq, not_false_eq_true, if_true]
    have e1 : (0x80 ||| (8 - n % 8) % 8) = 128 + (8 - n % 8) % 8 := by
      have := Nat.two_pow_add_eq_or_of_lt (i := 7) (b := (8 - n % 8) % 8) (by omega) 1
      simpa [Nat.add_comm] using this.symm
    rw [e1, Nat.or_comm, ← Nat.shiftLeft_add_eq_or_of_lt h, Nat.shiftLeft_eq]
    generalize (8 - n % 8) % 8 = p at hp hpad
    have hge : (128 + p) * 2 ^ 56 + n ≥ 2 ^ 63 := by omega
    rw [if_pos hge, Nat.and_two_pow_sub_one_eq_mod, Nat.shiftRight_eq_div_pow]
    have e7 : (7 : Nat) = 2 ^ 3 - 1 := rfl
    rw [e7, Nat.and_two_pow_sub_one_eq_mod]
    refine Prod.ext ?_ ?_
    · simp only; omega
    · simp only; omega
  · have hp0 : (8 - n % 8) % 8 = 0 := by omega
    simp only [hp0, ne_eq, not_true_eq_false, if_false]
    rw [if_neg (by omega), Nat.and_two_pow_sub_one_eq_mod]
    refine Prod.ext ?_ rfl
    simp only; omega

theorem le64_roundtrip (n : Nat) (h : n < 2 ^ 64) (rest : Bytes) : readLE64 (le64 n ++ rest) = some (n, rest) := by
  have hb : ∀ k, (UInt8.ofNat (k % 256)).toNat = k % 256 := by
    intro k; rw [UInt8.toNat_ofNat']; omega
  simp only [le64, List.range, List.range.loop, List.map_cons, List.map_nil, List.cons_append, List.nil_append, readLE64, hb]
  congr 2
  omega

theorem frame_roundtrip (r : Record) (ht : r.type < 2 ^ 64) (hc : r.crc < 2 ^ 32)
    (hd : ∀ d, r.data = some d → d.length < 2 ^ 63) (hsz : (marshal r).length < 2 ^ 56) (rest : Bytes) :
    decodeFrame (encodeFrame r ++ rest) = some (r, rest) := by
  unfold decodeFrame encodeFrame
  simp only [List.append_assoc]
  rw [le64_roundtrip _ (frameSize_lt _ hsz)]
  simp only
  have h4 : 0 < (marshal r).length := by
    simp only [marshal, List.length_append, List.length_cons]; omega
  have hne : (encodeFrameSize (marshal r).length).1 ≠ 0 := by
    intro h0
    have := frameSize_roundtrip _ hsz
    rw [h0] at this
    have h1 := congrArg Prod.fst this
    simp [decodeFrameSize] at h1
    omega
  rw [if_neg hne, frameSize_roundtrip _ hsz]
  simp only
  generalize (encodeFrameSize (marshal r).length).2 = pad
  have hl : ¬ (marshal r ++ (List.replicate pad 0 ++ rest)).length < (marshal r).length + pad := by
    simp only [List.length_append, List.length_replicate]; omega
  rw [if_neg hl, List.take_left' rfl, unmarshal_marshal r ht hc hd]
  simp only [Option.some.injEq, Prod.mk.injEq, true_and]
  rw [← List.append_assoc, List.drop_left' (by simp)]

#print axioms varint_roundtrip
#print axioms unmarshal_marshal
#print axioms frameSize_roundtrip
#print axioms frame_roundtrip
end WalCodec
