import RedisGoModel.Wal.Codec
/-! C16 model, file level (core Lean only — linked into the compiled driver).

    * the writer: `wal.Create`, `Save`, `SaveSnapshot`, `cut`, `Close` through `encoder.encode` and the
      `ioutil.PageWriter` (4096-byte pages, 128 KiB watermark), producing the images of the segment files
      (frames followed by the zeros of the preallocation);
    * the reader: `decoder.decodeRecord` (file chain, max-entry-size test, `isTornEntry` on 512-byte chunks relative to
      the file offset, rolling CRC, `lastValidOff`), `ReadAll`'s record dispatch in read and write mode (with
      `ZeroToEnd`), `Verify`, `Repair`;
    * the snapshotter: `snappb.Snapshot` file format, `Read`, `loadMatching` newest first.

    raftpb.Entry / HardState / walpb.Snapshot / raftpb.Snapshot payloads are parsed by a mirror of the loop every
    gogo-generated `Unmarshal` consists of (`parseMsg`); raftpb.ConfState is opaque. -/
namespace WalFile
open WalCodec

def metadataType : Nat := 1
def entryType : Nat := 2
def stateType : Nat := 3
def crcType : Nat := 4
def snapshotType : Nat := 5

/-! ### the generated Unmarshal loop, for a message with varint (kind 0) and length-delimited (kind 2) fields -/

inductive PVal | vint (v : Nat) | vbytes (b : Bytes)

def lookupKind (desc : List (Nat × Nat)) (f : Nat) : Option Nat := (desc.find? (·.1 == f)).map (·.2)

def parseMsgAux (desc : List (Nat × Nat)) : Nat → List (Nat × PVal) → Bytes → Except PErr (List (Nat × PVal))
| 0, _, _ => .error .other
| fuel + 1, acc, bs =>
  if bs = [] then .ok acc else
  match decVarint bs with
  | .error e => .error e
  | .ok (wire, rest) =>
    if wire % 8 = 4 then .error .other
    else match fieldNum wire with
    | none => .error .other
    | some f =>
      match lookupKind desc f with
      | some k =>
        if wire % 8 ≠ k then .error .other
        else match decVarint rest with
        | .error e => .error e
        | .ok (v, rest') =>
          if k = 0 then parseMsgAux desc fuel ((f, .vint v) :: acc) rest'
          else if v ≥ 2 ^ 63 then .error .other
          else if rest'.length < v then .error .ueof
          else parseMsgAux desc fuel ((f, .vbytes (rest'.take v)) :: acc) (rest'.drop v)
      | none =>
        match skipField bs with
        | .error e => .error e
        | .ok n => if bs.length < n then .error .ueof else
                   if n = 0 then .error .other else parseMsgAux desc fuel acc (bs.drop n)

/-- fields in reverse order of appearance: the first hit of a lookup is the last occurrence (which wins in Go) -/
def parseMsg (desc : List (Nat × Nat)) (bs : Bytes) : Except PErr (List (Nat × PVal)) :=
  parseMsgAux desc (bs.length + 1) [] bs

def getV (m : List (Nat × PVal)) (f : Nat) : Nat :=
  match m.find? (·.1 == f) with
  | some (_, .vint v) => v
  | _ => 0

def getB (m : List (Nat × PVal)) (f : Nat) : Option Bytes :=
  match m.find? (·.1 == f) with
  | some (_, .vbytes b) => some b
  | _ => none

/-! ### raftpb.Entry, raftpb.HardState, walpb.Snapshot -/

structure Entry where
  type  : Nat
  term  : Nat
  index : Nat
  data  : Option Bytes
deriving DecidableEq, Repr

structure HardState where
  term   : Nat
  vote   : Nat
  commit : Nat
deriving DecidableEq, Repr

/-- `walpb.Snapshot`; the ConfState message is carried as its marshalled bytes -/
structure WSnap where
  index : Nat
  term  : Nat
  conf  : Option Bytes
deriving DecidableEq, Repr

def emptyHS : HardState := ⟨0, 0, 0⟩

def optField (tag : UInt8) : Option Bytes → Bytes
| none => []
| some d => [tag] ++ encVarint d.length ++ d

def marshalEntry (e : Entry) : Bytes :=
  [0x08] ++ encVarint e.type ++ ([0x10] ++ encVarint e.term ++ ([0x18] ++ encVarint e.index ++ optField 0x22 e.data))

def marshalHS (s : HardState) : Bytes :=
  [0x08] ++ encVarint s.term ++ ([0x10] ++ encVarint s.vote ++ ([0x18] ++ encVarint s.commit))

def marshalWSnap (s : WSnap) : Bytes :=
  [0x08] ++ encVarint s.index ++ ([0x10] ++ encVarint s.term ++ optField 0x1a s.conf)

/-- `Entry.Unmarshal` (`Type` is an int32 enum) -/
def unmarshalEntry (b : Bytes) : Except PErr Entry :=
  match parseMsg [(1, 0), (2, 0), (3, 0), (4, 2)] b with
  | .error e => .error e
  | .ok m => .ok ⟨getV m 1 % 2 ^ 32, getV m 2, getV m 3, getB m 4⟩

def unmarshalHS (b : Bytes) : Except PErr HardState :=
  match parseMsg [(1, 0), (2, 0), (3, 0)] b with
  | .error e => .error e
  | .ok m => .ok ⟨getV m 1, getV m 2, getV m 3⟩

/-- `walpb.Snapshot.Unmarshal`; the nested ConfState parse is assumed to succeed (its bytes are CRC-protected and
    were produced by `ConfState.Marshal`) -/
def unmarshalWSnap (b : Bytes) : Except PErr WSnap :=
  match parseMsg [(1, 0), (2, 0), (3, 2)] b with
  | .error e => .error e
  | .ok m => .ok ⟨getV m 1, getV m 2, getB m 3⟩

/-! ### writer: PageWriter, encoder, Create / Save / SaveSnapshot / cut -/

def pageBytes : Nat := 4096
def watermark : Nat := 128 * 1024

/-- `PageWriter.Write` with `flushed` bytes already in the file and `buf` pending: (bytes handed to the file, new buffer) -/
def pwWrite (flushed : Nat) (buf p : Bytes) : Bytes × Bytes :=
  if p.length + buf.length ≤ watermark then ([], buf ++ p)
  else
    let slack := pageBytes - (flushed + buf.length) % pageBytes
    if slack ≠ pageBytes ∧ slack > p.length then ([], buf ++ p)
    else
      let s := if slack ≠ pageBytes then slack else 0
      let out := buf ++ p.take s
      let p' := p.drop s
      let direct := if p'.length > pageBytes then (p'.length / pageBytes) * pageBytes else 0
      (out ++ p'.take direct, p'.drop direct)

structure Writer where
  segSize  : Nat
  closed   : List ((Nat × Nat) × Bytes) := []   -- finished segments, oldest first: (seq, index) and content
  name     : Nat × Nat := (0, 0)
  tail     : Bytes := []                        -- bytes written to the current file
  tailSize : Nat := 0                           -- its preallocated size
  buf      : Bytes := []                        -- PageWriter buffer
  crc      : Nat := 0
  metadata : Option Bytes := none
  state    : HardState := emptyHS
  enti     : Nat := 0

def Writer.write (w : Writer) (p : Bytes) : Writer :=
  let (out, buf') := pwWrite w.tail.length w.buf p
  { w with tail := w.tail ++ out, buf := buf' }

def Writer.flush (w : Writer) : Writer := { w with tail := w.tail ++ w.buf, buf := [] }

/-- `encoder.encode`: rolling CRC over `Data`, then two writes (length field; record and padding) -/
def Writer.encode (w : Writer) (type : Nat) (data : Option Bytes) : Writer :=
  let crc' := crcUpdate w.crc (data.getD [])
  let body := marshal ⟨type, crc', data⟩
  let fs := encodeFrameSize body.length
  let w := { w with crc := crc' }
  (w.write (le64 fs.1)).write (body ++ List.replicate fs.2 0)

def isEmptyHS (s : HardState) : Bool := s.term == 0 && s.vote == 0 && s.commit == 0

def Writer.saveState (w : Writer) (s : HardState) : Writer :=
  if isEmptyHS s then w else ({ w with state := s }).encode stateType (some (marshalHS s))

/-- content of the current file as it is on disk -/
def Writer.tailImage (w : Writer) : Bytes := w.tail ++ List.replicate (w.tailSize - w.tail.length) 0

def Writer.cut (w : Writer) : Writer :=
  -- Truncate(off); sync: the old file ends exactly after its last frame
  let w := w.flush
  let old := (w.name, w.tail)
  let w := { w with closed := w.closed ++ [old], name := (w.name.1 + 1, w.enti + 1), tail := [], tailSize := w.segSize }
  let w := w.encode crcType none               -- saveCrc(prevCrc): encode sets rec.Crc to the running crc = prevCrc
  let w := w.encode metadataType w.metadata
  let w := w.saveState w.state
  w.flush

def Writer.create (segSize : Nat) (metadata : Option Bytes) : Writer :=
  let w : Writer := { segSize := segSize, tailSize := segSize, metadata := metadata }
  let w := w.encode crcType none
  let w := w.encode metadataType metadata
  let w := w.encode snapshotType (some (marshalWSnap ⟨0, 0, none⟩))
  w.flush

/-- `Save`; the Bool says whether the call ended with everything on stable storage (fdatasync or cut) -/
def Writer.save (w : Writer) (st : HardState) (ents : List Entry) : Writer × Bool :=
  if isEmptyHS st && ents.isEmpty then (w, false) else
  let mustSync := !ents.isEmpty || st.vote != w.state.vote || st.term != w.state.term
  let w := ents.foldl (fun w e => { (w.encode entryType (some (marshalEntry e))) with enti := e.index }) w
  let w := w.saveState st
  if w.tail.length < w.segSize then (if mustSync then (w.flush, true) else (w, false))
  else (w.cut, true)

/-- `SaveSnapshot` (`ValidateSnapshotForWrite` refuses a non-initial snapshot without ConfState) -/
def Writer.saveSnapshot (w : Writer) (s : WSnap) : Writer :=
  if s.conf.isNone && s.index > 0 then w else
  let w := w.encode snapshotType (some (marshalWSnap s))
  let w := if w.enti < s.index then { w with enti := s.index } else w
  w.flush

/-- all segment files as they are on disk, oldest first -/
def Writer.files (w : Writer) : List ((Nat × Nat) × Bytes) := w.closed ++ [(w.name, w.tailImage)]

/-! ### reader: decoder -/

inductive RErr | ueof | crc | oor | metaConflict | snapMismatch | snapNotFound | badType | maxEntry | pb | panic
deriving DecidableEq, Repr

structure Dec where
  cur  : Bytes          -- unread part of the current file
  size : Nat            -- size of the current file
  off  : Nat            -- lastValidOff
  rest : List Bytes     -- the files after the current one
  crc  : Nat
  done : Bool := false  -- `len(d.brs) == 0`

inductive DRes
| got (r : Record) (d : Dec)
| eof (d : Dec)
| err (e : RErr) (d : Dec)

/-- split on sector boundaries relative to the file offset (the loop of `isTornEntry`) -/
def chunks : Nat → Nat → Bytes → List Bytes
| 0, _, _ => []
| fuel + 1, fileOff, data =>
  if data = [] then [] else
  let n := min (512 - fileOff % 512) data.length
  data.take n :: chunks fuel (fileOff + n) (data.drop n)

def allZero (b : Bytes) : Bool := b.all (· == 0)

/-- `isTornEntry` (`last`: this is the last file of the chain); `off` is `lastValidOff` -/
def isTornB (last : Bool) (off : Nat) (data : Bytes) : Bool :=
  last && (chunks (data.length + 1) (off + 8) data).any allZero

def pErr : PErr → RErr
| .ueof => .ueof
| .other => .pb

/-- `decoder.decodeRecord`; fuel bounds the number of file switches -/
def decodeRecord : Nat → Dec → DRes
| 0, d => .eof { d with done := true }
| fuel + 1, d =>
  if d.done then .eof d else
  let next : Unit → DRes := fun _ =>
    match d.rest with
    | [] => .eof { d with done := true, cur := [] }
    | f :: fs => decodeRecord fuel { d with cur := f, size := f.length, off := 0, rest := fs }
  match readLE64 d.cur with
  | none => if d.cur = [] then next () else .err .ueof d          -- binary.Read: EOF on 0 bytes, ErrUnexpectedEOF on 1..7
  | some (l, body) =>
    if l = 0 then next () else
    let (recBytes, padBytes) := decodeFrameSize l
    if recBytes + padBytes + d.off > d.size then .err .maxEntry d
    else if body.length < recBytes + padBytes then .err .ueof d   -- io.ReadFull
    else
      let data := body.take (recBytes + padBytes)
      let torn : Unit → Bool := fun _ => isTornB d.rest.isEmpty d.off data
      match unmarshal (data.take recBytes) with
      | .error e => .err (if torn () then .ueof else pErr e) d
      | .ok r =>
        let crc' := if r.type = crcType then d.crc else crcUpdate d.crc (r.data.getD [])
        if r.type ≠ crcType ∧ r.crc ≠ crc' then .err (if torn () then .ueof else .crc) { d with crc := crc' }
        else .got r { d with cur := body.drop (recBytes + padBytes), off := d.off + 8 + recBytes + padBytes, crc := crc' }

def Dec.open (files : List Bytes) : Dec :=
  match files with
  | [] => { cur := [], size := 0, off := 0, rest := [], crc := 0, done := true }
  | f :: fs => { cur := f, size := f.length, off := 0, rest := fs, crc := 0 }

/-! ### ReadAll -/

structure RA where
  metadata : Option Bytes := none
  state    : HardState := emptyHS
  ents     : List Entry := []
  matched  : Bool := false

/-- what `ReadAll` hands back, plus the decoder's final offset and CRC (the encoder chains onto them) -/
structure RAResult where
  metadata : Option Bytes
  state    : HardState
  ents     : List Entry
  err      : Option RErr
  lastOff  : Nat
  crc      : Nat
deriving DecidableEq, Repr

inductive Step
| cont (ra : RA)
| fail (e : RErr) (state : HardState)      -- `return nil, state, nil, e`

/-- one arm of the `switch rec.Type` in `ReadAll` (`start` = the snapshot the WAL was opened at) -/
def dispatch (start : Nat × Nat) (crcNow : Nat) (ra : RA) (r : Record) : Step × Option Nat :=
  let data := r.data.getD []
  if r.type = entryType then
    match unmarshalEntry data with
    | .error _ => (.fail .panic emptyHS, none)
    | .ok e =>
      if e.index > start.1 then
        let up := e.index - start.1 - 1
        if up > ra.ents.length then (.fail .oor ra.state, none)
        else (.cont { ra with ents := ra.ents.take up ++ [e] }, none)
      else (.cont ra, none)
  else if r.type = stateType then
    match unmarshalHS data with
    | .error _ => (.fail .panic emptyHS, none)
    | .ok s => (.cont { ra with state := s }, none)
  else if r.type = metadataType then
    if ra.metadata.isSome ∧ ra.metadata ≠ some data then (.fail .metaConflict emptyHS, none)
    else (.cont { ra with metadata := r.data }, none)
  else if r.type = crcType then
    if crcNow ≠ 0 ∧ r.crc ≠ crcNow then (.fail .crc emptyHS, none)
    else (.cont ra, some r.crc)
  else if r.type = snapshotType then
    match unmarshalWSnap data with
    | .error _ => (.fail .panic emptyHS, none)
    | .ok s =>
      if s.index = start.1 then
        if s.term ≠ start.2 then (.fail .snapMismatch emptyHS, none)
        else (.cont { ra with matched := true }, none)
      else (.cont ra, none)
  else (.fail .badType emptyHS, none)

inductive LoopEnd
| decEof | decErr (e : RErr) | failed (e : RErr) (state : HardState)

/-- one iteration of `ReadAll`'s loop -/
inductive StepRes
| cont (d : Dec) (ra : RA)
| stop (ra : RA) (fin : LoopEnd) (d : Dec)

def readStep (start : Nat × Nat) (d : Dec) (ra : RA) : StepRes :=
  match decodeRecord (d.rest.length + 1) d with
  | .eof d' => .stop ra .decEof d'
  | .err e d' => .stop ra (.decErr e) d'
  | .got r d' =>
    match dispatch start d'.crc ra r with
    | (.fail e st, _) => .stop ra (.failed e st) d'
    | (.cont ra', none) => .cont d' ra'
    | (.cont ra', some c) => .cont { d' with crc := c } ra'

def readLoop (start : Nat × Nat) : Nat → Dec → RA → RA × LoopEnd × Dec
| 0, d, ra => (ra, .decEof, d)
| fuel + 1, d, ra =>
  match readStep start d ra with
  | .stop ra' fin d' => (ra', fin, d')
  | .cont d' ra' => readLoop start fuel d' ra'

/-- the record stream as every reader (`ReadAll`, `Verify`, `Repair`, `ValidSnapshotEntries`) sees it: decode, and on a
    crcType record check the running CRC against it and re-seed the decoder -/
def recLoop : Nat → Dec → List Record × LoopEnd × Dec
| 0, d => ([], .decEof, d)
| fuel + 1, d =>
  match decodeRecord (d.rest.length + 1) d with
  | .eof d' => ([], .decEof, d')
  | .err e d' => ([], .decErr e, d')
  | .got r d' =>
    if r.type = crcType then
      if d'.crc ≠ 0 ∧ r.crc ≠ d'.crc then ([], .failed .crc emptyHS, d')
      else
        let res := recLoop fuel { d' with crc := r.crc }
        (r :: res.1, res.2.1, res.2.2)
    else
      let res := recLoop fuel d'
      (r :: res.1, res.2.1, res.2.2)

def totalLen (files : List Bytes) : Nat := files.foldl (fun n f => n + f.length) 0

/-- what `ReadAll` makes of the way its loop ended -/
def readAllFin (write : Bool) (res : RA × LoopEnd × Dec) : RAResult :=
  let (ra, fin, d) := res
  match fin with
  | .failed e st => ⟨none, st, [], some e, d.off, d.crc⟩
  | .decErr e =>
    if !write && e = .ueof then
      ⟨ra.metadata, ra.state, ra.ents, if ra.matched then none else some .snapNotFound, d.off, d.crc⟩
    else ⟨none, emptyHS, [], some e, d.off, d.crc⟩
  | .decEof =>
    -- in write mode the code assigns `w.encoder, err = newFileEncoder(...)` after setting `err = ErrSnapshotNotFound`,
    -- so the missing-snapshot error is lost there (observed on the real code; mirrored, not endorsed)
    ⟨ra.metadata, ra.state, ra.ents, if ra.matched || write then none else some .snapNotFound, d.off, d.crc⟩

def readAllFrom (write : Bool) (start : Nat × Nat) (fuel : Nat) (d0 : Dec) (ra0 : RA) : RAResult :=
  readAllFin write (readLoop start fuel d0 ra0)

def readFuel (files : List Bytes) : Nat := totalLen files / 8 + files.length + 2

/-- `ReadAll` on a chain of files opened at snapshot `start`; `write` = opened with `wal.Open` (must reach EOF) -/
def readAll (write : Bool) (start : Nat × Nat) (files : List Bytes) : RAResult :=
  readAllFrom write start (readFuel files) (Dec.open files) {}

/-- the last file after `ReadAll` in write mode reached EOF: `ZeroToEnd` from the decoder's last offset -/
def zeroToEnd (f : Bytes) (off : Nat) : Bytes := f.take off ++ List.replicate (f.length - off) 0

/-! ### Verify -/

structure VSt where
  mdat    : Option Bytes := none
  state   : HardState := emptyHS
  matched : Bool := false

inductive VStep
| cont (d : Dec) (v : VSt)
| stop (r : Except RErr VSt) (fin : LoopEnd)

def verifyStep (start : Nat × Nat) (d : Dec) (v : VSt) : VStep :=
  match decodeRecord (d.rest.length + 1) d with
  | .eof _ => .stop (.ok v) .decEof
  | .err e _ => .stop (.ok v) (.decErr e)
  | .got r d' =>
    let data := r.data.getD []
    if r.type = metadataType then
      if v.mdat.isSome ∧ v.mdat ≠ some data then .stop (.error .metaConflict) .decEof
      else .cont d' { v with mdat := r.data }
    else if r.type = crcType then
      if d'.crc ≠ 0 ∧ r.crc ≠ d'.crc then .stop (.error .crc) .decEof
      else .cont { d' with crc := r.crc } v
    else if r.type = snapshotType then
      match unmarshalWSnap data with
      | .error _ => .stop (.error .panic) .decEof
      | .ok s =>
        if s.index = start.1 then
          if s.term ≠ start.2 then .stop (.error .snapMismatch) .decEof
          else .cont d' { v with matched := true }
        else .cont d' v
    else if r.type = entryType then .cont d' v
    else if r.type = stateType then
      match unmarshalHS data with
      | .error _ => .stop (.error .panic) .decEof
      | .ok s => .cont d' { v with state := s }
    else .stop (.error .badType) .decEof

def verifyLoop (start : Nat × Nat) : Nat → Dec → VSt → (Except RErr VSt) × LoopEnd
| 0, _, v => (.ok v, .decEof)
| fuel + 1, d, v =>
  match verifyStep start d v with
  | .stop r fin => (r, fin)
  | .cont d' v' => verifyLoop start fuel d' v'

def verifyFrom (start : Nat × Nat) (fuel : Nat) (d0 : Dec) (v0 : VSt) : Except RErr HardState :=
  match verifyLoop start fuel d0 v0 with
  | (.error e, _) => .error e
  | (.ok v, fin) =>
    match fin with
    | .decErr e => if e = .ueof then (if v.matched then .ok v.state else .error .snapNotFound) else .error e
    | _ => if v.matched then .ok v.state else .error .snapNotFound

/-- `wal.Verify`: the hard state, or an error -/
def verify (start : Nat × Nat) (files : List Bytes) : Except RErr HardState :=
  verifyFrom start (readFuel files) (Dec.open files) {}

/-! ### Repair -/

def repairLoop : Nat → Dec → Bool × Option Nat
| 0, _ => (true, none)
| fuel + 1, d =>
  match decodeRecord 1 d with
  | .eof _ => (true, none)
  | .err e d' => if e = .ueof then (true, some d'.off) else (false, none)
  | .got r d' =>
    if r.type = crcType then
      if d'.crc ≠ 0 ∧ r.crc ≠ d'.crc then (false, none) else repairLoop fuel { d' with crc := r.crc }
    else repairLoop fuel d'

/-- `wal.Repair` on the last file: (reported success, the file afterwards) -/
def repair (last : Bytes) : Bool × Bytes :=
  match repairLoop (last.length / 8 + 2) (Dec.open [last]) with
  | (ok, some off) => (ok, last.take off)
  | (ok, none) => (ok, last)

/-! ### snapshot files -/

/-- `snappb.Snapshot.Marshal` of `{Crc, Data}` (`Data` non-nil) -/
def snapFile (payload : Bytes) : Bytes :=
  [0x08] ++ encVarint (crcUpdate 0 payload) ++ ([0x12] ++ encVarint payload.length ++ payload)

inductive SErr | empty | crc | pb
deriving DecidableEq, Repr

/-- (term, index) of a marshalled raftpb.Snapshot: field 2 = Metadata {1 ConfState, 2 Index, 3 Term} -/
def snapMeta (payload : Bytes) : Except PErr (Nat × Nat) :=
  match parseMsg [(1, 2), (2, 2)] payload with
  | .error e => .error e
  | .ok m =>
    match getB m 2 with
    | none => .ok (0, 0)
    | some md =>
      match parseMsg [(1, 2), (2, 0), (3, 0)] md with
      | .error e => .error e
      | .ok mm => .ok (getV mm 3, getV mm 2)

/-- `snap.Read`: the marshalled raftpb.Snapshot stored in the file, with its (term, index) -/
def snapRead (file : Bytes) : Except SErr (Bytes × (Nat × Nat)) :=
  if file = [] then .error .empty else
  match parseMsg [(1, 0), (2, 2)] file with
  | .error _ => .error .pb
  | .ok m =>
    let crc := getV m 1 % 2 ^ 32
    let data := (getB m 2).getD []
    if data = [] ∨ crc = 0 then .error .empty
    else if crcUpdate 0 data ≠ crc then .error .crc
    else match snapMeta data with
      | .error _ => .error .pb
      | .ok ti => .ok (data, ti)

/-- `loadMatching` over the files newest first; `wanted = none` is `Load`, `some l` is `LoadNewestAvailable l` with
    (term, index) pairs. Result: position in the list and the payload returned. -/
def loadMatching (wanted : Option (List (Nat × Nat))) : List Bytes → Nat → Option (Nat × Bytes)
| [], _ => none
| f :: fs, i =>
  match snapRead f with
  | .ok (data, ti) =>
    let ok := match wanted with
      | none => true
      | some l => l.contains ti
    if ok then some (i, data) else loadMatching wanted fs (i + 1)
  | .error _ => loadMatching wanted fs (i + 1)

end WalFile
