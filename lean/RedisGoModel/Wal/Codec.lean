import RedisGoModel.Wal.CrcFast
/-! C16 model, byte level (core Lean only — this file is linked into the compiled driver).
    The byte format of one WAL frame as encoder.go / decoder.go / walpb/record.pb.go write and read it:
    protobuf varints, the generated `Record.Unmarshal` loop (int32 field numbers, wire-type checks, unknown-field
    skipping through `skipRecord`, error classes io.ErrUnexpectedEOF vs. other), the 8-byte little-endian length
    field whose top byte carries the padding (`encodeFrameSize`/`decodeFrameSize` with the Go bit operations),
    zero padding to 8 bytes, and the rolling CRC-32C (`Crc3.update` = hash/crc32.Update with the Castagnoli table).
    Proofs about these definitions live in WalCodec.lean / WalSeq.lean / Props/C16*.lean. -/
namespace WalCodec
abbrev Bytes := List UInt8

/-- the two classes of decoding errors the callers distinguish: `io.ErrUnexpectedEOF` and everything else -/
inductive PErr | ueof | other
deriving DecidableEq, Repr

/-! ### varints -/

/-- `encodeVarintRecord` (written back to front in Go; the bytes are these) -/
def encVarint (n : Nat) : Bytes :=
  if n < 128 then [UInt8.ofNat n] else UInt8.ofNat (n % 128 + 128) :: encVarint (n / 128)
decreasing_by omega

/-- the generated decoding loop: `wire |= uint64(b&0x7F) << shift`; `shift ≥ 64` is tested before the end of input.
    (`|` is `+` here because the new bits lie above the accumulated ones; truncation to 64 bits is the `%`.) -/
def decVarintAux : Nat → Nat → Bytes → Except PErr (Nat × Bytes)
| shift, _, [] => if shift ≥ 64 then .error .other else .error .ueof
| shift, acc, b :: r =>
  if shift ≥ 64 then .error .other
  else if b.toNat < 128 then .ok ((acc + (b.toNat % 128) * 2 ^ shift) % 2 ^ 64, r)
  else decVarintAux (shift + 7) ((acc + (b.toNat % 128) * 2 ^ shift) % 2 ^ 64) r

def decVarint (bs : Bytes) : Except PErr (Nat × Bytes) := decVarintAux 0 0 bs

/-! ### unknown fields: `skipRecord` -/

/-- `skipRecord` (identical text in every gogo-generated file): number of bytes of one field, groups included.
    `used` is `iNdEx`. A jump past the end of the input surfaces as `ueof` (in Go: the caller's `iNdEx+skippy > l`,
    or the loop running out with `depth > 0`). -/
def skipAux : Nat → Nat → Nat → Bytes → Except PErr Nat
| 0, _, _, _ => .error .ueof
| fuel + 1, depth, used, bs =>
  if bs = [] then .error .ueof else
  match decVarint bs with
  | .error e => .error e
  | .ok (wire, rest) =>
    let used1 := used + (bs.length - rest.length)
    let fin (used2 : Nat) (rest2 : Bytes) (depth2 : Nat) : Except PErr Nat :=
      if used2 ≥ 2 ^ 63 then .error .other
      else if depth2 = 0 then .ok used2 else skipAux fuel depth2 used2 rest2
    let jump (n : Nat) (depth2 : Nat) : Except PErr Nat :=
      if used1 + n ≥ 2 ^ 63 then .error .other
      else if rest.length < n then .error .ueof
      else fin (used1 + n) (rest.drop n) depth2
    match wire % 8 with
    | 0 =>
      match decVarint rest with
      | .error e => .error e
      | .ok (_, rest') => fin (used1 + (rest.length - rest'.length)) rest' depth
    | 1 => jump 8 depth
    | 2 =>
      match decVarint rest with
      | .error e => .error e
      | .ok (len, rest') =>
        if len ≥ 2 ^ 63 then .error .other
        else
          let used2 := used1 + (rest.length - rest'.length)
          if used2 + len ≥ 2 ^ 63 then .error .other
          else if rest'.length < len then .error .ueof
          else fin (used2 + len) (rest'.drop len) depth
    | 3 => fin used1 rest (depth + 1)
    | 4 => if depth = 0 then .error .other else fin used1 rest (depth - 1)
    | 5 => jump 4 depth
    | _ => .error .other

/-- bytes of the unknown field at the head of `bs` -/
def skipField (bs : Bytes) : Except PErr Nat := skipAux (bs.length + 1) 0 0 bs

/-- `fieldNum := int32(wire >> 3)`: `none` when `fieldNum <= 0` -/
def fieldNum (wire : Nat) : Option Nat :=
  let f := (wire / 8) % 2 ^ 32
  if f = 0 ∨ f ≥ 2 ^ 31 then none else some f

/-! ### walpb.Record -/

structure Record where
  type : Nat                 -- int64, as its uint64 image
  crc  : Nat                 -- uint32
  data : Option Bytes        -- nil vs. present
deriving DecidableEq, Repr

/-- `MarshalToSizedBuffer`: tag 0x08 type, tag 0x10 crc, and, if `Data != nil`, tag 0x1a length data -/
def marshal (r : Record) : Bytes :=
  [0x08] ++ encVarint r.type ++ ([0x10] ++ encVarint r.crc ++
    (match r.data with
     | none => []
     | some d => [0x1a] ++ encVarint d.length ++ d))

/-- the generated `Record.Unmarshal` loop -/
def unmarshalAux : Nat → Record → Bytes → Except PErr Record
| 0, _, _ => .error .other
| fuel + 1, r, bs =>
  if bs = [] then .ok r else
  match decVarint bs with
  | .error e => .error e
  | .ok (wire, rest) =>
    if wire % 8 = 4 then .error .other
    else match fieldNum wire with
    | none => .error .other
    | some f =>
      if f = 1 then
        if wire % 8 ≠ 0 then .error .other else
        match decVarint rest with
        | .error e => .error e
        | .ok (v, rest') => unmarshalAux fuel { r with type := v } rest'
      else if f = 2 then
        if wire % 8 ≠ 0 then .error .other else
        match decVarint rest with
        | .error e => .error e
        | .ok (v, rest') => unmarshalAux fuel { r with crc := v % 2 ^ 32 } rest'
      else if f = 3 then
        if wire % 8 ≠ 2 then .error .other else
        match decVarint rest with
        | .error e => .error e
        | .ok (len, rest') =>
          if len ≥ 2 ^ 63 then .error .other                      -- `byteLen < 0`
          else if rest'.length < len then .error .ueof            -- `postIndex > l`
          else unmarshalAux fuel { r with data := some (rest'.take len) } (rest'.drop len)
      else
        match skipField bs with
        | .error e => .error e
        | .ok n => if bs.length < n then .error .ueof else
                   if n = 0 then .error .other else unmarshalAux fuel r (bs.drop n)

def unmarshal (bs : Bytes) : Except PErr Record := unmarshalAux (bs.length + 1) ⟨0, 0, none⟩ bs

/-! ### the length field -/

/-- `encodeFrameSize` -/
def encodeFrameSize (n : Nat) : Nat × Nat :=
  let pad := (8 - n % 8) % 8
  (if pad ≠ 0 then n ||| ((0x80 ||| pad) <<< 56) else n, pad)

/-- `decodeFrameSize` on the uint64 image of the length field (`lenField < 0` ⇔ top bit set) -/
def decodeFrameSize (l : Nat) : Nat × Nat :=
  (l &&& (2 ^ 56 - 1), if l ≥ 2 ^ 63 then (l >>> 56) &&& 7 else 0)

/-- `binary.LittleEndian.PutUint64` / `binary.Read` -/
def le64 (n : Nat) : Bytes := (List.range 8).map (fun i => UInt8.ofNat (n / 256 ^ i % 256))
def readLE64 : Bytes → Option (Nat × Bytes)
| b0 :: b1 :: b2 :: b3 :: b4 :: b5 :: b6 :: b7 :: rest =>
    some (b0.toNat + 256 * (b1.toNat + 256 * (b2.toNat + 256 * (b3.toNat + 256 * (b4.toNat + 256 * (b5.toNat +
      256 * (b6.toNat + 256 * b7.toNat)))))), rest)
| _ => none

/-! ### one frame -/

def encodeFrame (r : Record) : Bytes :=
  let body := marshal r
  le64 (encodeFrameSize body.length).1 ++ (body ++ List.replicate (encodeFrameSize body.length).2 0)

/-- `decodeRecord` without the CRC chain and the torn-entry test: `none` = error or end of the written part -/
def decodeFrame (bs : Bytes) : Option (Record × Bytes) :=
  match readLE64 bs with
  | none => none
  | some (l, rest) =>
    if l = 0 then none
    else
      let (recBytes, padBytes) := decodeFrameSize l
      if rest.length < recBytes + padBytes then none
      else
        match unmarshal (rest.take recBytes) with
        | .error _ => none
        | .ok r => some (r, rest.drop (recBytes + padBytes))

/-! ### CRC-32C over bytes (`crc.digest.Write` = `crc32.Update(d.crc, castagnoliTable, p)`) -/

def toNats (b : Bytes) : List Nat := b.map UInt8.toNat

def crcUpdate (crc : Nat) (b : Bytes) : Nat := Crc3.update crc (toNats b)

/-! ### record sequences through the rolling CRC -/

/-- what the caller hands to `encoder.encode`: a type and a payload (`none` = nil `Data`) -/
structure Item where
  type : Nat
  data : Bytes
deriving DecidableEq, Repr

/-- `encoder.encode` over a list, threading `e.crc` -/
def encodeAll (upd : Nat → Bytes → Nat) : Nat → List Item → Bytes
| _, [] => []
| crc, it :: rest =>
    let crc' := upd crc it.data
    encodeFrame ⟨it.type, crc', some it.data⟩ ++ encodeAll upd crc' rest

/-- `decoder.decode` in a loop (records of the CRC-seeding type are handled at the file level, see File.lean): stop at a
    zero length field / end of data (`none` from `decodeFrame`), fail on a CRC mismatch -/
def decodeAll (upd : Nat → Bytes → Nat) : Nat → Nat → Bytes → Option (List Item)
| 0, _, _ => some []
| fuel + 1, crc, bs =>
    match decodeFrame bs with
    | none => some []
    | some (r, rest) =>
      match r.data with
      | none => none
      | some d =>
        if upd crc d = r.crc then
          match decodeAll upd fuel (upd crc d) rest with
          | none => none
          | some items => some (⟨r.type, d⟩ :: items)
        else none

end WalCodec
