/-! Prototype for C16: a change of exactly one byte always changes CRC-32C (table-driven update as in
    hash/crc32.Update / etcd pkg/crc). Core Lean only; table facts by `decide +kernel`. -/
namespace Crc3

def poly : Nat := 0x82f63b78
def stepBit (c : Nat) : Nat := if c % 2 == 1 then (c / 2) ^^^ poly else c / 2
def entry (i : Nat) : Nat := stepBit (stepBit (stepBit (stepBit (stepBit (stepBit (stepBit (stepBit i)))))))
def table : List Nat := (List.range 256).map entry

/-- state is kept as a Nat < 2^32; one byte of input -/
def upd (s : Nat) (b : Nat) : Nat := table.getD ((s ^^^ b) % 256) 0 ^^^ (s / 256)

def update (crc : Nat) (p : List Nat) : Nat := (p.foldl upd (crc ^^^ 0xffffffff)) ^^^ 0xffffffff

#eval update 0 ("123456789".toUTF8.toList.map (·.toNat))   -- 3808858755 = 0xE3069283

/-- table facts, over all 256 entries / pairs, by kernel evaluation -/
theorem table_lt : ∀ i, i < 256 → table.getD i 0 < 2^32 := by decide +kernel
theorem table_inj : ∀ i, i < 256 → ∀ j, j < 256 → table.getD i 0 = table.getD j 0 → i = j := by decide +kernel
theorem top_inj : ∀ i, i < 256 → ∀ j, j < 256 → table.getD i 0 / 2^24 = table.getD j 0 / 2^24 → i = j := by decide +kernel

theorem xor_cancel_left {a b c : Nat} (h : a ^^^ b = a ^^^ c) : b = c := by
  have := congrArg (a ^^^ ·) h
  simpa [← Nat.xor_assoc] using this

theorem xor_cancel_right {a b c : Nat} (h : b ^^^ a = c ^^^ a) : b = c := by
  rw [Nat.xor_comm b a, Nat.xor_comm c a] at h; exact xor_cancel_left h

theorem idx_lt (s b : Nat) : (s ^^^ b) % 256 < 256 := Nat.mod_lt _ (by decide)

/-- (1) for a fixed state, different bytes give different next states -/
theorem upd_inj_byte {s b1 b2 : Nat} (h1 : b1 < 256) (h2 : b2 < 256) (h : upd s b1 = upd s b2) : b1 = b2 := by
  unfold upd at h
  have ht := xor_cancel_right h
  have hi := table_inj _ (idx_lt s b1) _ (idx_lt s b2) ht
  have e : (256 : Nat) = 2 ^ 8 := by decide
  rw [e, Nat.xor_mod_two_pow, Nat.xor_mod_two_pow] at hi
  have := xor_cancel_left hi
  rw [← e, Nat.mod_eq_of_lt h1, Nat.mod_eq_of_lt h2] at this
  exact this

/-- (2) for a fixed byte, different 32-bit states give different next states -/
theorem upd_inj_state {s1 s2 b : Nat} (h1 : s1 < 2^32) (h2 : s2 < 2^32) (h : upd s1 b = upd s2 b) : s1 = s2 := by
  unfold upd at h
  have e24 : ∀ s, s < 2^32 → (s / 256) / 2^24 = 0 := by
    intro s hs
    apply Nat.div_eq_of_lt
    omega
  -- compare the top bytes: those of s/256 vanish, so the table indexes agree
  have htop := congrArg (· / 2^24) h
  simp only [Nat.xor_div_two_pow, e24 s1 h1, e24 s2 h2, Nat.xor_zero] at htop
  have hi := top_inj _ (idx_lt s1 b) _ (idx_lt s2 b) htop
  -- hence the low bytes agree …
  have e : (256 : Nat) = 2 ^ 8 := by decide
  have hlow : s1 % 256 = s2 % 256 := by
    rw [e, Nat.xor_mod_two_pow, Nat.xor_mod_two_pow] at hi
    have := xor_cancel_right hi
    rw [← e] at this; exact this
  -- … and, the table entries being equal, so do the upper 24 bits
  rw [hi] at h
  have hhigh : s1 / 256 = s2 / 256 := xor_cancel_left h
  have := Nat.div_add_mod s1 256
  have := Nat.div_add_mod s2 256
  omega

theorem upd_lt {s b : Nat} (hs : s < 2^32) : upd s b < 2^32 := by
  unfold upd
  apply Nat.xor_lt_two_pow (table_lt _ (idx_lt s b))
  have : s / 256 ≤ s := Nat.div_le_self _ _
  omega

theorem foldl_upd_lt {s : Nat} (hs : s < 2^32) (p : List Nat) : p.foldl upd s < 2^32 := by
  induction p generalizing s with
  | nil => exact hs
  | cons b r ih => exact ih (upd_lt hs)

theorem foldl_upd_inj {s1 s2 : Nat} (h1 : s1 < 2^32) (h2 : s2 < 2^32) (p : List Nat)
    (h : p.foldl upd s1 = p.foldl upd s2) : s1 = s2 := by
  induction p generalizing s1 s2 with
  | nil => exact h
  | cons b r ih => exact upd_inj_state h1 h2 (ih (upd_lt h1) (upd_lt h2) h)

/-- **single-byte detection**: two messages that differ in exactly one byte never have the same CRC,
    whatever the length, the position and the running CRC they are chained onto -/
theorem crc_single_byte (crc : Nat) (hc : crc < 2^32) (pre suf : List Nat) (x y : Nat) (hx : x < 256) (hy : y < 256)
    (hne : x ≠ y) : update crc (pre ++ x :: suf) ≠ update crc (pre ++ y :: suf) := by
  intro h
  unfold update at h
  have h' := xor_cancel_right h
  rw [List.foldl_append, List.foldl_append, List.foldl_cons, List.foldl_cons] at h'
  have h0 : crc ^^^ 0xffffffff < 2^32 := Nat.xor_lt_two_pow hc (by decide)
  have hs := foldl_upd_lt h0 pre
  have := foldl_upd_inj (upd_lt hs) (upd_lt hs) suf h'
  exact hne (upd_inj_byte hx hy this)

#print axioms crc_single_byte
end Crc3
