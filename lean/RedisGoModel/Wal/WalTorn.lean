/-! Prototype for C16: sector-atomic torn tail. Files are byte functions (zero beyond what was written — the segment is
    preallocated); frames are an 8-byte header plus an 8-byte-aligned body; record validation (unmarshal + rolling CRC)
    is abstract. After a crash that reverts any subset of the 512-byte sectors of the unsynced tail, decoding returns
    the synced records, then a whole-record prefix of the unsynced ones, and ends with a clean EOF or a *torn* verdict
    (repairable) — provided no damaged record still validates (`NoCollision`). Core Lean only. -/
namespace WalTorn

abbrev File := Nat → Nat          -- offset ↦ byte

def readAt (f : File) (o n : Nat) : List Nat := (List.range n).map fun i => f (o + i)

/-- abstract header codec and record validation, with the laws the proof uses (hypotheses, not axioms) -/
structure Codec (ρ σ : Type) where
  hdr    : Nat → List Nat
  unhdr  : List Nat → Nat
  valid  : σ → List Nat → Option (ρ × σ)
  hdr_len   : ∀ n, (hdr n).length = 8
  unhdr_hdr : ∀ n, unhdr (hdr n) = n
  unhdr_zero : unhdr (List.replicate 8 0) = 0

structure Frame (ρ : Type) where
  val  : ρ
  body : List Nat

inductive Ending | eof | torn | corrupt
deriving DecidableEq

/-- `isTornEntry`: some sector-aligned chunk of the body (chunked relative to its file offset) is entirely zero -/
def isTorn (off : Nat) (b : List Nat) : Prop :=
  ∃ q, (∃ i, i < b.length ∧ (off + i) / 512 = q) ∧ ∀ i, i < b.length → (off + i) / 512 = q → b.getD i 0 = 0

variable {ρ σ : Type}

/-- the decoder loop (`decodeRecord` + the caller's loop), with fuel = an upper bound on the number of frames -/
noncomputable def decode (C : Codec ρ σ) (f : File) : Nat → Nat → σ → List ρ × Ending × Nat
| 0, o, _ => ([], .eof, o)
| fuel+1, o, st =>
  let n := C.unhdr (readAt f o 8)
  if n = 0 then ([], .eof, o)
  else
    let b := readAt f (o + 8) n
    match C.valid st b with
    | some (r, st') =>
      let res := decode C f fuel (o + 8 + n) st'
      (r :: res.1, res.2.1, res.2.2)
    | none => open Classical in if isTorn (o + 8) b then ([], .torn, o) else ([], .corrupt, o)

/-- writing a list of frames starting at offset o into a file -/
def writeAt (f : File) (o : Nat) (bytes : List Nat) : File := fun x => if o ≤ x ∧ x < o + bytes.length then bytes.getD (x - o) 0 else f x

def layout (C : Codec ρ σ) : List (Frame ρ) → Nat → File → File
| [], _, f => f
| fr :: rest, o, f => layout C rest (o + 8 + fr.body.length) (writeAt (writeAt f o (C.hdr fr.body.length)) (o + 8) fr.body)

def endOff : List (Frame ρ) → Nat → Nat
| [], o => o
| fr :: rest, o => endOff rest (o + 8 + fr.body.length)

/-- frames are well formed: non-empty bodies, padded to 8 bytes -/
def WF (fs : List (Frame ρ)) : Prop := ∀ fr ∈ fs, 0 < fr.body.length ∧ fr.body.length % 8 = 0

/-- the records validate in sequence from state st (rolling CRC chain) -/
def Chain (C : Codec ρ σ) : List (Frame ρ) → σ → Prop
| [], _ => True
| fr :: rest, st => ∃ st', C.valid st fr.body = some (fr.val, st') ∧ Chain C rest st'

/-- crash: below P nothing changes; every sector is, above P, either as written or zero -/
def Crash (img c : File) (P : Nat) : Prop :=
  (∀ o, o < P → c o = img o) ∧
  ∀ q, (∀ o, o / 512 = q → P ≤ o → c o = img o) ∨ (∀ o, o / 512 = q → P ≤ o → c o = 0)

/-! ### reading back what `layout` wrote -/

theorem writeAt_out (f : File) (o : Nat) (bs : List Nat) (x : Nat) (h : x < o ∨ o + bs.length ≤ x) : writeAt f o bs x = f x := by
  unfold writeAt
  have : ¬ (o ≤ x ∧ x < o + bs.length) := by omega
  simp [this]

theorem writeAt_in (f : File) (o : Nat) (bs : List Nat) (i : Nat) (h : i < bs.length) : writeAt f o bs (o + i) = bs.getD i 0 := by
  unfold writeAt
  have : o ≤ o + i ∧ o + i < o + bs.length := by omega
  simp [this]

theorem layout_below (C : Codec ρ σ) (fs : List (Frame ρ)) (o : Nat) (f : File) (x : Nat) (h : x < o) :
    layout C fs o f x = f x := by
  induction fs generalizing o f with
  | nil => rfl
  | cons fr rest ih =>
    simp only [layout]
    rw [ih _ _ (by omega), writeAt_out _ _ _ _ (Or.inl (by omega)), writeAt_out _ _ _ _ (Or.inl h)]

theorem layout_above (C : Codec ρ σ) (fs : List (Frame ρ)) (o : Nat) (f : File) (x : Nat) (h : endOff fs o ≤ x) :
    layout C fs o f x = f x := by
  induction fs generalizing o f with
  | nil => rfl
  | cons fr rest ih =>
    simp only [layout, endOff] at h ⊢
    have hmono : ∀ (l : List (Frame ρ)) (o' : Nat), o' ≤ endOff l o' := by
      intro l; induction l with
      | nil => intro o'; exact Nat.le_refl _
      | cons a r ihr => intro o'; simp only [endOff]; have := ihr (o' + 8 + a.body.length); omega
    have := hmono rest (o + 8 + fr.body.length)
    rw [ih _ _ h, writeAt_out _ _ _ _ (Or.inr (by omega)), writeAt_out _ _ _ _ (Or.inr (by rw [C.hdr_len]; omega))]

theorem readAt_ext (f g : File) (o n : Nat) (h : ∀ i, i < n → f (o + i) = g (o + i)) : readAt f o n = readAt g o n := by
  unfold readAt
  apply List.map_congr_left
  intro i hi; exact h i (by simpa using hi)

theorem readAt_writeAt (f : File) (o : Nat) (bs : List Nat) : readAt (writeAt f o bs) o bs.length = bs := by
  apply List.ext_getElem
  · simp [readAt]
  · intro i h1 h2
    simp only [readAt, List.getElem_map, List.getElem_range]
    rw [writeAt_in _ _ _ _ h2]
    simp [List.getD_eq_getElem?_getD, h2]

/-- the first frame of a layout reads back as its header and body -/
theorem layout_head (C : Codec ρ σ) (fr : Frame ρ) (rest : List (Frame ρ)) (o : Nat) (f : File) :
    readAt (layout C (fr :: rest) o f) o 8 = C.hdr fr.body.length ∧
    readAt (layout C (fr :: rest) o f) (o + 8) fr.body.length = fr.body := by
  simp only [layout]
  constructor
  · rw [readAt_ext _ (writeAt f o (C.hdr fr.body.length)) o 8]
    · have := readAt_writeAt f o (C.hdr fr.body.length)
      rwa [C.hdr_len] at this
    · intro i hi
      rw [layout_below _ _ _ _ _ (by omega), writeAt_out _ _ _ _ (Or.inl (by omega))]
  · rw [readAt_ext _ (writeAt (writeAt f o (C.hdr fr.body.length)) (o + 8) fr.body) (o + 8) fr.body.length]
    · exact readAt_writeAt _ _ _
    · intro i hi
      rw [layout_below _ _ _ _ _ (by omega)]

theorem endOff_append (a b : List (Frame ρ)) (o : Nat) : endOff (a ++ b) o = endOff b (endOff a o) := by
  induction a generalizing o with
  | nil => rfl
  | cons x r ih => simp only [List.cons_append, endOff]; exact ih _

theorem endOff_mono (l : List (Frame ρ)) (o : Nat) : o ≤ endOff l o := by
  induction l generalizing o with
  | nil => exact Nat.le_refl _
  | cons a r ih => simp only [endOff]; have := ih (o + 8 + a.body.length); omega

/-- any frame of a layout reads back at its offset -/
theorem frame_at (C : Codec ρ σ) (pre : List (Frame ρ)) (fr : Frame ρ) (post : List (Frame ρ)) (o : Nat) (f : File) :
    readAt (layout C (pre ++ fr :: post) o f) (endOff pre o) 8 = C.hdr fr.body.length ∧
    readAt (layout C (pre ++ fr :: post) o f) (endOff pre o + 8) fr.body.length = fr.body := by
  induction pre generalizing o f with
  | nil => exact layout_head C fr post o f
  | cons a r ih => simp only [List.cons_append, layout, endOff]; exact ih _ _

theorem endOff_aligned (l : List (Frame ρ)) (o : Nat) (ho : o % 8 = 0) (hwf : WF l) : endOff l o % 8 = 0 := by
  induction l generalizing o with
  | nil => exact ho
  | cons a r ih =>
    simp only [endOff]
    have := hwf a (by simp)
    exact ih _ (by omega) (fun x hx => hwf x (by simp [hx]))

/-- one intact frame is consumed -/
theorem decode_intact (C : Codec ρ σ) (c : File) (fuel o : Nat) (st st' : σ) (fr : Frame ρ)
    (hpos : 0 < fr.body.length)
    (hh : readAt c o 8 = C.hdr fr.body.length) (hb : readAt c (o + 8) fr.body.length = fr.body)
    (hv : C.valid st fr.body = some (fr.val, st')) :
    decode C c (fuel + 1) o st =
      (fr.val :: (decode C c fuel (o + 8 + fr.body.length) st').1, (decode C c fuel (o + 8 + fr.body.length) st').2.1,
        (decode C c fuel (o + 8 + fr.body.length) st').2.2) := by
  rw [decode]
  simp only [hh, C.unhdr_hdr]
  have : ¬ fr.body.length = 0 := by omega
  simp only [this, if_false, hb, hv]

theorem readAt_zero (f : File) (o n : Nat) (h : ∀ i, i < n → f (o + i) = 0) : readAt f o n = List.replicate n 0 := by
  rw [List.eq_replicate_iff]
  refine ⟨by simp [readAt], ?_⟩
  intro b hb
  simp only [readAt, List.mem_map, List.mem_range] at hb
  obtain ⟨i, hi, rfl⟩ := hb
  exact h i hi

/-- the header of a frame lies within one sector -/
theorem hdr_one_sector (o i : Nat) (ho : o % 8 = 0) (hi : i < 8) : (o + i) / 512 = o / 512 := by omega

/-- the unsynced tail after a crash -/
theorem tail_after_crash (C : Codec ρ σ) (all : List (Frame ρ)) (c : File) (P : Nat)
    (hcr : Crash (layout C all 0 (fun _ => 0)) c P) (hwf : WF all) :
    ∀ (u pre : List (Frame ρ)) (st : σ) (fuel : Nat), all = pre ++ u → P ≤ endOff pre 0 → Chain C u st → u.length < fuel →
      (∀ fr ∈ u, ∀ st b', b'.length = fr.body.length → b' ≠ fr.body → C.valid st b' = none) →
      ∃ p rest, u = p ++ rest ∧ (decode C c fuel (endOff pre 0) st).1 = p.map (·.val) ∧
        ((decode C c fuel (endOff pre 0) st).2.1 = .eof ∨ (decode C c fuel (endOff pre 0) st).2.1 = .torn) ∧
        (decode C c fuel (endOff pre 0) st).2.2 = endOff (pre ++ p) 0 := by
  intro u
  induction u with
  | nil =>
    intro pre st fuel hall hP _ hf _
    refine ⟨[], [], rfl, ?_⟩
    cases fuel with
    | zero => omega
    | succ fuel =>
      -- beyond everything written the image is zero, and so is the crashed file
      have hz : readAt c (endOff pre 0) 8 = List.replicate 8 0 := by
        have himg : ∀ x, endOff pre 0 ≤ x → layout C all 0 (fun _ => 0) x = 0 := by
          intro x hx; rw [layout_above]; rw [hall]; simpa using hx
        have hc : ∀ x, endOff pre 0 ≤ x → c x = 0 := by
          intro x hx
          rcases hcr.2 (x / 512) with k | z
          · rw [k x rfl (by omega)]; exact himg x hx
          · exact z x rfl (by omega)
        exact readAt_zero _ _ _ (fun i _ => hc _ (Nat.le_add_right _ _))
      rw [decode]; simp only [hz, C.unhdr_zero, if_true]
      simp
  | cons fr rest ih =>
    intro pre st fuel hall hP hch hf hnc
    obtain ⟨st', hv, hch'⟩ := hch
    have hfr := hwf fr (by rw [hall]; simp)
    have hal : endOff pre 0 % 8 = 0 := endOff_aligned pre 0 rfl (fun x hx => hwf x (by rw [hall]; simp [hx]))
    obtain ⟨ih1, ih2⟩ := frame_at C pre fr rest 0 (fun _ => 0)
    rw [← hall] at ih1 ih2
    obtain ⟨o, ho⟩ : ∃ o, o = endOff pre 0 := ⟨_, rfl⟩
    obtain ⟨n, hn⟩ : ∃ n, n = fr.body.length := ⟨_, rfl⟩
    rw [← ho] at hal ih1 ih2 hP ⊢
    rw [← hn] at ih1 ih2 hfr
    cases fuel with
    | zero => simp at hf
    | succ fuel =>
    -- header: one sector, either as written or zero
    rcases hcr.2 (o / 512) with keep | zero
    · have hh : readAt c o 8 = C.hdr n := by
        rw [← ih1]; apply readAt_ext; intro i hi
        exact keep _ (hdr_one_sector o i hal hi) (by omega)
      -- body: compare with what was written
      by_cases hb : readAt c (o + 8) n = fr.body
      · rw [hn] at hh hb
        rw [decode_intact C c fuel o st st' fr (by omega) hh hb hv]
        have := ih (pre ++ [fr]) st' fuel (by simp [hall]) (by rw [endOff_append]; simp only [endOff]; omega) hch'
          (by simp at hf; omega) (fun x hx => hnc x (by simp [hx]))
        rw [endOff_append] at this
        simp only [endOff, ← ho] at this
        obtain ⟨p, rest', e1, e2, e3, e4⟩ := this
        refine ⟨fr :: p, rest', by simp [e1], by simp [e2], e3, ?_⟩
        rw [e4]; simp [List.append_assoc]
      · -- damaged body: does not validate (NoCollision) and has an all-zero sector chunk ⇒ torn
        refine ⟨[], fr :: rest, rfl, ?_⟩
        have hlen : (readAt c (o + 8) n).length = n := by simp [readAt]
        have hnv := hnc fr (by simp) st (readAt c (o + 8) n) (by rw [hlen, hn]) hb
        have htorn : isTorn (o + 8) (readAt c (o + 8) n) := by
          -- some position differs from what was written; its sector was reverted
          have : ∃ i, i < n ∧ c (o + 8 + i) ≠ layout C all 0 (fun _ => 0) (o + 8 + i) := by
            apply Classical.byContradiction
            intro hno
            apply hb
            rw [← ih2]; apply readAt_ext; intro i hi
            apply Classical.byContradiction
            intro hne; exact hno ⟨i, hi, hne⟩
          obtain ⟨i, hi, hne⟩ := this
          refine ⟨(o + 8 + i) / 512, ⟨i, by rw [hlen]; exact hi, rfl⟩, ?_⟩
          rcases hcr.2 ((o + 8 + i) / 512) with k | z
          · exact absurd (k _ rfl (by omega)) hne
          · intro j hj hq
            rw [hlen] at hj
            simp [readAt, List.getD_eq_getElem?_getD, hj]
            exact z _ hq (by omega)
        rw [decode]
        have hn0 : ¬ n = 0 := by omega
        simp [hh, C.unhdr_hdr, hn0, hnv, htorn]
        exact ho
    · -- header sector reverted: length reads as zero ⇒ clean EOF
      refine ⟨[], fr :: rest, rfl, ?_⟩
      have hz : readAt c o 8 = List.replicate 8 0 :=
        readAt_zero _ _ _ (fun i hi => zero _ (hdr_one_sector o i hal hi) (by omega))
      rw [decode]; simp only [hz, C.unhdr_zero, if_true]
      simp [ho]

#print axioms tail_after_crash

/-- **C16 (torn tail)**: everything whose Save had completed (the synced frames) is returned, in order and unmodified,
    possibly followed by whole later records, never by anything else; the decoder stops with a clean EOF or a torn
    verdict at the end of the last accepted record — the offset `Repair` truncates to. -/
theorem torn_tail (C : Codec ρ σ) (all : List (Frame ρ)) (c : File) (P : Nat)
    (hcr : Crash (layout C all 0 (fun _ => 0)) c P) (hwf : WF all) (u : List (Frame ρ))
    (hnc : ∀ fr ∈ u, ∀ st b', b'.length = fr.body.length → b' ≠ fr.body → C.valid st b' = none) :
    ∀ (s pre : List (Frame ρ)) (st : σ) (fuel : Nat), all = pre ++ s ++ u → endOff (pre ++ s) 0 = P →
      Chain C (s ++ u) st → (s ++ u).length < fuel →
      ∃ p rest, u = p ++ rest ∧ (decode C c fuel (endOff pre 0) st).1 = (s ++ p).map (·.val) ∧
        ((decode C c fuel (endOff pre 0) st).2.1 = .eof ∨ (decode C c fuel (endOff pre 0) st).2.1 = .torn) ∧
        (decode C c fuel (endOff pre 0) st).2.2 = endOff (pre ++ s ++ p) 0 := by
  intro s
  induction s with
  | nil =>
    intro pre st fuel hall hP hch hf
    simp only [List.append_nil, List.nil_append] at hall hP hch hf ⊢
    exact tail_after_crash C all c P hcr hwf u pre st fuel hall (by omega) hch hf hnc
  | cons fr s' ih =>
    intro pre st fuel hall hP hch hf
    obtain ⟨st', hv, hch'⟩ := hch
    have hfr := hwf fr (by rw [hall]; simp)
    obtain ⟨h1, h2⟩ := frame_at C pre fr (s' ++ u) 0 (fun _ => 0)
    have hall' : all = pre ++ fr :: (s' ++ u) := by rw [hall]; simp
    rw [← hall'] at h1 h2
    -- the whole frame lies below P, hence is untouched
    have hbelow : endOff pre 0 + 8 + fr.body.length ≤ P := by
      rw [← hP, endOff_append]; simp only [endOff]
      exact endOff_mono s' _
    have hh : readAt c (endOff pre 0) 8 = C.hdr fr.body.length :=
      (readAt_ext c _ _ _ (fun i hi => hcr.1 _ (by omega))).trans h1
    have hb : readAt c (endOff pre 0 + 8) fr.body.length = fr.body :=
      (readAt_ext c _ _ _ (fun i hi => hcr.1 _ (by omega))).trans h2
    cases fuel with
    | zero => simp at hf
    | succ fuel =>
    rw [decode_intact C c fuel (endOff pre 0) st st' fr hfr.1 hh hb hv]
    have := ih (pre ++ [fr]) st' fuel (by rw [hall]; simp) (by rw [← hP]; simp) hch' (by simp at hf ⊢; omega)
    rw [endOff_append] at this
    simp only [endOff] at this
    obtain ⟨p, rest, e1, e2, e3, e4⟩ := this
    refine ⟨p, rest, e1, by simp [e2], e3, ?_⟩
    rw [e4]; simp [List.append_assoc]

#print axioms torn_tail
end WalTorn
