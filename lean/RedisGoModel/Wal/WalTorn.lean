/-! C16: sector-atomic torn tail. Files are byte functions (zero beyond what was written — the segment is
    preallocated); frames are 8 header bytes plus an 8-byte-aligned body; the header decoder (`unhdr`: the announced
    body length, record bytes plus padding) and record validation (`valid`: unmarshal of the record bytes the header
    announces + rolling CRC) are abstract, so that the real length field — which encodes record bytes and padding
    separately — fits (instantiated in Props/C16Torn.lean). After a crash that reverts any subset of the 512-byte
    sectors of the unsynced tail, decoding returns the synced records, then a whole-record prefix of the unsynced ones,
    and ends with a clean EOF or a *torn* verdict (repairable) — provided no unsynced record still validates, in the CRC
    state actually reached, after a non-trivial subset of its sector chunks was zeroed (`NoColl`). The decoder loop
    mirrors `decodeRecord` of File.lean on one file of a given size (end of file, short header, max-entry-size test,
    short body, validation with a torn / corrupt / fatal verdict), so that Props/C16TornFile.lean can transfer the
    theorem to the executable reader. Core Lean only. -/
namespace WalTorn

abbrev File := Nat → Nat          -- offset ↦ byte

def readAt (f : File) (o n : Nat) : List Nat := (List.range n).map fun i => f (o + i)

/-- result of validating one frame: accepted with the next state; rejected (then classified torn or corrupt by
    `isTornEntry`); rejected fatally (a CRC record contradicting the rolling CRC: not subject to the torn test) -/
inductive VRes (ρ σ : Type)
| ok (r : ρ) (st : σ)
| bad
| fatal
deriving DecidableEq

/-- abstract header codec and record validation, with the laws the proof uses (hypotheses, not axioms) -/
structure Codec (ρ σ : Type) where
  /-- body length (record bytes + padding) announced by the 8 header bytes; `none` = zero length field -/
  unhdr  : List Nat → Option Nat
  /-- state, header bytes, body bytes ↦ record and next state, or a verdict -/
  valid  : σ → List Nat → List Nat → VRes ρ σ
  unhdr_zero : unhdr (List.replicate 8 0) = none

structure Frame (ρ : Type) where
  val  : ρ
  hd   : List Nat
  body : List Nat

inductive Ending | eof | torn | corrupt | fatal
deriving DecidableEq

/-- `isTornEntry`: some sector-aligned chunk of the body (chunked relative to its file offset) is entirely zero -/
def isTorn (off : Nat) (b : List Nat) : Prop :=
  ∃ q, (∃ i, i < b.length ∧ (off + i) / 512 = q) ∧ ∀ i, i < b.length → (off + i) / 512 = q → b.getD i 0 = 0

variable {ρ σ : Type}

/-- the decoder loop (`decodeRecord` + the caller's loop), with fuel = an upper bound on the number of frames -/
noncomputable def decode (C : Codec ρ σ) (f : File) (size : Nat) : Nat → Nat → σ → List ρ × Ending × Nat
| 0, o, _ => ([], .eof, o)
| fuel+1, o, st =>
  if size ≤ o then ([], .eof, o)                       -- end of file
  else if size < o + 8 then ([], .torn, o)             -- 1..7 bytes left: io.ErrUnexpectedEOF
  else
    let h := readAt f o 8
    match C.unhdr h with
    | none => ([], .eof, o)                            -- zero length field: end of the written part
    | some n =>
      if size < n + o then ([], .corrupt, o)           -- the max-entry-size test
      else if size < o + 8 + n then ([], .torn, o)     -- io.ReadFull comes up short: io.ErrUnexpectedEOF
      else
        let b := readAt f (o + 8) n
        match C.valid st h b with
        | .ok r st' =>
          let res := decode C f size fuel (o + 8 + n) st'
          (r :: res.1, res.2.1, res.2.2)
        | .fatal => ([], .fatal, o)
        | .bad => open Classical in if isTorn (o + 8) b then ([], .torn, o) else ([], .corrupt, o)

/-- writing a list of frames starting at offset o into a file -/
def writeAt (f : File) (o : Nat) (bytes : List Nat) : File := fun x => if o ≤ x ∧ x < o + bytes.length then bytes.getD (x - o) 0 else f x

def layout (C : Codec ρ σ) : List (Frame ρ) → Nat → File → File
| [], _, f => f
| fr :: rest, o, f => layout C rest (o + 8 + fr.body.length) (writeAt (writeAt f o fr.hd) (o + 8) fr.body)

def endOff : List (Frame ρ) → Nat → Nat
| [], o => o
| fr :: rest, o => endOff rest (o + 8 + fr.body.length)

/-- frames are well formed: 8 header bytes announcing the body length; non-empty bodies, padded to 8 bytes -/
def WF (C : Codec ρ σ) (fs : List (Frame ρ)) : Prop :=
  ∀ fr ∈ fs, (0 < fr.body.length ∧ fr.body.length % 8 = 0) ∧ fr.hd.length = 8 ∧ C.unhdr fr.hd = some fr.body.length

/-- the records validate in sequence from state st (rolling CRC chain) -/
def Chain (C : Codec ρ σ) : List (Frame ρ) → σ → Prop
| [], _ => True
| fr :: rest, st => ∃ st', C.valid st fr.hd fr.body = .ok fr.val st' ∧ Chain C rest st'

/-- the records validate in sequence from state `st` and leave state `st'` -/
def ChainTo (C : Codec ρ σ) : List (Frame ρ) → σ → σ → Prop
| [], st, st' => st = st'
| fr :: rest, st, st' => ∃ st1, C.valid st fr.hd fr.body = .ok fr.val st1 ∧ ChainTo C rest st1 st'

/-- `b'` is the body `b` (lying at file offset `off`) after some of the sectors it touches were reverted to zeros -/
def Reverted (off : Nat) (b b' : List Nat) : Prop :=
  b'.length = b.length ∧
  ∀ q, (∀ i, i < b.length → (off + i) / 512 = q → b'.getD i 0 = b.getD i 0) ∨
       (∀ i, i < b.length → (off + i) / 512 = q → b'.getD i 0 = 0)

/-- **NoCollision**, threaded along the frames `fs` written from file offset `o` in state `st`: no frame, in the state
    actually reached, still validates (under its intact header) — nor is rejected fatally — after a non-trivial
    subset of its sector chunks was zeroed. For a 32-bit CRC this is a genuine hypothesis (it can fail when the frame spans several sectors). -/
def NoColl (C : Codec ρ σ) : List (Frame ρ) → Nat → σ → Prop
| [], _, _ => True
| fr :: rest, o, st =>
    (∀ b', Reverted (o + 8) fr.body b' → b' ≠ fr.body → C.valid st fr.hd b' = .bad) ∧
    (∀ st', C.valid st fr.hd fr.body = .ok fr.val st' → NoColl C rest (o + 8 + fr.body.length) st')

/-- crash: below P nothing changes; every sector is, above P, either as written or zero -/
def Crash (img c : File) (P : Nat) : Prop :=
  (∀ o, o < P → c o = img o) ∧
  ∀ q, (∀ o, o / 512 = q → P ≤ o → c o = img o) ∨ (∀ o, o / 512 = q → P ≤ o → c o = 0)

/-! ### reading back what `layout` wrote -/

theorem writeAt_out (f : File) (o : Nat) (bs : List Nat) (x : Nat) (h : x < o ∨ o + bs.length ≤ x) : writeAt f o bs x = f x := by
  unfold writeAt
  have : ¬ (o ≤ x ∧ x < o + bs.length) := by omega
  simp [this]

theorem writeAt_in (f : File) (o : Nat) (bs : List Nat) (i : Nat) (h : i < bs.length) : writeAt f o bs (o + i) = bs.getD i 0 := by
  unfold writeAt
  have : o ≤ o + i ∧ o + i < o + bs.length := by omega
  simp [this]

theorem layout_below (C : Codec ρ σ) (fs : List (Frame ρ)) (o : Nat) (f : File) (x : Nat) (h : x < o) :
    layout C fs o f x = f x := by
  induction fs generalizing o f with
  | nil => rfl
  | cons fr rest ih =>
    simp only [layout]
    rw [ih _ _ (by omega), writeAt_out _ _ _ _ (Or.inl (by omega)), writeAt_out _ _ _ _ (Or.inl h)]

theorem layout_above (C : Codec ρ σ) (fs : List (Frame ρ)) (o : Nat) (f : File) (x : Nat) (h : endOff fs o ≤ x)
    (hhd : ∀ fr ∈ fs, fr.hd.length = 8) : layout C fs o f x = f x := by
  induction fs generalizing o f with
  | nil => rfl
  | cons fr rest ih =>
    have hl : fr.hd.length = 8 ∧ ∀ x ∈ rest, x.hd.length = 8 := ⟨hhd fr (by simp), fun x hx => hhd x (by simp [hx])⟩
    simp only [layout, endOff] at h ⊢
    have hmono : ∀ (l : List (Frame ρ)) (o' : Nat), o' ≤ endOff l o' := by
      intro l; induction l with
      | nil => intro o'; exact Nat.le_refl _
      | cons a r ihr => intro o'; simp only [endOff]; have := ihr (o' + 8 + a.body.length); omega
    have := hmono rest (o + 8 + fr.body.length)
    rw [ih _ _ h hl.2, writeAt_out _ _ _ _ (Or.inr (by omega)), writeAt_out _ _ _ _ (Or.inr (by rw [hl.1]; omega))]

theorem readAt_ext (f g : File) (o n : Nat) (h : ∀ i, i < n → f (o + i) = g (o + i)) : readAt f o n = readAt g o n := by
  unfold readAt
  apply List.map_congr_left
  intro i hi; exact h i (by simpa using hi)

theorem readAt_writeAt (f : File) (o : Nat) (bs : List Nat) : readAt (writeAt f o bs) o bs.length = bs := by
  apply List.ext_getElem
  · simp [readAt]
  · intro i h1 h2
    simp only [readAt, List.getElem_map, List.getElem_range]
    rw [writeAt_in _ _ _ _ h2]
    simp [List.getD_eq_getElem?_getD, h2]

/-- the first frame of a layout reads back as its header and body -/
theorem layout_head (C : Codec ρ σ) (fr : Frame ρ) (rest : List (Frame ρ)) (o : Nat) (f : File) (hl : fr.hd.length = 8) :
    readAt (layout C (fr :: rest) o f) o 8 = fr.hd ∧
    readAt (layout C (fr :: rest) o f) (o + 8) fr.body.length = fr.body := by
  simp only [layout]
  constructor
  · rw [readAt_ext _ (writeAt f o fr.hd) o 8]
    · have := readAt_writeAt f o fr.hd
      rwa [hl] at this
    · intro i hi
      rw [layout_below _ _ _ _ _ (by omega), writeAt_out _ _ _ _ (Or.inl (by omega))]
  · rw [readAt_ext _ (writeAt (writeAt f o fr.hd) (o + 8) fr.body) (o + 8) fr.body.length]
    · exact readAt_writeAt _ _ _
    · intro i hi
      rw [layout_below _ _ _ _ _ (by omega)]

theorem endOff_append (a b : List (Frame ρ)) (o : Nat) : endOff (a ++ b) o = endOff b (endOff a o) := by
  induction a generalizing o with
  | nil => rfl
  | cons x r ih => simp only [List.cons_append, endOff]; exact ih _

theorem endOff_mono (l : List (Frame ρ)) (o : Nat) : o ≤ endOff l o := by
  induction l generalizing o with
  | nil => exact Nat.le_refl _
  | cons a r ih => simp only [endOff]; have := ih (o + 8 + a.body.length); omega

/-- any frame of a layout reads back at its offset -/
theorem frame_at (C : Codec ρ σ) (pre : List (Frame ρ)) (fr : Frame ρ) (post : List (Frame ρ)) (o : Nat) (f : File)
    (hl : fr.hd.length = 8) :
    readAt (layout C (pre ++ fr :: post) o f) (endOff pre o) 8 = fr.hd ∧
    readAt (layout C (pre ++ fr :: post) o f) (endOff pre o + 8) fr.body.length = fr.body := by
  induction pre generalizing o f with
  | nil => exact layout_head C fr post o f hl
  | cons a r ih => simp only [List.cons_append, layout, endOff]; exact ih _ _

theorem endOff_aligned (C : Codec ρ σ) (l : List (Frame ρ)) (o : Nat) (ho : o % 8 = 0) (hwf : WF C l) : endOff l o % 8 = 0 := by
  induction l generalizing o with
  | nil => exact ho
  | cons a r ih =>
    simp only [endOff]
    have := (hwf a (by simp)).1
    exact ih _ (by omega) (fun x hx => hwf x (by simp [hx]))

/-- one intact frame is consumed -/
theorem decode_intact (C : Codec ρ σ) (c : File) (size fuel o : Nat) (st st' : σ) (fr : Frame ρ)
    (hsz : o + 8 + fr.body.length ≤ size) (hun : C.unhdr fr.hd = some fr.body.length)
    (hh : readAt c o 8 = fr.hd) (hb : readAt c (o + 8) fr.body.length = fr.body)
    (hv : C.valid st fr.hd fr.body = .ok fr.val st') :
    decode C c size (fuel + 1) o st =
      (fr.val :: (decode C c size fuel (o + 8 + fr.body.length) st').1,
        (decode C c size fuel (o + 8 + fr.body.length) st').2.1,
        (decode C c size fuel (o + 8 + fr.body.length) st').2.2) := by
  rw [decode]
  rw [if_neg (by omega), if_neg (by omega)]
  simp only [hh, hun]
  rw [if_neg (by omega), if_neg (by omega)]
  simp only [hb, hv]

theorem readAt_getD (f : File) (o n i : Nat) (h : i < n) : (readAt f o n).getD i 0 = f (o + i) := by
  simp [readAt, List.getD_eq_getElem?_getD, h]

theorem readAt_zero (f : File) (o n : Nat) (h : ∀ i, i < n → f (o + i) = 0) : readAt f o n = List.replicate n 0 := by
  rw [List.eq_replicate_iff]
  refine ⟨by simp [readAt], ?_⟩
  intro b hb
  simp only [readAt, List.mem_map, List.mem_range] at hb
  obtain ⟨i, hi, rfl⟩ := hb
  exact h i hi

/-- the header of a frame lies within one sector -/
theorem hdr_one_sector (o i : Nat) (ho : o % 8 = 0) (hi : i < 8) : (o + i) / 512 = o / 512 := by omega

/-- the unsynced tail after a crash -/
theorem tail_after_crash (C : Codec ρ σ) (all : List (Frame ρ)) (c : File) (P size : Nat)
    (hcr : Crash (layout C all 0 (fun _ => 0)) c P) (hwf : WF C all) (hsize : endOff all 0 + 8 ≤ size) :
    ∀ (u pre : List (Frame ρ)) (st : σ) (fuel : Nat), all = pre ++ u → P ≤ endOff pre 0 → Chain C u st → u.length < fuel →
      NoColl C u (endOff pre 0) st →
      ∃ p rest, u = p ++ rest ∧ (decode C c size fuel (endOff pre 0) st).1 = p.map (·.val) ∧
        ((decode C c size fuel (endOff pre 0) st).2.1 = .eof ∨ (decode C c size fuel (endOff pre 0) st).2.1 = .torn) ∧
        (decode C c size fuel (endOff pre 0) st).2.2 = endOff (pre ++ p) 0 := by
  intro u
  induction u with
  | nil =>
    intro pre st fuel hall hP _ hf _
    refine ⟨[], [], rfl, ?_⟩
    cases fuel with
    | zero => omega
    | succ fuel =>
      -- beyond everything written the image is zero, and so is the crashed file
      have hz : readAt c (endOff pre 0) 8 = List.replicate 8 0 := by
        have himg : ∀ x, endOff pre 0 ≤ x → layout C all 0 (fun _ => 0) x = 0 := by
          intro x hx; rw [layout_above]
          · rw [hall]; simpa using hx
          · intro fr hfr; exact (hwf fr hfr).2.1
        have hc : ∀ x, endOff pre 0 ≤ x → c x = 0 := by
          intro x hx
          rcases hcr.2 (x / 512) with k | z
          · rw [k x rfl (by omega)]; exact himg x hx
          · exact z x rfl (by omega)
        exact readAt_zero _ _ _ (fun i _ => hc _ (Nat.le_add_right _ _))
      have hle : endOff pre 0 ≤ endOff all 0 := by rw [hall]; simp
      rw [decode, if_neg (by omega), if_neg (by omega)]; simp only [hz, C.unhdr_zero]
      simp
  | cons fr rest ih =>
    intro pre st fuel hall hP hch hf hnc
    obtain ⟨st', hv, hch'⟩ := hch
    have hfr := hwf fr (by rw [hall]; simp)
    have hal : endOff pre 0 % 8 = 0 := endOff_aligned C pre 0 rfl (fun x hx => hwf x (by rw [hall]; simp [hx]))
    obtain ⟨ih1, ih2⟩ := frame_at C pre fr rest 0 (fun _ => 0) hfr.2.1
    have hun := hfr.2.2
    replace hfr := hfr.1
    rw [← hall] at ih1 ih2
    obtain ⟨o, ho⟩ : ∃ o, o = endOff pre 0 := ⟨_, rfl⟩
    obtain ⟨n, hn⟩ : ∃ n, n = fr.body.length := ⟨_, rfl⟩
    have hle : endOff pre 0 + 8 + fr.body.length ≤ endOff all 0 := by
      rw [hall, endOff_append]; simp only [endOff]; exact endOff_mono rest _
    rw [← ho] at hal ih1 ih2 hP hnc hle ⊢
    rw [← hn] at ih2 hfr hun hle
    cases fuel with
    | zero => simp at hf
    | succ fuel =>
    -- header: one sector, either as written or zero
    rcases hcr.2 (o / 512) with keep | zero
    · have hh : readAt c o 8 = fr.hd := by
        rw [← ih1]; apply readAt_ext; intro i hi
        exact keep _ (hdr_one_sector o i hal hi) (by omega)
      -- body: compare with what was written
      by_cases hb : readAt c (o + 8) n = fr.body
      · rw [hn] at hb hun hle
        rw [decode_intact C c size fuel o st st' fr (by omega) hun hh hb hv]
        have := ih (pre ++ [fr]) st' fuel (by simp [hall]) (by rw [endOff_append]; simp only [endOff]; omega) hch'
          (by simp at hf; omega) (by rw [endOff_append]; simp only [endOff, ← ho]; exact hnc.2 st' hv)
        rw [endOff_append] at this
        simp only [endOff, ← ho] at this
        obtain ⟨p, rest', e1, e2, e3, e4⟩ := this
        refine ⟨fr :: p, rest', by simp [e1], by simp [e2], e3, ?_⟩
        rw [e4]; simp [List.append_assoc]
      · -- damaged body: does not validate (NoCollision) and has an all-zero sector chunk ⇒ torn
        refine ⟨[], fr :: rest, rfl, ?_⟩
        have hlen : (readAt c (o + 8) n).length = n := by simp [readAt]
        have hrev : Reverted (o + 8) fr.body (readAt c (o + 8) n) := by
          refine ⟨by rw [hlen, hn], ?_⟩
          intro q
          rcases hcr.2 q with k | z
          · left; intro i hi hq
            rw [← hn] at hi
            rw [readAt_getD _ _ _ _ hi, k _ hq (by omega), ← readAt_getD (layout C all 0 (fun _ => 0)) (o + 8) n i hi, ih2]
          · right; intro i hi hq
            rw [← hn] at hi
            rw [readAt_getD _ _ _ _ hi]; exact z _ hq (by omega)
        have hnv := hnc.1 (readAt c (o + 8) n) hrev hb
        have htorn : isTorn (o + 8) (readAt c (o + 8) n) := by
          -- some position differs from what was written; its sector was reverted
          have : ∃ i, i < n ∧ c (o + 8 + i) ≠ layout C all 0 (fun _ => 0) (o + 8 + i) := by
            apply Classical.byContradiction
            intro hno
            apply hb
            rw [← ih2]; apply readAt_ext; intro i hi
            apply Classical.byContradiction
            intro hne; exact hno ⟨i, hi, hne⟩
          obtain ⟨i, hi, hne⟩ := this
          refine ⟨(o + 8 + i) / 512, ⟨i, by rw [hlen]; exact hi, rfl⟩, ?_⟩
          rcases hcr.2 ((o + 8 + i) / 512) with k | z
          · exact absurd (k _ rfl (by omega)) hne
          · intro j hj hq
            rw [hlen] at hj
            simp [readAt, List.getD_eq_getElem?_getD, hj]
            exact z _ hq (by omega)
        rw [decode, if_neg (by omega), if_neg (by omega)]
        simp only [hh, hun]
        rw [if_neg (by omega), if_neg (by omega)]
        simp [hnv, htorn]
        exact ho
    · -- header sector reverted: length reads as zero ⇒ clean EOF
      refine ⟨[], fr :: rest, rfl, ?_⟩
      have hz : readAt c o 8 = List.replicate 8 0 :=
        readAt_zero _ _ _ (fun i hi => zero _ (hdr_one_sector o i hal hi) (by omega))
      rw [decode, if_neg (by omega), if_neg (by omega)]; simp only [hz, C.unhdr_zero]
      simp [ho]

#print axioms tail_after_crash

/-- **C16 (torn tail)**: everything whose Save had completed (the synced frames) is returned, in order and unmodified,
    possibly followed by whole later records, never by anything else; the decoder stops with a clean EOF or a torn
    verdict at the end of the last accepted record — the offset `Repair` truncates to. -/
theorem torn_tail (C : Codec ρ σ) (all : List (Frame ρ)) (c : File) (P size : Nat)
    (hcr : Crash (layout C all 0 (fun _ => 0)) c P) (hwf : WF C all) (hsize : endOff all 0 + 8 ≤ size)
    (u : List (Frame ρ)) :
    ∀ (s pre : List (Frame ρ)) (st : σ) (fuel : Nat), all = pre ++ s ++ u → endOff (pre ++ s) 0 = P →
      Chain C (s ++ u) st → (s ++ u).length < fuel → (∀ stu, ChainTo C s st stu → NoColl C u P stu) →
      ∃ p rest, u = p ++ rest ∧ (decode C c size fuel (endOff pre 0) st).1 = (s ++ p).map (·.val) ∧
        ((decode C c size fuel (endOff pre 0) st).2.1 = .eof ∨ (decode C c size fuel (endOff pre 0) st).2.1 = .torn) ∧
        (decode C c size fuel (endOff pre 0) st).2.2 = endOff (pre ++ s ++ p) 0 := by
  intro s
  induction s with
  | nil =>
    intro pre st fuel hall hP hch hf hnc
    simp only [List.append_nil, List.nil_append] at hall hP hch hf ⊢
    exact tail_after_crash C all c P size hcr hwf hsize u pre st fuel hall (by omega) hch hf (by rw [hP]; exact hnc st rfl)
  | cons fr s' ih =>
    intro pre st fuel hall hP hch hf hnc
    obtain ⟨st', hv, hch'⟩ := hch
    have hfr := hwf fr (by rw [hall]; simp)
    obtain ⟨h1, h2⟩ := frame_at C pre fr (s' ++ u) 0 (fun _ => 0) hfr.2.1
    have hall' : all = pre ++ fr :: (s' ++ u) := by rw [hall]; simp
    rw [← hall'] at h1 h2
    -- the whole frame lies below P, hence is untouched
    have hbelow : endOff pre 0 + 8 + fr.body.length ≤ P := by
      rw [← hP, endOff_append]; simp only [endOff]
      exact endOff_mono s' _
    have hh : readAt c (endOff pre 0) 8 = fr.hd :=
      (readAt_ext c _ _ _ (fun i hi => hcr.1 _ (by omega))).trans h1
    have hb : readAt c (endOff pre 0 + 8) fr.body.length = fr.body :=
      (readAt_ext c _ _ _ (fun i hi => hcr.1 _ (by omega))).trans h2
    cases fuel with
    | zero => simp at hf
    | succ fuel =>
    have hle : endOff pre 0 + 8 + fr.body.length ≤ endOff all 0 := by
      rw [hall', endOff_append]; simp only [endOff]; exact endOff_mono (s' ++ u) _
    rw [decode_intact C c size fuel (endOff pre 0) st st' fr (by omega) hfr.2.2 hh hb hv]
    have := ih (pre ++ [fr]) st' fuel (by rw [hall]; simp) (by rw [← hP]; simp) hch' (by simp at hf ⊢; omega)
      (fun stu h => hnc stu ⟨st', hv, h⟩)
    rw [endOff_append] at this
    simp only [endOff] at this
    obtain ⟨p, rest, e1, e2, e3, e4⟩ := this
    refine ⟨p, rest, e1, by simp [e2], e3, ?_⟩
    rw [e4]; simp [List.append_assoc]

#print axioms torn_tail
end WalTorn
