import RedisGoModel.Wal.Crc32c
/-! Compiled code looks the CRC table up in an array (one-off conversion of the same 256 entries). The equation is
    proved and installed with `@[csimp]`, so the theorems of Crc32c.lean are about what the driver runs. Core only. -/
namespace Crc3

theorem getD_toArray (l : List Nat) (i d : Nat) : l.toArray.getD i d = l.getD i d := by
  simp only [Array.getD, List.getD_eq_getElem?_getD, List.size_toArray, List.getElem_toArray]
  split
  · rename_i h; simp [h]
  · rename_i h; simp [h]

def tableA : Array Nat := table.toArray
def updFast (s : Nat) (b : Nat) : Nat := tableA.getD ((s ^^^ b) % 256) 0 ^^^ (s / 256)

@[csimp] theorem upd_eq_updFast : @upd = @updFast := by
  funext s b
  simp only [upd, updFast, tableA, getD_toArray]

/-- `update` is compiled in Crc32c.lean, before the equation above exists, so it gets its own replacement -/
def updateFast (crc : Nat) (p : List Nat) : Nat := (p.foldl updFast (crc ^^^ 0xffffffff)) ^^^ 0xffffffff

@[csimp] theorem update_eq_updateFast : @update = @updateFast := by
  funext crc p
  simp only [update, updateFast, upd_eq_updFast]

end Crc3
