import RedisGoModel.Wal.Codec
/-! C16 model, additional executable definitions (core Lean only — may be linked into the compiled driver):
    a frame decoder that says *why* it stopped, and a record loop that returns the accepted prefix together with the
    ending class (`decodeAll` of Codec.lean forgets both on an error). Proofs: Props/C16.lean. -/
namespace WalCodec

/-- why `decodeFrame` returned nothing -/
inductive FErr
| eof                 -- fewer than 8 bytes left (`binary.Read` fails)
| zero                -- length field 0: end of the written part
| short               -- `io.ReadFull` comes up short
| pb (e : PErr)       -- `rec.Unmarshal` fails
deriving DecidableEq, Repr

/-- `decodeFrame` with its reason for stopping -/
def decodeFrameE (bs : Bytes) : Except FErr (Record × Bytes) :=
  match readLE64 bs with
  | none => .error .eof
  | some (l, rest) =>
    if l = 0 then .error .zero
    else
      let (recBytes, padBytes) := decodeFrameSize l
      if rest.length < recBytes + padBytes then .error .short
      else
        match unmarshal (rest.take recBytes) with
        | .error e => .error (.pb e)
        | .ok r => .ok (r, rest.drop (recBytes + padBytes))

/-- how the record loop ended -/
inductive PEnd
| stop (e : FErr)     -- no further frame (end of the written part, or a framing / unmarshal error)
| crc                 -- a frame was read whose stored CRC is not the rolling CRC: `ErrCRCMismatch`
| nilData             -- a record without `Data` (not produced by `encodeAll`)
| fuel
deriving DecidableEq, Repr

/-- `decodeAll`, returning the records accepted before the loop ended, and how it ended -/
def decodeAllP (upd : Nat → Bytes → Nat) : Nat → Nat → Bytes → List Item × PEnd
| 0, _, _ => ([], .fuel)
| fuel + 1, crc, bs =>
    match decodeFrameE bs with
    | .error e => ([], .stop e)
    | .ok (r, rest) =>
      match r.data with
      | none => ([], .nilData)
      | some d =>
        if upd crc d = r.crc then
          let res := decodeAllP upd fuel (upd crc d) rest
          (⟨r.type, d⟩ :: res.1, res.2)
        else ([], .crc)

/-- a frame whose padding bytes are `pad` instead of zeros -/
def encodeFramePad (r : Record) (pad : Bytes) : Bytes :=
  let body := marshal r
  le64 (encodeFrameSize body.length).1 ++ (body ++ pad)

/-- `encodeAll` with explicit padding bytes per frame -/
def encodeAllPad (upd : Nat → Bytes → Nat) : Nat → List (Item × Bytes) → Bytes
| _, [] => []
| crc, (it, pad) :: rest =>
    let crc' := upd crc it.data
    encodeFramePad ⟨it.type, crc', some it.data⟩ pad ++ encodeAllPad upd crc' rest

/-- the rolling CRC after a list of items -/
def crcAfter (upd : Nat → Bytes → Nat) : Nat → List Item → Nat
| crc, [] => crc
| crc, it :: rest => crcAfter upd (upd crc it.data) rest

end WalCodec
