import RedisGoModel.Conc.PubSubConc
/-! # The operation automaton of the Pub/Sub model, over hook events (C19 lock-trace tie)

Core Lean only (linked into the compiled driver).  `TA.step` is the automaton the harness feeds every goroutine's hook-H2b event
sequence to (`harness/conc_pubsub_trace.go` is its Go transcription, which additionally checks that one operation concerns one key and
one channel object); `evOf` gives the events one step of the model `PSC.next0` emits.  `Props/C19Trace.lean` proves that every
thread of every run of the model is accepted (`PSC.thread_trace_accepted`), and the driver engine `PST` runs `TA.ok` on the traces
recorded from the Go code. -/
namespace PSC
open PubSub (Chan Conn Payload)

namespace TA

/-- hook events: table Lock / Unlock / RLock / RUnlock, table get / set / del (ConcurrentMap accessors of `ChanMap.item`),
    channel Lock / Unlock, conns iterated / written / entry deleted -/
inductive Ev
| TL | TU | TRL | TRU | get | set | del | CL | CU | cr | cw | cd
deriving DecidableEq, Repr

inductive Q
| idle | w1 | w2 | w2c | w3 | w4 | ws | wsw | wu | wud | w7 | r1 | r2 | r3 | p4 | p5
deriving DecidableEq, Repr

def step : Q → Ev → Option Q
| .idle, .TL => some .w1
| .idle, .TRL => some .r1
| .r3, .TL => some .w1
| .r3, .TRL => some .r1
| .w1, .get => some .w2
| .w2, .TU => some .idle
| .w2, .get => some .w2c
| .w2, .CL => some .w4
| .w2c, .set => some .w3
| .w3, .CL => some .w4
| .w4, .cr => some .ws
| .w4, .cd => some .wu
| .ws, .cw => some .wsw
| .ws, .CU => some .w7
| .wsw, .CU => some .w7
| .wu, .del => some .wud
| .wu, .CU => some .w7
| .wud, .CU => some .w7
| .w7, .TU => some .idle
| .r1, .get => some .r2
| .r2, .TRU => some .r3
| .r3, .CL => some .p4
| .p4, .cr => some .p5
| .p5, .cd => some .p5
| .p5, .CU => some .idle
| _, _ => none

def run : Q → List Ev → Option Q
| q, [] => some q
| q, e :: es => (step q e).bind (run · es)

/-- quiescent: nothing held (`r3` = a Send between its two critical sections, or after an absent lookup) -/
def quiet : Q → Bool
| .idle | .r3 => true
| _ => false

def ok (evs : List Ev) : Bool :=
  match run .idle evs with
  | some q => quiet q
  | none => false

def firstBad : Q → List Ev → Nat → Option Nat
| _, [], _ => none
| q, e :: es, i => match step q e with | some q' => firstBad q' es (i + 1) | none => some i

theorem run_append (q : Q) (a b : List Ev) : run q (a ++ b) = (run q a).bind (run · b) := by
  induction a generalizing q with
  | nil => rfl
  | cons e es ih =>
    simp only [List.cons_append, run]
    cases step q e with
    | none => rfl
    | some q' => simp [ih]

end TA

variable {n : Nat}

/-- the hook events one step of thread `t` emits (the same branching as `next0`) -/
def evOf (s : St n) (t : Fin n) (fail : Bool) : List TA.Ev :=
  let th := s.thr t
  match th.pc with
  | .s0 => [.TL]
  | .s1 => match s.table th.cur.chan with
    | some _ => [.get]
    | none => [.get, .get, .set]
  | .s2 _ => [.CL]
  | .s3 o => if th.cur.conn ∈ s.subs o then [.cr] else [.cr, .cw]
  | .s4 _ => [.CU]
  | .s5 => [.TU]
  | .u0 => [.TL]
  | .u1 => [.get]
  | .u2 _ => [.CL]
  | .u3 _ => [.cd]
  | .u3d o => if s.subs o = [] then [.del] else []
  | .u4 _ => [.CU]
  | .u5 => [.TU]
  | .p0 => [.TRL]
  | .p1 => [.get]
  | .p2 _ => [.TRU]
  | .p3 _ => [.CL, .cr]
  | .p4 _ _ (_ :: _) => if fail then [.cd] else []
  | .p4 _ _ [] => [.CU]
  | _ => []

/-- the events of thread `u` along a schedule -/
def traceOf (s : St n) (u : Fin n) : List (Fin n × Bool) → List TA.Ev
| [] => []
| (t, b) :: r =>
  match next s t b with
  | some s' => (if t = u then evOf s t b else []) ++ traceOf s' u r
  | none => []

/-- the automaton states a program counter can correspond to -/
def absQ : Pc → TA.Q → Bool
| .idle, .idle | .idle, .r3 => true
| .s0, .idle | .s0, .r3 => true
| .u0, .idle | .u0, .r3 => true
| .p0, .idle | .p0, .r3 => true
| .s1, .w1 | .u1, .w1 => true
| .s2 _, .w2 | .s2 _, .w3 | .u2 _, .w2 => true
| .s3 _, .w4 | .u3 _, .w4 => true
| .s4 _, .ws | .s4 _, .wsw => true
| .u3d _, .wu => true
| .u4 _, .wu | .u4 _, .wud => true
| .s5, .w7 | .u5, .w7 | .u5, .w2 => true
| .p1, .r1 => true
| .p2 _, .r2 => true
| .p3 _, .r3 => true
| .p4 _ _ _, .p5 => true
| _, _ => false

end PSC
