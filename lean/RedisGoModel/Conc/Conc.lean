/-! Prototype for C05/C13, generalised from Atomic.lean: threads run *programs* whose next block depends on what the
    previous block read (the `Exec` trees of the design). Strict two-phase locking per block ⇒ every micro-step
    execution is simulated by atomic block execution, remaining programs (hence replies) included. Core Lean only.

    Keys and values are arbitrary types (`K` with decidable equality, `V` inhabited — the initial content of a thread's private
    snapshot): `Conc2`/`Conc3` instantiate `K := Nat`, `V := Nat` (counters), `Props/C05Atomic.lean` instantiates `K := Bytes`,
    `V := Option Exec.Entry` (the real command table). -/
namespace Cc
inductive Mode | R | W deriving DecidableEq

/-- one locked block of a program of type `P`: what it writes and how the program continues, both as functions of
    the database it sees -/
structure Block (K V P : Type) where
  mode : Mode
  keys : List K
  body : (K → V) → List (K × V)
  next : (K → V) → P

/-- discipline of a block: writes only to its own keys and only in W mode; depends only on its keys -/
structure Block.WF {K V P : Type} (b : Block K V P) : Prop where
  local_  : ∀ s s' : K → V, (∀ k ∈ b.keys, s k = s' k) → b.body s = b.body s' ∧ b.next s = b.next s'
  writes  : ∀ s kv, kv ∈ b.body s → kv.1 ∈ b.keys ∧ b.mode = .W

variable {K : Type} [DecidableEq K] {V : Type} [Inhabited V] {P : Type}

inductive Phase (K V P : Type)
| idle      (p : P)
| acquiring (b : Block K V P) (held : List K) (todo : List K)
| reading   (b : Block K V P) (toRead : List K) (snap : K → V)
| writing   (b : Block K V P) (pending : List (K × V)) (cont : P)

abbrev Thread (K V P : Type) := Phase K V P

def holdsIn (t : Thread K V P) (k : K) : Option Mode :=
  match t with
  | .idle _ => none
  | .acquiring b held _ => if k ∈ held then some b.mode else none
  | .reading b _ _ => if k ∈ b.keys then some b.mode else none
  | .writing b _ _ => if k ∈ b.keys then some b.mode else none

def pendVal : List (K × V) → K → Option V
| [], _ => none
| (k0, v0) :: r, k => match pendVal r k with
    | some x => some x
    | none => if k0 = k then some v0 else none

def pend (t : Thread K V P) (k : K) : Option V :=
  match t with
  | .writing _ p _ => pendVal p k
  | _ => none

def applyWrites (db : K → V) (ws : List (K × V)) : K → V :=
  fun k => match pendVal ws k with | some v => v | none => db k

variable {n : Nat}
structure Conc (K V P : Type) (n : Nat) where
  db : K → V
  th : Fin n → Thread K V P

def setT {α : Type} (th : Fin n → α) (i : Fin n) (t : α) : Fin n → α := fun j => if j = i then t else th j
def setK (db : K → V) (k : K) (v : V) : K → V := fun k' => if k' = k then v else db k'

def canAcquire (c : Conc K V P n) (i : Fin n) (m : Mode) (k : K) : Prop :=
  ∀ j, j ≠ i → match holdsIn (c.th j) k with
    | none => True
    | some .R => m = .R
    | some .W => False

/-- micro-steps, relative to `view` (the next block of a program, `none` when it has finished);
    the label carries the thread whose block is linearized by this step, if any -/
inductive Step (view : P → Option (Block K V P)) : Conc K V P n → Option (Fin n) → Conc K V P n → Prop
| start (c : Conc K V P n) (i p b) (h : c.th i = .idle p) (hv : view p = some b) :
    Step view c none ⟨c.db, setT c.th i (.acquiring b [] b.keys)⟩
| acquire (c : Conc K V P n) (i b held k todo) (h : c.th i = .acquiring b held (k :: todo))
    (hc : canAcquire c i b.mode k) :
    Step view c none ⟨c.db, setT c.th i (.acquiring b (k :: held) todo)⟩
| beginRead (c : Conc K V P n) (i b held) (h : c.th i = .acquiring b held []) :
    Step view c none ⟨c.db, setT c.th i (.reading b b.keys (fun _ => default))⟩
| read (c : Conc K V P n) (i b k r snap) (h : c.th i = .reading b (k :: r) snap) :
    Step view c none ⟨c.db, setT c.th i (.reading b r (setK snap k (c.db k)))⟩
| commit (c : Conc K V P n) (i b snap) (h : c.th i = .reading b [] snap) :
    Step view c (some i) ⟨c.db, setT c.th i (.writing b (b.body snap) (b.next snap))⟩
| write (c : Conc K V P n) (i b k v r cont) (h : c.th i = .writing b ((k, v) :: r) cont) :
    Step view c none ⟨setK c.db k v, setT c.th i (.writing b r cont)⟩
| release (c : Conc K V P n) (i b cont) (h : c.th i = .writing b [] cont) :
    Step view c none ⟨c.db, setT c.th i (.idle cont)⟩

/-- the atomic (block-level) semantics: database and remaining program of every thread -/
structure Abs (K V P : Type) (n : Nat) where
  db : K → V
  pr : Fin n → P

def absStep (view : P → Option (Block K V P)) (a : Abs K V P n) : Option (Fin n) → Abs K V P n
| none => a
| some i => match view (a.pr i) with
    | some b => ⟨applyWrites a.db (b.body a.db), setT a.pr i (b.next a.db)⟩
    | none => a

/-- how a thread's phase relates to its abstract remaining program -/
def ProgRel (view : P → Option (Block K V P)) (t : Thread K V P) (p : P) : Prop :=
  match t with
  | .idle q => p = q
  | .acquiring b _ _ => view p = some b
  | .reading b _ _ => view p = some b
  | .writing _ _ cont => p = cont

structure Inv (view : P → Option (Block K V P)) (Good : P → Prop) (c : Conc K V P n) (a : Abs K V P n) : Prop where
  good  : ∀ i, Good (a.pr i)
  prel  : ∀ i, ProgRel view (c.th i) (a.pr i)
  excl  : ∀ i j k, i ≠ j → holdsIn (c.th i) k = some .W → holdsIn (c.th j) k = none
  pendK : ∀ i b p cont, c.th i = .writing b p cont → ∀ kv ∈ p, kv.1 ∈ b.keys ∧ b.mode = .W
  relN  : ∀ k, (∀ i, pend (c.th i) k = none) → a.db k = c.db k
  relS  : ∀ i k v, pend (c.th i) k = some v → a.db k = v
  snap  : ∀ i b toRead sn, c.th i = .reading b toRead sn → ∀ k ∈ b.keys, k ∉ toRead → sn k = a.db k
  acq   : ∀ i b held todo, c.th i = .acquiring b held todo → ∀ k ∈ b.keys, k ∈ held ∨ k ∈ todo

/-- `Good` programs: the next block is well-formed and every continuation is good again -/
def Closed (view : P → Option (Block K V P)) (Good : P → Prop) : Prop :=
  ∀ p b, Good p → view p = some b → b.WF ∧ ∀ s, Good (b.next s)

@[simp] theorem setT_same {α : Type} (th : Fin n → α) (i : Fin n) (t : α) : setT th i t i = t := by simp [setT]
theorem setT_other {α : Type} (th : Fin n → α) {i j : Fin n} (t : α) (h : j ≠ i) : setT th i t j = th j := by simp [setT, h]

theorem pendVal_mem {p : List (K × V)} {k v} (h : pendVal p k = some v) : (k, v) ∈ p := by
  induction p with
  | nil => simp [pendVal] at h
  | cons a r ih =>
    obtain ⟨k0, v0⟩ := a
    simp only [pendVal] at h
    cases hr : pendVal r k with
    | some x => rw [hr] at h; simp at h; subst h; exact List.mem_cons_of_mem _ (ih hr)
    | none =>
      rw [hr] at h
      by_cases hk : k0 = k
      · simp [hk] at h; subst h; subst hk; simp
      · simp [hk] at h

variable {view : P → Option (Block K V P)} {Good : P → Prop}

/-- a thread with a pending write on k holds k in W -/
theorem pend_holds {c : Conc K V P n} {a} (h : Inv view Good c a) {i k v} (hp : pend (c.th i) k = some v) :
    holdsIn (c.th i) k = some .W := by
  rcases hti : c.th i with _ | _ | _ | ⟨b, p, cont⟩
  · rw [hti] at hp; simp [pend] at hp
  · rw [hti] at hp; simp [pend] at hp
  · rw [hti] at hp; simp [pend] at hp
  · rw [hti] at hp
    simp only [pend] at hp
    have := h.pendK i b p cont hti _ (pendVal_mem hp)
    simp [holdsIn, this.1, this.2]

/-- generic frame lemma: thread i changes to t' with the same pending values and the same abstract program;
    db unchanged. Used for start/beginRead/release/acquire/read. -/
theorem inv_frame {c : Conc K V P n} {a} (h : Inv view Good c a) (i : Fin n) (t' : Thread K V P)
    (hprel : ProgRel view t' (a.pr i))
    (hpend : ∀ k, pend t' k = pend (c.th i) k)
    (hexclW : ∀ k, holdsIn t' k = some .W → ∀ j, j ≠ i → holdsIn (c.th j) k = none)
    (hexclO : ∀ k m, holdsIn t' k = some m → ∀ j, j ≠ i → holdsIn (c.th j) k ≠ some .W)
    (hpk : ∀ b p cont, t' = .writing b p cont → ∀ kv ∈ p, kv.1 ∈ b.keys ∧ b.mode = .W)
    (hsnap : ∀ b toRead sn, t' = .reading b toRead sn → ∀ k ∈ b.keys, k ∉ toRead → sn k = a.db k)
    (hacq : ∀ b held todo, t' = .acquiring b held todo → ∀ k ∈ b.keys, k ∈ held ∨ k ∈ todo) :
    Inv view Good ⟨c.db, setT c.th i t'⟩ a := by
  refine ⟨h.good, ?_, ?_, ?_, ?_, ?_, ?_, ?_⟩
  · intro j
    by_cases hj : j = i
    · subst hj; simpa using hprel
    · simp only [setT_other _ _ hj]; exact h.prel j
  · intro x y k hab ha
    by_cases hai : x = i
    · subst hai
      simp only [setT_same] at ha
      have hb : y ≠ x := fun e => hab e.symm
      simp only [setT_other _ _ hb]
      exact hexclW k ha y hb
    · simp only [setT_other _ _ hai] at ha
      by_cases hbi : y = i
      · subst hbi
        simp only [setT_same]
        cases hh : holdsIn t' k with
        | none => rfl
        | some m => exact absurd ha (hexclO k m hh x hai)
      · simp only [setT_other _ _ hbi]; exact h.excl x y k hab ha
  · intro j b p cont hj
    by_cases hji : j = i
    · subst hji; simp only [setT_same] at hj; exact hpk b p cont hj
    · simp only [setT_other _ _ hji] at hj; exact h.pendK j b p cont hj
  · intro k hk
    apply h.relN k
    intro j
    by_cases hji : j = i
    · subst hji; have := hk j; simp only [setT_same] at this; rw [← hpend]; exact this
    · have := hk j; simpa only [setT_other _ _ hji] using this
  · intro j k v hj
    by_cases hji : j = i
    · subst hji; simp only [setT_same] at hj; rw [hpend] at hj; exact h.relS j k v hj
    · simp only [setT_other _ _ hji] at hj; exact h.relS j k v hj
  · intro j b toRead sn hj
    by_cases hji : j = i
    · subst hji; simp only [setT_same] at hj; exact hsnap b toRead sn hj
    · simp only [setT_other _ _ hji] at hj; exact h.snap j b toRead sn hj
  · intro j b held todo hj
    by_cases hji : j = i
    · subst hji; simp only [setT_same] at hj; exact hacq b held todo hj
    · simp only [setT_other _ _ hji] at hj; exact h.acq j b held todo hj

theorem sim_start {c : Conc K V P n} {a} (h : Inv view Good c a) (i p b) (hi : c.th i = .idle p) (hv : view p = some b) :
    Inv view Good ⟨c.db, setT c.th i (.acquiring b [] b.keys)⟩ a := by
  have hp : a.pr i = p := by have := h.prel i; rw [hi] at this; exact this
  apply inv_frame h i
  · show view (a.pr i) = some b; rw [hp]; exact hv
  · intro k; simp [pend, hi]
  · intro k hk; simp [holdsIn] at hk
  · intro k m hk; simp [holdsIn] at hk
  · intro b' p cont he; cases he
  · intro b' tr sn he; cases he
  · intro b' held todo he k hk; cases he; exact Or.inr hk

theorem sim_release {c : Conc K V P n} {a} (h : Inv view Good c a) (i b cont) (hi : c.th i = .writing b [] cont) :
    Inv view Good ⟨c.db, setT c.th i (.idle cont)⟩ a := by
  have hp : a.pr i = cont := by have := h.prel i; rw [hi] at this; exact this
  apply inv_frame h i
  · exact hp
  · intro k; simp [pend, hi, pendVal]
  · intro k hk; simp [holdsIn] at hk
  · intro k m hk; simp [holdsIn] at hk
  · intro b' p cont he; cases he
  · intro b' tr sn he; cases he
  · intro b' held todo he; cases he

theorem sim_beginRead {c : Conc K V P n} {a} (h : Inv view Good c a) (i b held) (hi : c.th i = .acquiring b held []) :
    Inv view Good ⟨c.db, setT c.th i (.reading b b.keys (fun _ => default))⟩ a := by
  have hp : view (a.pr i) = some b := by have := h.prel i; rw [hi] at this; exact this
  have hsub : ∀ k ∈ b.keys, k ∈ held := fun k hk => by
    rcases h.acq i b held [] hi k hk with h1 | h1
    · exact h1
    · cases h1
  have hold : ∀ k m, holdsIn (.reading b b.keys (fun _ => default) : Thread K V P) k = some m → holdsIn (c.th i) k = some m := by
    intro k m hk
    simp only [holdsIn] at hk
    split at hk
    · rename_i hkb; simp [hi, holdsIn, hsub k hkb]; simpa using hk
    · cases hk
  apply inv_frame h i
  · exact hp
  · intro k; simp [pend, hi]
  · intro k hk j hji; exact h.excl i j k (fun e => hji e.symm) (hold k _ hk)
  · intro k m hk j hji hj
    have := h.excl j i k hji hj
    rw [hold k m hk] at this; cases this
  · intro b' p cont he; cases he
  · intro b' tr sn he k hk hnk; cases he; exact absurd hk hnk
  · intro b' held todo he; cases he

theorem sim_acquire {c : Conc K V P n} {a} (h : Inv view Good c a) (i b held k todo)
    (hi : c.th i = .acquiring b held (k :: todo)) (hc : canAcquire c i b.mode k) :
    Inv view Good ⟨c.db, setT c.th i (.acquiring b (k :: held) todo)⟩ a := by
  have hp : view (a.pr i) = some b := by have := h.prel i; rw [hi] at this; exact this
  have hnew : ∀ k' m, holdsIn (.acquiring b (k :: held) todo : Thread K V P) k' = some m →
      m = b.mode ∧ (k' = k ∨ holdsIn (c.th i) k' = some m) := by
    intro k' m hk
    simp only [holdsIn] at hk
    split at hk
    · rename_i hmem
      have hm : m = b.mode := by simpa using hk.symm
      refine ⟨hm, ?_⟩
      rcases List.mem_cons.1 hmem with h1 | h1
      · exact Or.inl h1
      · right; simp [hi, holdsIn, h1, hm]
    · cases hk
  apply inv_frame h i
  · exact hp
  · intro k'; simp [pend, hi]
  · intro k' hk j hji
    obtain ⟨hm, h1 | h1⟩ := hnew k' _ hk
    · subst h1
      have := hc j hji
      rw [← hm] at this
      cases hh : holdsIn (c.th j) k' with
      | none => rfl
      | some m' => rw [hh] at this; cases m' <;> simp at this
    · exact h.excl i j k' (fun e => hji e.symm) h1
  · intro k' m hk j hji hj
    obtain ⟨hm, h1 | h1⟩ := hnew k' m hk
    · subst h1
      have := hc j hji
      rw [hj] at this; exact this
    · have := h.excl j i k' hji hj
      rw [h1] at this; cases this
  · intro b' p cont he; cases he
  · intro b' tr sn he; cases he
  · intro b' held' todo' he k' hk'
    cases he
    rcases h.acq i b held (k :: todo) hi k' hk' with h1 | h1
    · exact Or.inl (List.mem_cons_of_mem _ h1)
    · rcases List.mem_cons.1 h1 with h2 | h2
      · exact Or.inl (by simp [h2])
      · exact Or.inr h2

theorem sim_read {c : Conc K V P n} {a} (h : Inv view Good c a) (i b k r sn)
    (hi : c.th i = .reading b (k :: r) sn) :
    Inv view Good ⟨c.db, setT c.th i (.reading b r (setK sn k (c.db k)))⟩ a := by
  have hp : view (a.pr i) = some b := by have := h.prel i; rw [hi] at this; exact this
  have hold : ∀ k' , holdsIn (.reading b r (setK sn k (c.db k)) : Thread K V P) k' = holdsIn (c.th i) k' := by
    intro k'; simp [holdsIn, hi]
  apply inv_frame h i
  · exact hp
  · intro k'; simp [pend, hi]
  · intro k' hk j hji; rw [hold] at hk; exact h.excl i j k' (fun e => hji e.symm) hk
  · intro k' m hk j hji hj
    rw [hold] at hk
    have := h.excl j i k' hji hj
    rw [hk] at this; cases this
  · intro b' p cont he; cases he
  · intro b' tr sn' he k' hk' hnr
    cases he
    by_cases hkk : k' = k
    · subst hkk
      simp only [setK, if_true]
      symm
      apply h.relN k'
      intro j
      cases hpj : pend (c.th j) k' with
      | none => rfl
      | some v =>
        exfalso
        have hjW := pend_holds h hpj
        by_cases hji : j = i
        · subst hji; simp [pend, hi] at hpj
        · have := h.excl j i k' hji hjW
          simp [hi, holdsIn, hk'] at this
    · simp only [setK, hkk, if_false]
      exact h.snap i b (k :: r) sn hi k' hk' (by simp [hkk, hnr])
  · intro b' held todo he; cases he

theorem sim_commit (hcl : Closed view Good) {c : Conc K V P n} {a} (h : Inv view Good c a) (i b sn)
    (hi : c.th i = .reading b [] sn) :
    Inv view Good ⟨c.db, setT c.th i (.writing b (b.body sn) (b.next sn))⟩ (absStep view a (some i)) := by
  have hp : view (a.pr i) = some b := by have := h.prel i; rw [hi] at this; exact this
  obtain ⟨hbwf, hgood⟩ := hcl _ _ (h.good i) hp
  obtain ⟨hbody, hnext⟩ := hbwf.local_ sn a.db (fun k hk => h.snap i b [] sn hi k hk (by simp))
  have habs : absStep view a (some i) = ⟨applyWrites a.db (b.body a.db), setT a.pr i (b.next a.db)⟩ := by
    simp [absStep, hp]
  rw [habs]
  have hholdi : ∀ k, holdsIn (c.th i) k = if k ∈ b.keys then some b.mode else none := by
    intro k; simp [hi, holdsIn]
  have hWheld : ∀ k v, pendVal (b.body a.db) k = some v → holdsIn (c.th i) k = some .W := by
    intro k v hpv
    have := hbwf.writes a.db _ (pendVal_mem hpv)
    simp [hholdi, this.1, this.2]
  refine ⟨?_, ?_, ?_, ?_, ?_, ?_, ?_, ?_⟩
  · intro j
    by_cases hj : j = i
    · subst hj; simp only [setT_same]; exact hgood _
    · simp only [setT_other _ _ hj]; exact h.good j
  · intro j
    by_cases hj : j = i
    · subst hj; simp only [setT_same, ProgRel]; exact hnext.symm
    · simp only [setT_other _ _ hj]; exact h.prel j
  · intro x y k hab ha
    have eqh : ∀ z, holdsIn (setT c.th i (.writing b (b.body sn) (b.next sn)) z) k = holdsIn (c.th z) k := by
      intro z
      by_cases hz : z = i
      · subst hz; simp [holdsIn, hi]
      · simp only [setT_other _ _ hz]
    simp only [eqh] at ha ⊢
    exact h.excl x y k hab ha
  · intro j b' p cont hj
    by_cases hji : j = i
    · subst hji
      simp only [setT_same] at hj
      cases hj
      intro kv hkv
      exact hbwf.writes sn kv hkv
    · simp only [setT_other _ _ hji] at hj; exact h.pendK j b' p cont hj
  · intro k hk
    have hik := hk i
    simp only [setT_same, pend, hbody] at hik
    simp only [applyWrites, hik]
    apply h.relN k
    intro j
    by_cases hji : j = i
    · subst hji; simp [pend, hi]
    · have := hk j; simpa only [setT_other _ _ hji] using this
  · intro j k v hj
    by_cases hji : j = i
    · subst hji
      simp only [setT_same, pend, hbody] at hj
      simp [applyWrites, hj]
    · simp only [setT_other _ _ hji] at hj
      have hold := h.relS j k v hj
      cases hpv : pendVal (b.body a.db) k with
      | none => simp [applyWrites, hpv, hold]
      | some v' =>
        exfalso
        have h1 := hWheld k v' hpv
        have h2 := h.excl i j k (fun e => hji e.symm) h1
        rw [pend_holds h hj] at h2; cases h2
  · intro j b' tr sn' hj k hk hnk
    by_cases hji : j = i
    · subst hji; simp only [setT_same] at hj; cases hj
    · simp only [setT_other _ _ hji] at hj
      have hold := h.snap j b' tr sn' hj k hk hnk
      cases hpv : pendVal (b.body a.db) k with
      | none => simp [applyWrites, hpv, hold]
      | some v' =>
        exfalso
        have h1 := hWheld k v' hpv
        have h2 := h.excl i j k (fun e => hji e.symm) h1
        simp [hj, holdsIn, hk] at h2
  · intro j b' held todo hj
    by_cases hji : j = i
    · subst hji; simp only [setT_same] at hj; cases hj
    · simp only [setT_other _ _ hji] at hj; exact h.acq j b' held todo hj

theorem sim_write {c : Conc K V P n} {a} (h : Inv view Good c a) (i b k v r cont)
    (hi : c.th i = .writing b ((k, v) :: r) cont) :
    Inv view Good ⟨setK c.db k v, setT c.th i (.writing b r cont)⟩ a := by
  have hp : a.pr i = cont := by have := h.prel i; rw [hi] at this; exact this
  have hpold : ∀ k', pend (c.th i) k' = match pendVal r k' with
      | some x => some x | none => if k = k' then some v else none := by
    intro k'; simp [pend, hi, pendVal]
  refine ⟨h.good, ?_, ?_, ?_, ?_, ?_, ?_, ?_⟩
  · intro j
    by_cases hj : j = i
    · subst hj; simp only [setT_same, ProgRel]; exact hp
    · simp only [setT_other _ _ hj]; exact h.prel j
  · intro x y k' hab ha
    have eqh : ∀ z, holdsIn (setT c.th i (.writing b r cont) z) k' = holdsIn (c.th z) k' := by
      intro z
      by_cases hz : z = i
      · subst hz; simp [holdsIn, hi]
      · simp only [setT_other _ _ hz]
    simp only [eqh] at ha ⊢
    exact h.excl x y k' hab ha
  · intro j b' p cont' hj
    by_cases hji : j = i
    · subst hji
      simp only [setT_same] at hj
      cases hj
      intro kv hkv
      exact h.pendK j b ((k, v) :: r) cont hi kv (List.mem_cons_of_mem _ hkv)
    · simp only [setT_other _ _ hji] at hj; exact h.pendK j b' p cont' hj
  · intro k' hk'
    have hik := hk' i
    simp only [setT_same, pend] at hik
    by_cases hkk : k = k'
    · subst hkk
      have : pend (c.th i) k = some v := by rw [hpold, hik]; simp
      simp [setK, h.relS i k v this]
    · have hne : k' ≠ k := fun e => hkk e.symm
      simp only [setK, hne, if_false]
      apply h.relN k'
      intro j
      by_cases hji : j = i
      · subst hji; rw [hpold, hik]; simp [hkk]
      · have := hk' j; simpa only [setT_other _ _ hji] using this
  · intro j k' x hj
    by_cases hji : j = i
    · subst hji
      simp only [setT_same, pend] at hj
      apply h.relS j k' x
      rw [hpold, hj]
    · simp only [setT_other _ _ hji] at hj; exact h.relS j k' x hj
  · intro j b' tr sn' hj
    by_cases hji : j = i
    · subst hji; simp only [setT_same] at hj; cases hj
    · simp only [setT_other _ _ hji] at hj; exact h.snap j b' tr sn' hj
  · intro j b' held todo hj
    by_cases hji : j = i
    · subst hji; simp only [setT_same] at hj; cases hj
    · simp only [setT_other _ _ hji] at hj; exact h.acq j b' held todo hj

/-- forward simulation: every micro-step is matched by the atomic block semantics, programs included -/
theorem simulation (hcl : Closed view Good) {c c' : Conc K V P n} {a lin} (h : Inv view Good c a) (st : Step view c lin c') :
    Inv view Good c' (absStep view a lin) := by
  cases st with
  | start i p b hi hv => exact sim_start h i p b hi hv
  | acquire i b held k todo hi hc => exact sim_acquire h i b held k todo hi hc
  | beginRead i b held hi => exact sim_beginRead h i b held hi
  | read i b k r sn hi => exact sim_read h i b k r sn hi
  | commit i b sn hi => exact sim_commit hcl h i b sn hi
  | write i b k v r cont hi => exact sim_write h i b k v r cont hi
  | release i b cont hi => exact sim_release h i b cont hi

/-- executions and their linearization traces -/
inductive Exec (view : P → Option (Block K V P)) : Conc K V P n → List (Fin n) → Conc K V P n → Prop
| refl (c) : Exec view c [] c
| step {c c' c'' lin tr} : Step view c lin c' → Exec view c' tr c'' → Exec view c (lin.toList ++ tr) c''

/-- running the atomic semantics along a linearization order -/
def absRun (view : P → Option (Block K V P)) (a : Abs K V P n) : List (Fin n) → Abs K V P n
| [] => a
| i :: r => absRun view (absStep view a (some i)) r

theorem exec_sim (hcl : Closed view Good) {c c' : Conc K V P n} {tr} (e : Exec view c tr c') :
    ∀ a, Inv view Good c a → Inv view Good c' (absRun view a tr) := by
  induction e with
  | refl c => intro a h; exact h
  | @step c c' c'' lin tr st _ ih =>
    intro a h
    have h' := simulation hcl h st
    cases lin with
    | none => simpa [absStep] using ih _ h'
    | some i => simpa [absRun] using ih _ h'

/-- initially every thread is idle with its whole program ahead -/
theorem inv_init (db : K → V) (pr : Fin n → P) (hg : ∀ i, Good (pr i)) :
    Inv view Good (⟨db, fun i => .idle (pr i)⟩ : Conc K V P n) ⟨db, pr⟩ := by
  refine ⟨hg, fun i => rfl, ?_, ?_, ?_, ?_, ?_, ?_⟩
  · intro i j k _ h; simp [holdsIn] at h
  · intro i b p cont h; cases h
  · intro k _; rfl
  · intro i k v h; simp [pend] at h
  · intro i b tr sn h; cases h
  · intro i b held todo h; cases h

/-- **atomicity**: if a micro-step execution from idle threads reaches a quiescent state, then running the blocks
    atomically in the order of their commit points yields the same database and the same remaining programs
    (so the same replies, which are the `done` programs) -/
theorem atomicity (hcl : Closed view Good) (db : K → V) (pr : Fin n → P) (hg : ∀ i, Good (pr i))
    {c' : Conc K V P n} {tr} (e : Exec view ⟨db, fun i => .idle (pr i)⟩ tr c') (q : Fin n → P)
    (hq : ∀ i, c'.th i = .idle (q i)) :
    (absRun view ⟨db, pr⟩ tr).db = c'.db ∧ (absRun view ⟨db, pr⟩ tr).pr = q := by
  have h := exec_sim hcl e _ (inv_init (view := view) db pr hg)
  constructor
  · funext k
    apply h.relN k
    intro i; simp [pend, hq i]
  · funext i
    have := h.prel i
    rw [hq i] at this
    exact this

#print axioms simulation
#print axioms atomicity
end Cc
