/-! Lock-discipline checker for the event trace of ONE command execution (hook H2): the trace-level form of the hypotheses of
    the generic theorems — `Conc.atomicity` needs every access to a key to happen while its stripe is held in a sufficient mode
    inside two-phase blocks, `Deadlock.progress` needs every acquisition to be of a stripe strictly above all stripes held.
    Core Lean only (the driver runs it on every command of every exec correspondence run). -/
namespace TraceCheck

inductive Ev
| lock (w : Bool) (pos : Nat)
| unlock (w : Bool) (pos : Nat)
| access (write : Bool) (pos : Nat)
deriving Repr, DecidableEq

structure St where
  held : List (Nat × Bool) := []     -- stripes held, with write mode
  shrinking : Bool := false          -- a stripe of the current block has been released (no further acquisition allowed)

/-- one event; `none` = discipline violated -/
def step (s : St) : Ev → Option St
| .lock w p =>
  if s.shrinking then none                                   -- two-phase: no acquisition after a release of the same block
  else if s.held.all (fun h => h.1 < p) then some { s with held := s.held ++ [(p, w)] }   -- strictly ascending
  else none
| .unlock w p =>
  if s.held.contains (p, w) then
    let held := s.held.erase (p, w)
    some { held := held, shrinking := !held.isEmpty }        -- block over when nothing is held
  else none
| .access wr p =>
  match s.held.find? (fun h => h.1 == p) with
  | some (_, w) => if wr && !w then none else some s         -- a write needs the write lock
  | none => none                                             -- no stripe held for this key

def run : St → List Ev → Option St
| s, [] => some s
| s, e :: es => (step s e).bind (run · es)

/-- the whole command: disciplined throughout and nothing held at the end -/
def ok (evs : List Ev) : Bool :=
  match run {} evs with
  | some s => s.held.isEmpty
  | none => false

/-- index of the first offending event (for the report) -/
def firstBad : St → List Ev → Nat → Option Nat
| _, [], _ => none
| s, e :: es, i => match step s e with | some s' => firstBad s' es (i + 1) | none => some i

/-! ### what `ok` guarantees -/

theorem run_append (s : St) (a b : List Ev) : run s (a ++ b) = (run s a).bind (run · b) := by
  induction a generalizing s with
  | nil => rfl
  | cons e es ih =>
    simp only [List.cons_append, run]
    cases step s e with
    | none => rfl
    | some s' => simp [ih]

/-- every access in an accepted trace happens while the key's stripe is held, writes under the write lock -/
theorem access_held (s s' : St) (pre post : List Ev) (wr : Bool) (p : Nat)
    (h1 : run s pre = some s') (h2 : (run s' (.access wr p :: post)).isSome) :
    ∃ w, (p, w) ∈ s'.held ∧ (wr = true → w = true) := by
  simp only [run, step] at h2
  split at h2
  · rename_i q w hf
    have hm := List.mem_of_find?_eq_some hf
    have hp := List.find?_some hf
    simp at hp
    subst hp
    refine ⟨w, hm, ?_⟩
    intro hwr
    cases w <;> simp_all
  · simp at h2

/-- every acquisition in an accepted trace is of a stripe strictly above every stripe held (no lock-order inversion) -/
theorem lock_ascending (s : St) (w : Bool) (p : Nat) (post : List Ev) (h : (run s (.lock w p :: post)).isSome) :
    ∀ q m, (q, m) ∈ s.held → q < p := by
  simp only [run, step] at h
  split at h
  · simp at h
  · split at h
    · rename_i hall
      intro q m hq
      have := List.all_eq_true.mp hall (q, m) hq
      simpa using this
    · simp at h

end TraceCheck
