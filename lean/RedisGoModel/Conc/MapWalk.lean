/-! # Micro-step model of `memdb/concurrentmap.go` with concurrent writers and `Keys()` walkers (C05 / C17) — core Lean only

`ConcurrentMap` = `size` shards, each a Go map with its own `sync.RWMutex`, and an atomic `count`.
* `Set` / `SetIfNotExist` / `Delete` take the WRITE lock of the key's shard, look the key up, change the shard's map (an existing key is
  overwritten IN PLACE: one map assignment, never a delete followed by an insert), adjust `count`, release.
* `Keys()` reads `count` once (only as the capacity of the result slice), then walks the shards in index order: read-lock the shard,
  append every key of its map, release, next shard.  No lock spans the walk: writers run between (and, on other shards, during) the
  visits.

Model.  The map is one association list `items` with unique keys; shard `i` is the part with `sh k = i` (`sh` arbitrary).  Writers run
arbitrary programs of map operations (`put` = `Set`, `setnx`, `del`), each operation in three micro-steps: acquire the shard's write
lock (possible when no other thread holds that shard), apply, release.  Walkers: start (read `count`), and per shard acquire the read
lock (possible when no writer holds the shard), copy, release; finish after the last shard.  Locks are not a separate component: who
holds what is read off the phases (`wHolds`, `rHolds`).  `no_writer_while_reading` (Props/C05Walk.lean) is the mutual-exclusion
invariant that justifies the copy being ONE step (the shard cannot change while the walker holds its read lock).

`Variant.stopAtCap` is a deliberately WRONG walker (a seeded change that was caught by a stress test): it stops as soon as it has
collected `count`-at-the-start keys.  The real code is `Variant.real`. -/
namespace MW

/-- map operations: `Set`, `SetIfNotExist`, `Delete` -/
inductive Op (K V : Type)
| put (k : K) (v : V)
| setnx (k : K) (v : V)
| del (k : K)

def Op.key {K V : Type} : Op K V → K
| .put k _ => k
| .setnx k _ => k
| .del k => k

inductive WPhase (K V : Type)
| idle                       -- between operations
| locked (op : Op K V)       -- holds the write lock of the shard of `op.key`; the map is not yet touched
| applied (op : Op K V)      -- the map is updated; the lock is still held

structure Writer (K V : Type) where
  phase : WPhase K V
  todo : List (Op K V)

inductive RPhase (K : Type)
| fresh                                       -- `Keys()` not yet called
| at (i : Nat) (acc : List K) (cap : Nat)     -- about to read-lock shard `i`; `cap` = `count` read at the start
| holding (i : Nat) (acc : List K) (cap : Nat)   -- holds the read lock of shard `i`, nothing copied yet
| copied (i : Nat) (acc : List K) (cap : Nat)    -- the keys of shard `i` are appended; the read lock is still held
| done (acc : List K)                         -- `Keys()` has returned `acc`

structure St (K V : Type) (nw nr : Nat) where
  items : List (K × V)
  count : Nat
  w : Fin nw → Writer K V
  r : Fin nr → RPhase K

structure Variant where
  stopAtCap : Bool

def Variant.real : Variant := ⟨false⟩

variable {K V : Type} [DecidableEq K] {nw nr : Nat}

def keys (items : List (K × V)) : List K := items.map (·.1)
def present (s : St K V nw nr) (k : K) : Prop := k ∈ keys s.items

/-- the keys of shard `i` in the map's (arbitrary) order -/
def shardKeys (sh : K → Nat) (items : List (K × V)) (i : Nat) : List K := (keys items).filter fun k => sh k == i

/-- `shard.item[key] = value` -/
def putItem (items : List (K × V)) (k : K) (v : V) : List (K × V) :=
  if k ∈ keys items then items.map fun p => if p.1 = k then (k, v) else p else (k, v) :: items

def delItem (items : List (K × V)) (k : K) : List (K × V) := items.filter fun p => p.1 ≠ k

/-- the effect of one map operation on the map and on `count` -/
def applyOp (items : List (K × V)) (count : Nat) : Op K V → List (K × V) × Nat
| .put k v => (putItem items k v, if k ∈ keys items then count else count + 1)
| .setnx k v => if k ∈ keys items then (items, count) else ((k, v) :: items, count + 1)
| .del k => (delItem items k, if k ∈ keys items then count - 1 else count)

def wHolds (sh : K → Nat) (t : Writer K V) (i : Nat) : Prop :=
  match t.phase with
  | .idle => False
  | .locked op => sh op.key = i
  | .applied op => sh op.key = i

def rHolds (p : RPhase K) (i : Nat) : Prop :=
  match p with
  | .holding j _ _ => j = i
  | .copied j _ _ => j = i
  | _ => False

def setW (w : Fin nw → Writer K V) (j : Fin nw) (t : Writer K V) : Fin nw → Writer K V := fun x => if x = j then t else w x
def setR (r : Fin nr → RPhase K) (j : Fin nr) (p : RPhase K) : Fin nr → RPhase K := fun x => if x = j then p else r x

/-- the keys a walker takes from a shard: all of them; the wrong variant only as many as still fit under `cap` -/
def take (var : Variant) (cap : Nat) (acc ks : List K) : List K := if var.stopAtCap then (acc ++ ks).take cap else acc ++ ks

/-- micro-steps (`sh` = shard function, `ns` = number of shards) -/
inductive Step (var : Variant) (sh : K → Nat) (ns : Nat) : St K V nw nr → St K V nw nr → Prop
| wAcquire (s : St K V nw nr) (j : Fin nw) (op : Op K V) (rest : List (Op K V)) (h : s.w j = ⟨.idle, op :: rest⟩)
    (hw : ∀ x, x ≠ j → ¬ wHolds sh (s.w x) (sh op.key)) (hr : ∀ y, ¬ rHolds (s.r y) (sh op.key)) :
    Step var sh ns s { s with w := setW s.w j ⟨.locked op, rest⟩ }
| wApply (s : St K V nw nr) (j : Fin nw) (op : Op K V) (todo : List (Op K V)) (h : s.w j = ⟨.locked op, todo⟩) :
    Step var sh ns s { s with items := (applyOp s.items s.count op).1, count := (applyOp s.items s.count op).2,
                              w := setW s.w j ⟨.applied op, todo⟩ }
| wRelease (s : St K V nw nr) (j : Fin nw) (op : Op K V) (todo : List (Op K V)) (h : s.w j = ⟨.applied op, todo⟩) :
    Step var sh ns s { s with w := setW s.w j ⟨.idle, todo⟩ }
| rStart (s : St K V nw nr) (y : Fin nr) (h : s.r y = .fresh) :
    Step var sh ns s { s with r := setR s.r y (.at 0 [] s.count) }
| rAcquire (s : St K V nw nr) (y : Fin nr) (i : Nat) (acc : List K) (cap : Nat) (h : s.r y = .at i acc cap) (hi : i < ns)
    (hw : ∀ x, ¬ wHolds sh (s.w x) i) :
    Step var sh ns s { s with r := setR s.r y (.holding i acc cap) }
| rCopy (s : St K V nw nr) (y : Fin nr) (i : Nat) (acc : List K) (cap : Nat) (h : s.r y = .holding i acc cap) :
    Step var sh ns s { s with r := setR s.r y (.copied i (take var cap acc (shardKeys sh s.items i)) cap) }
| rRelease (s : St K V nw nr) (y : Fin nr) (i : Nat) (acc : List K) (cap : Nat) (h : s.r y = .copied i acc cap) :
    Step var sh ns s { s with r := setR s.r y (if var.stopAtCap && decide (cap ≤ acc.length) then .done acc else .at (i + 1) acc cap) }
| rFinish (s : St K V nw nr) (y : Fin nr) (acc : List K) (cap : Nat) (h : s.r y = .at ns acc cap) :
    Step var sh ns s { s with r := setR s.r y (.done acc) }

/-- an execution: the start, the states visited after it in order, the end -/
inductive Run {σ : Type} (R : σ → σ → Prop) : σ → List σ → σ → Prop
| refl (s : σ) : Run R s [] s
| cons {s t u : σ} {l : List σ} : R s t → Run R t l u → Run R s (t :: l) u

/-- forward induction along an execution: `I` is kept by every step taken from a state satisfying `Q` -/
theorem Run.forward {σ : Type} {R : σ → σ → Prop} {Q I : σ → Prop} (hstep : ∀ a b, R a b → Q a → I a → I b) :
    ∀ {s u : σ} {l : List σ}, Run R s l u → (∀ a ∈ s :: l, Q a) → I s → I u := by
  intro s u l h
  induction h with
  | refl s => intro _ hI; exact hI
  | cons st _ ih =>
    intro hQ hI
    exact ih (fun a ha => hQ a (List.mem_cons_of_mem _ ha)) (hstep _ _ st (hQ _ List.mem_cons_self) hI)

end MW
