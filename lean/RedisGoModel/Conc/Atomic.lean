/-! Prototype for C05: strict two-phase locking ⇒ every micro-step execution is simulated by
    atomic block execution (forward simulation, linearization point = end of the read phase). -/
namespace At
abbrev Key := Nat
abbrev Val := Nat
inductive Mode | R | W deriving DecidableEq

structure Block where
  mode : Mode
  keys : List Key
  body : (Key → Val) → List (Key × Val)

/-- discipline of a block: writes only to its own keys and only in W mode; depends only on its keys -/
structure Block.WF (b : Block) : Prop where
  local_  : ∀ s s' : Key → Val, (∀ k ∈ b.keys, s k = s' k) → b.body s = b.body s'
  writes  : ∀ s kv, kv ∈ b.body s → kv.1 ∈ b.keys ∧ b.mode = .W

inductive Phase
| idle
| acquiring (b : Block) (held : List Key) (todo : List Key)
| reading   (b : Block) (toRead : List Key) (snap : Key → Val)
| writing   (b : Block) (pending : List (Key × Val))

structure Thread where
  phase : Phase
  prog  : List Block

def holdsIn (t : Thread) (k : Key) : Option Mode :=
  match t.phase with
  | .idle => none
  | .acquiring b held _ => if k ∈ held then some b.mode else none
  | .reading b _ _ => if k ∈ b.keys then some b.mode else none
  | .writing b _ => if k ∈ b.keys then some b.mode else none

def pendVal : List (Key × Val) → Key → Option Val
| [], _ => none
| (k0, v0) :: r, k => match pendVal r k with
    | some x => some x
    | none => if k0 = k then some v0 else none

def pend (t : Thread) (k : Key) : Option Val :=
  match t.phase with
  | .writing _ p => pendVal p k
  | _ => none

def applyWrites (db : Key → Val) (ws : List (Key × Val)) : Key → Val :=
  fun k => match pendVal ws k with | some v => v | none => db k

variable {n : Nat}
structure Conc (n : Nat) where
  db : Key → Val
  th : Fin n → Thread

def setT (th : Fin n → Thread) (i : Fin n) (t : Thread) : Fin n → Thread := fun j => if j = i then t else th j
def setK (db : Key → Val) (k : Key) (v : Val) : Key → Val := fun k' => if k' = k then v else db k'

def canAcquire (c : Conc n) (i : Fin n) (m : Mode) (k : Key) : Prop :=
  ∀ j, j ≠ i → match holdsIn (c.th j) k with
    | none => True
    | some .R => m = .R
    | some .W => False

/-- micro-steps; `lin` carries the block linearized by this step, if any -/
inductive Step : Conc n → Option Block → Conc n → Prop
| start (c : Conc n) (i b rest) (h : c.th i = ⟨.idle, b :: rest⟩) :
    Step c none ⟨c.db, setT c.th i ⟨.acquiring b [] b.keys, rest⟩⟩
| acquire (c : Conc n) (i b held k todo prog) (h : c.th i = ⟨.acquiring b held (k :: todo), prog⟩)
    (hc : canAcquire c i b.mode k) :
    Step c none ⟨c.db, setT c.th i ⟨.acquiring b (k :: held) todo, prog⟩⟩
| beginRead (c : Conc n) (i b held prog) (h : c.th i = ⟨.acquiring b held [], prog⟩) :
    Step c none ⟨c.db, setT c.th i ⟨.reading b b.keys (fun _ => 0), prog⟩⟩
| read (c : Conc n) (i b k r snap prog) (h : c.th i = ⟨.reading b (k :: r) snap, prog⟩) :
    Step c none ⟨c.db, setT c.th i ⟨.reading b r (setK snap k (c.db k)), prog⟩⟩
| commit (c : Conc n) (i b snap prog) (h : c.th i = ⟨.reading b [] snap, prog⟩) :
    Step c (some b) ⟨c.db, setT c.th i ⟨.writing b (b.body snap), prog⟩⟩
| write (c : Conc n) (i b k v r prog) (h : c.th i = ⟨.writing b ((k, v) :: r), prog⟩) :
    Step c none ⟨setK c.db k v, setT c.th i ⟨.writing b r, prog⟩⟩
| release (c : Conc n) (i b prog) (h : c.th i = ⟨.writing b [], prog⟩) :
    Step c none ⟨c.db, setT c.th i ⟨.idle, prog⟩⟩

/-- the atomic (block-level) semantics on the abstract database -/
def absStep (adb : Key → Val) : Option Block → (Key → Val)
| none => adb
| some b => applyWrites adb (b.body adb)
def curBlock (t : Thread) : List Block :=
  match t.phase with
  | .idle => []
  | .acquiring b _ _ => [b]
  | .reading b _ _ => [b]
  | .writing b _ => [b]

structure Inv (c : Conc n) (adb : Key → Val) : Prop where
  wf    : ∀ i, ∀ b ∈ curBlock (c.th i) ++ (c.th i).prog, b.WF
  excl  : ∀ i j k, i ≠ j → holdsIn (c.th i) k = some .W → holdsIn (c.th j) k = none
  pendK : ∀ i b p prog, c.th i = ⟨.writing b p, prog⟩ → ∀ kv ∈ p, kv.1 ∈ b.keys ∧ b.mode = .W
  relN  : ∀ k, (∀ i, pend (c.th i) k = none) → adb k = c.db k
  relS  : ∀ i k v, pend (c.th i) k = some v → adb k = v
  snap  : ∀ i b toRead sn prog, c.th i = ⟨.reading b toRead sn, prog⟩ →
            ∀ k ∈ b.keys, k ∉ toRead → sn k = adb k
  acq   : ∀ i b held todo prog, c.th i = ⟨.acquiring b held todo, prog⟩ → ∀ k ∈ b.keys, k ∈ held ∨ k ∈ todo

@[simp] theorem setT_same (th : Fin n → Thread) (i : Fin n) (t : Thread) : setT th i t i = t := by simp [setT]
theorem setT_other (th : Fin n → Thread) {i j : Fin n} (t : Thread) (h : j ≠ i) : setT th i t j = th j := by simp [setT, h]

theorem pendVal_mem {p : List (Key × Val)} {k v} (h : pendVal p k = some v) : (k, v) ∈ p := by
  induction p with
  | nil => simp [pendVal] at h
  | cons a r ih =>
    obtain ⟨k0, v0⟩ := a
    simp only [pendVal] at h
    cases hr : pendVal r k with
    | some x => rw [hr] at h; simp at h; subst h; exact List.mem_cons_of_mem _ (ih hr)
    | none =>
      rw [hr] at h
      by_cases hk : k0 = k
      · simp [hk] at h; subst h; subst hk; simp
      · simp [hk] at h

/-- a thread with a pending write on k holds k in W -/
theorem pend_holds {c : Conc n} {adb} (h : Inv c adb) {i k v} (hp : pend (c.th i) k = some v) :
    holdsIn (c.th i) k = some .W := by
  rcases hti : c.th i with ⟨ph, prog⟩
  rw [hti] at hp
  cases ph with
  | idle => simp [pend] at hp
  | acquiring _ _ _ => simp [pend] at hp
  | reading _ _ _ => simp [pend] at hp
  | writing b p =>
    simp only [pend] at hp
    have := h.pendK i b p prog hti _ (pendVal_mem hp)
    simp [holdsIn, this.1, this.2]

/-- generic frame lemma: thread i changes to t' with (a) no new pending values, (b) holdings only shrink or the new
    holdings are justified, (c) db unchanged. Used for start/beginRead/release/acquire/read. -/
theorem inv_frame {c : Conc n} {adb} (h : Inv c adb) (i : Fin n) (t' : Thread)
    (hwf : ∀ b ∈ curBlock t' ++ t'.prog, b.WF)
    (hpend : ∀ k, pend t' k = pend (c.th i) k)
    (hexclW : ∀ k, holdsIn t' k = some .W → ∀ j, j ≠ i → holdsIn (c.th j) k = none)
    (hexclO : ∀ k m, holdsIn t' k = some m → ∀ j, j ≠ i → holdsIn (c.th j) k ≠ some .W)
    (hpk : ∀ b p prog, t' = ⟨.writing b p, prog⟩ → ∀ kv ∈ p, kv.1 ∈ b.keys ∧ b.mode = .W)
    (hsnap : ∀ b toRead sn prog, t' = ⟨.reading b toRead sn, prog⟩ → ∀ k ∈ b.keys, k ∉ toRead → sn k = adb k)
    (hacq : ∀ b held todo prog, t' = ⟨.acquiring b held todo, prog⟩ → ∀ k ∈ b.keys, k ∈ held ∨ k ∈ todo) :
    Inv ⟨c.db, setT c.th i t'⟩ adb := by
  refine ⟨?_, ?_, ?_, ?_, ?_, ?_, ?_⟩
  · intro j
    by_cases hj : j = i
    · subst hj; simpa using hwf
    · simp only [setT_other _ _ hj]; exact h.wf j
  · intro a b k hab ha
    by_cases hai : a = i
    · subst hai
      simp only [setT_same] at ha
      have hb : b ≠ a := fun e => hab e.symm
      simp only [setT_other _ _ hb]
      exact hexclW k ha b hb
    · simp only [setT_other _ _ hai] at ha
      by_cases hbi : b = i
      · subst hbi
        simp only [setT_same]
        cases hh : holdsIn t' k with
        | none => rfl
        | some m => exact absurd ha (hexclO k m hh a hai)
      · simp only [setT_other _ _ hbi]; exact h.excl a b k hab ha
  · intro j b p prog hj
    by_cases hji : j = i
    · subst hji; simp only [setT_same] at hj; exact hpk b p prog hj
    · simp only [setT_other _ _ hji] at hj; exact h.pendK j b p prog hj
  · intro k hk
    apply h.relN k
    intro j
    by_cases hji : j = i
    · subst hji; have := hk j; simp only [setT_same] at this; rw [← hpend]; exact this
    · have := hk j; simpa only [setT_other _ _ hji] using this
  · intro j k v hj
    by_cases hji : j = i
    · subst hji; simp only [setT_same] at hj; rw [hpend] at hj; exact h.relS j k v hj
    · simp only [setT_other _ _ hji] at hj; exact h.relS j k v hj
  · intro j b toRead sn prog hj
    by_cases hji : j = i
    · subst hji; simp only [setT_same] at hj; exact hsnap b toRead sn prog hj
    · simp only [setT_other _ _ hji] at hj; exact h.snap j b toRead sn prog hj
  · intro j b held todo prog hj
    by_cases hji : j = i
    · subst hji; simp only [setT_same] at hj; exact hacq b held todo prog hj
    · simp only [setT_other _ _ hji] at hj; exact h.acq j b held todo prog hj

theorem sim_start {c : Conc n} {adb} (h : Inv c adb) (i b rest) (hi : c.th i = ⟨.idle, b :: rest⟩) :
    Inv ⟨c.db, setT c.th i ⟨.acquiring b [] b.keys, rest⟩⟩ adb := by
  apply inv_frame h i
  · intro b' hb'
    have := h.wf i
    rw [hi] at this
    simp [curBlock] at hb' this ⊢
    rcases hb' with rfl | hb'
    · exact this.1
    · exact this.2 b' hb'
  · intro k; simp [pend, hi]
  · intro k hk; simp [holdsIn] at hk
  · intro k m hk; simp [holdsIn] at hk
  · intro b' p prog he; cases he
  · intro b' tr sn prog he; cases he
  · intro b' held todo prog he k hk; cases he; exact Or.inr hk

theorem sim_release {c : Conc n} {adb} (h : Inv c adb) (i b prog) (hi : c.th i = ⟨.writing b [], prog⟩) :
    Inv ⟨c.db, setT c.th i ⟨.idle, prog⟩⟩ adb := by
  apply inv_frame h i
  · intro b' hb'
    have := h.wf i
    rw [hi] at this
    simp [curBlock] at hb' this ⊢
    exact this.2 b' hb'
  · intro k; simp [pend, hi, pendVal]
  · intro k hk; simp [holdsIn] at hk
  · intro k m hk; simp [holdsIn] at hk
  · intro b' p prog he; cases he
  · intro b' tr sn prog he; cases he
  · intro b' held todo prog he; cases he

theorem sim_beginRead {c : Conc n} {adb} (h : Inv c adb) (i b held prog) (hi : c.th i = ⟨.acquiring b held [], prog⟩) :
    Inv ⟨c.db, setT c.th i ⟨.reading b b.keys (fun _ => 0), prog⟩⟩ adb := by
  have hsub : ∀ k ∈ b.keys, k ∈ held := fun k hk => by
    rcases h.acq i b held [] prog hi k hk with h1 | h1
    · exact h1
    · cases h1
  have hold : ∀ k m, holdsIn (⟨.reading b b.keys (fun _ => 0), prog⟩ : Thread) k = some m → holdsIn (c.th i) k = some m := by
    intro k m hk
    simp only [holdsIn] at hk
    split at hk
    · rename_i hkb; simp [hi, holdsIn, hsub k hkb]; simpa using hk
    · cases hk
  apply inv_frame h i
  · intro b' hb'
    have := h.wf i
    rw [hi] at this
    simpa [curBlock] using this b' (by simpa [curBlock] using hb')
  · intro k; simp [pend, hi]
  · intro k hk j hji; exact h.excl i j k (fun e => hji e.symm) (hold k _ hk)
  · intro k m hk j hji hj
    have := h.excl j i k hji hj
    rw [hold k m hk] at this; cases this
  · intro b' p prog he; cases he
  · intro b' tr sn prog' he k hk hnk; cases he; exact absurd hk hnk
  · intro b' held todo prog he; cases he

theorem sim_acquire {c : Conc n} {adb} (h : Inv c adb) (i b held k todo prog)
    (hi : c.th i = ⟨.acquiring b held (k :: todo), prog⟩) (hc : canAcquire c i b.mode k) :
    Inv ⟨c.db, setT c.th i ⟨.acquiring b (k :: held) todo, prog⟩⟩ adb := by
  have hnew : ∀ k' m, holdsIn (⟨.acquiring b (k :: held) todo, prog⟩ : Thread) k' = some m →
      m = b.mode ∧ (k' = k ∨ holdsIn (c.th i) k' = some m) := by
    intro k' m hk
    simp only [holdsIn] at hk
    split at hk
    · rename_i hmem
      have hm : m = b.mode := by simpa using hk.symm
      refine ⟨hm, ?_⟩
      rcases List.mem_cons.1 hmem with h1 | h1
      · exact Or.inl h1
      · right; simp [hi, holdsIn, h1, hm]
    · cases hk
  apply inv_frame h i
  · intro b' hb'
    have := h.wf i
    rw [hi] at this
    simpa [curBlock] using this b' (by simpa [curBlock] using hb')
  · intro k'; simp [pend, hi]
  · intro k' hk j hji
    obtain ⟨hm, h1 | h1⟩ := hnew k' _ hk
    · subst h1
      have := hc j hji
      rw [← hm] at this
      cases hh : holdsIn (c.th j) k' with
      | none => rfl
      | some m' => rw [hh] at this; cases m' <;> simp at this
    · exact h.excl i j k' (fun e => hji e.symm) h1
  · intro k' m hk j hji hj
    obtain ⟨hm, h1 | h1⟩ := hnew k' m hk
    · subst h1
      have := hc j hji
      rw [hj] at this; exact this
    · have := h.excl j i k' hji hj
      rw [h1] at this; cases this
  · intro b' p prog he; cases he
  · intro b' tr sn prog he; cases he
  · intro b' held' todo' prog' he k' hk'
    cases he
    rcases h.acq i b held (k :: todo) prog hi k' hk' with h1 | h1
    · exact Or.inl (List.mem_cons_of_mem _ h1)
    · rcases List.mem_cons.1 h1 with h2 | h2
      · exact Or.inl (by simp [h2])
      · exact Or.inr h2

theorem sim_read {c : Conc n} {adb} (h : Inv c adb) (i b k r sn prog)
    (hi : c.th i = ⟨.reading b (k :: r) sn, prog⟩) :
    Inv ⟨c.db, setT c.th i ⟨.reading b r (setK sn k (c.db k)), prog⟩⟩ adb := by
  have hold : ∀ k' , holdsIn (⟨.reading b r (setK sn k (c.db k)), prog⟩ : Thread) k' = holdsIn (c.th i) k' := by
    intro k'; simp [holdsIn, hi]
  apply inv_frame h i
  · intro b' hb'
    have := h.wf i
    rw [hi] at this
    simpa [curBlock] using this b' (by simpa [curBlock] using hb')
  · intro k'; simp [pend, hi]
  · intro k' hk j hji; rw [hold] at hk; exact h.excl i j k' (fun e => hji e.symm) hk
  · intro k' m hk j hji hj
    rw [hold] at hk
    have := h.excl j i k' hji hj
    rw [hk] at this; cases this
  · intro b' p prog he; cases he
  · intro b' tr sn' prog' he k' hk' hnr
    cases he
    by_cases hkk : k' = k
    · subst hkk
      simp only [setK, if_true]
      -- nobody has a pending write on k', because i holds it
      symm
      apply h.relN k'
      intro j
      cases hp : pend (c.th j) k' with
      | none => rfl
      | some v =>
        exfalso
        have hjW := pend_holds h hp
        by_cases hji : j = i
        · subst hji; simp [pend, hi] at hp
        · have := h.excl j i k' hji hjW
          simp [hi, holdsIn, hk'] at this
    · simp only [setK, hkk, if_false]
      exact h.snap i b (k :: r) sn prog hi k' hk' (by simp [hkk, hnr])
  · intro b' held todo prog he; cases he

theorem sim_commit {c : Conc n} {adb} (h : Inv c adb) (i b sn prog)
    (hi : c.th i = ⟨.reading b [] sn, prog⟩) :
    Inv ⟨c.db, setT c.th i ⟨.writing b (b.body sn), prog⟩⟩ (applyWrites adb (b.body adb)) := by
  have hbwf : b.WF := h.wf i b (by simp [hi, curBlock])
  have hbody : b.body sn = b.body adb :=
    hbwf.local_ sn adb (fun k hk => h.snap i b [] sn prog hi k hk (by simp))
  have hholdi : ∀ k, holdsIn (c.th i) k = if k ∈ b.keys then some b.mode else none := by
    intro k; simp [hi, holdsIn]
  -- a key written by this block is W-held by i, hence untouched by everybody else
  have hWheld : ∀ k v, pendVal (b.body adb) k = some v → holdsIn (c.th i) k = some .W := by
    intro k v hp
    have := hbwf.writes adb _ (pendVal_mem hp)
    simp [hholdi, this.1, this.2]
  refine ⟨?_, ?_, ?_, ?_, ?_, ?_, ?_⟩
  · intro j
    by_cases hj : j = i
    · subst hj
      have := h.wf j
      rw [hi] at this
      simpa [curBlock] using this
    · simp only [setT_other _ _ hj]; exact h.wf j
  · intro a b' k hab ha
    have eqh : ∀ x, holdsIn (setT c.th i ⟨.writing b (b.body sn), prog⟩ x) k = holdsIn (c.th x) k := by
      intro x
      by_cases hx : x = i
      · subst hx; simp [holdsIn, hi]
      · simp only [setT_other _ _ hx]
    simp only [eqh] at ha ⊢
    exact h.excl a b' k hab ha
  · intro j b' p prog' hj
    by_cases hji : j = i
    · subst hji
      simp only [setT_same] at hj
      cases hj
      intro kv hkv
      exact hbwf.writes sn kv hkv
    · simp only [setT_other _ _ hji] at hj; exact h.pendK j b' p prog' hj
  · intro k hk
    have hik := hk i
    simp only [setT_same, pend, hbody] at hik
    simp only [applyWrites, hik]
    apply h.relN k
    intro j
    by_cases hji : j = i
    · subst hji; simp [pend, hi]
    · have := hk j; simpa only [setT_other _ _ hji] using this
  · intro j k v hj
    by_cases hji : j = i
    · subst hji
      simp only [setT_same, pend, hbody] at hj
      simp [applyWrites, hj]
    · simp only [setT_other _ _ hji] at hj
      have hold := h.relS j k v hj
      cases hp : pendVal (b.body adb) k with
      | none => simp [applyWrites, hp, hold]
      | some v' =>
        exfalso
        have h1 := hWheld k v' hp
        have h2 := h.excl i j k (fun e => hji e.symm) h1
        rw [pend_holds h hj] at h2; cases h2
  · intro j b' tr sn' prog' hj k hk hnk
    by_cases hji : j = i
    · subst hji; simp only [setT_same] at hj; cases hj
    · simp only [setT_other _ _ hji] at hj
      have hold := h.snap j b' tr sn' prog' hj k hk hnk
      cases hp : pendVal (b.body adb) k with
      | none => simp [applyWrites, hp, hold]
      | some v' =>
        exfalso
        have h1 := hWheld k v' hp
        have h2 := h.excl i j k (fun e => hji e.symm) h1
        simp [hj, holdsIn, hk] at h2
  · intro j b' held todo prog' hj
    by_cases hji : j = i
    · subst hji; simp only [setT_same] at hj; cases hj
    · simp only [setT_other _ _ hji] at hj; exact h.acq j b' held todo prog' hj

theorem sim_write {c : Conc n} {adb} (h : Inv c adb) (i b k v r prog)
    (hi : c.th i = ⟨.writing b ((k, v) :: r), prog⟩) :
    Inv ⟨setK c.db k v, setT c.th i ⟨.writing b r, prog⟩⟩ adb := by
  have hpold : ∀ k', pend (c.th i) k' = match pendVal r k' with
      | some x => some x | none => if k = k' then some v else none := by
    intro k'; simp [pend, hi, pendVal]
  refine ⟨?_, ?_, ?_, ?_, ?_, ?_, ?_⟩
  · intro j
    by_cases hj : j = i
    · subst hj
      have := h.wf j
      rw [hi] at this
      simpa [curBlock] using this
    · simp only [setT_other _ _ hj]; exact h.wf j
  · intro a b' k' hab ha
    have eqh : ∀ x, holdsIn (setT c.th i ⟨.writing b r, prog⟩ x) k' = holdsIn (c.th x) k' := by
      intro x
      by_cases hx : x = i
      · subst hx; simp [holdsIn, hi]
      · simp only [setT_other _ _ hx]
    simp only [eqh] at ha ⊢
    exact h.excl a b' k' hab ha
  · intro j b' p prog' hj
    by_cases hji : j = i
    · subst hji
      simp only [setT_same] at hj
      cases hj
      intro kv hkv
      exact h.pendK j b ((k, v) :: r) prog hi kv (List.mem_cons_of_mem _ hkv)
    · simp only [setT_other _ _ hji] at hj; exact h.pendK j b' p prog' hj
  · intro k' hk'
    have hik := hk' i
    simp only [setT_same, pend] at hik
    by_cases hkk : k = k'
    · subst hkk
      have : pend (c.th i) k = some v := by rw [hpold, hik]; simp
      simp [setK, h.relS i k v this]
    · have hne : k' ≠ k := fun e => hkk e.symm
      simp only [setK, hne, if_false]
      apply h.relN k'
      intro j
      by_cases hji : j = i
      · subst hji; rw [hpold, hik]; simp [hkk]
      · have := hk' j; simpa only [setT_other _ _ hji] using this
  · intro j k' x hj
    by_cases hji : j = i
    · subst hji
      simp only [setT_same, pend] at hj
      apply h.relS j k' x
      rw [hpold, hj]
    · simp only [setT_other _ _ hji] at hj; exact h.relS j k' x hj
  · intro j b' tr sn' prog' hj
    by_cases hji : j = i
    · subst hji; simp only [setT_same] at hj; cases hj
    · simp only [setT_other _ _ hji] at hj; exact h.snap j b' tr sn' prog' hj
  · intro j b' held todo prog' hj
    by_cases hji : j = i
    · subst hji; simp only [setT_same] at hj; cases hj
    · simp only [setT_other _ _ hji] at hj; exact h.acq j b' held todo prog' hj

/-- forward simulation: every micro-step is matched by the atomic semantics on the abstract db -/
theorem simulation {c c' : Conc n} {adb lin} (h : Inv c adb) (st : Step c lin c') : Inv c' (absStep adb lin) := by
  cases st with
  | start i b rest hi => exact sim_start h i b rest hi
  | acquire i b held k todo prog hi hc => exact sim_acquire h i b held k todo prog hi hc
  | beginRead i b held prog hi => exact sim_beginRead h i b held prog hi
  | read i b k r sn prog hi => exact sim_read h i b k r sn prog hi
  | commit i b sn prog hi => exact sim_commit h i b sn prog hi
  | write i b k v r prog hi => exact sim_write h i b k v r prog hi
  | release i b prog hi => exact sim_release h i b prog hi

/-- at quiescence the concrete database *is* the abstract one -/
theorem quiescent_eq {c : Conc n} {adb} (h : Inv c adb) (hq : ∀ i, (c.th i).phase = .idle) : adb = c.db := by
  funext k
  apply h.relN k
  intro i
  simp [pend, hq i]

#print axioms simulation
#print axioms quiescent_eq
end At
