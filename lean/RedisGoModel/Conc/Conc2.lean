import RedisGoModel.Conc.Conc
/-! Instantiating the generic atomicity theorem with tree-shaped programs (`Exec`), and the first corollary in the
    property's own words: concurrent INCRs lose no increment. Core Lean only. -/
namespace Cc
/-- the counters of this file: keys and values are natural numbers -/
abbrev Key := Nat

/-- executor trees: a reply, or a locked block whose continuation depends on what it saw -/
inductive Prog (ρ : Type)
| done  (r : ρ)
| block (mode : Mode) (keys : List Key) (body : (Key → Nat) → List (Key × Nat)) (next : (Key → Nat) → Prog ρ)

variable {ρ : Type}

def view : Prog ρ → Option (Block Nat Nat (Prog ρ))
| .done _ => none
| .block m ks b nx => some ⟨m, ks, b, nx⟩

/-- per-executor obligation: every block reads and writes only what it locked, writes only under a write lock -/
inductive Disciplined : Prog ρ → Prop
| done (r) : Disciplined (.done r)
| block (m ks b nx) :
    (∀ s s' : Key → Nat, (∀ k ∈ ks, s k = s' k) → b s = b s' ∧ nx s = nx s') →
    (∀ s kv, kv ∈ b s → kv.1 ∈ ks ∧ m = .W) →
    (∀ s, Disciplined (nx s)) → Disciplined (.block m ks b nx)

theorem closed : Closed (view (ρ := ρ)) Disciplined := by
  intro p b g hv
  cases g with
  | done r => simp [view] at hv
  | block m ks body nx h1 h2 h3 =>
    simp only [view, Option.some.injEq] at hv
    subst hv
    exact ⟨⟨h1, h2⟩, h3⟩

/-- `INCR k`: one write-locked block; the reply is the new value -/
def incr (k : Key) : Prog Nat :=
  .block .W [k] (fun s => [(k, s k + 1)]) (fun s => .done (s k + 1))

theorem incr_disciplined (k : Key) : Disciplined (incr k) := by
  refine .block _ _ _ _ ?_ ?_ (fun s => .done _)
  · intro s s' h
    have := h k (by simp)
    simp [this]
  · intro s kv h
    simp at h; subst h; simp

def isDone : Prog ρ → Bool
| .done _ => true
| _ => false

theorem countP_setT {n : Nat} (f : Fin n → Prog ρ) (i : Fin n) (x : Prog ρ) (hi : isDone (f i) = false) (hx : isDone x = true) :
    ∀ l : List (Fin n), l.Nodup → i ∈ l →
      l.countP (fun j => isDone (setT f i x j)) = l.countP (fun j => isDone (f j)) + 1 := by
  intro l
  induction l with
  | nil => intro _ h; cases h
  | cons a l ih =>
    intro nd hm
    rw [List.nodup_cons] at nd
    by_cases ha : a = i
    · subst ha
      have hrest : l.countP (fun j => isDone (setT f a x j)) = l.countP (fun j => isDone (f j)) := by
        apply List.countP_congr
        intro j hj
        have : j ≠ a := fun e => nd.1 (e ▸ hj)
        simp [setT_other _ _ this]
      simp [List.countP_cons, hrest, hi, hx]
    · have hm' : i ∈ l := by
        rcases List.mem_cons.mp hm with h | h
        · exact absurd h.symm ha
        · exact h
      simp [List.countP_cons, ih nd.2 hm', setT_other _ _ ha]
      omega

/-- state of the atomic semantics while `n` INCRs of `k` are in flight, starting from value `v` -/
structure IncrInv {n : Nat} (k : Key) (v : Nat) (a : Abs Nat Nat (Prog Nat) n) : Prop where
  cnt   : a.db k = v + (List.finRange n).countP (fun j => isDone (a.pr j))
  shape : ∀ i, a.pr i = incr k ∨ ∃ r, a.pr i = .done r ∧ v < r ∧ r ≤ a.db k
  inj   : ∀ i j r, a.pr i = .done r → a.pr j = .done r → i = j

theorem incr_step {n : Nat} (k : Key) (v : Nat) (a : Abs Nat Nat (Prog Nat) n) (h : IncrInv k v a) (i : Fin n) :
    IncrInv k v (absStep view a (some i)) := by
  rcases h.shape i with hi | ⟨r, hi, _⟩
  · have hv : view (a.pr i) = some ⟨.W, [k], (fun s => [(k, s k + 1)]), (fun s => .done (s k + 1))⟩ := by
      rw [hi]; rfl
    have habs : absStep view a (some i) =
        ⟨applyWrites a.db [(k, a.db k + 1)], setT a.pr i (.done (a.db k + 1))⟩ := by
      simp [absStep, hv]
    have hdb : applyWrites a.db [(k, a.db k + 1)] k = a.db k + 1 := by simp [applyWrites, pendVal]
    rw [habs]
    refine ⟨?_, ?_, ?_⟩
    · simp only [hdb]
      rw [countP_setT a.pr i _ (by rw [hi]; rfl) rfl _ (List.nodup_finRange n) (List.mem_finRange i), h.cnt]
      omega
    · intro j
      by_cases hj : j = i
      · subst hj
        right
        refine ⟨a.db k + 1, by simp, ?_, ?_⟩
        · have := h.cnt; omega
        · simp only [hdb]; omega
      · simp only [setT_other _ _ hj, hdb]
        rcases h.shape j with hs | ⟨r, hr, h1, h2⟩
        · exact Or.inl hs
        · exact Or.inr ⟨r, hr, h1, by omega⟩
    · intro x y r hx hy
      by_cases hxi : x = i
      · by_cases hyi : y = i
        · rw [hxi, hyi]
        · exfalso
          subst hxi
          simp only [setT_same, Prog.done.injEq] at hx
          simp only [setT_other _ _ hyi] at hy
          rcases h.shape y with hs | ⟨r', hr', _, h2⟩
          · rw [hs] at hy; cases hy
          · rw [hr'] at hy; cases hy; omega
      · simp only [setT_other _ _ hxi] at hx
        by_cases hyi : y = i
        · exfalso
          subst hyi
          simp only [setT_same, Prog.done.injEq] at hy
          rcases h.shape x with hs | ⟨r', hr', _, h2⟩
          · rw [hs] at hx; cases hx
          · rw [hr'] at hx; cases hx; omega
        · simp only [setT_other _ _ hyi] at hy
          exact h.inj x y r hx hy
  · have : absStep view a (some i) = a := by simp [absStep, hi, view]
    rw [this]; exact h

theorem incr_run {n : Nat} (k : Key) (v : Nat) (tr : List (Fin n)) :
    ∀ a : Abs Nat Nat (Prog Nat) n, IncrInv k v a → IncrInv k v (absRun view a tr) := by
  induction tr with
  | nil => intro a h; exact h
  | cons i r ih => intro a h; exact ih _ (incr_step k v a h i)

/-- **no lost increment**: `n` clients INCR the same key concurrently, in any interleaving of lock acquisitions,
    reads and writes; once all have their reply the key holds `v + n`, and the replies are `n` distinct values in
    `v+1 … v+n` (so each of them exactly once) -/
theorem no_lost_increment {n : Nat} (k : Key) (db : Key → Nat) {c' : Conc Nat Nat (Prog Nat) n} {tr}
    (e : Exec view ⟨db, fun _ => .idle (incr k)⟩ tr c') (reply : Fin n → Nat)
    (hq : ∀ i, c'.th i = .idle (.done (reply i))) :
    c'.db k = db k + n ∧ (∀ i, db k < reply i ∧ reply i ≤ db k + n) ∧ (∀ i j, reply i = reply j → i = j) := by
  have hat := atomicity closed db (fun _ => incr k) (fun _ => incr_disciplined k) e (fun i => .done (reply i)) hq
  have h0 : IncrInv k (db k) (⟨db, fun _ => incr k⟩ : Abs Nat Nat (Prog Nat) n) := by
    refine ⟨?_, fun i => Or.inl rfl, ?_⟩
    · have : (List.finRange n).countP (fun _ => isDone (incr k)) = 0 := by
        rw [List.countP_eq_zero]; intro _ _; simp [isDone, incr]
      simp [this]
    · intro i j r h; simp [incr] at h
  have h := incr_run k (db k) tr _ h0
  obtain ⟨hdb, hpr⟩ := hat
  have hall : (List.finRange n).countP (fun j => isDone ((absRun view ⟨db, fun _ => incr k⟩ tr).pr j)) = n := by
    rw [hpr]
    have : (List.finRange n).countP (fun j => isDone (Prog.done (reply j))) = (List.finRange n).length := by
      rw [List.countP_eq_length]; intro _ _; rfl
    rw [this, List.length_finRange]
  have hk : c'.db k = db k + n := by rw [← hdb, h.cnt, hall]
  refine ⟨hk, ?_, ?_⟩
  · intro i
    rcases h.shape i with hs | ⟨r, hr, h1, h2⟩
    · rw [hpr] at hs; simp [incr] at hs
    · rw [hpr] at hr
      simp only [Prog.done.injEq] at hr
      subst hr
      rw [hdb, hk] at h2
      exact ⟨h1, h2⟩
  · intro i j hij
    apply h.inj i j (reply i)
    · rw [hpr]
    · rw [hpr, hij]

#print axioms no_lost_increment
end Cc
