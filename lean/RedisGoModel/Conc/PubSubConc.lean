import RedisGoModel.Ds.PubSub
/-! # Micro-step concurrency model of the Pub/Sub subscription table (`/repo/memdb/pubsub_struct.go`), property C19

Core Lean only.  `n` threads (goroutines) run programs of operations against one `ChanMap`:

* state: the table `ch ↦ object id` (`ChanMap.item`), per object the subscriber list (`Chan.conns`), the table RW lock
  (`ChanMap.rw`: writer `tw`, readers `tr`), the per-object lock (`Chan.rw`, only ever write-locked by the code: holder `ow o`),
  fresh object ids (`next`; an object is never re-used: `&Chan{}` is a new allocation), connection liveness (`dead`), the
  per-connection delivery logs (`log`), per thread a program counter.
* Go `sync.RWMutex` semantics as in `Conc/Deadlock.lean`: a write lock needs no holder at all, a read lock needs no write holder
  AND no waiting writer (a thread whose next step is a write acquisition of the table lock: `waitsTW`).
* every operation is the exact sequence of lock / unlock / read / write steps of the Go code (one `next` step each):

  `Subscribe`   s0 Lock(table) · s1 lookup-or-create · s2 Lock(obj) · s3 scan+join  · s4 Unlock(obj) · s5 Unlock(table)
  `UnSubscribe` u0 Lock(table) · u1 lookup (absent: u5) · u2 Lock(obj) · u3 delete(conns) · u3d drop the table entry when empty ·
                u4 Unlock(obj) · u5 Unlock(table)
  `Send`        p0 RLock(table) · p1 lookup · p2 RUnlock(table) (absent: return 0) · p3 Lock(obj) [`range` starts: the iteration
                covers the members at this moment] · p4 one step per connection: Write succeeds (appended to that connection's log)
                or fails (only possible for a dead connection; it is deleted from `conns`) · p4 with nothing left: Unlock(obj),
                return the number of successful writes.  Send's two critical sections are separate: between p2 and p3 it holds nothing.
  `release`     NOT in the code — the seeded change `C19-release-empty-channel-lock-order`: r0–r2 as p0–p2, r3 Lock(obj),
                r4 Lock(table) WHILE HOLDING the object lock, r5 drop when empty, r6 Unlock(table), r7 Unlock(obj).
                Programs of the real code satisfy `Real` (no `release`); the negative theorem uses one.

* `die c` is an environment step (the peer of connection `c` goes away) — it only makes write failures possible.

Ghost state (never read by a guard): `lin` — the linearization being built: at its linearization point every operation appends its
abstract operation (`PubSub.Op`) tagged with (thread, operation number); `och` (the channel an object was created for), `clock`,
per thread `lpd` (current operation already linearized), `exp` (the count the sequential specification gave at that point),
`invAt`/`invLen` (clock and length of `lin` at invocation), `done` (one record per completed operation).

Linearization points.  Subscribe: the join step s3 (both locks held).  UnSubscribe: the delete step u3 (both locks held); for an
absent channel the lookup u1.  Send: lookup p1 when the channel is absent; otherwise DELIVERY time — the final step of the loop
(object lock held, so the member set seen is the set at that point; a pruned connection is linearized as an `unsubscribe` of that
connection from this channel at the prune step: that is where the server learns of its death) — except when the object was dropped
from the table between Send's lookup and its Lock(obj): neither lookup time (the object had members then) nor delivery time (a new
object for the channel may have members then) is right; the Send is linearized BY the dropping UnSubscribe, at its step u3d, when
the channel has no subscriber at all (helping).  It then finds the dropped object empty and returns 0. -/
namespace PSC
open PubSub (Chan Conn Payload)

deriving instance DecidableEq, Repr for PubSub.Op

abbrev Obj := Nat

inductive Op
| subscribe (c : Conn) (ch : Chan)
| unsubscribe (c : Conn) (ch : Chan)
| send (ch : Chan) (m : Payload)
| release (ch : Chan)
deriving DecidableEq, Repr

def Op.chan : Op → Chan
| .subscribe _ ch => ch
| .unsubscribe _ ch => ch
| .send ch _ => ch
| .release ch => ch

def Op.conn : Op → Conn
| .subscribe c _ => c
| .unsubscribe c _ => c
| _ => 0

def Op.payload : Op → Payload
| .send _ m => m
| _ => []

def Op.real : Op → Bool
| .release _ => false
| _ => true

/-- the abstract operation of the sequential specification `Ds/PubSub.lean` -/
def Op.abs : Op → PubSub.Op
| .subscribe c ch => .subscribe c ch
| .unsubscribe c ch => .unsubscribe c ch
| .send ch m => .publish ch m
| .release ch => .publish ch []      -- never used (release is not linearized)

inductive Pc
| idle
| s0 | s1 | s2 (o : Obj) | s3 (o : Obj) | s4 (o : Obj) | s5
| u0 | u1 | u2 (o : Obj) | u3 (o : Obj) | u3d (o : Obj) | u4 (o : Obj) | u5
| p0 | p1 | p2 (r : Option Obj) | p3 (o : Obj) | p4 (o : Obj) (sent todo : List Conn)
| r0 | r1 | r2 (r : Option Obj) | r3 (o : Obj) | r4 (o : Obj) | r5 (o : Obj) | r6 (o : Obj) | r7 (o : Obj)
deriving DecidableEq, Repr

def entry : Op → Pc
| .subscribe _ _ => .s0
| .unsubscribe _ _ => .u0
| .send _ _ => .p0
| .release _ => .r0

/-- the thread's next step is a write acquisition of the table lock (Go: it has called `Lock()` and waits) -/
def waitsTW : Pc → Bool
| .s0 | .u0 | .r4 _ => true
| _ => false

/-- record of a completed operation (ghost) -/
structure Rec (n : Nat) where
  tid : Fin n
  k : Nat
  op : Op
  reply : Option Nat
  exp : Nat
  invAt : Nat
  invLen : Nat
  retAt : Nat
  retLen : Nat

structure LinEv (n : Nat) where
  tag : Option (Fin n × Nat)       -- (thread, operation number); `none` for a prune (the environment's unsubscribe)
  op : PubSub.Op

structure Thread where
  pc : Pc := .idle
  cur : Op := .release []          -- the operation being executed (meaningful when pc ≠ idle)
  prog : List Op := []             -- operations still to run
  replies : List Nat := []         -- return values of the completed Sends, in order
  k : Nat := 0                     -- number of completed operations
  lpd : Bool := false              -- ghost: the current operation has been linearized
  exp : Nat := 0                   -- ghost: the specification's PUBLISH count at that point
  invAt : Nat := 0
  invLen : Nat := 0

structure St (n : Nat) where
  thr : Fin n → Thread
  table : Chan → Option Obj := fun _ => none
  subs : Obj → List Conn := fun _ => []
  next : Obj := 0
  tw : Option (Fin n) := none
  tr : List (Fin n) := []
  ow : Obj → Option (Fin n) := fun _ => none
  dead : Conn → Bool := fun _ => false
  log : Conn → List (Chan × Payload) := fun _ => []
  lin : List (LinEv n) := []
  och : Obj → Chan := fun _ => []
  clock : Nat := 0
  done : List (Rec n) := []

def upd {α β : Type} [DecidableEq α] (f : α → β) (a : α) (b : β) : α → β := fun x => if x = a then b else f x

@[simp] theorem upd_same {α β : Type} [DecidableEq α] (f : α → β) (a : α) (b : β) : upd f a b a = b := by simp [upd]
theorem upd_other {α β : Type} [DecidableEq α] (f : α → β) (a x : α) (b : β) (h : x ≠ a) : upd f a b x = f x := by simp [upd, h]

variable {n : Nat}

def absLin (l : List (LinEv n)) : List PubSub.Op := l.map (·.op)

/-- the sequential specification's PUBLISH count on `ch` after the linearization so far -/
def specCount (l : List (LinEv n)) (ch : Chan) : Nat := ((PubSub.run (absLin l)).subs.filter (fun p => p.1 = ch)).length

def tWFree (s : St n) : Prop := s.tw = none ∧ s.tr = []
def tRFree (s : St n) : Prop := s.tw = none ∧ ∀ u, waitsTW (s.thr u).pc = false

instance (s : St n) : Decidable (tWFree s) := by unfold tWFree; exact inferInstance
instance (s : St n) : Decidable (tRFree s) := by unfold tRFree; exact inferInstance

def setT (s : St n) (t : Fin n) (th : Thread) : St n := { s with thr := upd s.thr t th }

/-- the operation returns: back to idle, one record -/
def fin (s : St n) (t : Fin n) (th : Thread) (reply : Option Nat) : St n :=
  { s with
    thr := upd s.thr t { th with pc := .idle, k := th.k + 1, replies := th.replies ++ reply.toList }
    done := s.done ++ [⟨t, th.k, th.cur, reply, th.exp, th.invAt, th.invLen, s.clock, s.lin.length⟩] }

/-- a Send that has looked object `o` up and not yet locked it -/
def staleOn (o : Obj) (th : Thread) : Bool :=
  match th.pc with
  | .p2 (some o') => o' == o
  | .p3 o' => o' == o
  | _ => false

/-- the Sends linearized by the UnSubscribe that drops object `o` (helping) -/
def helped (s : St n) (o : Obj) : List (LinEv n) :=
  ((List.finRange n).filter (fun u => staleOn o (s.thr u))).map (fun u => ⟨some (u, (s.thr u).k), (s.thr u).cur.abs⟩)

/-- one step of thread `t`; `fail` = the outcome chosen for a `Write` (only consulted in the delivery loop) -/
def next0 (s : St n) (t : Fin n) (fail : Bool) : Option (St n) :=
  let th := s.thr t
  let ch := th.cur.chan
  match th.pc with
  | .idle =>
    match th.prog with
    | [] => none
    | op :: rest => some (setT s t { th with pc := entry op, cur := op, prog := rest, lpd := false, exp := 0,
                                             invAt := s.clock, invLen := s.lin.length })
  -- Subscribe
  | .s0 => if tWFree s then some { setT s t { th with pc := .s1 } with tw := some t } else none
  | .s1 =>
    match s.table ch with
    | some o => some (setT s t { th with pc := .s2 o })
    | none => some { setT s t { th with pc := .s2 s.next } with
                     table := upd s.table ch (some s.next), subs := upd s.subs s.next [], next := s.next + 1,
                     och := upd s.och s.next ch }
  | .s2 o => if s.ow o = none then some { setT s t { th with pc := .s3 o } with ow := upd s.ow o (some t) } else none
  | .s3 o =>
    some { setT s t { th with pc := .s4 o, lpd := true } with
           subs := if th.cur.conn ∈ s.subs o then s.subs else upd s.subs o (s.subs o ++ [th.cur.conn]),
           lin := s.lin ++ [⟨some (t, th.k), th.cur.abs⟩] }
  | .s4 o => some { setT s t { th with pc := .s5 } with ow := upd s.ow o none }
  | .s5 => some { fin s t th none with tw := none }
  -- UnSubscribe
  | .u0 => if tWFree s then some { setT s t { th with pc := .u1 } with tw := some t } else none
  | .u1 =>
    match s.table ch with
    | some o => some (setT s t { th with pc := .u2 o })
    | none => some { setT s t { th with pc := .u5, lpd := true } with lin := s.lin ++ [⟨some (t, th.k), th.cur.abs⟩] }
  | .u2 o => if s.ow o = none then some { setT s t { th with pc := .u3 o } with ow := upd s.ow o (some t) } else none
  | .u3 o =>
    some { setT s t { th with pc := .u3d o, lpd := true } with
           subs := upd s.subs o ((s.subs o).erase th.cur.conn),
           lin := s.lin ++ [⟨some (t, th.k), th.cur.abs⟩] }
  | .u3d o =>
    if s.subs o = [] then
      some { s with
             thr := fun u => if u = t then { th with pc := .u4 o }
                             else if staleOn o (s.thr u) then { s.thr u with lpd := true, exp := 0 } else s.thr u
             table := upd s.table ch none
             lin := s.lin ++ helped s o }
    else some (setT s t { th with pc := .u4 o })
  | .u4 o => some { setT s t { th with pc := .u5 } with ow := upd s.ow o none }
  | .u5 => some { fin s t th none with tw := none }
  -- Send
  | .p0 => if tRFree s then some { setT s t { th with pc := .p1 } with tr := t :: s.tr } else none
  | .p1 =>
    match s.table ch with
    | some o => some (setT s t { th with pc := .p2 (some o) })
    | none => some { setT s t { th with pc := .p2 none, lpd := true, exp := specCount s.lin ch } with
                     lin := s.lin ++ [⟨some (t, th.k), th.cur.abs⟩] }
  | .p2 none => some { fin s t th (some 0) with tr := s.tr.erase t }
  | .p2 (some o) => some { setT s t { th with pc := .p3 o } with tr := s.tr.erase t }
  | .p3 o => if s.ow o = none then some { setT s t { th with pc := .p4 o [] (s.subs o) } with ow := upd s.ow o (some t) } else none
  | .p4 o sent (c :: todo) =>
    if fail then
      if s.dead c then
        some { setT s t { th with pc := .p4 o sent todo } with
               subs := upd s.subs o ((s.subs o).erase c),
               lin := s.lin ++ [⟨none, .unsubscribe c ch⟩] }
      else none
    else some { setT s t { th with pc := .p4 o (sent ++ [c]) todo } with log := upd s.log c (s.log c ++ [(ch, th.cur.payload)]) }
  | .p4 o sent [] =>
    if th.lpd then some { fin s t th (some sent.length) with ow := upd s.ow o none }
    else
      let s1 : St n := { s with lin := s.lin ++ [⟨some (t, th.k), th.cur.abs⟩] }
      some { fin s1 t { th with lpd := true, exp := specCount s.lin ch } (some sent.length) with ow := upd s.ow o none }
  -- release (the seeded change; not part of the real code)
  | .r0 => if tRFree s then some { setT s t { th with pc := .r1 } with tr := t :: s.tr } else none
  | .r1 => some (setT s t { th with pc := .r2 (s.table ch) })
  | .r2 none => some { fin s t th none with tr := s.tr.erase t }
  | .r2 (some o) => some { setT s t { th with pc := .r3 o } with tr := s.tr.erase t }
  | .r3 o => if s.ow o = none then some { setT s t { th with pc := .r4 o } with ow := upd s.ow o (some t) } else none
  | .r4 o => if tWFree s then some { setT s t { th with pc := .r5 o } with tw := some t } else none
  | .r5 o => some { setT s t { th with pc := .r6 o } with table := if s.subs o = [] then upd s.table ch none else s.table }
  | .r6 o => some { setT s t { th with pc := .r7 o } with tw := none }
  | .r7 o => some { fin s t th none with ow := upd s.ow o none }

def next (s : St n) (t : Fin n) (fail : Bool) : Option (St n) :=
  (next0 s t fail).map (fun s' => { s' with clock := s.clock + 1 })

def init (progs : Fin n → List Op) : St n := { thr := fun t => { prog := progs t } }

inductive Step : St n → St n → Prop
| thr (s s' : St n) (t : Fin n) (fail : Bool) (h : next s t fail = some s') : Step s s'
| die (s : St n) (c : Conn) : Step s { s with dead := upd s.dead c true }

inductive Reach (progs : Fin n → List Op) : St n → Prop
| init : Reach progs (init progs)
| step (s s' : St n) : Reach progs s → Step s s' → Reach progs s'

/-- programs of the real code: no `release` -/
def Real (progs : Fin n → List Op) : Prop := ∀ t op, op ∈ progs t → op.real = true

def finished (th : Thread) : Prop := th.pc = .idle ∧ th.prog = []

/-- run a schedule of (thread, write outcome) choices; `none` if some chosen step is not enabled -/
def runSched (s : St n) : List (Fin n × Bool) → Option (St n)
| [] => some s
| (t, b) :: r => (next s t b).bind (runSched · r)

theorem reach_runSched (progs : Fin n → List Op) (sched : List (Fin n × Bool)) :
    ∀ s s', Reach progs s → runSched s sched = some s' → Reach progs s' := by
  induction sched with
  | nil => intro s s' hr h; simp [runSched] at h; subst h; exact hr
  | cons a r ih =>
    intro s s' hr h
    obtain ⟨t, b⟩ := a
    simp only [runSched] at h
    cases hn : next s t b with
    | none => simp [hn] at h
    | some s1 =>
      rw [hn] at h
      exact ih s1 s' (Reach.step s s1 hr (Step.thr s s1 t b hn)) h

/-- what connection `c` received on channel `ch`, in order -/
def chLog (s : St n) (c : Conn) (ch : Chan) : List Payload := ((s.log c).filter (fun p => p.1 = ch)).map (·.2)

end PSC
