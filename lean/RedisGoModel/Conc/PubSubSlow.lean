import RedisGoModel.Ds.PubSub
/-! # Pub/Sub with slow consumers: `ChanMap` Send / Subscribe / UnSubscribe with connection behaviour (property C19)

Core Lean only (linked into the driver: `Driver/PsSlow.lean` judges recorded histories with `PSS.Hist.judge`, which RUNS this model).

A layer beside `Conc/PubSubConc.lean` (`PSC`, the lock / unlock / read / write micro-steps of `/repo/memdb/pubsub_struct.go`, in which a write
to a subscriber is one atomic step that succeeds or fails).  Here the subscriber connections behave: every connection is
`ready | stalled | dead` (`CS`), and `Send`'s `c.Write(push)` — a `net.Conn` write WITHOUT deadline, which is what the code does — is

* to a `ready` connection: the message is delivered (one `Dlv` record: who, which operation, to whom, on which channel object, what),
* to a `dead` connection: the write fails, the connection is deleted from `conns` (pruned),
* to a `stalled` connection: NO STEP.  The sender sits in `pw o sent c rest` — inside `Write`, the channel object's lock held — until the
  environment makes `c` ready or dead.  The iteration order of Go's `range` over the `conns` map is the runtime's choice: the step `p4 → pw`
  takes the next connection as a parameter (`pick`, any connection still to visit); once inside `Write` the sender is committed to it.

Environment steps `stall c` (ready → stalled), `resume c` (stalled → ready), `die c` (anything → dead) are enabled at any time.

Granularity: one step per BLOCKING POINT of the code (PSC has the finer one and proves the lock discipline that justifies merging: accesses
under a held lock commute with the other threads' steps, an unlock never blocks):

  `Subscribe`   s0 `m.rw.Lock()`, lookup-or-create ·  s2 `channel.rw.Lock()`, scan + join, both unlocks ·  sc the confirmation is written
                (`memdb/pubsub.go` `subscribe` returns it AFTER `m.SubChans.Subscribe`; the connection loop writes it)
  `UnSubscribe` u0 `m.rw.Lock()`, lookup (absent: unlock, return) ·  u2 `channel.rw.Lock()`, delete, drop the table entry when empty, both unlocks
  `Send`        p0 `m.rw.RLock()`, lookup, `RUnlock` (absent: return 0) ·  p3 `channel.rw.Lock()`; `range` starts over the members of this moment ·
                p4 next connection ·  pw `c.Write` ·  p4 with nothing left: `Unlock`, return the number of successful writes
  `subscribeEarly`  NOT in the code — the seeded change `C19-subscribe-confirm-before-join`: e0 the confirmation is written FIRST, then s0, s2.

The table read lock is never held across a step, so the table lock has a writer only (`tw`); `RLock` needs `tw = none` (a waiting writer only
waits while `tw ≠ none`, so Go's writer preference adds nothing at this granularity).

Ghost (never read by a guard): `pub o` — the payloads of the Sends that locked object `o`, in lock order (= publish order on that channel object);
`since o c` — the length of `pub o` when `c` joined `o` last; `got o c` — what `c` received on `o` since it joined last; `confirmed c ch` /
`left c ch` — a confirmation for (c, ch) has been written / c was removed from ch (own UnSubscribe or prune) since its last join; `och`; `done`. -/
namespace PSS
open PubSub (Chan Conn Payload)

abbrev Obj := Nat

inductive CS | ready | stalled | dead
deriving DecidableEq, Repr

inductive Op
| subscribe (c : Conn) (ch : Chan)
| unsubscribe (c : Conn) (ch : Chan)
| send (ch : Chan) (m : Payload)
| subscribeEarly (c : Conn) (ch : Chan)
deriving DecidableEq, Repr

def Op.chan : Op → Chan
| .subscribe _ ch => ch
| .unsubscribe _ ch => ch
| .send ch _ => ch
| .subscribeEarly _ ch => ch

def Op.conn : Op → Conn
| .subscribe c _ => c
| .unsubscribe c _ => c
| .subscribeEarly c _ => c
| .send _ _ => 0

def Op.payload : Op → Payload
| .send _ m => m
| _ => []

def Op.real : Op → Bool
| .subscribeEarly _ _ => false
| _ => true

def Op.early : Op → Bool
| .subscribeEarly _ _ => true
| _ => false

inductive Pc
| idle
| e0 | s0 | s2 (o : Obj) | sc
| u0 | u2 (o : Obj)
| p0 | p3 (o : Obj) | p4 (o : Obj) (sent todo : List Conn) | pw (o : Obj) (sent : List Conn) (c : Conn) (rest : List Conn)
deriving DecidableEq, Repr

def entry : Op → Pc
| .subscribe _ _ => .s0
| .unsubscribe _ _ => .u0
| .send _ _ => .p0
| .subscribeEarly _ _ => .e0

/-- one successful `Write`: thread `tid`'s operation number `k` delivered `m` to connection `c` through channel object `o` -/
structure Dlv (n : Nat) where
  tid : Fin n
  k : Nat
  c : Conn
  o : Obj
  m : Payload

/-- record of a completed operation -/
structure Rec (n : Nat) where
  tid : Fin n
  k : Nat
  op : Op
  reply : Option Nat

structure Thread where
  pc : Pc := .idle
  cur : Op := .send [] []          -- the operation being executed (meaningful when pc ≠ idle)
  prog : List Op := []             -- operations still to run
  k : Nat := 0                     -- number of completed operations

structure St (n : Nat) where
  thr : Fin n → Thread
  table : Chan → Option Obj := fun _ => none
  subs : Obj → List Conn := fun _ => []
  next : Obj := 0
  tw : Option (Fin n) := none
  ow : Obj → Option (Fin n) := fun _ => none
  cs : Conn → CS := fun _ => .ready
  dlv : List (Dlv n) := []
  pub : Obj → List Payload := fun _ => []
  since : Obj → Conn → Nat := fun _ _ => 0
  got : Obj → Conn → List Payload := fun _ _ => []
  confirmed : Conn → Chan → Bool := fun _ _ => false
  left : Conn → Chan → Bool := fun _ _ => false
  och : Obj → Chan := fun _ => []
  done : List (Rec n) := []

def upd {α β : Type} [DecidableEq α] (f : α → β) (a : α) (b : β) : α → β := fun x => if x = a then b else f x

@[simp] theorem upd_same {α β : Type} [DecidableEq α] (f : α → β) (a : α) (b : β) : upd f a b a = b := by simp [upd]
theorem upd_other {α β : Type} [DecidableEq α] (f : α → β) (a x : α) (b : β) (h : x ≠ a) : upd f a b x = f x := by simp [upd, h]

def upd2 {α β γ : Type} [DecidableEq α] [DecidableEq β] (f : α → β → γ) (a : α) (b : β) (v : γ) : α → β → γ :=
  fun x y => if x = a ∧ y = b then v else f x y

@[simp] theorem upd2_same {α β γ : Type} [DecidableEq α] [DecidableEq β] (f : α → β → γ) (a : α) (b : β) (v : γ) : upd2 f a b v a b = v := by
  simp [upd2]
theorem upd2_other {α β γ : Type} [DecidableEq α] [DecidableEq β] (f : α → β → γ) (a x : α) (b y : β) (v : γ) (h : ¬ (x = a ∧ y = b)) :
    upd2 f a b v x y = f x y := by simp [upd2, h]

variable {n : Nat}

def setT (s : St n) (t : Fin n) (th : Thread) : St n := { s with thr := upd s.thr t th }

/-- the operation returns: back to idle, one record -/
def fin (s : St n) (t : Fin n) (th : Thread) (reply : Option Nat) : St n :=
  { s with
    thr := upd s.thr t { th with pc := .idle, k := th.k + 1 }
    done := s.done ++ [⟨t, th.k, th.cur, reply⟩] }

/-- one step of thread `t`; `pick` = the connection Go's `range` yields next (only consulted at `p4` with connections left) -/
def next0 (s : St n) (t : Fin n) (pick : Conn) : Option (St n) :=
  let th := s.thr t
  let ch := th.cur.chan
  let c := th.cur.conn
  match th.pc with
  | .idle =>
    match th.prog with
    | [] => none
    | op :: rest => some (setT s t { th with pc := entry op, cur := op, prog := rest })
  -- the seeded order: confirmation first
  | .e0 => some { setT s t { th with pc := .s0 } with confirmed := upd2 s.confirmed c ch true }
  -- Subscribe
  | .s0 =>
    if s.tw = none then
      match s.table ch with
      | some o => some { setT s t { th with pc := .s2 o } with tw := some t }
      | none => some { setT s t { th with pc := .s2 s.next } with
                       tw := some t, table := upd s.table ch (some s.next), subs := upd s.subs s.next [], next := s.next + 1,
                       och := upd s.och s.next ch }
    else none
  | .s2 o =>
    if s.ow o = none then
      let s1 : St n :=
        { s with
          tw := none
          subs := if c ∈ s.subs o then s.subs else upd s.subs o (s.subs o ++ [c])
          since := if c ∈ s.subs o then s.since else upd2 s.since o c (s.pub o).length
          got := if c ∈ s.subs o then s.got else upd2 s.got o c []
          left := upd2 s.left c ch false }
      if th.cur.early then some (fin s1 t th none) else some (setT s1 t { th with pc := .sc })
    else none
  | .sc => some (fin { s with confirmed := upd2 s.confirmed c ch true } t th none)
  -- UnSubscribe
  | .u0 =>
    if s.tw = none then
      match s.table ch with
      | none => some (fin s t th none)
      | some o => some { setT s t { th with pc := .u2 o } with tw := some t }
    else none
  | .u2 o =>
    if s.ow o = none then
      some (fin { s with
                  tw := none
                  subs := upd s.subs o ((s.subs o).erase c)
                  left := if c ∈ s.subs o then upd2 s.left c ch true else s.left
                  table := if (s.subs o).erase c = [] then upd s.table ch none else s.table } t th none)
    else none
  -- Send
  | .p0 =>
    if s.tw = none then
      match s.table ch with
      | none => some (fin s t th (some 0))
      | some o => some (setT s t { th with pc := .p3 o })
    else none
  | .p3 o =>
    if s.ow o = none then
      some { setT s t { th with pc := .p4 o [] (s.subs o) } with
             ow := upd s.ow o (some t), pub := upd s.pub o (s.pub o ++ [th.cur.payload]) }
    else none
  | .p4 o sent [] => some (fin { s with ow := upd s.ow o none } t th (some sent.length))
  | .p4 o sent (c0 :: todo) =>
    if pick ∈ c0 :: todo then some (setT s t { th with pc := .pw o sent pick ((c0 :: todo).erase pick) }) else none
  | .pw o sent c' rest =>
    match s.cs c' with
    | .ready =>
      some { setT s t { th with pc := .p4 o (sent ++ [c']) rest } with
             dlv := s.dlv ++ [⟨t, th.k, c', o, th.cur.payload⟩]
             got := upd2 s.got o c' (s.got o c' ++ [th.cur.payload]) }
    | .stalled => none
    | .dead =>
      some { setT s t { th with pc := .p4 o sent rest } with
             subs := upd s.subs o ((s.subs o).erase c')
             left := upd2 s.left c' ch true }

inductive Env
| stall (c : Conn) | resume (c : Conn) | die (c : Conn)
deriving DecidableEq, Repr

/-- an environment step (the peer of a connection stops reading / reads again / goes away) -/
def env (s : St n) : Env → St n
| .stall c => if s.cs c = .ready then { s with cs := upd s.cs c .stalled } else s
| .resume c => if s.cs c = .stalled then { s with cs := upd s.cs c .ready } else s
| .die c => { s with cs := upd s.cs c .dead }

def init (progs : Fin n → List Op) : St n := { thr := fun t => { prog := progs t } }

inductive Step : St n → St n → Prop
| thr (s s' : St n) (t : Fin n) (pick : Conn) (h : next0 s t pick = some s') : Step s s'
| env (s : St n) (e : Env) : Step s (env s e)

inductive Reach (progs : Fin n → List Op) : St n → Prop
| init : Reach progs (init progs)
| step (s s' : St n) : Reach progs s → Step s s' → Reach progs s'

/-- programs of the real code: no `subscribeEarly` -/
def Real (progs : Fin n → List Op) : Prop := ∀ t op, op ∈ progs t → op.real = true

/-- schedule entries: a thread step (with the `range` choice) or an environment step -/
inductive Act (n : Nat)
| thr (t : Fin n) (pick : Conn)
| env (e : Env)

/-- apply a schedule entry; a thread step that is not enabled leaves the state unchanged (the thread waits) -/
def act (s : St n) : Act n → St n
| .thr t p => (next0 s t p).getD s
| .env e => env s e

/-- the run of an infinite schedule -/
def stateAt (s0 : St n) (sched : Nat → Act n) : Nat → St n
| 0 => s0
| i + 1 => act (stateAt s0 sched i) (sched i)

/-- run a finite schedule; `none` if some chosen thread step is not enabled -/
def runSched (s : St n) : List (Act n) → Option (St n)
| [] => some s
| .thr t p :: r => (next0 s t p).bind (runSched · r)
| .env e :: r => runSched (env s e) r

theorem reach_runSched (progs : Fin n → List Op) (sched : List (Act n)) :
    ∀ s s', Reach progs s → runSched s sched = some s' → Reach progs s' := by
  induction sched with
  | nil => intro s s' hr h; simp [runSched] at h; subst h; exact hr
  | cons a r ih =>
    intro s s' hr h
    cases a with
    | thr t p =>
      simp only [runSched] at h
      cases hn : next0 s t p with
      | none => simp [hn] at h
      | some s1 =>
        rw [hn] at h
        exact ih s1 s' (Reach.step s s1 hr (Step.thr s s1 t p hn)) h
    | env e =>
      simp only [runSched] at h
      exact ih _ s' (Reach.step s _ hr (Step.env s e)) h

/-- what connection `c` received through channel object `o`, in order (the observable: derived from the delivery records) -/
def recv (s : St n) (c : Conn) (o : Obj) : List Payload := ((s.dlv.filter (fun d => d.c = c ∧ d.o = o)).map (·.m))

/-- everything connection `c` received, in order -/
def recvAll (s : St n) (c : Conn) : List Payload := ((s.dlv.filter (fun d => d.c = c)).map (·.m))

/-- number of successful writes of thread `t`'s operation number `k` -/
def delivered (s : St n) (t : Fin n) (k : Nat) : Nat := (s.dlv.filter (fun d => d.tid = t ∧ d.k = k)).length

/-- the connections a Send in its delivery loop has still to visit (the one it is writing to included) -/
def pending : Pc → List Conn
| .p4 _ _ todo => todo
| .pw _ _ c rest => c :: rest
| _ => []

/-- the thread is in the delivery loop of a Send on object `o` (it holds `o`'s lock) -/
def inLoop (o : Obj) : Pc → Bool
| .p4 o' _ _ => o' == o
| .pw o' _ _ _ => o' == o
| _ => false

/-! ## Judging a recorded history with the model (driver engine `PSH`)

The `pubsub-stall` scenario of the harness records what happened, in real-time order, on ONE channel: `sub c` (connection `c` has read its
SUBSCRIBE confirmation), `stall c` / `resume c` / `close c` (the client stopped reading / reads again / closed), `pubStart m` (PUBLISH written),
`pubEnd m r` (its reply `:r` read), `holds c ms` (at the end `c` holds exactly the payloads `ms`, in this order).  `judge` replays it ON THE MODEL
(one server goroutine at a time: the scenario is sequential apart from the environment): the environment events are the model's `env` steps, a
command is appended to the thread's program and the thread runs until it is idle or has no enabled step.  A reply while the model's Send sits in
`Write` on a stalled connection, a reply other than the model's, a confirmation without membership, holdings other than the model's delivery
records: refused. -/
namespace Hist

inductive HEv
| sub (c : Conn)
| stall (c : Conn) | resume (c : Conn) | close (c : Conn)
| pubStart (m : Payload)
| pubEnd (m : Payload) (reply : Nat)
| holds (c : Conn) (ms : List Payload)
deriving Repr

def chan : Chan := [115]

def pickOf : Pc → Conn
| .p4 _ _ (c :: _) => c
| _ => 0

def t0 : Fin 1 := 0

def quiet (s : St 1) : Bool := decide ((s.thr t0).pc = .idle) && (s.thr t0).prog.isEmpty

/-- run the server goroutine until it is idle with nothing to do, or has no enabled step (blocked in `Write`) -/
def runT : Nat → St 1 → St 1
| 0, s => s
| f + 1, s =>
  if quiet s then s else
    match next0 s t0 (pickOf (s.thr t0).pc) with
    | none => s
    | some s' => runT f s'

def fuel : Nat := 100000

def push (s : St 1) (op : Op) : St 1 := setT s t0 { s.thr t0 with prog := (s.thr t0).prog ++ [op] }

def blockedOn (s : St 1) : String :=
  match (s.thr t0).pc with
  | .pw _ _ c _ => s!"the model's Send is inside Write on connection {c}, which is not reading, and holds the channel lock: no reply is possible before it reads again or closes"
  | _ => "the model's server goroutine has not finished the previous command"

def lastReply (s : St 1) : Option Nat := (s.done.getLast?).bind (·.reply)

def stepEv (s : St 1) : HEv → Except String (St 1)
| .sub c =>
  if !quiet s then .error (blockedOn s) else
    let s' := runT fuel (push s (.subscribe c chan))
    if !quiet s' then .error (blockedOn s')
    else if s'.confirmed c chan && (match s'.table chan with | some o => decide (c ∈ s'.subs o) | none => false) then .ok s'
    else .error s!"connection {c}: confirmation without membership"
| .stall c => .ok (runT fuel (env s (.stall c)))
| .resume c => .ok (runT fuel (env s (.resume c)))
| .close c => .ok (runT fuel (env s (.die c)))
| .pubStart m =>
  if !quiet s then .error (blockedOn s) else .ok (runT fuel (push s (.send chan m)))
| .pubEnd _ r =>
  let s' := runT fuel s
  if !quiet s' then .error (blockedOn s')
  else if lastReply s' = some r then .ok s'
  else .error s!"PUBLISH answered :{r}, the model's Send returns {repr (lastReply s')}"
| .holds c ms =>
  if recvAll s c = ms then .ok s
  else .error s!"connection {c} holds {(ms.length)} message(s) in an order or number that is not the model's delivery record ({(recvAll s c).length} message(s))"

def judgeFrom (s : St 1) : List HEv → Except String (St 1)
| [] => .ok s
| e :: r => match stepEv s e with
  | .error m => .error m
  | .ok s' => judgeFrom s' r

/-- the history is one the model produces -/
def judge (h : List HEv) : Except String Unit :=
  match judgeFrom (init (fun _ => [])) h with
  | .error m => .error m
  | .ok s => if quiet s then .ok () else .error (blockedOn s)

end Hist

end PSS
