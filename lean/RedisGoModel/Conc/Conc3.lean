import RedisGoModel.Conc.Conc2
/-! Second corollary of the generic atomicity theorem, again in the property's words: of any number of concurrent
    SETNX on a missing key exactly one wins, and the key holds the winner's value. (0 encodes "missing".) -/
namespace Cc

/-- `SETNX k v`: one write-locked block; writes only if the key is missing; replies 1 or 0 -/
def setnx (k : Key) (v : Nat) : Prog Nat :=
  .block .W [k] (fun s => if s k = 0 then [(k, v)] else []) (fun s => .done (if s k = 0 then 1 else 0))

theorem setnx_disciplined (k : Key) (v : Nat) : Disciplined (setnx k v) := by
  refine .block _ _ _ _ ?_ ?_ (fun s => .done _)
  · intro s s' h
    have := h k (by simp)
    simp [this]
  · intro s kv h
    split at h
    · simp at h; subst h; simp
    · simp at h

structure NxInv {n : Nat} (k : Key) (v : Fin n → Nat) (a : Abs Nat Nat (Prog Nat) n) : Prop where
  shape : ∀ i, a.pr i = setnx k (v i) ∨ ∃ r, a.pr i = .done r
  state : (a.db k = 0 ∧ ∀ i, a.pr i = setnx k (v i)) ∨
          (∃ w, a.db k = v w ∧ a.pr w = .done 1 ∧ ∀ i, i ≠ w → a.pr i = setnx k (v i) ∨ a.pr i = .done 0)

theorem nx_step {n : Nat} (k : Key) (v : Fin n → Nat) (hv : ∀ i, v i ≠ 0) (a : Abs Nat Nat (Prog Nat) n) (h : NxInv k v a) (i : Fin n) :
    NxInv k v (absStep view a (some i)) := by
  rcases h.shape i with hi | ⟨r, hi⟩
  · have hview : view (a.pr i) = some ⟨.W, [k], (fun s => if s k = 0 then [(k, v i)] else []),
        (fun s => .done (if s k = 0 then 1 else 0))⟩ := by rw [hi]; rfl
    have habs : absStep view a (some i) =
        ⟨applyWrites a.db (if a.db k = 0 then [(k, v i)] else []), setT a.pr i (.done (if a.db k = 0 then 1 else 0))⟩ := by
      simp [absStep, hview]
    rw [habs]
    rcases h.state with ⟨h0, hall⟩ | ⟨w, hw, hwd, hoth⟩
    · -- first one: it wins
      simp only [h0, if_true]
      refine ⟨fun j => ?_, Or.inr ⟨i, by simp [applyWrites, pendVal], by simp, fun j hj => ?_⟩⟩
      · by_cases hj : j = i
        · subst hj; exact Or.inr ⟨1, by simp⟩
        · simp only [setT_other _ _ hj]; exact Or.inl (hall j)
      · simp only [setT_other _ _ hj]; exact Or.inl (hall j)
    · have hne : a.db k ≠ 0 := by rw [hw]; exact hv w
      have hiw : i ≠ w := fun e => by subst e; rw [hi] at hwd; cases hwd
      simp only [hne, if_false]
      refine ⟨fun j => ?_, Or.inr ⟨w, by simp [applyWrites, pendVal, hw], by simp [setT_other _ _ (Ne.symm hiw), hwd], fun j hj => ?_⟩⟩
      · by_cases hj : j = i
        · subst hj; exact Or.inr ⟨0, by simp⟩
        · simp only [setT_other _ _ hj]; exact h.shape j
      · by_cases hji : j = i
        · subst hji; right; simp
        · simp only [setT_other _ _ hji]; exact hoth j hj
  · have : absStep view a (some i) = a := by simp [absStep, hi, view]
    rw [this]; exact h

theorem nx_run {n : Nat} (k : Key) (v : Fin n → Nat) (hv : ∀ i, v i ≠ 0) (tr : List (Fin n)) :
    ∀ a : Abs Nat Nat (Prog Nat) n, NxInv k v a → NxInv k v (absRun view a tr) := by
  induction tr with
  | nil => intro a h; exact h
  | cons i r ih => intro a h; exact ih _ (nx_step k v hv a h i)

/-- **SETNX has exactly one winner**: `n ≥ 1` clients run `SETNX k vᵢ` on a missing key under any interleaving; once
    all have their reply, exactly one reply is 1, all others are 0, and the key holds the winner's value -/
theorem setnx_one_winner {n : Nat} (k : Key) (db : Key → Nat) (hmiss : db k = 0) (v : Fin n → Nat) (hv : ∀ i, v i ≠ 0)
    (i0 : Fin n) {c' : Conc Nat Nat (Prog Nat) n} {tr}
    (e : Exec view ⟨db, fun i => .idle (setnx k (v i))⟩ tr c') (reply : Fin n → Nat)
    (hq : ∀ i, c'.th i = .idle (.done (reply i))) :
    ∃ w, reply w = 1 ∧ c'.db k = v w ∧ ∀ i, i ≠ w → reply i = 0 := by
  have hat := atomicity closed db (fun i => setnx k (v i)) (fun i => setnx_disciplined k (v i)) e (fun i => .done (reply i)) hq
  have h0 : NxInv k v (⟨db, fun i => setnx k (v i)⟩ : Abs Nat Nat (Prog Nat) n) :=
    ⟨fun i => Or.inl rfl, Or.inl ⟨hmiss, fun i => rfl⟩⟩
  have h := nx_run k v hv tr _ h0
  obtain ⟨hdb, hpr⟩ := hat
  rcases h.state with ⟨_, hall⟩ | ⟨w, hw, hwd, hoth⟩
  · have := hall i0
    rw [hpr] at this
    simp [setnx] at this
  · refine ⟨w, ?_, by rw [← hdb]; exact hw, fun i hi => ?_⟩
    · rw [hpr] at hwd; simpa using hwd
    · rcases hoth i hi with h1 | h1
      · rw [hpr] at h1; simp [setnx] at h1
      · rw [hpr] at h1; simpa using h1

#print axioms setnx_one_winner
end Cc
