import Mathlib.Data.Finset.Max
import Mathlib.Data.Fintype.Basic
/-! Prototype for C13: ordered acquisition ⇒ deadlock freedom, Go RWMutex with writer preference. Core Lean only. -/
namespace DL

inductive Mode | R | W deriving DecidableEq

/-- a thread is between blocks (`idle`), acquiring the stripes of a block in ascending order, or
    holding all of them (then it releases everything; releases are never blocked). -/
inductive Phase
| idle
| acquiring (m : Mode) (held : List Nat) (todo : List Nat)     -- todo ≠ []
| holding   (m : Mode) (held : List Nat)

structure Thread where
  phase : Phase
  prog  : List (Mode × List Nat)     -- remaining blocks

variable {n : Nat}
abbrev Sys (n : Nat) := Fin n → Thread

def holds (t : Thread) (m : Mode) (p : Nat) : Prop :=
  match t.phase with
  | .idle => False
  | .acquiring m' held _ => m' = m ∧ p ∈ held
  | .holding m' held => m' = m ∧ p ∈ held

def waitsW (t : Thread) (p : Nat) : Prop :=
  match t.phase with
  | .acquiring .W _ (q :: _) => q = p
  | _ => False

def canAcquire (s : Sys n) (i : Fin n) (m : Mode) (p : Nat) : Prop :=
  match m with
  | .W => ∀ j, j ≠ i → ¬ holds (s j) .R p ∧ ¬ holds (s j) .W p
  | .R => ∀ j, j ≠ i → ¬ holds (s j) .W p ∧ ¬ waitsW (s j) p

def set (s : Sys n) (i : Fin n) (t : Thread) : Sys n := fun j => if j = i then t else s j

inductive Step : Sys n → Sys n → Prop
| start (s : Sys n) (i : Fin n) (m) (ps rest) (h : s i = ⟨.idle, (m, ps) :: rest⟩) (hne : ps ≠ []) :
    Step s (set s i ⟨.acquiring m [] ps, rest⟩)
| acquire (s : Sys n) (i : Fin n) (m held p todo prog) (h : s i = ⟨.acquiring m held (p :: todo), prog⟩)
    (hc : canAcquire s i m p) :
    Step s (set s i ⟨(match todo with | [] => .holding m (p :: held) | _ => .acquiring m (p :: held) todo), prog⟩)
| release (s : Sys n) (i : Fin n) (m held prog) (h : s i = ⟨.holding m held, prog⟩) :
    Step s (set s i ⟨.idle, prog⟩)

def finished (t : Thread) : Prop := t.phase = .idle ∧ t.prog = []

/-- discipline: every block's stripe list is strictly ascending and non-empty -/
def Asc : List Nat → Prop
| [] => True
| [_] => True
| a :: b :: r => a < b ∧ Asc (b :: r)

/-- state invariant: while acquiring, everything held is below everything still to do, and todo is ascending -/
def ThreadOk (t : Thread) : Prop :=
  (∀ b ∈ t.prog, b.2 ≠ [] ∧ Asc b.2) ∧
  match t.phase with
  | .idle => True
  | .acquiring _ held todo => todo ≠ [] ∧ Asc todo ∧ ∀ h ∈ held, ∀ q ∈ todo, h < q
  | .holding _ _ => True

theorem asc_head_lt {a : Nat} {l : List Nat} (h : Asc (a :: l)) : ∀ q ∈ l, a < q := by
  induction l generalizing a with
  | nil => intro q hq; cases hq
  | cons b r ih =>
    intro q hq
    obtain ⟨hab, hr⟩ := h
    rcases List.mem_cons.1 hq with rfl | hq
    · exact hab
    · exact Nat.lt_trans hab (ih hr q hq)

/-- the stripe a thread is blocked on, if any -/
def want (t : Thread) : Option Nat :=
  match t.phase with
  | .acquiring _ _ (p :: _) => some p
  | _ => none

theorem progress (s : Sys n) (hok : ∀ i, ThreadOk (s i)) (hnf : ∃ i, ¬ finished (s i)) :
    ∃ s', Step s s' := by
  classical
  -- if some thread is idle with work, or holding, it can step
  by_cases h1 : ∃ i, (∃ m ps rest, s i = ⟨.idle, (m, ps) :: rest⟩) ∨ (∃ m held prog, s i = ⟨.holding m held, prog⟩)
  · obtain ⟨i, h | h⟩ := h1
    · obtain ⟨m, ps, rest, h⟩ := h
      have := (hok i).1 (m, ps) (by rw [h]; simp)
      exact ⟨_, Step.start s i m ps rest h this.1⟩
    · obtain ⟨m, held, prog, h⟩ := h
      exact ⟨_, Step.release s i m held prog h⟩
  · -- every unfinished thread is acquiring; pick one wanting the maximal stripe
    have hacq : ∀ i, ¬ finished (s i) → ∃ m held p todo prog, s i = ⟨.acquiring m held (p :: todo), prog⟩ := by
      intro i hi
      rcases hsi : s i with ⟨ph, prog⟩
      cases ph with
      | idle =>
        cases prog with
        | nil => exact absurd (by simp [finished, hsi]) hi
        | cons b rest => exact absurd ⟨i, Or.inl ⟨b.1, b.2, rest, by simp [hsi]⟩⟩ h1
      | holding m held => exact absurd ⟨i, Or.inr ⟨m, held, prog, hsi⟩⟩ h1
      | acquiring m held todo =>
        have := (hok i).2
        rw [hsi] at this
        cases todo with
        | nil => exact absurd rfl this.1
        | cons p todo => exact ⟨m, held, p, todo, prog, rfl⟩
    -- key: 2*stripe + (1 if the request is for W); maximise it over waiting threads
    let key : Fin n → Nat := fun i =>
      match (s i).phase with
      | .acquiring .W _ (p :: _) => 2 * p + 1
      | .acquiring .R _ (p :: _) => 2 * p
      | _ => 0
    let Wt : Finset (Fin n) := Finset.univ.filter fun i => ¬ finished (s i)
    have hW : Wt.Nonempty := by
      obtain ⟨i, hi⟩ := hnf
      exact ⟨i, by simp [Wt, hi]⟩
    obtain ⟨i, hiW, hmax⟩ := Finset.exists_max_image Wt key hW
    have hi_nf : ¬ finished (s i) := by simpa [Wt] using hiW
    obtain ⟨m, held, p, todo, prog, hsi⟩ := hacq i hi_nf
    refine ⟨_, Step.acquire s i m held p todo prog hsi ?_⟩
    have keyi : key i = 2 * p + (if m = .W then 1 else 0) := by
      cases m <;> simp [key, hsi]
    -- nobody else holds p
    have noholder : ∀ j, j ≠ i → ∀ m', ¬ holds (s j) m' p := by
      intro j hji m' hh
      have hjnf : ¬ finished (s j) := by
        intro hf; simp [holds, hf.1] at hh
      obtain ⟨mj, heldj, pj, todoj, progj, hsj⟩ := hacq j hjnf
      have hokj := (hok j).2
      rw [hsj] at hokj
      simp only [holds, hsj] at hh
      have hlt : p < pj := hokj.2.2 p hh.2 pj (by simp)
      have hjW : j ∈ Wt := by simp [Wt, hjnf]
      have h2 := hmax j hjW
      have keyj : 2 * pj ≤ key j := by cases mj <;> simp [key, hsj]
      rw [keyi] at h2
      split at h2 <;> omega
    cases m with
    | W => intro j hji; exact ⟨noholder j hji .R, noholder j hji .W⟩
    | R =>
      intro j hji
      refine ⟨noholder j hji .W, ?_⟩
      intro hw
      -- a writer waiting on p has a strictly larger key
      rcases hsj : s j with ⟨ph, progj⟩
      rw [hsj] at hw
      cases ph with
      | idle => simp [waitsW] at hw
      | holding _ _ => simp [waitsW] at hw
      | acquiring mj heldj todoj =>
        cases mj with
        | R => simp [waitsW] at hw
        | W =>
          cases todoj with
          | nil => simp [waitsW] at hw
          | cons q r =>
            simp [waitsW] at hw
            subst hw
            have hjnf : ¬ finished (s j) := by simp [finished, hsj]
            have hjW : j ∈ Wt := by simp [Wt, hjnf]
            have h2 := hmax j hjW
            have : key j = 2 * q + 1 := by simp [key, hsj]
            rw [keyi, this] at h2
            simp at h2
            omega

#print axioms progress
end DL
