/-! Prototype for C07: raftexample's entriesToApply / publishEntries deliver every committed index exactly once, in
    order, however the Ready batches overlap. Entries are identified by their log index. -/
namespace Apply

/-- a batch of committed entries: indexes f, f+1, …, f+n-1 -/
def batch (f n : Nat) : List Nat := (List.range n).map (f + ·)

/-- `entriesToApply` (uint64 arithmetic `appliedIndex - firstIdx + 1`, valid because firstIdx ≤ appliedIndex+1) -/
def entriesToApply (f n applied : Nat) : List Nat :=
  if n = 0 then [] else if applied + 1 - f < n then (batch f n).drop (applied + 1 - f) else []

/-- `publishEntries`: hand the entries to the state machine and move `appliedIndex` to the last one -/
def publish (st : List Nat × Nat) (b : Nat × Nat) : List Nat × Nat :=
  let ents := entriesToApply b.1 b.2 st.2
  (st.1 ++ ents, if ents = [] then st.2 else b.1 + b.2 - 1)

/-- etcd's contract for a Ready: committed entries are contiguous and start no later than applied+1 (log.Fatalf otherwise) -/
def Ok (applied : Nat) (b : Nat × Nat) : Prop := 1 ≤ b.1 ∧ b.1 ≤ applied + 1

theorem batch_drop (f n k : Nat) (hk : k ≤ n) : (batch f n).drop k = batch (f + k) (n - k) := by
  unfold batch
  apply List.ext_getElem
  · simp
  · intro i h1 h2
    simp at h1 h2 ⊢
    omega

theorem batch_append (f n m : Nat) : batch f n ++ batch (f + n) m = batch f (n + m) := by
  unfold batch
  apply List.ext_getElem
  · simp
  · intro i h1 h2
    simp at h1 h2
    by_cases hi : i < n
    · rw [List.getElem_append_left (by simpa using hi)]; simp
    · rw [List.getElem_append_right (by simpa using hi)]; simp; omega

/-- one batch: what is published is exactly the not-yet-applied tail, and applied moves to the batch end (or stays) -/
theorem publish_spec (out : List Nat) (a : Nat) (b : Nat × Nat) (hok : Ok a b) :
    let a' := max a (b.1 + b.2 - 1)
    publish (out, a) b = (out ++ batch (a + 1) (a' - a), a') := by
  obtain ⟨f, n⟩ := b
  obtain ⟨h1, h2⟩ := hok
  simp only [publish, entriesToApply]
  by_cases hn : n = 0
  · subst hn
    have h2' : f ≤ a + 1 := h2
    have : max a (f - 1) = a := by omega
    simp [this, batch]
  · simp only [hn, if_false]
    by_cases hlt : a + 1 - f < n
    · have hmax : max a (f + n - 1) = f + n - 1 := by omega
      simp only [hlt, if_true, hmax]
      rw [batch_drop f n (a + 1 - f) (by omega)]
      have e1 : f + (a + 1 - f) = a + 1 := by omega
      have e2 : n - (a + 1 - f) = f + n - 1 - a := by omega
      rw [e1, e2]
      have hne : batch (a + 1) (f + n - 1 - a) ≠ [] := by
        have : 0 < f + n - 1 - a := by omega
        intro e
        have := congrArg List.length e
        simp [batch] at this; omega
      simp [hne]
    · have hmax : max a (f + n - 1) = a := by omega
      simp [hlt, hmax, batch]

/-- **exactly once, in order**: after any sequence of well-formed batches, what reached the state machine is the
    contiguous range (a₀, a] with no gap and no repeat -/
theorem apply_exactly_once (bs : List (Nat × Nat)) : ∀ (out : List Nat) (a₀ a : Nat), a₀ ≤ a → out = batch (a₀ + 1) (a - a₀) →
    (∀ b ∈ bs, 1 ≤ b.1) →
    -- every batch starts no later than the then-current applied+1 (checked along the fold)
    (∀ (pre : List (Nat × Nat)) (b : Nat × Nat) (post : List (Nat × Nat)), bs = pre ++ b :: post →
        b.1 ≤ (pre.foldl publish (out, a)).2 + 1) →
    let r := bs.foldl publish (out, a)
    a ≤ r.2 ∧ r.1 = batch (a₀ + 1) (r.2 - a₀) := by
  induction bs with
  | nil => intro out a₀ a h1 h2 _ _; exact ⟨Nat.le_refl _, h2⟩
  | cons b r ih =>
    intro out a₀ a h1 h2 hpos hok
    have hb : Ok a b := ⟨hpos b (by simp), by simpa using hok [] b r rfl⟩
    simp only [List.foldl_cons]
    rw [publish_spec out a b hb]
    have hsp := publish_spec out a b hb
    have ha : a ≤ max a (b.1 + b.2 - 1) := Nat.le_max_left _ _
    generalize max a (b.1 + b.2 - 1) = a' at ha hsp ⊢
    have hout : out ++ batch (a + 1) (a' - a) = batch (a₀ + 1) (a' - a₀) := by
      rw [h2]
      have : a₀ + 1 + (a - a₀) = a + 1 := by omega
      rw [← this, batch_append]
      congr 1; omega
    have := ih (out ++ batch (a + 1) (a' - a)) a₀ a' (by omega) hout (fun x hx => hpos x (by simp [hx]))
      (by
        intro pre x post e
        have := hok (b :: pre) x post (by simp [e])
        simp only [List.foldl_cons] at this
        rw [hsp] at this
        exact this)
    exact ⟨by omega, this.2⟩

#print axioms apply_exactly_once
end Apply
