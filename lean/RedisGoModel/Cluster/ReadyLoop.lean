/-! C08 (used by C07 / C15): a state machine of the Ready arm of `raftexample/raft.go` `serveChannels` and of `replayWAL`, with a crash
    allowed between any two writes.  Core Lean only, executable (the negative theorems of `Props/C08Ready.lean` are kernel-evaluated runs).

    What is modelled, statement by statement (`Stmt`, `exec`; the list `theArm` is the arm in source order, `armOrder` its call names, compared
    with the order extracted from the Go source on every run — fact F4):

      saveSnap(rd.Snapshot)            snapFile (snapshotter.SaveSnap: write + fsync + rename, atomic) ; snapWalWrite ; snapWalSync (wal.SaveSnapshot = encode + sync)
      wal.Save(rd.HardState, rd.Entries)   walWrite (entries, then the hard state, through the encoder's buffer) ; walFlush (sync iff raft.MustSync(st, w.state, len(ents)))
      raftStorage.ApplySnapshot        applySnap
      wal.Sync()                       walSync      (fix e044e73: a Ready that carries a snapshot is synced before anything is externalised)
      publishSnapshot                  publishSnap  (nil on the commit channel; confState, snapshotIndex, appliedIndex)
      raftStorage.Append(rd.Entries)   append
      transport.Send(rd.Messages)      send
      publishEntries(entriesToApply(rd.CommittedEntries))   publish
      maybeTriggerSnapshot             trigFile ; trigWalWrite ; trigWalSync ; trigCompact
      Node.Advance()                   advance

    The disk (`Disk`): WAL records that are synced, WAL records that were written through the encoder but not yet fsynced (`buffered`), completed
    snapshot files.  `crash k` keeps the synced records, ANY prefix (`k` records) of the buffered tail, and the snapshot files; everything
    volatile is lost and the node comes back through `replay` = `replayWAL`: `wal.ValidSnapshotEntries` (snapshot records whose index is at most
    the commit index of the last hard-state record) → `snap.LoadNewestAvailable` → `wal.ReadAll` from that snapshot (entry records with a larger
    index, `ents = append(ents[:e.Index-start-1], e)`, ErrSliceOutOfRange = the node cannot start) → last hard state.

    Simplifications (each is a place where the model is coarser than the code; none of them removes a crash point):
    * one WAL segment (no `cut`), no metadata / CRC records (C16's subject), `ErrSnapshotMismatch` (two WAL snapshot records with one index and
      different terms) is not modelled; "newest" snapshot file = largest index among the files matching a valid WAL snapshot record (the code
      orders by file name `term-index`; the two agree when snapshot terms grow with their indexes, which raft guarantees);
    * the conf state is carried but membership entries are not interpreted; the application's snapshot data is the applied index;
    * `MemoryStorage.Append`'s trimming of entries at or below the compacted prefix and its "missing log entry" panic, `Compact` beyond the
      last index, `publishSnapshot`'s and `entriesToApply`'s `log.Fatalf` are process deaths in the code, hence instances of `crash`; the
      model continues instead, the contract `ReadyOk` excludes them;
    * a message is externalised by `send` as a whole (the harness observes each message separately; the theorem is per state, so this is the same). -/
namespace ReadyLoop

structure Entry where
  index : Nat
  term  : Nat
  data  : Nat
deriving DecidableEq, Repr

/-- `raftpb.HardState`; `raft.IsEmptyHardState` = all zero -/
structure HardState where
  term   : Nat := 0
  vote   : Nat := 0
  commit : Nat := 0
deriving DecidableEq, Repr

def HardState.isEmpty (h : HardState) : Bool := h.term == 0 && h.vote == 0 && h.commit == 0

/-- `raftpb.Snapshot` (metadata + the application image, here the applied index it was taken at); `raft.IsEmptySnap` = index 0 -/
structure Snap where
  index : Nat := 0
  term  : Nat := 0
  conf  : List Nat := []
  data  : Nat := 0
deriving DecidableEq, Repr

def Snap.isEmpty (s : Snap) : Bool := s.index == 0

/-- the messages the durability clauses speak about; everything else is `other` (only its term matters) -/
inductive Msg
| voteReq  (term : Nat)                              -- the node's own MsgVote: it voted for itself in `term`
| voteResp (term to : Nat) (reject : Bool)
| appResp  (term to index : Nat) (reject : Bool)
| other    (term : Nat)
deriving DecidableEq, Repr

def Msg.term : Msg → Nat
| .voteReq t => t | .voteResp t _ _ => t | .appResp t _ _ _ => t | .other t => t

/-- `raft.Ready` as far as the arm reads it -/
structure Ready where
  hs        : HardState := {}
  ents      : List Entry := []
  snap      : Snap := {}
  msgs      : List Msg := []
  committed : List Entry := []
deriving DecidableEq, Repr

/-- WAL records -/
inductive Rec
| entry (e : Entry)
| state (h : HardState)
| snap  (index term : Nat)
deriving DecidableEq, Repr

structure Disk where
  synced   : List Rec := [.snap 0 0]      -- `wal.Create` writes and syncs a snapshot record (0,0)
  buffered : List Rec := []
  files    : List Snap := []
deriving DecidableEq, Repr

def Disk.all (d : Disk) : List Rec := d.synced ++ d.buffered
/-- what a crash leaves when `k` records of the buffered tail had reached the platter -/
def Disk.image (d : Disk) (k : Nat) : Disk := { synced := d.synced ++ d.buffered.take k, buffered := [], files := d.files }
def Disk.write (d : Disk) (rs : List Rec) : Disk := { d with buffered := d.buffered ++ rs }
def Disk.flush (d : Disk) : Disk := { d with synced := d.synced ++ d.buffered, buffered := [] }

/-! ### replayWAL -/

/-- the hard state `ReadAll` / `ValidSnapshotEntries` end with: the last state record -/
def lastState : List Rec → HardState → HardState
| [], h => h
| .state h' :: rs, _ => lastState rs h'
| _ :: rs, h => lastState rs h

def snapRecs : List Rec → List (Nat × Nat)
| [] => []
| .snap i t :: rs => (i, t) :: snapRecs rs
| _ :: rs => snapRecs rs

/-- `wal.ValidSnapshotEntries` -/
def validSnaps (recs : List Rec) : List (Nat × Nat) :=
  (snapRecs recs).filter (fun p => p.1 ≤ (lastState recs {}).commit)

/-- `Snapshotter.LoadNewestAvailable`: the newest file matching one of the WAL's valid snapshot records (empty snapshot if none) -/
def pickSnap (ws : List (Nat × Nat)) : List Snap → Snap → Snap
| [], best => best
| f :: fs, best => pickSnap ws fs (if (f.index, f.term) ∈ ws ∧ best.index < f.index then f else best)

def loadNewest (files : List Snap) (ws : List (Nat × Nat)) : Snap := pickSnap ws files {}

/-- `WAL.ReadAll` opened at a snapshot with index `b`: the entries after it; `none` = ErrSliceOutOfRange (log.Fatalf, the node cannot start) -/
def readEnts (b : Nat) : List Entry → List Rec → Option (List Entry)
| acc, [] => some acc
| acc, .entry e :: rs =>
    if b < e.index then
      (if e.index - b - 1 ≤ acc.length then readEnts b (acc.take (e.index - b - 1) ++ [e]) rs else none)
    else readEnts b acc rs
| acc, _ :: rs => readEnts b acc rs

/-- what `replayWAL` hands to `raft.RestartNode` through the MemoryStorage -/
structure View where
  hs   : HardState
  snap : Snap
  ents : List Entry
deriving DecidableEq, Repr

def replayRecs (recs : List Rec) (files : List Snap) : Option View :=
  let s := loadNewest files (validSnaps recs)
  match readEnts s.index [] recs with
  | none => none
  | some es => some ⟨lastState recs {}, s, es⟩

/-- `replayWAL` on what is on disk after a crash that kept `k` buffered records -/
def replay (d : Disk) (k : Nat) : Option View := replayRecs (d.image k).synced d.files

def View.last (v : View) : Nat := v.snap.index + v.ents.length

/-! ### the volatile node -/

structure Node where
  hs        : HardState := {}     -- raft's own hard state (the last non-empty Ready.HardState, or what the restart read)
  snap      : Snap := {}          -- MemoryStorage.snapshot
  off       : Nat := 0            -- MemoryStorage.ents[0].Index (the dummy entry)
  ents      : List Entry := []    -- MemoryStorage.ents[1:]
  applied   : Nat := 0
  snapIndex : Nat := 0
  conf      : List Nat := []
  walState  : HardState := {}     -- `w.state`, what MustSync compares with (zero after `wal.Open`)
  mustSync  : Bool := false       -- local of wal.Save
  trig      : Option Snap := none -- local of maybeTriggerSnapshot: the snapshot being taken
deriving DecidableEq, Repr

def Node.last (n : Node) : Nat := n.off + n.ents.length

/-- `startRaft` after `replayWAL`, and the first lines of `serveChannels` -/
def Node.ofView (v : View) : Node :=
  { hs := v.hs, snap := v.snap, off := v.snap.index, ents := v.ents,
    applied := v.snap.index, snapIndex := v.snap.index, conf := v.snap.conf }

/-- `raft.MustSync(st, prevst, entsnum)` -/
def mustSync (st prev : HardState) (entsnum : Nat) : Bool := entsnum != 0 || st.vote != prev.vote || st.term != prev.term

/-- `entriesToApply` -/
def entriesToApply (ents : List Entry) (applied : Nat) : List Entry :=
  match ents with
  | [] => []
  | e :: _ => if applied + 1 - e.index < ents.length then ents.drop (applied + 1 - e.index) else []

def lastIndexOr (es : List Entry) (d : Nat) : Nat :=
  match es.getLast? with
  | some e => e.index
  | none => d

/-- `MemoryStorage.Append` (entries contiguous with or overwriting the tail) -/
def storageAppend (n : Node) (es : List Entry) : Node :=
  match es with
  | [] => n
  | e :: _ => { n with ents := n.ents.take (e.index - n.off - 1) ++ es }

def termAt (n : Node) (i : Nat) : Nat :=
  if i = n.snap.index then n.snap.term else
  match n.ents.find? (·.index = i) with
  | some e => e.term
  | none => 0

/-! ### externalisation and the promises it makes -/

/-- a durability promise made to the outside world -/
inductive Promise
| term  (t : Nat)        -- a message of term `t` left the node
| vote  (t x : Nat)      -- the node voted for `x` in term `t` (granting MsgVoteResp, or its own MsgVote)
| ent   (e : Entry)      -- entry `e` is in the log (acknowledged to a leader, or handed to the state machine)
| reach (i : Nat)        -- the log reaches index `i`
| snap  (i : Nat)        -- a snapshot at index `i` is installed (acknowledged to a leader, or handed to the state machine)
deriving DecidableEq, Repr

/-- the promise is kept by what a restart reconstructs -/
def Promise.holds (v : View) : Promise → Prop
| .term t => t ≤ v.hs.term
| .vote t x => t < v.hs.term ∨ (v.hs.term = t ∧ v.hs.vote = x)
| .ent e => e.index ≤ v.snap.index ∨ e ∈ v.ents
| .reach i => i ≤ v.last
| .snap i => i ≤ v.snap.index

instance (v : View) (p : Promise) : Decidable (p.holds v) := by
  cases p <;> simp only [Promise.holds] <;> exact inferInstance

/-- what a message promises, given the node that sends it -/
def promisesOf (self : Nat) (n : Node) : Msg → List Promise
| .voteReq t => [.term t, .vote t self]
| .voteResp t to false => [.term t, .vote t to]
| .voteResp t _ true => [.term t]
| .appResp t _ i false =>
    [.term t, .reach i] ++ ((n.ents.filter (·.index ≤ i)).map .ent) ++ [.snap n.snapIndex]
| .appResp t _ _ true => [.term t]
| .other t => [.term t]

/-- raft takes a promise back by handing out entries that overwrite the log from their first index on -/
def released (rd : Ready) : Promise → Bool
| .ent e => match rd.ents with | [] => false | f :: _ => f.index ≤ e.index
| .reach i => match rd.ents with | [] => false | f :: _ => f.index ≤ i
| _ => false

/-! ### the loop -/

inductive Stmt
| snapFile | snapWalWrite | snapWalSync
| walWrite | walFlush
| applySnap | walSync | publishSnap
| append | send | publish
| trigFile | trigWalWrite | trigWalSync | trigCompact
| advance
deriving DecidableEq, Repr

/-- the call of the Ready arm a statement belongs to (the names the fact extractor prints) -/
def Stmt.call : Stmt → String
| .snapFile | .snapWalWrite | .snapWalSync => "saveSnap"
| .walWrite | .walFlush => "wal.Save"
| .applySnap => "ApplySnapshot"
| .walSync => "wal.Sync"
| .publishSnap => "publishSnapshot"
| .append => "raftStorage.Append"
| .send => "transport.Send"
| .publish => "publishEntries"
| .trigFile | .trigWalWrite | .trigWalSync | .trigCompact => "maybeTriggerSnapshot"
| .advance => "Node.Advance"

/-- the Ready arm of `serveChannels`, in source order -/
def theArm : List Stmt :=
  [.snapFile, .snapWalWrite, .snapWalSync, .walWrite, .walFlush, .applySnap, .walSync, .publishSnap, .append, .send, .publish,
   .trigFile, .trigWalWrite, .trigWalSync, .trigCompact, .advance]

def dedupAdj : List String → List String
| a :: b :: rest => if a = b then dedupAdj (b :: rest) else a :: dedupAdj (b :: rest)
| l => l

/-- the order of the calls of an arm -/
def orderOf (arm : List Stmt) : List String := dedupAdj (arm.map Stmt.call)

def armOrder : List String := orderOf theArm

structure Cfg where
  arm       : List Stmt := theArm
  self      : Nat := 2
  snapCount : Nat := 3        -- `defaultSnapshotCount`
  catchUp   : Nat := 3        -- `snapshotCatchUpEntriesN`
deriving Repr

structure State where
  disk      : Disk := {}
  node      : Node := {}
  rd        : Ready := {}
  todo      : List Stmt := []
  sent      : List Msg := []              -- everything handed to the transport, ever
  published : List Entry := []            -- every entry handed to the commit channel, ever
  pubSnaps  : List (Nat × Nat) := []      -- every snapshot handed to the state machine (nil on the commit channel), ever
  owed      : List Promise := []          -- the promises made and not taken back by raft
  down      : Bool := false               -- `replayWAL` died (log.Fatalf): the node cannot start any more
deriving DecidableEq, Repr

/-- one statement of the arm -/
def exec (c : Cfg) (s : State) : Stmt → State
| .snapFile => if s.rd.snap.isEmpty then s else { s with disk := { s.disk with files := s.disk.files ++ [s.rd.snap] } }
| .snapWalWrite => if s.rd.snap.isEmpty then s else { s with disk := s.disk.write [.snap s.rd.snap.index s.rd.snap.term] }
| .snapWalSync => if s.rd.snap.isEmpty then s else { s with disk := s.disk.flush }
| .walWrite =>
    if s.rd.hs.isEmpty && s.rd.ents.isEmpty then { s with node := { s.node with mustSync := false } } else
    let ms := mustSync s.rd.hs s.node.walState s.rd.ents.length
    let recs := s.rd.ents.map Rec.entry ++ (if s.rd.hs.isEmpty then [] else [Rec.state s.rd.hs])
    let n := if s.rd.hs.isEmpty then { s.node with mustSync := ms } else { s.node with mustSync := ms, walState := s.rd.hs, hs := s.rd.hs }
    { s with disk := s.disk.write recs, node := n }
| .walFlush => if s.node.mustSync then { s with disk := s.disk.flush } else s
| .applySnap => if s.rd.snap.isEmpty then s else { s with node := { s.node with snap := s.rd.snap, off := s.rd.snap.index, ents := [] } }
| .walSync => if s.rd.snap.isEmpty then s else { s with disk := s.disk.flush }
| .publishSnap =>
    if s.rd.snap.isEmpty then s else
    { s with pubSnaps := s.pubSnaps ++ [(s.rd.snap.index, s.rd.snap.term)], owed := s.owed ++ [.snap s.rd.snap.index],
             node := { s.node with conf := s.rd.snap.conf, snapIndex := s.rd.snap.index, applied := s.rd.snap.index } }
| .append => { s with node := storageAppend s.node s.rd.ents }
| .send => { s with sent := s.sent ++ s.rd.msgs, owed := s.owed ++ s.rd.msgs.flatMap (promisesOf c.self s.node) }
| .publish =>
    let es := entriesToApply s.rd.committed s.node.applied
    if es.isEmpty then s else
    { s with published := s.published ++ es, owed := s.owed ++ es.map .ent, node := { s.node with applied := lastIndexOr es s.node.applied } }
| .trigFile =>
    if s.node.applied - s.node.snapIndex ≤ c.snapCount then { s with node := { s.node with trig := none } } else
    let sn : Snap := { index := s.node.applied, term := termAt s.node s.node.applied, conf := s.node.conf, data := s.node.applied }
    { s with disk := { s.disk with files := s.disk.files ++ [sn] }, node := { s.node with trig := some sn, snap := sn } }
| .trigWalWrite => match s.node.trig with | none => s | some sn => { s with disk := s.disk.write [.snap sn.index sn.term] }
| .trigWalSync => match s.node.trig with | none => s | some _ => { s with disk := s.disk.flush }
| .trigCompact =>
    match s.node.trig with
    | none => s
    | some _ =>
      let ci := if s.node.applied > c.catchUp then s.node.applied - c.catchUp else 1
      let n := if ci ≤ s.node.off then s.node else { s.node with off := ci, ents := s.node.ents.drop (ci - s.node.off) }
      { s with node := { n with snapIndex := s.node.applied, trig := none } }
| .advance => { s with rd := {} }

/-- entries with consecutive indexes -/
def Chain : List Entry → Prop
| [] => True
| [_] => True
| a :: b :: rest => b.index = a.index + 1 ∧ Chain (b :: rest)

instance : (l : List Entry) → Decidable (Chain l)
| [] => isTrue trivial
| [_] => isTrue trivial
| a :: b :: rest =>
    have : Decidable (Chain (b :: rest)) := instDecidableChain (b :: rest)
    by unfold Chain; exact inferInstance

/-- the hard state raft has after this Ready -/
def hsAfter (n : Node) (rd : Ready) : HardState := if rd.hs.isEmpty then n.hs else rd.hs

/-- what a message may claim, given the hard state and log raft has once this Ready is stable -/
def MsgOk (self : Nat) (hs : HardState) (last : Nat) : Msg → Prop
| .voteReq t => t = hs.term ∧ hs.vote = self ∧ self ≠ 0
| .voteResp t to false => t = hs.term ∧ hs.vote = to ∧ to ≠ 0
| .voteResp t _ true => t ≤ hs.term
| .appResp t _ i false => t = hs.term ∧ i ≤ last
| .appResp t _ _ true => t ≤ hs.term
| .other t => t ≤ hs.term

instance (self : Nat) (hs : HardState) (last : Nat) (m : Msg) : Decidable (MsgOk self hs last m) := by
  cases m <;> (try rename_i r; cases r) <;> simp only [MsgOk] <;> exact inferInstance

/-- **etcd's contract for a Ready**, relative to the node that receives it (decidable):
    * the hard state does not go back: term and commit index do not decrease, the vote of a term is not changed once cast;
    * entries are consecutive, start above the commit index and at most one past the end of the stable log (the snapshot's index if the
      Ready carries one);
    * a snapshot is ahead of the commit index and the commit index handed out with it covers it;
    * (**narrower than etcd's contract**) a Ready that carries a snapshot carries no entries — etcd can hand out both (MsgSnap and MsgApp stepped
      before the application takes the Ready); `C08Ready.snapshot_with_entries_strands` shows that the arm is NOT safe for such a Ready
      when a crash tears the unsynced `wal.Save` between the entries and the hard state;
    * the commit index stays within the log; committed entries are consecutive, lie in the log as it is after this Ready, at or below the
      commit index, and start no later than applied + 1;
    * a message claims at most raft's term; a vote (granted, or asked for) is the vote of the hard state in its term; an accepted append
      index lies within the log. -/
def ReadyOk (c : Cfg) (n : Node) (rd : Ready) : Prop :=
  let hs' := hsAfter n rd
  let base := if rd.snap.isEmpty then n.last else rd.snap.index
  let n' := storageAppend (if rd.snap.isEmpty then n else { n with snap := rd.snap, off := rd.snap.index, ents := [] }) rd.ents
  (rd.hs.isEmpty = false → n.hs.term ≤ rd.hs.term ∧ n.hs.commit ≤ rd.hs.commit ∧ (rd.hs.term = n.hs.term → n.hs.vote = 0 ∨ rd.hs.vote = n.hs.vote)) ∧
  Chain rd.ents ∧ (∀ e ∈ rd.ents.head?, n.hs.commit < e.index ∧ e.index ≤ base + 1) ∧
  (rd.snap.isEmpty = false → n.hs.commit < rd.snap.index ∧ rd.snap.index ≤ hs'.commit ∧ rd.ents = []) ∧
  hs'.commit ≤ n'.last ∧
  Chain rd.committed ∧ (∀ e ∈ rd.committed, e ∈ n'.ents ∧ e.index ≤ hs'.commit) ∧
  (∀ e ∈ rd.committed.head?, e.index ≤ (if rd.snap.isEmpty then n.applied else rd.snap.index) + 1) ∧
  (∀ m ∈ rd.msgs, MsgOk c.self hs' n'.last m)

instance (c : Cfg) (n : Node) (rd : Ready) : Decidable (ReadyOk c n rd) := by
  unfold ReadyOk; exact inferInstance

/-- the events of a run -/
inductive Ev
| ready (rd : Ready)      -- `rd := <-rc.Node.Ready()`
| stmt                    -- the next statement of the arm
| crash (k : Nat)         -- the process dies; `k` records of the buffered WAL tail survive; the node is started again
deriving Repr

/-- the node after kill -9 and a new start -/
def crashRestart (s : State) (k : Nat) : State :=
  match replay s.disk k with
  | some v => { s with disk := s.disk.image k, node := Node.ofView v, rd := {}, todo := [] }
  | none => { s with disk := s.disk.image k, node := {}, rd := {}, todo := [], down := true }

def take (c : Cfg) (s : State) (rd : Ready) : State :=
  { s with rd := rd, todo := c.arm, owed := s.owed.filter (fun p => !released rd p) }

/-- one event (an event that cannot happen in the state leaves it unchanged) -/
def step (c : Cfg) (s : State) : Ev → State
| .ready rd => if s.down = false ∧ s.todo = [] then take c s rd else s
| .stmt => if s.down then s else match s.todo with | [] => s | st :: rest => { exec c s st with todo := rest }
| .crash k => if s.down then s else crashRestart s k

def run (c : Cfg) (s : State) (evs : List Ev) : State := evs.foldl (step c) s

/-- the events respect etcd's contract: every Ready handed out is `ReadyOk` for the node at that moment -/
def Conforms (c : Cfg) : State → List Ev → Prop
| _, [] => True
| s, .ready rd :: evs => (s.down = false ∧ s.todo = [] → ReadyOk c s.node rd) ∧ Conforms c (step c s (.ready rd)) evs
| s, ev :: evs => Conforms c (step c s ev) evs

instance (c : Cfg) : (s : State) → (evs : List Ev) → Decidable (Conforms c s evs)
| _, [] => isTrue trivial
| s, .ready rd :: evs =>
    have : Decidable (Conforms c (step c s (.ready rd)) evs) := instDecidableConforms c _ evs
    by unfold Conforms; exact inferInstance
| s, .stmt :: evs =>
    have : Decidable (Conforms c (step c s .stmt) evs) := instDecidableConforms c _ evs
    by unfold Conforms; exact this
| s, .crash k :: evs =>
    have : Decidable (Conforms c (step c s (.crash k))  evs) := instDecidableConforms c _ evs
    by unfold Conforms; exact this

/-- **the property of a state**: whatever prefix of the buffered WAL tail survives a crash now, the node starts again and what it
    reconstructs keeps every promise made and not taken back -/
def Safe (s : State) : Prop := ∀ k, ∃ v, replay s.disk k = some v ∧ ∀ p ∈ s.owed, p.holds v

/-- decidable form over the finitely many distinct crash images -/
def safeB (s : State) : Bool :=
  (List.range (s.disk.buffered.length + 1)).all fun k =>
    match replay s.disk k with
    | some v => s.owed.all fun p => decide (p.holds v)
    | none => false

end ReadyLoop
