/-! C07 `own_reply`: the reply rendezvous of cluster mode (server/db_manager.go `HandleCluster`, server/server.go
    `handleClusterCommits`).  Core Lean only (the driver runs `next`).

    Every client command gets a fresh id; the connection registers a wait channel under that id in the callback map shared by all
    connections of the node (`callback[cmdID] = waitC`), hands the proposal to raft (`proposeC <- proposal`), waits
    (`res := <-waitC`), deregisters (`delete(callback, cmdID)`) and writes the reply.  The apply loop takes the committed proposals
    in log order — its own node's and other nodes' —, executes each on the state machine and, when the proposal's id is registered
    here, sends the result on the registered channel (`callback <- res`).

    The model is abstract in the state machine `step : S → Cmd → S × Reply`, in the type of ids and of connections.

    * `submit c cmd id` — connection `c` (idle) registers `id` and proposes `cmd`; the id is chosen by the environment.
    * `apply e`        — the next log entry `e = {id, cmd}` reaches the state machine; its reply is put on the channel registered
                          under `e.id`, if any (`mailbox`: the value in flight between `callback <- res` and `<-waitC`).  An entry whose
                          id is not registered (a *foreign* entry: another node's client, a replayed entry after a restart) only
                          changes the state machine.
    * `receive c`      — the waiter takes the value, deregisters and has its reply (`delivered c`).

    The Go channel is unbuffered, so the apply loop does not proceed to the next entry before the waiter has taken the value; the
    model lets it proceed (every behaviour of the code is a behaviour of the model, the converse is not claimed).

    Ghost fields (`now`, `subs`, `invT`, `resT`) record the history — what each connection submitted and when, when each reply was
    received — so that the theorems of `Props/C07Own.lean` can speak about "the k-th command of connection c"; no transition reads
    them. -/
namespace Rendezvous

structure Entry (Id Cmd : Type) where
  id : Id
  cmd : Cmd

inductive Event (Id Conn Cmd : Type) where
  | submit (c : Conn) (cmd : Cmd) (id : Id)
  | apply (e : Entry Id Cmd)
  | receive (c : Conn)

structure State (Id Conn S Cmd Reply : Type) where
  /-- the callback map: proposal id ↦ the connection waiting for it -/
  table : Id → Option Conn
  /-- `none`: the connection is idle (reading its next command); `some id`: it waits for the result of proposal `id` -/
  waiting : Conn → Option Id
  /-- a result handed to the connection's wait channel by the apply loop and not yet taken -/
  mailbox : Conn → Option Reply
  /-- the replies the connection has received, oldest first -/
  delivered : Conn → List Reply
  /-- the applied prefix of the replicated log -/
  log : List (Entry Id Cmd)
  /-- the state machine after `log` -/
  sm : S
  /-- ghost: number of events so far -/
  now : Nat
  /-- ghost: the proposals of each connection, oldest first -/
  subs : Conn → List (Id × Cmd)
  /-- ghost: the time of each submission / of each receipt -/
  invT : Conn → List Nat
  resT : Conn → List Nat

variable {Id Conn S Cmd Reply : Type}

/-- function update -/
def upd {α β : Type} [DecidableEq α] (f : α → β) (a : α) (b : β) : α → β := fun x => if x = a then b else f x

@[simp] theorem upd_same {α β : Type} [DecidableEq α] (f : α → β) (a : α) (b : β) : upd f a b a = b := by simp [upd]
theorem upd_other {α β : Type} [DecidableEq α] (f : α → β) {a x : α} (b : β) (h : x ≠ a) : upd f a b x = f x := by simp [upd, h]

def init (s0 : S) : State Id Conn S Cmd Reply :=
  { table := fun _ => none, waiting := fun _ => none, mailbox := fun _ => none, delivered := fun _ => [], log := [], sm := s0,
    now := 0, subs := fun _ => [], invT := fun _ => [], resT := fun _ => [] }

/-- a connection reads its next command only after it has written the previous reply; a value can be taken only from a channel that
    holds one -/
def enabled (st : State Id Conn S Cmd Reply) : Event Id Conn Cmd → Bool
  | .submit c _ _ => (st.waiting c).isNone
  | .apply _ => true
  | .receive c => (st.waiting c).isSome && (st.mailbox c).isSome

variable [DecidableEq Id] [DecidableEq Conn]

def next (step : S → Cmd → S × Reply) (st : State Id Conn S Cmd Reply) : Event Id Conn Cmd → State Id Conn S Cmd Reply
  | .submit c cmd id =>
    { st with
      table := upd st.table id (some c)            -- callback[cmdID] = waitC (an id already present is overwritten, as in Go)
      waiting := upd st.waiting c (some id)
      now := st.now + 1
      subs := upd st.subs c (st.subs c ++ [(id, cmd)])
      invT := upd st.invT c (st.invT c ++ [st.now]) }
  | .apply e =>
    let out := step st.sm e.cmd
    { st with
      log := st.log ++ [e]
      sm := out.1
      now := st.now + 1
      mailbox := match st.table e.id with
        | some c => upd st.mailbox c (some out.2)   -- callback, ok := resultCallback[cmd.ID]; if ok { callback <- res }
        | none => st.mailbox }
  | .receive c =>
    match st.waiting c, st.mailbox c with
    | some id, some r =>
      { st with
        table := upd st.table id none               -- delete(callback, cmdID)
        waiting := upd st.waiting c none
        mailbox := upd st.mailbox c none
        delivered := upd st.delivered c (st.delivered c ++ [r])
        now := st.now + 1
        resT := upd st.resT c (st.resT c ++ [st.now]) }
    | _, _ => st

/-- **UniqueIds**, as a guard on each event: proposal ids are unique (an id is never used by two proposals, nor by a local proposal
    and an entry that is already in the log), and the log carries every local proposal unchanged and at most once.  uuid.NewString
    and "raft never commits one proposal twice" are what the implementation relies on for this; `Props/C07Own.lean` shows that
    `own_reply` fails without it. -/
def UniqueIds (st : State Id Conn S Cmd Reply) : Event Id Conn Cmd → Prop
  | .submit _ _ id => (∀ c' p, p ∈ st.subs c' → p.1 ≠ id) ∧ (∀ e, e ∈ st.log → e.id ≠ id)
  | .apply e => ∀ c' p, p ∈ st.subs c' → p.1 = e.id → p.2 = e.cmd ∧ ∀ e', e' ∈ st.log → e'.id ≠ e.id
  | .receive _ => True

/-- no hypothesis on the environment -/
def NoGuard (_ : State Id Conn S Cmd Reply) (_ : Event Id Conn Cmd) : Prop := True

/-- the states the model reaches when every event satisfies `guard` -/
inductive Reach (step : S → Cmd → S × Reply) (s0 : S) (guard : State Id Conn S Cmd Reply → Event Id Conn Cmd → Prop) :
    State Id Conn S Cmd Reply → Prop
  | init : Reach step s0 guard (init s0)
  | step {st ev} : Reach step s0 guard st → enabled st ev = true → guard st ev → Reach step s0 guard (next step st ev)

/-- the state machine after a log -/
def runLog (step : S → Cmd → S × Reply) (s0 : S) (l : List (Entry Id Cmd)) : S := l.foldl (fun s e => (step s e.cmd).1) s0

/-- the reply of running `cmd` at position `j` of log `l` -/
def replyAt (step : S → Cmd → S × Reply) (s0 : S) (l : List (Entry Id Cmd)) (j : Nat) (cmd : Cmd) : Reply :=
  (step (runLog step s0 (l.take j)) cmd).2

end Rendezvous
