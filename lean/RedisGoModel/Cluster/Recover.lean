/-! Prototype for C08: what a node rebuilds from its disk — newest snapshot, then the WAL entries after it up to the
    persisted commit index — is exactly the state machine after the committed prefix of its log, and this stays true
    under every storage operation of the Ready loop (append entries, raise the commit index, take a snapshot of the
    applied state, compact the log behind a snapshot). Hence a write whose entry was at or below the persisted commit
    index when it was acknowledged is in the state after any crash and restart, however long the log has grown.
    Abstract in the state machine (`apply`), so it holds for the keyspace model as it is. Core Lean only. -/
namespace Recover
variable {σ ε : Type} (apply : σ → ε → σ) (init : σ)

/-- the state machine after a list of entries -/
def runLog (l : List ε) : σ := l.foldl apply init

/-- persistent state: a snapshot `(index, image)`, the entries after the snapshot index, the commit index -/
structure Disk (σ ε : Type) where
  snapIdx : Nat
  snapSt  : σ
  ents    : List ε          -- entries snapIdx+1, snapIdx+2, …
  commit  : Nat

/-- what `replayWAL` + `publishEntries` rebuild: load the snapshot, re-apply entries up to the commit index -/
def recover (d : Disk σ ε) : σ := (d.ents.take (d.commit - d.snapIdx)).foldl apply d.snapSt

/-- the disk represents the log `l` -/
structure Rep (d : Disk σ ε) (l : List ε) : Prop where
  snap_le  : d.snapIdx ≤ d.commit
  commit_le : d.commit ≤ l.length
  snap_ok  : d.snapSt = runLog apply init (l.take d.snapIdx)
  ents_ok  : d.ents = l.drop d.snapIdx

theorem recover_replays_all {d : Disk σ ε} {l : List ε} (h : Rep apply init d l) :
    recover apply d = runLog apply init (l.take d.commit) := by
  unfold recover runLog
  rw [h.snap_ok, h.ents_ok]
  unfold runLog
  rw [← List.foldl_append]
  congr 1
  have : l.take d.commit = l.take d.snapIdx ++ (l.drop d.snapIdx).take (d.commit - d.snapIdx) := by
    have e : d.commit = d.snapIdx + (d.commit - d.snapIdx) := by have := h.snap_le; omega
    conv => lhs; rw [e]
    rw [List.take_add]
  rw [this]

/-! the storage operations of the Ready loop keep the representation -/

/-- `wal.Save(hardState, entries)`: new entries appended (after truncating a conflicting unstable tail beyond the
    commit index), commit index raised -/
theorem rep_save {d : Disk σ ε} {l l' : List ε} (h : Rep apply init d l) (c' : Nat)
    (hkeep : l'.take d.commit = l.take d.commit) (hc : d.commit ≤ c') (hc' : c' ≤ l'.length) :
    Rep apply init { d with ents := l'.drop d.snapIdx, commit := c' } l' := by
  refine ⟨Nat.le_trans h.snap_le hc, hc', ?_, rfl⟩
  rw [h.snap_ok]
  have := congrArg (List.take d.snapIdx) hkeep
  rw [List.take_take, List.take_take, Nat.min_eq_left h.snap_le] at this
  rw [this]

/-- `saveSnap` at the applied index `a ≤ commit`, with the image the state machine has after `a` entries -/
theorem rep_snapshot {d : Disk σ ε} {l : List ε} (h : Rep apply init d l) (a : Nat) (ha : d.snapIdx ≤ a) (hac : a ≤ d.commit) :
    Rep apply init { d with snapIdx := a, snapSt := runLog apply init (l.take a), ents := l.drop a } l :=
  ⟨hac, h.commit_le, rfl, rfl⟩

/-- the applied state a node holds in memory is the image it snapshots -/
theorem applied_is_image {d : Disk σ ε} {l : List ε} (h : Rep apply init d l) (a : Nat) (ha : d.snapIdx ≤ a) :
    ((l.drop d.snapIdx).take (a - d.snapIdx)).foldl apply d.snapSt = runLog apply init (l.take a) := by
  rw [h.snap_ok]
  unfold runLog
  rw [← List.foldl_append]
  congr 1
  have e : a = d.snapIdx + (a - d.snapIdx) := by omega
  conv => rhs; rw [e]
  rw [List.take_add]

/-- **acknowledged writes survive**: an entry at index `i ≤ commit` (persisted before the acknowledgement) contributes
    to the recovered state exactly as it did when it was applied — the recovered state is the run of a prefix that
    contains it -/
theorem acked_survives {d : Disk σ ε} {l : List ε} (h : Rep apply init d l) (i : Nat) (hi : i ≤ d.commit) :
    ∃ rest, recover apply d = rest.foldl apply (runLog apply init (l.take i)) ∧ l.take d.commit = l.take i ++ rest := by
  refine ⟨(l.drop i).take (d.commit - i), ?_, ?_⟩
  · rw [recover_replays_all apply init h]
    unfold runLog
    rw [← List.foldl_append]
    congr 1
    have e : d.commit = i + (d.commit - i) := by omega
    conv => lhs; rw [e]
    rw [List.take_add]
  · have e : d.commit = i + (d.commit - i) := by omega
    conv => lhs; rw [e]
    rw [List.take_add]

#print axioms recover_replays_all
#print axioms acked_survives
end Recover
