import RedisGoModel.Exec.Core
import RedisGoModel.Cluster.Codec
/-! # C08 — the keyspace snapshot of memdb/snapshot.go (core Lean only; linked into the compiled driver)

`Snap.encode db` is, byte for byte, what `MemDb.GetSnapshot` returns for the keyspace `db`:
`json.Marshal(&snapshotFile{Format, Version, Keys})`, i.e.

    {"format":"redisgo-memdb-snapshot","version":1,"keys":[<key record>,…]}
    <key record> = {"key":<b64>,"type":"<name>"[,"deadline":<int64>]<value member>}
    <value member> = [,"str":<b64>] | [,"list":[<b64>,…]] | [,"set":[<b64>,…]] | [,"hash":[{"field":<b64>,"value":<b64>},…]]
                   | [,"zset":[{"member":<b64>,"score_bits":<uint64>},…]]
                   | ,"stream":{"last_ms":<uint64>,"last_seq":<uint64>[,"entries":[{"ms":…,"seq":…,"fields":[<b64>,…]},…]]}

* field order = declaration order of the Go structs; `omitempty` drops a nil pointer (`deadline`) and every slice of length 0
  (`str`, `list`, `set`, `hash`, `zset`, `entries`) — an empty string value has no `str` member; `keys` and `fields` have no
  `omitempty` and are written as `[]` when empty;
* every `[]byte` is a JSON string holding padded standard base64 (`Codec.b64encode`; the alphabet needs no JSON escaping);
* integers are decimal (`strconv`): `deadline` signed (absolute unix seconds, as stored), `score_bits` = `math.Float64bits` of the score
  (the model's order key `k` stands for the double with bits `ZT.unkey k`; −0 never enters a sorted set: ZADD normalises it);
* keys are written in bytewise order (`sort.Strings`), set members and hash fields too; list order is kept; sorted-set members are
  written in order of their NAMES (the member index `dict` sorted), not in score order; stream entries in ID order;
* every physically present entry is written, also one whose deadline has passed and that nothing has reaped yet.

`Snap.decode` is `LoadSnapshot` on the JSON subset the encoder produces.  It is STRICT: the members must come in the encoder's order
without insignificant white space, numbers must be canonical decimals, strings must not use escapes (Go's `json.Unmarshal` also accepts
white space, any member order, unknown and repeated members, case-insensitive names, `\u` escapes, `"keys":null`, `-0` …).  What it
mirrors of `LoadSnapshot`/`restoreValue`: format and version (part of the fixed header), a key recorded twice → error, unknown type →
error, `null` or an absent member → the empty value (empty containers ARE accepted, as the Go code does), a set is rebuilt by `Add`
(a repeated member is kept once), a hash by `Set` (a repeated field keeps its place, last value wins), a sorted set by inserting the
members into an empty tree in file order (`ZT.insert` = btree.go `insert`: the restored tree's shape is that of this insertion order),
a NaN score → error, a stream needs its `stream` member, entries strictly increasing, last ID not below the last entry.
Two inputs Go accepts are refused here on purpose (so: "lenient" for the differential, never produced by the encoder): a score with
bits 0x8000000000000000 (−0: the model has one zero) and a sorted set that lists a member twice (Go files it under both scores).
Integers out of range (`deadline` outside int64, the others outside uint64) are errors on both sides. -/
namespace Snap
open Exec (Db Entry Value StreamId StreamEntry bytesLt sortBy sortBytes)
abbrev Bytes := List UInt8

/-- `{"format":"redisgo-memdb-snapshot","version":1,"keys":[` -/
def header : Bytes := [0x7b, 0x22, 0x66, 0x6f, 0x72, 0x6d, 0x61, 0x74, 0x22, 0x3a, 0x22, 0x72, 0x65, 0x64, 0x69, 0x73, 0x67, 0x6f, 0x2d, 0x6d, 0x65, 0x6d, 0x64, 0x62, 0x2d, 0x73, 0x6e, 0x61, 0x70, 0x73, 0x68, 0x6f, 0x74, 0x22, 0x2c, 0x22, 0x76, 0x65, 0x72, 0x73, 0x69, 0x6f, 0x6e, 0x22, 0x3a, 0x31, 0x2c, 0x22, 0x6b, 0x65, 0x79, 0x73, 0x22, 0x3a, 0x5b]
/-- `{"key":` -/
def keyPre : Bytes := [0x7b, 0x22, 0x6b, 0x65, 0x79, 0x22, 0x3a]
/-- `,"type":"` -/
def typePre : Bytes := [0x2c, 0x22, 0x74, 0x79, 0x70, 0x65, 0x22, 0x3a, 0x22]
/-- `,"deadline":` -/
def dlPre : Bytes := [0x2c, 0x22, 0x64, 0x65, 0x61, 0x64, 0x6c, 0x69, 0x6e, 0x65, 0x22, 0x3a]
/-- `,"str":` -/
def strPre : Bytes := [0x2c, 0x22, 0x73, 0x74, 0x72, 0x22, 0x3a]
/-- `,"list":[` -/
def listPre : Bytes := [0x2c, 0x22, 0x6c, 0x69, 0x73, 0x74, 0x22, 0x3a, 0x5b]
/-- `,"set":[` -/
def setPre : Bytes := [0x2c, 0x22, 0x73, 0x65, 0x74, 0x22, 0x3a, 0x5b]
/-- `,"hash":[` -/
def hashPre : Bytes := [0x2c, 0x22, 0x68, 0x61, 0x73, 0x68, 0x22, 0x3a, 0x5b]
/-- `,"zset":[` -/
def zsetPre : Bytes := [0x2c, 0x22, 0x7a, 0x73, 0x65, 0x74, 0x22, 0x3a, 0x5b]
/-- `,"stream":{"last_ms":` -/
def streamPre : Bytes := [0x2c, 0x22, 0x73, 0x74, 0x72, 0x65, 0x61, 0x6d, 0x22, 0x3a, 0x7b, 0x22, 0x6c, 0x61, 0x73, 0x74, 0x5f, 0x6d, 0x73, 0x22, 0x3a]
/-- `,"last_seq":` -/
def lastSeqPre : Bytes := [0x2c, 0x22, 0x6c, 0x61, 0x73, 0x74, 0x5f, 0x73, 0x65, 0x71, 0x22, 0x3a]
/-- `,"entries":[` -/
def entriesPre : Bytes := [0x2c, 0x22, 0x65, 0x6e, 0x74, 0x72, 0x69, 0x65, 0x73, 0x22, 0x3a, 0x5b]
/-- `{"field":` -/
def fieldPre : Bytes := [0x7b, 0x22, 0x66, 0x69, 0x65, 0x6c, 0x64, 0x22, 0x3a]
/-- `,"value":` -/
def valuePre : Bytes := [0x2c, 0x22, 0x76, 0x61, 0x6c, 0x75, 0x65, 0x22, 0x3a]
/-- `{"member":` -/
def memberPre : Bytes := [0x7b, 0x22, 0x6d, 0x65, 0x6d, 0x62, 0x65, 0x72, 0x22, 0x3a]
/-- `,"score_bits":` -/
def scorePre : Bytes := [0x2c, 0x22, 0x73, 0x63, 0x6f, 0x72, 0x65, 0x5f, 0x62, 0x69, 0x74, 0x73, 0x22, 0x3a]
/-- `{"ms":` -/
def msPre : Bytes := [0x7b, 0x22, 0x6d, 0x73, 0x22, 0x3a]
/-- `,"seq":` -/
def seqPre : Bytes := [0x2c, 0x22, 0x73, 0x65, 0x71, 0x22, 0x3a]
/-- `,"fields":[` -/
def fieldsPre : Bytes := [0x2c, 0x22, 0x66, 0x69, 0x65, 0x6c, 0x64, 0x73, 0x22, 0x3a, 0x5b]
/-- `string` -/
def tString : Bytes := [0x73, 0x74, 0x72, 0x69, 0x6e, 0x67]
/-- `list` -/
def tList : Bytes := [0x6c, 0x69, 0x73, 0x74]
/-- `set` -/
def tSet : Bytes := [0x73, 0x65, 0x74]
/-- `hash` -/
def tHash : Bytes := [0x68, 0x61, 0x73, 0x68]
/-- `zset` -/
def tZSet : Bytes := [0x7a, 0x73, 0x65, 0x74]
/-- `stream` -/
def tStream : Bytes := [0x73, 0x74, 0x72, 0x65, 0x61, 0x6d]

def quote : UInt8 := 0x22
def comma : UInt8 := 0x2c
def rbrack : UInt8 := 0x5d
def rbrace : UInt8 := 0x7d
def minus : UInt8 := 0x2d

/-! ## the encoder (`GetSnapshot`) -/

/-- a `[]byte`: `"<base64>"` -/
def encB (b : Bytes) : Bytes := Codec.encElem (some b)

/-- the elements of an array, comma separated, and the closing bracket (the opening one belongs to the member's prefix) -/
def encArr (enc : α → Bytes) : List α → Bytes
| [] => [rbrack]
| [a] => enc a ++ [rbrack]
| a :: b :: as => enc a ++ comma :: encArr enc (b :: as)

/-- `strconv.FormatInt(d, 10)` -/
def encI (d : Int) : Bytes := Resp.encInt d
/-- `strconv.FormatUint(n, 10)` -/
def encN (n : Nat) : Bytes := Resp.dec n

def keyLt (a b : Bytes × β) : Bool := bytesLt a.1 b.1

def encField (p : Bytes × Bytes) : Bytes := fieldPre ++ encB p.1 ++ valuePre ++ encB p.2 ++ [rbrace]
/-- a member with the order key of its score -/
def encMember (p : Bytes × Int) : Bytes := memberPre ++ encB p.1 ++ scorePre ++ encN (ZT.unkey p.2).toNat ++ [rbrace]
def encEntry (e : StreamEntry) : Bytes :=
  msPre ++ encN e.id.ms ++ seqPre ++ encN e.id.seq ++ fieldsPre ++ encArr encB e.fields ++ [rbrace]

def encStr (b : Bytes) : Bytes := if b = [] then [] else strPre ++ encB b
def encList (l : List Bytes) : Bytes := if l = [] then [] else listPre ++ encArr encB l
/-- members in the order they are written: `sortedBytes(t.Members())` -/
def setOrder (s : List Bytes) : List Bytes := sortBytes s
def encSet (s : List Bytes) : Bytes := if setOrder s = [] then [] else setPre ++ encArr encB (setOrder s)
/-- fields in the order they are written: `sort.Strings(t.Keys())` -/
def hashOrder (h : List (Bytes × Bytes)) : List (Bytes × Bytes) := sortBy keyLt h
def encHash (h : List (Bytes × Bytes)) : Bytes := if hashOrder h = [] then [] else hashPre ++ encArr encField (hashOrder h)
/-- members in the order they are written: the names of the member index sorted -/
def zsetOrder (t : ZT.T) : List (Bytes × Int) := sortBy keyLt (ZT.members t)
def encZSet (t : ZT.T) : Bytes := if zsetOrder t = [] then [] else zsetPre ++ encArr encMember (zsetOrder t)
def encStream (es : List StreamEntry) (last : StreamId) : Bytes :=
  streamPre ++ encN last.ms ++ lastSeqPre ++ encN last.seq ++ (if es = [] then [] else entriesPre ++ encArr encEntry es) ++ [rbrace]

def typeBytes : Value → Bytes
| .str _ => tString | .list _ => tList | .set _ => tSet | .hash _ => tHash | .zset _ => tZSet | .stream _ _ => tStream

def encVal : Value → Bytes
| .str b => encStr b
| .list l => encList l
| .set s => encSet s
| .hash h => encHash h
| .zset t => encZSet t
| .stream es last => encStream es last

def encDeadline : Option Int → Bytes
| none => []
| some d => dlPre ++ encI d

def encKey (p : Bytes × Entry) : Bytes :=
  keyPre ++ encB p.1 ++ typePre ++ typeBytes p.2.val ++ quote :: (encDeadline p.2.exp ++ encVal p.2.val ++ [rbrace])

/-- keys in the order they are written: `sort.Strings(m.db.Keys())` -/
def keyOrder (db : Db) : Db := sortBy keyLt db

/-- `MemDb.GetSnapshot` -/
def encode (db : Db) : Bytes := header ++ encArr encKey (keyOrder db) ++ [rbrace]

/-! ## the decoder (`LoadSnapshot`), strict on the encoder's presentation -/

abbrev P (α : Type) := Bytes → Option (α × Bytes)

def lit (p : Bytes) (inp : Bytes) : Option Bytes := Codec.stripPrefix p inp

/-- `"<base64>"` or `null` (a nil slice: the empty byte string) -/
def pB : P Bytes := Codec.parseElem

def isDigit (c : UInt8) : Bool := 48 ≤ c.toNat && c.toNat ≤ 57

/-- the longest run of digits and what follows -/
def spanDigits : Bytes → Bytes × Bytes
| [] => ([], [])
| c :: r => if isDigit c then ((spanDigits r).1.cons c, (spanDigits r).2) else ([], c :: r)

/-- a canonical non-negative decimal (no sign, no leading zero: exactly what `strconv` prints) -/
def pNat : P Nat := fun inp =>
  let ds := (spanDigits inp).1
  match Resp.parseNat ds with
  | some n => if Resp.dec n = ds then some (n, (spanDigits inp).2) else none
  | none => none

/-- a `uint64` -/
def pU64 : P Nat := fun inp =>
  match pNat inp with
  | some (n, r) => if n < 2 ^ 64 then some (n, r) else none
  | none => none

/-- an `int64`: canonical decimal with an optional `-` (`-0` is not canonical) -/
def pI64 : P Int := fun inp =>
  match inp with
  | c :: r =>
    if c = minus then
      match pNat r with
      | some (n, r') => if 0 < n ∧ n ≤ 2 ^ 63 then some (-(n : Int), r') else none
      | none => none
    else match pNat inp with
      | some (n, r') => if n < 2 ^ 63 then some ((n : Int), r') else none
      | none => none
  | [] => none

/-- the elements of an array up to and including `]` (at least one element) -/
def parseElems (p : P α) : Nat → Bytes → Option (List α × Bytes)
| 0, _ => none
| fuel + 1, inp =>
  match p inp with
  | none => none
  | some (a, rest) =>
    match rest with
    | [] => none
    | c :: rest' =>
      if c = rbrack then some ([a], rest')
      else if c = comma then
        match parseElems p fuel rest' with
        | some (as, t) => some (a :: as, t)
        | none => none
      else none

/-- an array, the input starting after `[` -/
def parseArr (p : P α) (inp : Bytes) : Option (List α × Bytes) :=
  match inp with
  | c :: r => if c = rbrack then some ([], r) else parseElems p inp.length inp
  | [] => none

/-- an `omitempty` member: present (its prefix is there) or absent (the default) -/
def optField (pre : Bytes) (p : P α) (dflt : α) : P α := fun inp =>
  match lit pre inp with
  | some r => p r
  | none => some (dflt, inp)

def pField : P (Bytes × Bytes) := fun inp =>
  match lit fieldPre inp with
  | none => none
  | some r =>
    match pB r with
    | none => none
    | some (f, r) =>
      match lit valuePre r with
      | none => none
      | some r =>
        match pB r with
        | none => none
        | some (v, r) =>
          match lit [rbrace] r with
          | none => none
          | some r => some ((f, v), r)

/-- a score the model can hold: not NaN (`math.IsNaN`: the order key lies outside [−inf, +inf]) and not −0 -/
def validScore (b : UInt64) : Bool :=
  let k := ZT.skey b
  decide (ZT.keyNegInf ≤ k) && decide (k ≤ ZT.keyInf) && ZT.unkey k == b

/-- a member with its order key -/
def pMember : P (Bytes × Int) := fun inp =>
  match lit memberPre inp with
  | none => none
  | some r =>
    match pB r with
    | none => none
    | some (m, r) =>
      match lit scorePre r with
      | none => none
      | some r =>
        match pU64 r with
        | none => none
        | some (n, r) =>
          match lit [rbrace] r with
          | none => none
          | some r => if validScore (UInt64.ofNat n) then some ((m, ZT.skey (UInt64.ofNat n)), r) else none

def pEntry : P StreamEntry := fun inp =>
  match lit msPre inp with
  | none => none
  | some r =>
    match pU64 r with
    | none => none
    | some (ms, r) =>
      match lit seqPre r with
      | none => none
      | some r =>
        match pU64 r with
        | none => none
        | some (seq, r) =>
          match lit fieldsPre r with
          | none => none
          | some r =>
            match parseArr pB r with
            | none => none
            | some (fs, r) =>
              match lit [rbrace] r with
              | none => none
              | some r => some ({ id := ⟨ms, seq⟩, fields := fs }, r)

/-- `Set.Add` -/
def sadd (s : List Bytes) (m : Bytes) : List Bytes := if s.contains m then s else s ++ [m]
/-- `Hash.Set` -/
def hput (h : List (Bytes × Bytes)) (p : Bytes × Bytes) : List (Bytes × Bytes) :=
  if h.any (fun q => q.1 == p.1) then h.map (fun q => if q.1 == p.1 then p else q) else h ++ [p]
/-- `z.Insert(&SortedSetNode{Names: {m}, Score: s})` for every recorded member, in file order, into the empty tree -/
def zbuild (ms : List (Bytes × Int)) : ZT.T := ms.foldl (fun t p => ZT.insert t p.2 p.1) .nil

/-- every entry after its predecessor -/
def increasing : List StreamEntry → Bool
| [] => true
| [_] => true
| a :: b :: r => decide (a.id.ms < b.id.ms ∨ (a.id.ms = b.id.ms ∧ a.id.seq < b.id.seq)) && increasing (b :: r)

/-- "stream last ID is smaller than its last entry" does not hold -/
def lastOk (es : List StreamEntry) (last : StreamId) : Bool :=
  match es.getLast? with
  | none => true
  | some e => !decide (last.ms < e.id.ms ∨ (last.ms = e.id.ms ∧ last.seq < e.id.seq))

def pStream : P Value := fun inp =>
  match lit streamPre inp with
  | none => none
  | some r =>
    match pU64 r with
    | none => none
    | some (lms, r) =>
      match lit lastSeqPre r with
      | none => none
      | some r =>
        match pU64 r with
        | none => none
        | some (lseq, r) =>
          match optField entriesPre (parseArr pEntry) [] r with
          | none => none
          | some (es, r) =>
            match lit [rbrace] r with
            | none => none
            | some r => if increasing es && lastOk es ⟨lms, lseq⟩ then some (.stream es ⟨lms, lseq⟩, r) else none

/-- `restoreValue`: the value member that belongs to the recorded type -/
def pValue (ty : Bytes) : P Value := fun inp =>
  if ty = tString then
    match optField strPre pB [] inp with
    | some (b, r) => some (.str b, r)
    | none => none
  else if ty = tList then
    match optField listPre (parseArr pB) [] inp with
    | some (l, r) => some (.list l, r)
    | none => none
  else if ty = tSet then
    match optField setPre (parseArr pB) [] inp with
    | some (l, r) => some (.set (l.foldl sadd []), r)
    | none => none
  else if ty = tHash then
    match optField hashPre (parseArr pField) [] inp with
    | some (l, r) => some (.hash (l.foldl hput []), r)
    | none => none
  else if ty = tZSet then
    match optField zsetPre (parseArr pMember) [] inp with
    | some (l, r) => if (l.map (·.1)).Nodup then some (.zset (zbuild l), r) else none
    | none => none
  else if ty = tStream then pStream inp
  else none

def pDeadline : P (Option Int) := fun inp =>
  match lit dlPre inp with
  | some r => (match pI64 r with | some (d, r') => some (some d, r') | none => none)
  | none => some (none, inp)

def pKey : P (Bytes × Entry) := fun inp =>
  match lit keyPre inp with
  | none => none
  | some r =>
    match pB r with
    | none => none
    | some (k, r) =>
      match lit typePre r with
      | none => none
      | some r =>
        match Codec.spanQuote r with
        | none => none
        | some (ty, r) =>
          match pDeadline r with
          | none => none
          | some (dl, r) =>
            match pValue ty r with
            | none => none
            | some (v, r) =>
              match lit [rbrace] r with
              | none => none
              | some r => some ((k, { val := v, exp := dl }), r)

/-- `MemDb.LoadSnapshot`: the keyspace the snapshot records (it REPLACES the current one); `none` = an error, keyspace unchanged -/
def decode (inp : Bytes) : Option Db :=
  match lit header inp with
  | none => none
  | some r =>
    match parseArr pKey r with
    | some (ks, [c]) => if c = rbrace ∧ (ks.map (·.1)).Nodup then some ks else none
    | _ => none

/-! ## the canonical presentation of a keyspace: what `decode (encode db)` is -/

def canonVal : Value → Value
| .set s => .set (setOrder s)
| .hash h => .hash (hashOrder h)
| .zset t => .zset (zbuild (zsetOrder t))
| v => v

def canon (db : Db) : Db := (keyOrder db).map fun p => (p.1, { val := canonVal p.2.val, exp := p.2.exp })

/-! ## the value ranges of the Go types (hypothesis of the round trip; checked by the driver on every state it encodes) -/

def valBoundedB : Value → Bool
| .zset t => (ZT.members t).all fun p => decide (ZT.keyNegInf ≤ p.2) && decide (p.2 ≤ ZT.keyInf)
| .stream es last => decide (last.ms < 2 ^ 64) && decide (last.seq < 2 ^ 64) &&
    es.all fun e => decide (e.id.ms < 2 ^ 64) && decide (e.id.seq < 2 ^ 64)
| _ => true

def entryBoundedB (e : Entry) : Bool :=
  valBoundedB e.val && (match e.exp with | some d => decide (Exec.minI64 ≤ d) && decide (d ≤ Exec.maxI64) | none => true)

/-- scores are doubles (no NaN), stream IDs are `uint64` pairs, deadlines are `int64` -/
def boundedB (db : Db) : Bool := db.all fun p => entryBoundedB p.2

end Snap
