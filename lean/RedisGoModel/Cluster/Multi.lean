import RedisGoModel.Cluster.Rendezvous
/-! C07, cluster mode with SEVERAL nodes: `M` nodes, each with its own reply rendezvous (`Rendezvous.State`, driven by the very
    `Rendezvous.next` that the `rendezvous` engine replays against `Manager.HandleCluster` / `handleClusterCommits`), each applying a
    prefix of its own copy of the replicated log; clients are connected to any node.  Core Lean only (no Mathlib, no Raft import):
    the Raft side is abstract here and enters as the guard `RaftFacts`; `Props/C07Multi.lean` puts this model on top of a run of the
    abstract Raft protocol L0 (`Raft/RS.lean`) and discharges the guard from the L0 theorems.

    * `submit i c cmd id` — connection `c` of node `i` (idle) registers `id` in node `i`'s callback map and hands the proposal to raft.
    * `apply i e`        — node `i` applies its next committed entry `e` (`Rendezvous.next … (.apply e)`): it runs it on ITS state
                            machine and delivers the result to the local waiter if the id is registered THERE; on every other node the
                            same entry is (or will be) a foreign entry.
    * `receive i c`      — the waiter of connection `c` at node `i` takes the value.

    What raft does between `submit` and `apply` (forwarding to the leader, appending, replicating, committing, elections) does not
    touch any field of this state; it is visible only through which `apply` events are possible — the guard.

    Ghost fields: `now` (a cluster-wide clock: number of events so far) and `invT`/`resT` (per node and connection, the time of each
    submission / receipt on that clock).  The per-node ghost clocks inside `Rendezvous.State` keep ticking per node and are not
    used for cross-node statements.  No transition reads a ghost field. -/
namespace Multi
open Rendezvous (Entry upd)

inductive Event (Node Id Conn Cmd : Type) where
  | submit (i : Node) (c : Conn) (cmd : Cmd) (id : Id)
  | apply (i : Node) (e : Entry Id Cmd)
  | receive (i : Node) (c : Conn)

structure State (Node Id Conn S Cmd Reply : Type) where
  /-- the rendezvous state of each node: callback map, waiting connections, wait channels, applied log, state machine -/
  node : Node → Rendezvous.State Id Conn S Cmd Reply
  /-- ghost: cluster-wide clock -/
  now : Nat
  /-- ghost: cluster-wide time of each submission / each receipt of connection `c` of node `i`, oldest first -/
  invT : Node × Conn → List Nat
  resT : Node × Conn → List Nat

variable {Node Id Conn S Cmd Reply : Type}

def init (s0 : S) : State Node Id Conn S Cmd Reply :=
  { node := fun _ => Rendezvous.init s0, now := 0, invT := fun _ => [], resT := fun _ => [] }

/-- the node an event happens at, and the event of that node's rendezvous model -/
def Event.local : Event Node Id Conn Cmd → Node × Rendezvous.Event Id Conn Cmd
  | .submit i c cmd id => (i, .submit c cmd id)
  | .apply i e => (i, .apply e)
  | .receive i c => (i, .receive c)

/-- an event is enabled when it is enabled in the rendezvous model of its node -/
def enabled (st : State Node Id Conn S Cmd Reply) (ev : Event Node Id Conn Cmd) : Bool :=
  Rendezvous.enabled (st.node ev.local.1) ev.local.2

variable [DecidableEq Node] [DecidableEq Id] [DecidableEq Conn]

/-- one event: the node's own `Rendezvous.next`, the other nodes untouched; the cluster clock ticks and stamps the history -/
def next (step : S → Cmd → S × Reply) (st : State Node Id Conn S Cmd Reply) : Event Node Id Conn Cmd → State Node Id Conn S Cmd Reply
  | .submit i c cmd id =>
    { st with
      node := upd st.node i (Rendezvous.next step (st.node i) (.submit c cmd id))
      now := st.now + 1
      invT := upd st.invT (i, c) (st.invT (i, c) ++ [st.now]) }
  | .apply i e =>
    { st with
      node := upd st.node i (Rendezvous.next step (st.node i) (.apply e))
      now := st.now + 1 }
  | .receive i c =>
    if Rendezvous.enabled (st.node i) (.receive c : Rendezvous.Event Id Conn Cmd) then
      { st with
        node := upd st.node i (Rendezvous.next step (st.node i) (.receive c))
        now := st.now + 1
        resT := upd st.resT (i, c) (st.resT (i, c) ++ [st.now]) }
    else st

/-- **The interface to Raft**, as a guard on each event.  Every conjunct is discharged in `Props/C07Multi.lean` for the model run
    on top of an L0 run (`C07Multi.cinv_submit`, `C07Multi.cinv_applyEntry`, assembled in `C07Multi.cinv_step`), from the L0 theorem named here:

    * `submit i c cmd id` — **cluster-wide unique proposal ids**: no connection of ANY node has used `id`, and no node has an entry
      with that id in its applied log.  (Environment hypothesis — `uuid.NewString`; the second half follows from the first and
      "raft appends a proposal only after it was submitted", which the L0 composition enforces by construction.)
    * `apply i e` —
      (a) **state-machine safety** (`RS.C15_state_machine_safety`, through `C07Multi.sms_prefix`): node `i`'s applied log extended
          by `e` is still prefix-comparable with the applied log of every other node — every node applies a prefix of ONE log;
      (b) **a proposal is committed at most once**: no entry already applied at node `i` carries `e.id` (in the L0 composition: a
          proposal is handed to a leader's log at most once — hypothesis `AppendOnce` on the transport —, and then log matching /
          leader completeness keep every copy of it at one index: `C07Multi.data_pos_unique`);
      (c) **only submitted proposals are appended, unchanged**: `e` is the proposal `(id, cmd)` of some connection of some node
          (in the L0 composition `clientReq` happens only for a submitted proposal; closed cluster: no entries from outside). -/
def RaftFacts (st : State Node Id Conn S Cmd Reply) : Event Node Id Conn Cmd → Prop
  | .submit _ _ _ id => ∀ n, (∀ c' p, p ∈ (st.node n).subs c' → p.1 ≠ id) ∧ (∀ e, e ∈ (st.node n).log → e.id ≠ id)
  | .apply i e =>
    (∀ n, (st.node i).log ++ [e] <+: (st.node n).log ∨ (st.node n).log <+: (st.node i).log ++ [e]) ∧
    (∀ e', e' ∈ (st.node i).log → e'.id ≠ e.id) ∧
    (∃ n c, (e.id, e.cmd) ∈ (st.node n).subs c)
  | .receive _ _ => True

/-- the states the cluster reaches when every event satisfies `guard` -/
inductive Reach (step : S → Cmd → S × Reply) (s0 : S) (guard : State Node Id Conn S Cmd Reply → Event Node Id Conn Cmd → Prop) :
    State Node Id Conn S Cmd Reply → Prop
  | init : Reach step s0 guard (init s0)
  | step {st ev} : Reach step s0 guard st → enabled st ev = true → guard st ev → Reach step s0 guard (next step st ev)

end Multi
