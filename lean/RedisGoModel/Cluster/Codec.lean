/-! # C14 — the wire codec of a cluster proposal (core Lean only; linked into the compiled driver)

What a cluster node appends to the replicated log for one client command is
`json.Marshal(&raftexample.RaftProposal{Data: strings.Join(words, " "), Args: cmd, ID: id})`, i.e. the bytes

    {"Data":<json string>,"Args":[<base64 json string | null>,…],"ID":<json string>}

(`Args` carries `json:",omitempty"`: it is left out when `len(Args) == 0`, nil or not).  This file models

* `b64encode` / `b64decode` — `encoding/base64.StdEncoding` (RFC 4648 alphabet `A-Za-z0-9+/`, `=` padding), which is how
  `encoding/json` renders a `[]byte`;
* `jsonString` — `encoding/json`'s `appendString` with HTML escaping on (the default of `json.Marshal`): `\"`, `\\`, the short forms
  `\b \f \n \r \t`, every other byte below 0x20 and `<`, `>`, `&` as `\u00XX`, U+2028/U+2029 as `\u2028`/`\u2029`, every byte that
  is not part of a well-formed UTF-8 sequence (`utf8.DecodeRune`'s acceptance table, including the E0/ED/F0/F4 second-byte ranges)
  as `\ufffd`, everything else copied — **for arbitrary byte strings**, so the `Data` and `ID` fields are modelled for every input;
* `encodeProposalN` / `encodeProposal` — the whole object, byte for byte;
* `decodeProposalArgs` — what `json.Unmarshal(entry.Data, &proposal)` leaves in `proposal.Args` for an object in the encoder's field
  order (`none` when there is no `Args` member: the legacy proposal that `applyClusterProposal` still reads by splitting `Data`);
* `jsonUnquote` — `encoding/json`'s `unquote` for the strings the encoder produces (used by the driver to recompute the decoded `Data`
  and `ID`, and by the negative witness for the old codec);
* `joinSp` / `splitSp` — `strings.Join(·, " ")` / `strings.Split(·, " ")`: the old codec.

Restrictions of the *decoder* model, stated: it accepts the encoder's field order without insignificant white space (Go's decoder
accepts any member order, case-insensitive names and white space); `jsonUnquote` copies bytes ≥ 0x80 unchanged (Go re-validates and
would substitute U+FFFD — never needed on encoder output, which is well-formed UTF-8) and refuses surrogate `\uD800…\uDFFF` escapes
(never emitted by the encoder, which copies 4-byte sequences raw); `b64decode` does not skip CR/LF inside the base64 text (Go's
decoder does; never emitted).  Whenever the model decoder answers `some`, it is what Go computes on that input; this direction and
the byte-exactness of the encoder are what the `codec` engine checks against the real `encoding/json` on every run. -/
namespace Codec
abbrev Bytes := List UInt8

/-! ## base64 (RFC 4648 standard alphabet, padded) -/

/-- the alphabet: sextet value ↦ character -/
def b64char (n : Nat) : UInt8 :=
  if n < 26 then UInt8.ofNat (65 + n) else if n < 52 then UInt8.ofNat (71 + n) else if n < 62 then UInt8.ofNat (n - 4)
  else if n = 62 then 43 else 47

/-- character ↦ sextet value -/
def b64val (c : UInt8) : Option Nat :=
  let n := c.toNat
  if 65 ≤ n ∧ n ≤ 90 then some (n - 65) else if 97 ≤ n ∧ n ≤ 122 then some (n - 71) else if 48 ≤ n ∧ n ≤ 57 then some (n + 4)
  else if n = 43 then some 62 else if n = 47 then some 63 else none

/-- `=` -/
def pad : UInt8 := 61

def b64encode : Bytes → Bytes
| [] => []
| [a] => [b64char (a.toNat / 4), b64char (a.toNat % 4 * 16), pad, pad]
| [a, b] => [b64char (a.toNat / 4), b64char (a.toNat % 4 * 16 + b.toNat / 16), b64char (b.toNat % 16 * 4), pad]
| a :: b :: c :: r =>
  b64char (a.toNat / 4) :: b64char (a.toNat % 4 * 16 + b.toNat / 16) :: b64char (b.toNat % 16 * 4 + c.toNat / 64)
    :: b64char (c.toNat % 64) :: b64encode r

/-- bytes of one group from its sextets -/
def byte0 (v0 v1 : Nat) : UInt8 := UInt8.ofNat (v0 * 4 + v1 / 16)
def byte1 (v1 v2 : Nat) : UInt8 := UInt8.ofNat (v1 % 16 * 16 + v2 / 4)
def byte2 (v2 v3 : Nat) : UInt8 := UInt8.ofNat (v2 % 4 * 64 + v3)

/-- groups of four characters; padding only in the last group (`xx==` one byte, `xxx=` two bytes) -/
def b64decode : Bytes → Option Bytes
| [] => some []
| c0 :: c1 :: c2 :: c3 :: r =>
  match b64val c0, b64val c1 with
  | some v0, some v1 =>
    if c2 = pad then (if c3 = pad ∧ r = [] then some [byte0 v0 v1] else none)
    else match b64val c2 with
      | none => none
      | some v2 =>
        if c3 = pad then (if r = [] then some [byte0 v0 v1, byte1 v1 v2] else none)
        else match b64val c3 with
          | none => none
          | some v3 => (b64decode r).map fun t => byte0 v0 v1 :: byte1 v1 v2 :: byte2 v2 v3 :: t
  | _, _ => none
| _ => none

/-- the characters base64 text is made of -/
def isB64 (c : UInt8) : Prop :=
  (65 ≤ c.toNat ∧ c.toNat ≤ 90) ∨ (97 ≤ c.toNat ∧ c.toNat ≤ 122) ∨ (48 ≤ c.toNat ∧ c.toNat ≤ 57) ∨ c.toNat = 43 ∨ c.toNat = 47
    ∨ c.toNat = 61

/-! ## JSON strings as `encoding/json` writes them -/

def hexLow (n : Nat) : UInt8 := if n < 10 then UInt8.ofNat (48 + n) else UInt8.ofNat (87 + n)   -- "0123456789abcdef"

def quote : UInt8 := 0x22
def bslash : UInt8 := 0x5c

/-- `htmlSafeSet`: printable ASCII except `"`, `&`, `<`, `>`, `\` (0x7f counts as safe) -/
def htmlSafe (c : UInt8) : Bool :=
  0x20 ≤ c.toNat && c.toNat < 0x80 && c.toNat != 0x22 && c.toNat != 0x26 && c.toNat != 0x3c && c.toNat != 0x3e && c.toNat != 0x5c

/-- one byte below 0x80 -/
def escAscii (c : UInt8) : Bytes :=
  if htmlSafe c then [c]
  else if c = quote ∨ c = bslash then [bslash, c]
  else if c = 0x08 then [bslash, 0x62]        -- \b
  else if c = 0x0c then [bslash, 0x66]        -- \f
  else if c = 0x0a then [bslash, 0x6e]        -- \n
  else if c = 0x0d then [bslash, 0x72]        -- \r
  else if c = 0x09 then [bslash, 0x74]        -- \t
  else [bslash, 0x75, 0x30, 0x30, hexLow (c.toNat / 16), hexLow (c.toNat % 16)]   -- \u00XX

def inR (lo hi : Nat) (x : UInt8) : Bool := lo ≤ x.toNat && x.toNat ≤ hi

/-- `utf8.DecodeRune` on `c :: r` with `c ≥ 0x80`: the number of continuation bytes of the well-formed sequence that starts here,
    `0` when there is none (Go then reports `(RuneError, 1)`).  First-byte classes and second-byte ranges as in `unicode/utf8`. -/
def utf8Tail (c : UInt8) (r : Bytes) : Nat :=
  let n := c.toNat
  if 0xC2 ≤ n ∧ n ≤ 0xDF then
    match r with
    | b1 :: _ => if inR 0x80 0xBF b1 then 1 else 0
    | _ => 0
  else if 0xE0 ≤ n ∧ n ≤ 0xEF then
    match r with
    | b1 :: b2 :: _ =>
      if inR (if n = 0xE0 then 0xA0 else 0x80) (if n = 0xED then 0x9F else 0xBF) b1 && inR 0x80 0xBF b2 then 2 else 0
    | _ => 0
  else if 0xF0 ≤ n ∧ n ≤ 0xF4 then
    match r with
    | b1 :: b2 :: b3 :: _ =>
      if inR (if n = 0xF0 then 0x90 else 0x80) (if n = 0xF4 then 0x8F else 0xBF) b1 && inR 0x80 0xBF b2 && inR 0x80 0xBF b3
      then 3 else 0
    | _ => 0
  else 0

def ufffd : Bytes := [bslash, 0x75, 0x66, 0x66, 0x66, 0x64]        -- \ufffd
def u202 (last : UInt8) : Bytes := [bslash, 0x75, 0x32, 0x30, 0x32, last]   -- \u2028 /

/-- is `c :: r` the UTF-8 form of U+2028 (`E2 80 A8`) or U+2029 (`E2 80 A9`)?  answers the last hex digit -/
def lineSep (c : UInt8) (r : Bytes) : Option UInt8 :=
  match r with
  | b1 :: b2 :: _ => if c = 0xE2 ∧ b1 = 0x80 ∧ b2 = 0xA8 then some 0x38 else if c = 0xE2 ∧ b1 = 0x80 ∧ b2 = 0xA9 then some 0x39 else none
  | _ => none

/-- the body of the JSON string.  `k` bytes of an already validated multi-byte sequence are pending: copied (`cp`) or, after a
    `\u2028`/`\u2029` escape, dropped. -/
def esc : Bool → Nat → Bytes → Bytes
| _, _, [] => []
| cp, k + 1, c :: r => (if cp then [c] else []) ++ esc cp k r
| _, 0, c :: r =>
  if c.toNat < 128 then escAscii c ++ esc true 0 r
  else match utf8Tail c r with
    | 0 => ufffd ++ esc true 0 r
    | n + 1 =>
      match lineSep c r with
      | some d => u202 d ++ esc false (n + 1) r
      | none => c :: esc true (n + 1) r

def jsonEscape (s : Bytes) : Bytes := esc true 0 s
def jsonString (s : Bytes) : Bytes := quote :: jsonEscape s ++ [quote]

/-! ## reading JSON strings -/

/-- after the opening quote: the input after the closing quote (`\` takes the next byte with it), as Go's scanner delimits a string -/
def skipStr : Bytes → Option Bytes
| [] => none
| [c] => if c = quote then some [] else none
| c :: d :: r => if c = quote then some (d :: r) else if c = bslash then skipStr r else skipStr (d :: r)

/-- after the opening quote: the body up to the closing quote and the input after it; `none` when the body contains a backslash
    (base64 text never does) -/
def spanQuote : Bytes → Option (Bytes × Bytes)
| [] => none
| c :: r =>
  if c = quote then some ([], r) else if c = bslash then none
  else match spanQuote r with
    | some (b, t) => some (c :: b, t)
    | none => none

def hexVal (c : UInt8) : Option Nat :=
  let n := c.toNat
  if 48 ≤ n ∧ n ≤ 57 then some (n - 48) else if 97 ≤ n ∧ n ≤ 102 then some (n - 87) else if 65 ≤ n ∧ n ≤ 70 then some (n - 55) else none

/-- UTF-8 form of a code point below 0x10000 -/
def utf8Enc (cp : Nat) : Bytes :=
  if cp < 0x80 then [UInt8.ofNat cp]
  else if cp < 0x800 then [UInt8.ofNat (0xC0 + cp / 64), UInt8.ofNat (0x80 + cp % 64)]
  else [UInt8.ofNat (0xE0 + cp / 4096), UInt8.ofNat (0x80 + cp / 64 % 64), UInt8.ofNat (0x80 + cp % 64)]

def unescChar (e : UInt8) : Option UInt8 :=
  if e = quote ∨ e = bslash ∨ e = 0x2f then some e
  else if e = 0x62 then some 0x08 else if e = 0x66 then some 0x0c else if e = 0x6e then some 0x0a
  else if e = 0x72 then some 0x0d else if e = 0x74 then some 0x09 else none

/-- after the opening quote: the decoded string and the input after the closing quote (`encoding/json` `unquote`; see the header for
    the two stated restrictions) -/
def unq : Nat → Bytes → Option (Bytes × Bytes)
| 0, _ => none
| _ + 1, [] => none
| fuel + 1, c :: r =>
  if c = quote then some ([], r)
  else if c = bslash then
    match r with
    | [] => none
    | e :: r' =>
      if e = 0x75 then
        match r' with
        | h1 :: h2 :: h3 :: h4 :: r'' =>
          match hexVal h1, hexVal h2, hexVal h3, hexVal h4 with
          | some a, some b, some c', some d =>
            let cp := ((a * 16 + b) * 16 + c') * 16 + d
            if 0xD800 ≤ cp ∧ cp ≤ 0xDFFF then none
            else match unq fuel r'' with
              | some (s, t) => some (utf8Enc cp ++ s, t)
              | none => none
          | _, _, _, _ => none
        | _ => none
      else match unescChar e, unq fuel r' with
        | some x, some (s, t) => some (x :: s, t)
        | _, _ => none
  else if c.toNat < 0x20 then none
  else match unq fuel r with
    | some (s, t) => some (c :: s, t)
    | none => none

/-- a complete JSON string value (`"…"`) decoded; nothing may follow -/
def jsonUnquote (s : Bytes) : Option Bytes :=
  match s with
  | c :: r => if c = quote then (match unq (r.length + 1) r with | some (b, []) => some b | _ => none) else none
  | [] => none

/-! ## the proposal object -/

def stripPrefix : Bytes → Bytes → Option Bytes
| [], r => some r
| _ :: _, [] => none
| p :: ps, c :: r => if p = c then stripPrefix ps r else none

/-- `{"Data":"` -/
def preData : Bytes := [0x7b, 0x22, 0x44, 0x61, 0x74, 0x61, 0x22, 0x3a, 0x22]
/-- `,"Args":[` -/
def preArgs : Bytes := [0x2c, 0x22, 0x41, 0x72, 0x67, 0x73, 0x22, 0x3a, 0x5b]
/-- `,"ID":"` -/
def preId : Bytes := [0x2c, 0x22, 0x49, 0x44, 0x22, 0x3a, 0x22]
/-- `null` -/
def jnull : Bytes := [0x6e, 0x75, 0x6c, 0x6c]
def comma : UInt8 := 0x2c
def rbrack : UInt8 := 0x5d
def rbrace : UInt8 := 0x7d
def space : UInt8 := 0x20

/-- one element of `Args`: a nil `[]byte` is `null`, anything else (the empty non-nil slice too) a base64 string -/
def encElem : Option Bytes → Bytes
| none => jnull
| some a => quote :: b64encode a ++ [quote]

/-- the elements, comma separated, and the closing bracket -/
def encElems : List (Option Bytes) → Bytes
| [] => [rbrack]
| [a] => encElem a ++ [rbrack]
| a :: b :: as => encElem a ++ comma :: encElems (b :: as)

/-- `strings.Join(words, " ")` -/
def joinSp : List Bytes → Bytes
| [] => []
| [a] => a
| a :: b :: as => a ++ space :: joinSp (b :: as)

/-- `strings.Split(s, " ")` (always at least one word) -/
def splitGo : Bytes → Bytes → List Bytes
| [], cur => [cur.reverse]
| c :: r, cur => if c = space then cur.reverse :: splitGo r [] else splitGo r (c :: cur)
def splitSp (s : Bytes) : List Bytes := splitGo s []

/-- `json.Marshal(&RaftProposal{Data, Args, ID})` for arbitrary field values; `args` with `none` for a nil element -/
def encodeStruct (data : Bytes) (args : List (Option Bytes)) (id : Bytes) : Bytes :=
  preData ++ jsonEscape data ++ quote ::
    ((if args.isEmpty then [] else preArgs ++ encElems args) ++ preId ++ jsonEscape id ++ [quote, rbrace])

/-- `newClusterProposal(cmd, id).ToBytes()`: `Data` is the space-joined text, `Args` the argument vector itself -/
def encodeProposalN (argv : List (Option Bytes)) (id : Bytes) : Bytes :=
  encodeStruct (joinSp (argv.map (·.getD []))) argv id

def encodeProposal (argv : List Bytes) (id : Bytes) : Bytes := encodeProposalN (argv.map some) id

/-- one array element: `"<base64>"` or `null` (decoded to the nil = empty byte string) -/
def parseElem : Bytes → Option (Bytes × Bytes)
| [] => none
| c :: r =>
  if c = quote then
    match spanQuote r with
    | some (body, t) => (match b64decode body with | some a => some (a, t) | none => none)
    | none => none
  else match stripPrefix jnull (c :: r) with
    | some t => some ([], t)
    | none => none

/-- the elements after `[` up to and including `]` -/
def decodeElems : Nat → Bytes → Option (List Bytes × Bytes)
| 0, _ => none
| fuel + 1, inp =>
  match parseElem inp with
  | none => none
  | some (a, rest) =>
    match rest with
    | [] => none
    | c :: rest' =>
      if c = rbrack then some ([a], rest')
      else if c = comma then
        match decodeElems fuel rest' with
        | some (as, t) => some (a :: as, t)
        | none => none
      else none

/-- the `Args` array (input after `[`): `[]` is the empty vector -/
def decodeArr (inp : Bytes) : Option (List Bytes × Bytes) :=
  match inp with
  | c :: r => if c = rbrack then some ([], r) else decodeElems inp.length inp
  | [] => none

/-- the `Args` array of a JSON array text (`decodeArgs (encodeArgs argv) = some argv`) -/
def encodeArgs (argv : List Bytes) : Bytes := 0x5b :: encElems (argv.map some)
def decodeArgs (s : Bytes) : Option (List Bytes) :=
  match s with
  | c :: r => if c = 0x5b then (match decodeArr r with | some (as, []) => some as | _ => none) else none
  | [] => none

/-- `proposal.Args` after `json.Unmarshal(wire, &proposal)`; `none` = no `Args` member (or not a proposal object) -/
def decodeProposalArgs (wire : Bytes) : Option (List Bytes) :=
  match stripPrefix preData wire with
  | none => none
  | some r0 =>
    match skipStr r0 with
    | none => none
    | some r1 =>
      match stripPrefix preArgs r1 with
      | none => none
      | some r2 =>
        match decodeArr r2 with
        | none => none
        | some (as, r3) =>
          match stripPrefix preId r3 with
          | none => none
          | some r4 =>
            match skipStr r4 with
            | some [c] => if c = rbrace then some as else none
            | _ => none

/-- `proposal.Data` and `proposal.ID` after `json.Unmarshal` (driver cross-check of the string decoder) -/
def decodeProposalStrings (wire : Bytes) : Option (Bytes × Bytes) :=
  match stripPrefix preData wire with
  | none => none
  | some r0 =>
    match unq (r0.length + 1) r0 with
    | none => none
    | some (data, r1) =>
      let r3 := match stripPrefix preArgs r1 with
        | some r2 => (match decodeArr r2 with | some (_, t) => t | none => r1)
        | none => r1
      match stripPrefix preId r3 with
      | none => none
      | some r4 =>
        match unq (r4.length + 1) r4 with
        | some (id, [c]) => if c = rbrace then some (data, id) else none
        | _ => none

/-! ## the cluster command filter (`server.ClusterCmdFilter`): an empty array and PUBLISH/SUBSCRIBE (any letter case) are refused with
    "command does not pass checks" before anything is proposed -/

def lowerByte (b : UInt8) : UInt8 := if 65 ≤ b.toNat ∧ b.toNat ≤ 90 then b + 32 else b
/-- `publish`, `subscribe` -/
def wPublish : Bytes := [0x70, 0x75, 0x62, 0x6c, 0x69, 0x73, 0x68]
def wSubscribe : Bytes := [0x73, 0x75, 0x62, 0x73, 0x63, 0x72, 0x69, 0x62, 0x65]

/-- `strings.ToLower` as far as equality with an ASCII word is concerned: ASCII letters are lower-cased, and the only two non-ASCII
    code points whose lower case is an ASCII letter are mapped as Go's `unicode.ToLower` maps them — U+0130 `İ` (`C4 B0`) to `i`, U+212A
    KELVIN SIGN (`E2 84 AA`) to `k`; every other byte ≥ 0x80 stays non-ASCII (Go yields some non-ASCII rune or U+FFFD there).  So
    `PUBL\u0130SH` is refused by the filter like `PUBLISH` — found by the codec differential. -/
def goLowerAux : Nat → Bytes → Bytes
| _, [] => []
| k + 1, _ :: r => goLowerAux k r          -- the remaining bytes of a code point that has been mapped
| 0, c :: r =>
  if c = 0xC4 ∧ r.head? = some 0xB0 then 0x69 :: goLowerAux 1 r
  else if c = 0xE2 ∧ r.take 2 = [0x84, 0xAA] then 0x6b :: goLowerAux 2 r
  else lowerByte c :: goLowerAux 0 r
def goLower (s : Bytes) : Bytes := goLowerAux 0 s

def clusterAccepts (argv : List Bytes) : Bool :=
  match argv with
  | [] => false
  | name :: _ => let n := goLower name; !(n == wPublish || n == wSubscribe)

/-! ## the old codec (before 9a75461/5ab7889/eed7750): the log carried `strings.Join(words, " ")` as one JSON string and the apply
    loop executed `strings.Split(Data, " ")` -/

def oldWire (argv : List Bytes) : Bytes := jsonString (joinSp argv)
def oldDecode (wire : Bytes) : Option (List Bytes) := (jsonUnquote wire).map splitSp

end Codec
