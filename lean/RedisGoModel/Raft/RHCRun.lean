import RedisGoModel.Raft.RLC

/-! C15 Stage D, step 5: **every call of the executable config-aware handler `RHC.handleC` is a finite chain of L1C steps**
    (`handleC_in_StepC`, the analogue of `RS.handle_in_Step1`), hence every run of the handler is covered by a reachable L1C state
    (`runC_covered`), hence — through `simC` and `C15_conf_holds` — **`runC_safe`**: election safety, log matching, leader completeness
    and state-machine safety for every run of `handleC`, any cluster size, any initial configuration, any schedule of messages, ticks,
    proposals, membership changes (add / remove / add-learner / promote), applications and restarts.

    One input is excluded by `enabledC` (see `RunC`): a MsgSnap that the receiver ignores because it is not in the snapshot's `ConfState`
    while its own commit index is still 0.  etcd answers it with MsgAppResp(index = committed), which for such a node acknowledges the
    empty prefix; the abstract protocol has no step that records an acknowledgement of index 0 (harmless — it moves no `match[]` — but
    not derivable), so runs containing that input are outside the theorem. -/
namespace RHC
open RS RSC

variable {N : Nat}

inductive StepsC (c0 : RQJ.Config) : SysC N → SysC N → Prop
| refl (s) : StepsC c0 s s
| tail {a b c} : StepsC c0 a b → StepC c0 b c → StepsC c0 a c

theorem StepsC.trans {c0 : RQJ.Config} {a b c : SysC N} (h1 : StepsC c0 a b) (h2 : StepsC c0 b c) : StepsC c0 a c := by
  induction h2 with
  | refl => exact h1
  | tail _ st ih => exact .tail ih st

theorem StepsC.one {c0 : RQJ.Config} {a b : SysC N} (st : StepC c0 a b) : StepsC c0 a b := .tail (.refl a) st

/-- node `i` replaced by `x`, the network by `net'` -/
def SysC.put (s : SysC N) (i : Fin N) (x : NodeC N) (net' : Msg1 N → Prop) : SysC N :=
  ⟨⟨upd1 s.l1.nodes i x.n, net'⟩, updN s.applied i x.applied, updN s.pend i x.pend⟩

theorem updN_updN (f : Fin N → Nat) (i : Fin N) (a b : Nat) : updN (updN f i a) i b = updN f i b := by
  funext j; by_cases hj : j = i <;> simp [updN, hj]

@[simp] theorem put_node (s : SysC N) (i : Fin N) (x : NodeC N) (net' : Msg1 N → Prop) : (s.put i x net').node i = x := by
  simp [SysC.put, SysC.node]

@[simp] theorem put_net (s : SysC N) (i : Fin N) (x : NodeC N) (net' : Msg1 N → Prop) : (s.put i x net').l1.net = net' := rfl

theorem put_put (s : SysC N) (i : Fin N) (x y : NodeC N) (n1 n2 : Msg1 N → Prop) :
    (s.put i x n1).put i y n2 = s.put i y n2 := by
  simp [SysC.put, upd1_upd1, updN_updN]

theorem put_self (s : SysC N) (i : Fin N) : s.put i (s.node i) s.l1.net = s := by
  cases s with
  | mk l1 ap pd => cases l1 with | mk nodes net => simp [SysC.put, SysC.node, upd1_self, updN_self]

/-- the outcome of a handler call, as a reachability statement in L1C -/
def OutcomeC (c0 : RQJ.Config) (s : SysC N) (i : Fin N) (x' : NodeC N) (resp : List (Msg1 N)) : Prop :=
  ∃ net', StepsC c0 s (s.put i x' net') ∧ (∀ m, s.l1.net m → net' m) ∧ (∀ m ∈ resp, net' m)

theorem OutcomeC.stay (c0 : RQJ.Config) (s : SysC N) (i : Fin N) : OutcomeC c0 s i (s.node i) [] :=
  ⟨s.l1.net, by rw [put_self]; exact .refl _, fun _ h => h, fun _ h => by cases h⟩

theorem OutcomeC.stay' {c0 : RQJ.Config} {s : SysC N} {i : Fin N} {x : NodeC N} (h : x = s.node i) : OutcomeC c0 s i x [] := by
  rw [h]; exact OutcomeC.stay c0 s i

/-- chaining -/
theorem OutcomeC.chain {c0 : RQJ.Config} {s : SysC N} {i : Fin N} {a : NodeC N} {r1 : List (Msg1 N)}
    (h1 : OutcomeC c0 s i a r1) {x' : NodeC N} {resp : List (Msg1 N)}
    (h2 : ∀ net1, (∀ m, s.l1.net m → net1 m) → OutcomeC c0 (s.put i a net1) i x' resp) : OutcomeC c0 s i x' (r1 ++ resp) := by
  obtain ⟨net1, st1, mono1, hr1⟩ := h1
  obtain ⟨net2, st2, mono2, hr2⟩ := h2 net1 mono1
  rw [put_put] at st2
  refine ⟨net2, st1.trans st2, fun m h => mono2 m (mono1 m h), fun m hm => ?_⟩
  rcases List.mem_append.1 hm with h | h
  · exact mono2 m (hr1 m h)
  · exact hr2 m h

theorem OutcomeC.chain0 {c0 : RQJ.Config} {s : SysC N} {i : Fin N} {a : NodeC N}
    (h1 : OutcomeC c0 s i a []) {x' : NodeC N} {resp : List (Msg1 N)}
    (h2 : ∀ net1, (∀ m, s.l1.net m → net1 m) → OutcomeC c0 (s.put i a net1) i x' resp) : OutcomeC c0 s i x' resp := by
  simpa using h1.chain h2

theorem outcomeC_of_step {c0 : RQJ.Config} {s : SysC N} {i : Fin N} {x' : NodeC N} {net' : Msg1 N → Prop} {resp : List (Msg1 N)}
    {s' : SysC N} (st : StepC c0 s s') (he : s' = s.put i x' net') (mono : ∀ m, s.l1.net m → net' m) (hr : ∀ m ∈ resp, net' m) :
    OutcomeC c0 s i x' resp := ⟨net', by rw [← he]; exact .one st, mono, hr⟩

/-- a lifted L1 step on node `i` -/
theorem outcomeC_lift {c0 : RQJ.Config} {s : SysC N} {i : Fin N} {x : Node1 N} {net' : Msg1 N → Prop} {resp : List (Msg1 N)}
    (st : Step1L s.l1 ⟨upd1 s.l1.nodes i x, net'⟩) (mono : ∀ m, s.l1.net m → net' m) (hr : ∀ m ∈ resp, net' m) :
    OutcomeC c0 s i ⟨x, s.applied i, s.pend i⟩ resp :=
  outcomeC_of_step (StepC.lift s _ st) (by simp [SysC.put, updN_self]) mono hr

/-- a lifted L1 step that only sends -/
theorem outcomeC_lift_net {c0 : RQJ.Config} {s : SysC N} {i : Fin N} {net' : Msg1 N → Prop} {resp : List (Msg1 N)}
    (st : Step1L s.l1 ⟨s.l1.nodes, net'⟩) (mono : ∀ m, s.l1.net m → net' m) (hr : ∀ m ∈ resp, net' m) :
    OutcomeC c0 s i (s.node i) resp :=
  outcomeC_of_step (StepC.lift s _ st) (by simp [SysC.put, SysC.node, upd1_self, updN_self]) mono hr

theorem outcomeC_setPend {c0 : RQJ.Config} (s : SysC N) (i : Fin N) (p : Nat) (h : (s.l1.nodes i).role ≠ .leader) :
    OutcomeC c0 s i ⟨s.l1.nodes i, s.applied i, p⟩ [] :=
  outcomeC_of_step (StepC.setPend s i p h) (by
    cases s with
    | mk l1 ap pd => cases l1 with | mk nodes net => simp [SysC.put, upd1_self, updN_self]) (fun _ h => h) (fun _ h => by cases h)

theorem cfg_put {c0 : RQJ.Config} (s : SysC N) (i : Fin N) (x : NodeC N) (net' : Msg1 N → Prop) :
    (s.put i x net').cfg c0 i = cfgOf c0 x := by simp [SysC.cfg]

/-- `maybeCommitC` under the node's configuration is `commitQ` or nothing -/
theorem outcomeC_maybeCommit (c0 : RQJ.Config) (s : SysC N) (i : Fin N) (hl : (s.l1.nodes i).role = .leader) :
    OutcomeC c0 s i ⟨maybeCommitC (s.cfg c0 i) (s.l1.nodes i), s.applied i, s.pend i⟩ [] := by
  unfold maybeCommitC
  split
  · rename_i h
    obtain ⟨h1, h2, h3⟩ := h
    rcases qidxC_quorum (s.cfg c0 i) (s.l1.nodes i).matchI with h0 | hq
    · omega
    · exact outcomeC_of_step (StepC.commitQ s i _ hl ⟨h1, h2⟩ h3 hq) (by simp [SysC.put, SysC.setNode, updN_self])
        (fun _ h => h) (fun _ h => by cases h)
  · exact OutcomeC.stay' rfl

@[simp] theorem put_l1_node (s : SysC N) (i : Fin N) (x : NodeC N) (net' : Msg1 N → Prop) : (s.put i x net').l1.nodes i = x.n := by
  simp [SysC.put]
@[simp] theorem put_applied (s : SysC N) (i : Fin N) (x : NodeC N) (net' : Msg1 N → Prop) : (s.put i x net').applied i = x.applied := by
  simp [SysC.put]
@[simp] theorem put_pend (s : SysC N) (i : Fin N) (x : NodeC N) (net' : Msg1 N → Prop) : (s.put i x net').pend i = x.pend := by
  simp [SysC.put]

theorem outcomeC_win (c0 : RQJ.Config) (s : SysC N) (i : Fin N) (hc : (s.l1.nodes i).role = .candidate)
    (hq : wonVotesC (s.cfg c0 i) (s.l1.nodes i) = true) :
    OutcomeC c0 s i ⟨winElection (s.l1.nodes i) i, s.applied i, (s.l1.nodes i).log.length⟩ [] :=
  outcomeC_of_step (StepC.win s i hc hq) (by simp [cWin, SysC.put, updN_self]) (fun _ h => h) (fun _ h => by cases h)

/-- fall back to follower in the same term, `pendingConfIndex` cleared -/
theorem outcomeC_stepDown (c0 : RQJ.Config) (s : SysC N) (i : Fin N) :
    OutcomeC c0 s i ⟨stepDownN (s.l1.nodes i), s.applied i, 0⟩ [] := by
  refine OutcomeC.chain0 (outcomeC_lift (Step1L.stepDown s.l1 i) (fun _ h => h) (fun _ h => by cases h)) fun net1 _ => ?_
  have := outcomeC_setPend (c0 := c0) (s.put i ⟨stepDownN (s.l1.nodes i), s.applied i, s.pend i⟩ net1) i 0 (by simp [stepDownN])
  simpa using this

/-- `applied` moves up to `k` (entries applied one at a time) -/
theorem outcomeC_applyUpTo (c0 : RQJ.Config) (i : Fin N) : ∀ (d : Nat) (s : SysC N), s.applied i + d ≤ (s.l1.nodes i).commit →
    OutcomeC c0 s i ⟨s.l1.nodes i, s.applied i + d, s.pend i⟩ [] := by
  intro d
  induction d with
  | zero => intro s _; exact OutcomeC.stay' rfl
  | succ d ih =>
    intro s h
    have st : OutcomeC c0 s i ⟨s.l1.nodes i, s.applied i + 1, s.pend i⟩ [] :=
      outcomeC_of_step (StepC.applyOne s i (by omega)) (by
        cases s with
        | mk l1 ap pd => cases l1 with | mk nodes net => simp [SysC.put, upd1_self, updN_self]) (fun _ h => h) (fun _ h => by cases h)
    refine OutcomeC.chain0 st fun net1 _ => ?_
    have := ih (s.put i ⟨s.l1.nodes i, s.applied i + 1, s.pend i⟩ net1) (by simp; omega)
    simpa [Nat.add_assoc, Nat.add_comm 1 d] using this

/-- a snapshot the receiver may have to answer although it is not in its `ConfState`: only with a positive commit index (see the header) -/
def snapOK (c0 : RQJ.Config) (i : Fin N) (x : NodeC N) : Msg1 N → Prop
| .snap _ _ _ k ents => x.n.commit < k → inSnapConf c0 i ents k = false → 0 < x.n.commit
| _ => True

/-- a message of the node's own term -/
theorem outcomeC_same (c0 : RQJ.Config) (s : SysC N) (i : Fin N) (m : Msg1 N) (hm : s.l1.net m) (hd : m.dst = i)
    (ht : m.term = (s.l1.nodes i).term) (happ : s.applied i ≤ (s.l1.nodes i).commit)
    (hok : snapOK c0 i ⟨s.l1.nodes i, s.applied i, s.pend i⟩ m) :
    OutcomeC c0 s i (handleSameC c0 i ⟨s.l1.nodes i, s.applied i, s.pend i⟩ m).1
      (handleSameC c0 i ⟨s.l1.nodes i, s.applied i, s.pend i⟩ m).2 := by
  cases m with
  | vote t c d li lt =>
    simp only [Msg1.dst] at hd; subst hd
    simp only [Msg1.term] at ht
    simp only [handleSameC, handleSame]
    by_cases h : ((s.l1.nodes d).vote = some c ∨ (s.l1.nodes d).vote = none ∧ (s.l1.nodes d).lead = none) ∧ upToDate lt li (s.l1.nodes d).log
    · rw [if_pos h]
      exact outcomeC_lift (Step1L.voteGrant s.l1 d c t li lt hm ht.symm h.1 h.2) send_mono
        (fun m hmem => by simp at hmem; subst hmem; exact mem_send rfl)
    · rw [if_neg h]
      exact outcomeC_lift_net (Step1L.voteReject s.l1 d c t) send_mono (fun m hmem => by simp at hmem; subst hmem; exact mem_send rfl)
  | voteResp t src d rej =>
    simp only [Msg1.dst] at hd; subst hd
    simp only [Msg1.term] at ht; subst ht
    simp only [handleSameC]
    by_cases hc : (s.l1.nodes d).role = Role.candidate
    · rw [if_pos hc]
      have st1 : OutcomeC c0 s d ⟨recordVote (s.l1.nodes d) src rej, s.applied d, s.pend d⟩ [] :=
        outcomeC_lift (Step1L.voteRecord s.l1 d src rej hm hc) (fun _ h => h) (fun _ h => by cases h)
      by_cases hw : wonVotesC (cfgOf c0 ⟨s.l1.nodes d, s.applied d, s.pend d⟩) (recordVote (s.l1.nodes d) src rej) = true
      · rw [if_pos hw]
        refine OutcomeC.chain0 st1 fun net1 _ => ?_
        have := outcomeC_win c0 (s.put d ⟨recordVote (s.l1.nodes d) src rej, s.applied d, s.pend d⟩ net1) d
          (by rw [put_l1_node]; exact hc) (by rw [cfg_put, put_l1_node]; exact hw)
        rw [put_l1_node, put_applied] at this
        exact this
      · rw [if_neg hw]
        by_cases hl : lostVotesC (cfgOf c0 ⟨s.l1.nodes d, s.applied d, s.pend d⟩) (recordVote (s.l1.nodes d) src rej) = true
        · rw [if_pos hl]
          refine OutcomeC.chain0 st1 fun net1 _ => ?_
          have := outcomeC_stepDown c0 (s.put d ⟨recordVote (s.l1.nodes d) src rej, s.applied d, s.pend d⟩ net1) d
          rw [put_l1_node, put_applied] at this
          exact this
        · rw [if_neg hl]; exact st1
    · rw [if_neg hc]; exact OutcomeC.stay' rfl
  | app t src d prev pt ents cm =>
    simp only [Msg1.dst] at hd; subst hd
    simp only [Msg1.term] at ht
    simp only [handleSameC, handleSame]
    by_cases hldr : (s.l1.nodes d).role = Role.leader
    · rw [if_pos hldr]; exact OutcomeC.stay' rfl
    · rw [if_neg hldr]
      by_cases hlt : prev < (s.l1.nodes d).commit
      · rw [if_pos hlt]
        exact outcomeC_lift (Step1L.appBelow s.l1 d src t prev pt ents cm hm ht.symm hldr hlt) send_mono
          (fun m hmem => by simp at hmem; subst hmem; exact mem_send rfl)
      · rw [if_neg hlt]
        by_cases hmatch : prev ≤ (s.l1.nodes d).log.length ∧ termAt (s.l1.nodes d).log prev = pt
        · rw [if_pos hmatch]
          exact outcomeC_lift (Step1L.appAccept s.l1 d src t prev pt ents cm hm ht.symm hldr hmatch) send_mono
            (fun m hmem => by simp at hmem; subst hmem; exact mem_send rfl)
        · rw [if_neg hmatch]
          exact outcomeC_lift (Step1L.appReject s.l1 d src t prev ht.symm hldr) send_mono
            (fun m hmem => by simp at hmem; subst hmem; exact mem_send rfl)
  | appResp t src d idx rej =>
    simp only [Msg1.dst] at hd; subst hd
    simp only [Msg1.term] at ht; subst ht
    simp only [handleSameC]
    by_cases h : (s.l1.nodes d).role = Role.leader ∧ rej = false
    · rw [if_pos h]
      obtain ⟨hl, hr⟩ := h
      subst hr
      have hrole : (ackC (cfgOf c0 ⟨s.l1.nodes d, s.applied d, s.pend d⟩) (s.l1.nodes d) src idx).role = .leader := by
        unfold ackC; by_cases hp : hasProg (cfgOf c0 ⟨s.l1.nodes d, s.applied d, s.pend d⟩) src = true
        · rw [if_pos hp]; exact hl
        · rw [if_neg hp]; exact hl
      have hlog : (ackC (cfgOf c0 ⟨s.l1.nodes d, s.applied d, s.pend d⟩) (s.l1.nodes d) src idx).log = (s.l1.nodes d).log := by
        unfold ackC; by_cases hp : hasProg (cfgOf c0 ⟨s.l1.nodes d, s.applied d, s.pend d⟩) src = true
        · rw [if_pos hp]; rfl
        · rw [if_neg hp]
      have st1 : OutcomeC c0 s d ⟨ackC (cfgOf c0 ⟨s.l1.nodes d, s.applied d, s.pend d⟩) (s.l1.nodes d) src idx, s.applied d, s.pend d⟩ [] := by
        unfold ackC
        by_cases hp : hasProg (cfgOf c0 ⟨s.l1.nodes d, s.applied d, s.pend d⟩) src = true
        · rw [if_pos hp]; exact outcomeC_lift (Step1L.ackRecord s.l1 d src idx hm hl) (fun _ h => h) (fun _ h => by cases h)
        · rw [if_neg hp]; exact OutcomeC.stay' rfl
      refine OutcomeC.chain0 st1 fun net1 _ => ?_
      have := outcomeC_maybeCommit c0 (s.put d ⟨ackC (cfgOf c0 ⟨s.l1.nodes d, s.applied d, s.pend d⟩) (s.l1.nodes d) src idx, s.applied d, s.pend d⟩ net1) d
        (by rw [put_l1_node]; exact hrole)
      rw [put_l1_node, put_applied, put_pend, cfg_put] at this
      have hcfg : cfgOf c0 (⟨ackC (cfgOf c0 ⟨s.l1.nodes d, s.applied d, s.pend d⟩) (s.l1.nodes d) src idx, s.applied d, s.pend d⟩ : NodeC N) =
          cfgOf c0 ⟨s.l1.nodes d, s.applied d, s.pend d⟩ := by
        show cfgAt c0 (ackC (cfgOf c0 ⟨s.l1.nodes d, s.applied d, s.pend d⟩) (s.l1.nodes d) src idx).log (s.applied d) =
          cfgAt c0 (s.l1.nodes d).log (s.applied d)
        rw [hlog]
      rw [hcfg] at this
      exact this
    · rw [if_neg h]; exact OutcomeC.stay' rfl
  | hb t src d c =>
    simp only [Msg1.dst] at hd; subst hd
    simp only [Msg1.term] at ht
    simp only [handleSameC, handleSame]
    by_cases hldr : (s.l1.nodes d).role = Role.leader
    · rw [if_pos hldr]; exact OutcomeC.stay' rfl
    · rw [if_neg hldr]
      exact outcomeC_lift (Step1L.beat s.l1 d src t c hm ht.symm hldr) (fun _ h => h) (fun _ h => by cases h)
  | snap t src d k ents =>
    simp only [Msg1.dst] at hd; subst hd
    simp only [Msg1.term] at ht
    simp only [handleSameC]
    by_cases hldr : (s.l1.nodes d).role = Role.leader
    · rw [if_pos hldr]; exact OutcomeC.stay' rfl
    · rw [if_neg hldr]
      by_cases hor : k ≤ (s.l1.nodes d).commit ∨ inSnapConf c0 d ents k = false
      · rw [if_pos hor]
        by_cases hle : k ≤ (s.l1.nodes d).commit
        · exact outcomeC_lift (Step1L.snapIgnore s.l1 d src t k ents hm ht.symm hldr hle) send_mono
            (fun m hmem => by simp at hmem; subst hmem; exact mem_send rfl)
        · have hns : inSnapConf c0 d ents k = false := by rcases hor with h | h; exact absurd h hle; exact h
          have hpos : 0 < (s.l1.nodes d).commit := hok (by show (s.l1.nodes d).commit < k; omega) hns
          exact outcomeC_of_step (net' := send s.l1 fun m => m = .appResp t d src (s.l1.nodes d).commit false)
            (StepC.snapSkip s d src t k ents hm ht.symm hldr hpos)
            (by simp [SysC.put, updN_self]) send_mono (fun m hmem => by simp at hmem; subst hmem; exact mem_send rfl)
      · rw [if_neg hor]
        have hgt : (s.l1.nodes d).commit < k := by
          apply Classical.byContradiction; intro h; exact hor (Or.inl (by omega))
        have hres : handleSame d (s.l1.nodes d) (.snap t src d k ents) =
            (restoreN (s.l1.nodes d) src k ents, [.appResp t d src k false]) := by
          simp only [handleSame, if_neg hldr]
          rw [if_neg (by omega)]
        rw [hres]
        have st1 : OutcomeC c0 s d ⟨restoreN (s.l1.nodes d) src k ents, s.applied d, s.pend d⟩ [.appResp t d src k false] :=
          outcomeC_lift (Step1L.snapRestore s.l1 d src t k ents hm ht.symm hldr hgt) send_mono
            (fun m hmem => by simp at hmem; subst hmem; exact mem_send rfl)
        by_cases hff : k ≤ (s.l1.nodes d).log.length ∧ termAt (s.l1.nodes d).log k = termAt ents k
        · rw [if_pos hff]; exact st1
        · rw [if_neg hff]
          have := st1.chain (x' := ⟨restoreN (s.l1.nodes d) src k ents, k, s.pend d⟩) (resp := []) fun net1 _ => by
            have := outcomeC_applyUpTo c0 d (k - s.applied d)
              (s.put d ⟨restoreN (s.l1.nodes d) src k ents, s.applied d, s.pend d⟩ net1)
              (by rw [put_applied, put_l1_node]; simp only [restoreN]; omega)
            rw [put_l1_node, put_applied, put_pend, show s.applied d + (k - s.applied d) = k by omega] at this
            exact this
          simpa using this

/-- a proposal message: one `propose` step per payload -/
theorem outcomeC_props (c0 : RQJ.Config) (i : Fin N) : ∀ (vs : List Nat) (s : SysC N), (s.l1.nodes i).role = .leader →
    OutcomeC c0 s i ⟨{ (s.l1.nodes i) with log := (s.l1.nodes i).log ++
        (gateSeq (s.applied i) (s.pend i) (s.l1.nodes i).log.length vs).1.map fun v => ⟨(s.l1.nodes i).term, v⟩ },
      s.applied i, (gateSeq (s.applied i) (s.pend i) (s.l1.nodes i).log.length vs).2⟩ [] := by
  intro vs
  induction vs with
  | nil => intro s _; exact OutcomeC.stay' (by simp [gateSeq, SysC.node])
  | cons v vs ih =>
    intro s hl
    have st : OutcomeC c0 s i ⟨proposeN (s.l1.nodes i) (gateB (s.applied i) (s.pend i) v), s.applied i,
        if isConfData (gateB (s.applied i) (s.pend i) v) then (s.l1.nodes i).log.length + 1 else s.pend i⟩ [] :=
      outcomeC_of_step (StepC.propose s i v hl) (by simp [cProp, SysC.put, updN_self]) (fun _ h => h) (fun _ h => by cases h)
    refine OutcomeC.chain0 st fun net1 _ => ?_
    have := ih (s.put i ⟨proposeN (s.l1.nodes i) (gateB (s.applied i) (s.pend i) v), s.applied i,
        if isConfData (gateB (s.applied i) (s.pend i) v) then (s.l1.nodes i).log.length + 1 else s.pend i⟩ net1)
      (by rw [put_l1_node]; simpa [proposeN] using hl)
    rw [put_l1_node, put_applied, put_pend] at this
    simpa [proposeN, gateSeq_cons, List.append_assoc] using this

/-- the `Match` of ids without a `Progress` forgotten -/
def forgetN (c : RQJ.Config) (n : Node1 N) : Node1 N := { n with matchI := fun j => if hasProg c j then n.matchI j else 0 }

theorem applyOneC_eq (c0 : RQJ.Config) (i : Fin N) (n : Node1 N) (a p : Nat) :
    applyOneC c0 i ⟨n, a, p⟩ =
      if confAt n.log (a + 1) = true then
        (if n.role = .leader ∧ hasProg (cfgAt c0 n.log (a + 1)) i = true ∧ RQJ.isLearnerPr (cfgAt c0 n.log (a + 1)) (nid i) = false
         then ⟨maybeCommitC (cfgAt c0 n.log (a + 1)) (forgetN (cfgAt c0 n.log (a + 1)) n), a + 1, p⟩
         else ⟨forgetN (cfgAt c0 n.log (a + 1)) n, a + 1, p⟩)
      else ⟨n, a + 1, p⟩ := rfl

/-- one more entry applied: `applyOne`, then (conf change only) `forget` and, on a leader that keeps its `Progress`, `maybeCommit` under the new configuration -/
theorem outcomeC_applyOne (c0 : RQJ.Config) (s : SysC N) (i : Fin N) (h : s.applied i < (s.l1.nodes i).commit) :
    OutcomeC c0 s i (applyOneC c0 i ⟨s.l1.nodes i, s.applied i, s.pend i⟩) [] := by
  have st1 : OutcomeC c0 s i ⟨s.l1.nodes i, s.applied i + 1, s.pend i⟩ [] :=
    outcomeC_of_step (StepC.applyOne s i h) (by
      cases s with
      | mk l1 ap pd => cases l1 with | mk nodes net => simp [SysC.put, upd1_self, updN_self]) (fun _ h => h) (fun _ h => by cases h)
  rw [applyOneC_eq]
  by_cases hconf : confAt (s.l1.nodes i).log (s.applied i + 1) = true
  · rw [if_pos hconf]
    have st2 : OutcomeC c0 s i ⟨forgetN (cfgAt c0 (s.l1.nodes i).log (s.applied i + 1)) (s.l1.nodes i), s.applied i + 1, s.pend i⟩ [] := by
      refine OutcomeC.chain0 st1 fun net1 _ => ?_
      exact outcomeC_of_step (net' := net1)
        (StepC.forget (s.put i ⟨s.l1.nodes i, s.applied i + 1, s.pend i⟩ net1) i
          (fun j => if hasProg (cfgAt c0 (s.l1.nodes i).log (s.applied i + 1)) j then (s.l1.nodes i).matchI j else 0)
          (fun j => by
            rw [put_l1_node]
            by_cases hp : hasProg (cfgAt c0 (s.l1.nodes i).log (s.applied i + 1)) j = true
            · left; simp [hp]
            · right; simp [hp]))
        (by simp [SysC.setNode, SysC.put, upd1_upd1, updN_updN, forgetN]) (fun _ h => h) (fun _ h => by cases h)
    by_cases hl : (s.l1.nodes i).role = Role.leader ∧ hasProg (cfgAt c0 (s.l1.nodes i).log (s.applied i + 1)) i = true ∧
        RQJ.isLearnerPr (cfgAt c0 (s.l1.nodes i).log (s.applied i + 1)) (nid i) = false
    · rw [if_pos hl]
      refine OutcomeC.chain0 st2 fun net1 _ => ?_
      have := outcomeC_maybeCommit c0 (s.put i ⟨forgetN (cfgAt c0 (s.l1.nodes i).log (s.applied i + 1)) (s.l1.nodes i), s.applied i + 1, s.pend i⟩ net1) i
        (by rw [put_l1_node]; exact hl.1)
      rw [put_l1_node, put_applied, put_pend, cfg_put] at this
      exact this
    · rw [if_neg hl]; exact st2
  · rw [if_neg hconf]; exact st1

theorem outcomeC_applyFold (c0 : RQJ.Config) (i : Fin N) : ∀ (l : List Nat) (s : SysC N),
    OutcomeC c0 s i (l.foldl (fun y _ => if y.applied < y.n.commit then applyOneC c0 i y else y) ⟨s.l1.nodes i, s.applied i, s.pend i⟩) [] := by
  intro l
  induction l with
  | nil => intro s; exact OutcomeC.stay' rfl
  | cons _ l ih =>
    intro s
    simp only [List.foldl_cons]
    by_cases hlt : s.applied i < (s.l1.nodes i).commit
    · rw [if_pos hlt]
      refine OutcomeC.chain0 (outcomeC_applyOne c0 s i hlt) fun net1 _ => ?_
      have := ih (s.put i (applyOneC c0 i ⟨s.l1.nodes i, s.applied i, s.pend i⟩) net1)
      rw [put_l1_node, put_applied, put_pend] at this
      exact this
    · rw [if_neg hlt]; exact ih s

/-- when an input may be given to node `i` of `s` -/
def enabledC (c0 : RQJ.Config) (s : SysC N) (i : Fin N) : InputC N → Prop
| .recv m => s.l1.net m ∧ m.dst = i ∧ snapOK c0 i ⟨s.l1.nodes i, s.applied i, s.pend i⟩ m
| .restart a => a ≤ s.applied i
| _ => True

theorem snapOK_bump {c0 : RQJ.Config} {i : Fin N} {n : Node1 N} {a p p' t : Nat} {l : Option (Fin N)} {m : Msg1 N}
    (h : snapOK c0 i ⟨n, a, p⟩ m) : snapOK c0 i ⟨bump n t l, a, p'⟩ m := by
  cases m <;> first | trivial | exact h

/-- **handler ⊆ L1C**: every call of `handleC` is a finite chain of L1C steps ending in the handler's node and having sent its responses -/
theorem handleC_outcome (c0 : RQJ.Config) (s : SysC N) (i : Fin N) (inp : InputC N) (hen : enabledC c0 s i inp)
    (happ : s.applied i ≤ (s.l1.nodes i).commit) :
    OutcomeC c0 s i (handleC c0 i ⟨s.l1.nodes i, s.applied i, s.pend i⟩ inp).1 (handleC c0 i ⟨s.l1.nodes i, s.applied i, s.pend i⟩ inp).2 := by
  cases inp with
  | prop vs =>
    simp only [handleC]
    by_cases h : (s.l1.nodes i).role = Role.leader ∧ hasProg (cfgOf c0 ⟨s.l1.nodes i, s.applied i, s.pend i⟩) i = true
    · rw [if_pos h]; exact outcomeC_props c0 i vs s h.1
    · rw [if_neg h]; exact OutcomeC.stay' rfl
  | applyTo k => exact outcomeC_applyFold c0 i _ s
  | beat => exact OutcomeC.stay' rfl
  | snapStatus src failed => exact OutcomeC.stay' rfl
  | unreachable src => exact OutcomeC.stay' rfl
  | restart a =>
    exact outcomeC_of_step (StepC.restart s i a hen) (by simp [handleC, cRestart, SysC.put]) (fun _ h => h) (fun _ h => by cases h)
  | selfAck =>
    simp only [handleC]
    by_cases hl : (s.l1.nodes i).role = Role.leader
    · rw [if_pos hl]
      have hrole : (ackC (cfgOf c0 ⟨s.l1.nodes i, s.applied i, s.pend i⟩) (s.l1.nodes i) i (s.l1.nodes i).log.length).role = .leader := by
        unfold ackC; by_cases hp : hasProg (cfgOf c0 ⟨s.l1.nodes i, s.applied i, s.pend i⟩) i = true
        · rw [if_pos hp]; exact hl
        · rw [if_neg hp]; exact hl
      have hlog : (ackC (cfgOf c0 ⟨s.l1.nodes i, s.applied i, s.pend i⟩) (s.l1.nodes i) i (s.l1.nodes i).log.length).log = (s.l1.nodes i).log := by
        unfold ackC; by_cases hp : hasProg (cfgOf c0 ⟨s.l1.nodes i, s.applied i, s.pend i⟩) i = true
        · rw [if_pos hp]; rfl
        · rw [if_neg hp]
      have st1 : OutcomeC c0 s i ⟨ackC (cfgOf c0 ⟨s.l1.nodes i, s.applied i, s.pend i⟩) (s.l1.nodes i) i (s.l1.nodes i).log.length,
          s.applied i, s.pend i⟩ [] := by
        unfold ackC
        by_cases hp : hasProg (cfgOf c0 ⟨s.l1.nodes i, s.applied i, s.pend i⟩) i = true
        · rw [if_pos hp]; exact outcomeC_lift (Step1L.selfAck s.l1 i hl) (fun _ h => h) (fun _ h => by cases h)
        · rw [if_neg hp]; exact OutcomeC.stay' rfl
      refine OutcomeC.chain0 st1 fun net1 _ => ?_
      have := outcomeC_maybeCommit c0 (s.put i ⟨ackC (cfgOf c0 ⟨s.l1.nodes i, s.applied i, s.pend i⟩) (s.l1.nodes i) i (s.l1.nodes i).log.length,
        s.applied i, s.pend i⟩ net1) i (by rw [put_l1_node]; exact hrole)
      rw [put_l1_node, put_applied, put_pend, cfg_put] at this
      have hcfg : cfgOf c0 (⟨ackC (cfgOf c0 ⟨s.l1.nodes i, s.applied i, s.pend i⟩) (s.l1.nodes i) i (s.l1.nodes i).log.length,
          s.applied i, s.pend i⟩ : NodeC N) = cfgOf c0 ⟨s.l1.nodes i, s.applied i, s.pend i⟩ := by
        show cfgAt c0 (ackC (cfgOf c0 ⟨s.l1.nodes i, s.applied i, s.pend i⟩) (s.l1.nodes i) i (s.l1.nodes i).log.length).log (s.applied i) =
          cfgAt c0 (s.l1.nodes i).log (s.applied i)
        rw [hlog]
      rw [hcfg] at this
      exact this
    · rw [if_neg hl]; exact OutcomeC.stay' rfl
  | hup =>
    simp only [handleC]
    by_cases hg : campaignGate (decide ((s.l1.nodes i).role = Role.leader)) (nid i) (cfgOf c0 ⟨s.l1.nodes i, s.applied i, s.pend i⟩)
        (pendingFlagsC ⟨s.l1.nodes i, s.applied i, s.pend i⟩) = false
    · rw [if_pos hg]; exact OutcomeC.stay' rfl
    · rw [if_neg hg]
      have hg' : campaignGate (decide ((s.l1.nodes i).role = Role.leader)) (nid i) (cfgOf c0 ⟨s.l1.nodes i, s.applied i, s.pend i⟩)
          (pendingFlagsC ⟨s.l1.nodes i, s.applied i, s.pend i⟩) = true := by
        cases hb : campaignGate (decide ((s.l1.nodes i).role = Role.leader)) (nid i) (cfgOf c0 ⟨s.l1.nodes i, s.applied i, s.pend i⟩)
          (pendingFlagsC ⟨s.l1.nodes i, s.applied i, s.pend i⟩) with
        | false => exact absurd hb hg
        | true => rfl
      have st1 : OutcomeC c0 s i ⟨campaign (s.l1.nodes i) i, s.applied i, s.pend i⟩
          (((List.finRange N).filter (fun d => d ≠ i ∧ isVoter (cfgOf c0 ⟨s.l1.nodes i, s.applied i, s.pend i⟩) d = true)).map
            (fun d => .vote ((s.l1.nodes i).term + 1) i d (s.l1.nodes i).log.length (lastTerm (s.l1.nodes i).log))) :=
        outcomeC_of_step (net' := send s.l1 fun m => ∃ dst, dst ≠ i ∧
            m = .vote ((s.l1.nodes i).term + 1) i dst (s.l1.nodes i).log.length (lastTerm (s.l1.nodes i).log))
          (StepC.hup s i hg') (by simp [cHup, SysC.put, updN_self]) send_mono (by
            intro m hmem
            simp only [List.mem_map, List.mem_filter, List.mem_finRange, true_and, decide_eq_true_eq] at hmem
            obtain ⟨d, hd, rfl⟩ := hmem
            exact mem_send ⟨d, hd.1, rfl⟩)
      by_cases hw : wonVotesC (cfgOf c0 ⟨s.l1.nodes i, s.applied i, s.pend i⟩) (campaign (s.l1.nodes i) i) = true
      · rw [if_pos hw]
        obtain ⟨net1, sts, mono1, _⟩ := st1
        have := outcomeC_win c0 (s.put i ⟨campaign (s.l1.nodes i) i, s.applied i, s.pend i⟩ net1) i
          (by rw [put_l1_node]; simp [campaign]) (by rw [cfg_put, put_l1_node]; exact hw)
        rw [put_l1_node, put_applied] at this
        obtain ⟨net2, sts2, mono2, _⟩ := this
        rw [put_put] at sts2
        exact ⟨net2, sts.trans sts2, fun m h => mono2 m (mono1 m h), fun _ h => by cases h⟩
      · rw [if_neg hw]
        have := st1.chain (x' := ⟨campaign (s.l1.nodes i) i, s.applied i, 0⟩) (resp := []) fun net1 _ => by
          have := outcomeC_setPend (c0 := c0) (s.put i ⟨campaign (s.l1.nodes i) i, s.applied i, s.pend i⟩ net1) i 0
            (by rw [put_l1_node]; simp [campaign])
          rw [put_l1_node, put_applied] at this
          exact this
        simpa using this
  | recv m =>
    obtain ⟨hm, hd, hok⟩ := hen
    simp only [handleC]
    by_cases hdr : dropped (cfgOf c0 ⟨s.l1.nodes i, s.applied i, s.pend i⟩) m = true
    · rw [if_pos hdr]; exact OutcomeC.stay' rfl
    · rw [if_neg hdr]
      by_cases h1 : m.term < (s.l1.nodes i).term
      · rw [if_pos h1]; exact OutcomeC.stay' rfl
      · rw [if_neg h1]
        by_cases h2 : (s.l1.nodes i).term < m.term
        · rw [if_pos h2]
          have st1 : OutcomeC c0 s i ⟨bump (s.l1.nodes i) m.term m.leadHint, s.applied i, 0⟩ [] := by
            refine OutcomeC.chain0 (outcomeC_lift (Step1L.higherTerm s.l1 i m.term m.leadHint h2) (fun _ h => h) (fun _ h => by cases h))
              fun net1 _ => ?_
            have := outcomeC_setPend (c0 := c0) (s.put i ⟨bump (s.l1.nodes i) m.term m.leadHint, s.applied i, s.pend i⟩ net1) i 0
              (by rw [put_l1_node]; simp [bump])
            rw [put_l1_node, put_applied] at this
            exact this
          refine OutcomeC.chain0 st1 fun net1 mono1 => ?_
          have := outcomeC_same c0 (s.put i ⟨bump (s.l1.nodes i) m.term m.leadHint, s.applied i, 0⟩ net1) i m (mono1 m hm) hd
            (by rw [put_l1_node]; simp [bump]) (by rw [put_l1_node, put_applied]; simpa [bump] using happ)
            (by rw [put_l1_node, put_applied, put_pend]; exact snapOK_bump hok)
          rw [put_l1_node, put_applied, put_pend] at this
          exact this
        · rw [if_neg h2]
          exact outcomeC_same c0 s i m hm hd (by omega) happ hok

/-- extra leader traffic: any finite list of valid appends, heartbeats and snapshots of the current state can be sent -/
theorem sendC_many (c0 : RQJ.Config) (i : Fin N) : ∀ (outs : List (Msg1 N)) (s : SysC N),
    (∀ m ∈ outs, s.l1.net m ∨ leaderOut (s.l1.nodes i) i m) →
    ∃ net', StepsC c0 s { s with l1 := ⟨s.l1.nodes, net'⟩ } ∧ (∀ m, s.l1.net m → net' m) ∧ (∀ m ∈ outs, net' m) := by
  intro outs
  induction outs with
  | nil => intro s _; exact ⟨s.l1.net, .refl _, fun _ h => h, fun _ h => by cases h⟩
  | cons m outs ih =>
    intro s h
    have hstep : ∃ net1, StepsC c0 s { s with l1 := ⟨s.l1.nodes, net1⟩ } ∧ (∀ x, s.l1.net x → net1 x) ∧ net1 m := by
      rcases h m (by simp) with hin | ⟨hl, hm⟩
      · exact ⟨s.l1.net, .refl _, fun _ h => h, hin⟩
      · rcases hm with ⟨dst, prev, cnt, hp, rfl⟩ | ⟨dst, rfl⟩ | ⟨dst, k, h1, h2, h3, rfl⟩
        · exact ⟨_, .one (StepC.lift s _ (Step1L.sendApp s.l1 i dst prev cnt hl hp)), send_mono, mem_send rfl⟩
        · exact ⟨_, .one (StepC.lift s _ (Step1L.sendBeat s.l1 i dst hl)), send_mono, mem_send rfl⟩
        · exact ⟨_, .one (StepC.lift s _ (Step1L.sendSnap s.l1 i dst k hl ⟨h1, h2, h3⟩)), send_mono, mem_send rfl⟩
    obtain ⟨net1, st, mono1, hin⟩ := hstep
    obtain ⟨net', sts, mono2, hall⟩ := ih { s with l1 := ⟨s.l1.nodes, net1⟩ } (fun x hx => (h x (by simp [hx])).imp (mono1 x) id)
    refine ⟨net', st.trans sts, fun x hx => mono2 x (mono1 x hx), ?_⟩
    intro x hx
    rcases List.mem_cons.mp hx with rfl | hx
    · exact mono2 _ hin
    · exact hall x hx

/-- **handler ⊆ L1C**: the node after a call of `handleC`, together with every message the implementation may have emitted during it
    (the computed responses and any valid leader traffic of the new state), is reached by finitely many L1C steps -/
theorem handleC_in_StepC (c0 : RQJ.Config) (s : SysC N) (i : Fin N) (inp : InputC N) (hen : enabledC c0 s i inp)
    (happ : s.applied i ≤ (s.l1.nodes i).commit) (outs : List (Msg1 N))
    (hout : ∀ m ∈ outs, m ∈ (handleC c0 i (s.node i) inp).2 ∨ leaderOut (handleC c0 i (s.node i) inp).1.n i m) :
    ∃ net', StepsC c0 s (s.put i (handleC c0 i (s.node i) inp).1 net') ∧ (∀ m, s.l1.net m → net' m) ∧ (∀ m ∈ outs, net' m) := by
  obtain ⟨net1, st1, mono1, hr⟩ := handleC_outcome c0 s i inp hen happ
  obtain ⟨net2, st2, mono2, hl⟩ := sendC_many c0 i outs (s.put i (handleC c0 i (s.node i) inp).1 net1) (by
      intro m hm
      rw [put_l1_node]
      exact (hout m hm).imp (hr m) id)
  refine ⟨net2, st1.trans ?_, fun m h => mono2 m (mono1 m h), hl⟩
  exact st2

/-- runs of the executable config-aware handler: nodes driven only through `handleC`, messages taken from what was emitted -/
inductive RunC (c0 : RQJ.Config) : SysC N → Prop
| init : RunC c0 (initC N)
| call {s} (i : Fin N) (inp : InputC N) (outs : List (Msg1 N)) : RunC c0 s → enabledC c0 s i inp →
    (∀ m ∈ outs, m ∈ (handleC c0 i (s.node i) inp).2 ∨ leaderOut (handleC c0 i (s.node i) inp).1.n i m) →
    RunC c0 (s.put i (handleC c0 i (s.node i) inp).1 (fun m => s.l1.net m ∨ m ∈ outs))

theorem reachC_steps {c0 : RQJ.Config} {a b : SysC N} (h : ReachC c0 a) (st : StepsC c0 a b) : ReachC c0 b := by
  induction st with
  | refl => exact h
  | tail _ s ih => exact .step ih s

/-- every run of handler calls is covered by a reachable L1C state with the same nodes and at least its messages -/
theorem runC_covered {c0 : RQJ.Config} {s : SysC N} (r : RunC c0 s) :
    ∃ s1, ReachC c0 s1 ∧ s1.l1.nodes = s.l1.nodes ∧ s1.applied = s.applied ∧ s1.pend = s.pend ∧ ∀ m, s.l1.net m → s1.l1.net m := by
  induction r with
  | init => exact ⟨_, .init, rfl, rfl, rfl, fun _ h => h⟩
  | @call s i inp outs _ hen hout ih =>
    obtain ⟨s1, r1, hn, ha, hp, hnet⟩ := ih
    have hnode : s1.node i = s.node i := by simp [SysC.node, hn, ha, hp]
    have hen1 : enabledC c0 s1 i inp := by
      cases inp with
      | recv m => exact ⟨hnet m hen.1, hen.2.1, by rw [hn, ha, hp]; exact hen.2.2⟩
      | restart a => show a ≤ s1.applied i; rw [ha]; exact hen
      | _ => trivial
    obtain ⟨net', st, mono, hin⟩ := handleC_in_StepC c0 s1 i inp hen1 (L1C_applied_le r1 i) outs (by rw [hnode]; exact hout)
    refine ⟨_, reachC_steps r1 st, ?_, ?_, ?_, ?_⟩
    · simp [SysC.put, hn, hnode]
    · simp [SysC.put, ha, hnode]
    · simp [SysC.put, hp, hnode]
    · intro m hm
      rcases hm with hm | hm
      · exact mono m (hnet m hm)
      · exact hin m hm

/-- **C15 under membership changes, for every run of the executable handler `handleC`** — the function the lock-step engine replays
    against etcd's `RawNode` on the member schedules: any cluster size, any initial configuration, any schedule of messages, ticks,
    proposals, membership changes (add / remove / add-learner / promote), applications and restarts (inputs as `enabledC` allows them):
    election safety, log matching, leader completeness and state-machine safety, on the handler's own node states. -/
theorem runC_safe {c0 : RQJ.Config} {s : SysC N} (r : RunC c0 s) :
    (∀ i j : Fin N, (s.l1.nodes i).role = .leader → (s.l1.nodes j).role = .leader → (s.l1.nodes i).term = (s.l1.nodes j).term → i = j) ∧
    (∀ (i j : Fin N) (k : Nat), 1 ≤ k → k ≤ (s.l1.nodes i).log.length → k ≤ (s.l1.nodes j).log.length →
      termAt (s.l1.nodes i).log k = termAt (s.l1.nodes j).log k → (s.l1.nodes i).log.take k = (s.l1.nodes j).log.take k) ∧
    (∀ i j : Fin N, (s.l1.nodes i).role = .leader → (s.l1.nodes j).term ≤ (s.l1.nodes i).term →
      (s.l1.nodes j).commit ≤ (s.l1.nodes i).log.length ∧
      (s.l1.nodes i).log.take (s.l1.nodes j).commit = (s.l1.nodes j).log.take (s.l1.nodes j).commit) ∧
    (∀ (i j : Fin N) (m : Nat), m ≤ (s.l1.nodes i).commit → m ≤ (s.l1.nodes j).commit →
      (s.l1.nodes i).log.take m = (s.l1.nodes j).log.take m) := by
  obtain ⟨s1, r1, hn, _, _, _⟩ := runC_covered r
  rw [← hn]
  exact ⟨L1C_election_safety r1, L1C_log_matching r1, L1C_leader_completeness r1, L1C_state_machine_safety r1⟩

theorem runC_election_safety {c0 : RQJ.Config} {s : SysC N} (r : RunC c0 s) (i j : Fin N)
    (hi : (s.l1.nodes i).role = .leader) (hj : (s.l1.nodes j).role = .leader) (ht : (s.l1.nodes i).term = (s.l1.nodes j).term) : i = j :=
  (runC_safe r).1 i j hi hj ht

theorem runC_state_machine_safety {c0 : RQJ.Config} {s : SysC N} (r : RunC c0 s) (i j : Fin N) (m : Nat)
    (hi : m ≤ (s.l1.nodes i).commit) (hj : m ≤ (s.l1.nodes j).commit) : (s.l1.nodes i).log.take m = (s.l1.nodes j).log.take m :=
  (runC_safe r).2.2.2 i j m hi hj

#print axioms outcomeC_same
#print axioms handleC_outcome
#print axioms handleC_in_StepC
#print axioms runC_covered
#print axioms runC_safe
end RHC
