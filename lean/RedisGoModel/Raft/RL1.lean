import RedisGoModel.Raft.RS2
/-! Prototype: L1 — a handler-level model shaped like etcd's `raft.Step` (safety projection, PreVote/CheckQuorum off,
    flow control abstracted) — and a forward simulation to the abstract protocol L0 of RS/RS2, so that the five safety
    theorems hold for every reachable L1 state. -/
namespace RS
variable {N : Nat}

structure Node1 (N : Nat) where
  term    : Nat
  vote    : Option (Fin N)
  role    : Role
  lead    : Option (Fin N)
  log     : Log
  commit  : Nat
  votes   : Fin N → Option Bool   -- Progress tracker's Votes map of a candidate (first answer wins)
  matchI  : Fin N → Nat       -- Progress.Match on a leader

inductive Msg1 (N : Nat)
| vote     (term : Nat) (src dst : Fin N) (lastIdx lastTerm : Nat)
| voteResp (term : Nat) (src dst : Fin N) (reject : Bool)
| app      (term : Nat) (src dst : Fin N) (prev prevTerm : Nat) (ents : Log) (commit : Nat)
| appResp  (term : Nat) (src dst : Fin N) (index : Nat) (reject : Bool)
| hb       (term : Nat) (src dst : Fin N) (commit : Nat)
/-- MsgSnap: snapshot index; `ents` is the log prefix the snapshot's state-machine image stands for (ghost) -/
| snap     (term : Nat) (src dst : Fin N) (index : Nat) (ents : Log)

structure Sys1 (N : Nat) where
  nodes : Fin N → Node1 N
  net   : Msg1 N → Prop

def upd1 (f : Fin N → Node1 N) (i : Fin N) (x : Node1 N) : Fin N → Node1 N := fun j => if j = i then x else f j
@[simp] theorem upd1_same (f : Fin N → Node1 N) (i : Fin N) (x : Node1 N) : upd1 f i x i = x := by simp [upd1]
theorem upd1_other (f : Fin N → Node1 N) {i j : Fin N} (x : Node1 N) (h : j ≠ i) : upd1 f i x j = f j := by simp [upd1, h]

/-- `becomeFollower(term, lead)` when a message carries a higher term -/
def bump (n : Node1 N) (t : Nat) (lead : Option (Fin N)) : Node1 N :=
  { n with term := t, vote := none, role := .follower, lead := lead, votes := fun _ => none, matchI := fun _ => 0 }

def projNode (n : Node1 N) : NodeSt N := ⟨n.term, n.vote, n.role, n.log, n.commit⟩


def campaign (n : Node1 N) (i : Fin N) : Node1 N :=
  { n with
    term := n.term + 1
    vote := some i
    role := .candidate
    lead := none
    votes := fun j => if j = i then some true else none
    matchI := fun _ => 0 }
def recordVote (n : Node1 N) (src : Fin N) (rej : Bool) : Node1 N :=
  { n with votes := fun j => if j = src then (match n.votes j with | none => some (!rej) | some b => some b) else n.votes j }
def winElection (n : Node1 N) (i : Fin N) : Node1 N :=
  { n with
    role := .leader
    lead := some i
    log := n.log ++ [⟨n.term, 0⟩]
    matchI := fun j => if j = i then n.log.length else 0 }
def stepDownN (n : Node1 N) : Node1 N :=
  { n with
    role := .follower
    lead := none
    votes := fun _ => none
    matchI := fun _ => 0 }
def proposeN (n : Node1 N) (v : Nat) : Node1 N :=
  { n with log := n.log ++ [⟨n.term, v⟩] }
def followN (n : Node1 N) (src : Fin N) : Node1 N :=
  { n with
    role := .follower
    lead := some src }
def acceptN (n : Node1 N) (src : Fin N) (prev : Nat) (ents : Log) (cm : Nat) : Node1 N :=
  { n with
    role := .follower
    lead := some src
    log := follAppend n.log prev ents
    commit := max n.commit (min cm (prev + ents.length)) }
def ackN (n : Node1 N) (src : Fin N) (idx : Nat) : Node1 N :=
  { n with matchI := fun j => if j = src then max (n.matchI j) idx else n.matchI j }
def beatN (n : Node1 N) (src : Fin N) (c : Nat) : Node1 N :=
  { n with
    role := .follower
    lead := some src
    commit := max n.commit c }

/-- `restore`: a snapshot whose (index, term) the log already contains only fast-forwards the commit index;
    otherwise the log is replaced by the snapshot -/
def restoreN (n : Node1 N) (src : Fin N) (k : Nat) (ents : Log) : Node1 N :=
  { n with
    role := .follower
    lead := some src
    log := if k ≤ n.log.length ∧ termAt n.log k = termAt ents k then n.log else ents
    commit := k }

/-- the L1 network only grows -/
def send (s : Sys1 N) (p : Msg1 N → Prop) : Msg1 N → Prop := fun m => s.net m ∨ p m

/-- the steps of the handler-level model; each constructor is one branch of `Step`/`stepLeader`/`stepCandidate`/
    `stepFollower` (after the common term handling), or one driver action -/
inductive Step1 : Sys1 N → Sys1 N → Prop
/-- a message with a higher term: become follower at that term (the message is then handled by another step) -/
| higherTerm (s : Sys1 N) (j : Fin N) (t : Nat) (lead : Option (Fin N)) (h : (s.nodes j).term < t) :
    Step1 s ⟨upd1 s.nodes j (bump (s.nodes j) t lead), s.net⟩
/-- MsgHup → campaign -/
| hup (s : Sys1 N) (i : Fin N) (h : (s.nodes i).role ≠ .leader) :
    Step1 s ⟨upd1 s.nodes i (campaign (s.nodes i) i),
             send s fun m => ∃ dst, dst ≠ i ∧ m = .vote ((s.nodes i).term + 1) i dst (s.nodes i).log.length (lastTerm (s.nodes i).log)⟩
/-- MsgVote granted (first vote of the term, or a repeat for the same candidate) -/
| voteGrant (s : Sys1 N) (j c : Fin N) (t li lt : Nat) (hm : s.net (.vote t c j li lt)) (ht : (s.nodes j).term = t)
    (hcan : (s.nodes j).vote = some c ∨ ((s.nodes j).vote = none ∧ (s.nodes j).lead = none))
    (hu : upToDate lt li (s.nodes j).log) :
    Step1 s ⟨upd1 s.nodes j { (s.nodes j) with vote := some c }, send s fun m => m = .voteResp t j c false⟩
/-- MsgVote rejected -/
| voteReject (s : Sys1 N) (j c : Fin N) (t : Nat) :
    Step1 s ⟨s.nodes, send s fun m => m = .voteResp t j c true⟩
/-- MsgVoteResp recorded by a candidate -/
| voteRecord (s : Sys1 N) (i src : Fin N) (rej : Bool) (hm : s.net (.voteResp (s.nodes i).term src i rej))
    (hc : (s.nodes i).role = .candidate) :
    Step1 s ⟨upd1 s.nodes i (recordVote (s.nodes i) src rej), s.net⟩
/-- a candidate that has a quorum of granted votes becomes leader and appends its empty entry -/
| win (s : Sys1 N) (i : Fin N) (hc : (s.nodes i).role = .candidate)
    (hq : N < 2 * (List.finRange N).countP (fun j => (s.nodes i).votes j == some true)) :
    Step1 s ⟨upd1 s.nodes i (winElection (s.nodes i) i), s.net⟩
/-- vote lost, or any other fall-back to follower in the same term; also a crash-restart -/
| stepDown (s : Sys1 N) (i : Fin N) :
    Step1 s ⟨upd1 s.nodes i (stepDownN (s.nodes i)), s.net⟩
/-- the leader's own MsgAppResp, stepped by `advance` once its entries are stable -/
| selfAck (s : Sys1 N) (i : Fin N) (hl : (s.nodes i).role = .leader) :
    Step1 s ⟨upd1 s.nodes i (ackN (s.nodes i) i (s.nodes i).log.length), s.net⟩
/-- MsgProp on the leader -/
| propose (s : Sys1 N) (i : Fin N) (v : Nat) (hl : (s.nodes i).role = .leader) :
    Step1 s ⟨upd1 s.nodes i (proposeN (s.nodes i) v), s.net⟩
/-- the leader sends some slice of its log -/
| sendApp (s : Sys1 N) (i dst : Fin N) (prev cnt : Nat) (hl : (s.nodes i).role = .leader) (hp : prev ≤ (s.nodes i).log.length) :
    Step1 s ⟨s.nodes, send s fun m =>
      m = .app (s.nodes i).term i dst prev (termAt (s.nodes i).log prev) (((s.nodes i).log.drop prev).take cnt) (s.nodes i).commit⟩
/-- MsgApp below the commit index: answer with the commit index -/
| appBelow (s : Sys1 N) (j src : Fin N) (t prev pt : Nat) (ents : Log) (cm : Nat)
    (hm : s.net (.app t src j prev pt ents cm)) (ht : (s.nodes j).term = t) (hnl : (s.nodes j).role ≠ .leader)
    (hlt : prev < (s.nodes j).commit) :
    Step1 s ⟨upd1 s.nodes j (followN (s.nodes j) src), send s fun m => m = .appResp t j src (s.nodes j).commit false⟩
/-- MsgApp accepted -/
| appAccept (s : Sys1 N) (j src : Fin N) (t prev pt : Nat) (ents : Log) (cm : Nat)
    (hm : s.net (.app t src j prev pt ents cm)) (ht : (s.nodes j).term = t) (hnl : (s.nodes j).role ≠ .leader)
    (hmatch : prev ≤ (s.nodes j).log.length ∧ termAt (s.nodes j).log prev = pt) :
    Step1 s ⟨upd1 s.nodes j (acceptN (s.nodes j) src prev ents cm),
             send s fun m => m = .appResp t j src (prev + ents.length) false⟩
/-- MsgApp rejected (log mismatch): only the role/lead change and a reject response -/
| appReject (s : Sys1 N) (j src : Fin N) (t prev : Nat) (ht : (s.nodes j).term = t) (hnl : (s.nodes j).role ≠ .leader) :
    Step1 s ⟨upd1 s.nodes j (followN (s.nodes j) src), send s fun m => m = .appResp t j src prev true⟩
/-- successful MsgAppResp on the leader: Progress.MaybeUpdate -/
| ackRecord (s : Sys1 N) (i src : Fin N) (idx : Nat) (hm : s.net (.appResp (s.nodes i).term src i idx false))
    (hl : (s.nodes i).role = .leader) :
    Step1 s ⟨upd1 s.nodes i (ackN (s.nodes i) src idx), s.net⟩
/-- `maybeCommit`: a quorum index over `matchI`, if it is an entry of the current term above the commit index -/
| commitQ (s : Sys1 N) (i : Fin N) (k : Nat) (hl : (s.nodes i).role = .leader)
    (hk : (s.nodes i).commit < k ∧ k ≤ (s.nodes i).log.length) (hterm : termAt (s.nodes i).log k = (s.nodes i).term)
    (hq : N < 2 * (List.finRange N).countP (fun j => decide (k ≤ (s.nodes i).matchI j))) :
    Step1 s ⟨upd1 s.nodes i { (s.nodes i) with commit := k }, s.net⟩
/-- the leader sends a snapshot of a committed prefix (log compaction made the entries unavailable) -/
| sendSnap (s : Sys1 N) (i dst : Fin N) (k : Nat) (hl : (s.nodes i).role = .leader)
    (hk : 1 ≤ k ∧ k ≤ (s.nodes i).commit ∧ k ≤ (s.nodes i).log.length) :
    Step1 s ⟨s.nodes, send s fun m => m = .snap (s.nodes i).term i dst k ((s.nodes i).log.take k)⟩
/-- MsgSnap at or below the commit index: ignored, answered with the commit index -/
| snapIgnore (s : Sys1 N) (j src : Fin N) (t k : Nat) (ents : Log) (hm : s.net (.snap t src j k ents))
    (ht : (s.nodes j).term = t) (hnl : (s.nodes j).role ≠ .leader) (hle : k ≤ (s.nodes j).commit) :
    Step1 s ⟨upd1 s.nodes j (followN (s.nodes j) src), send s fun m => m = .appResp t j src (s.nodes j).commit false⟩
/-- MsgSnap above the commit index: `restore` -/
| snapRestore (s : Sys1 N) (j src : Fin N) (t k : Nat) (ents : Log) (hm : s.net (.snap t src j k ents))
    (ht : (s.nodes j).term = t) (hnl : (s.nodes j).role ≠ .leader) (hgt : (s.nodes j).commit < k) :
    Step1 s ⟨upd1 s.nodes j (restoreN (s.nodes j) src k ents), send s fun m => m = .appResp t j src k false⟩
/-- heartbeat: `min(match[to], committed)` -/
| sendBeat (s : Sys1 N) (i dst : Fin N) (hl : (s.nodes i).role = .leader) :
    Step1 s ⟨s.nodes, send s fun m => m = .hb (s.nodes i).term i dst (min ((s.nodes i).matchI dst) (s.nodes i).commit)⟩
| beat (s : Sys1 N) (j src : Fin N) (t c : Nat) (hm : s.net (.hb t src j c)) (ht : (s.nodes j).term = t)
    (hnl : (s.nodes j).role ≠ .leader) :
    Step1 s ⟨upd1 s.nodes j (beatN (s.nodes j) src c), s.net⟩

/-! ### forward simulation L1 → L0 -/

theorem proj_upd {n1 : Fin N → Node1 N} {n0 : Fin N → NodeSt N} (h : ∀ i, projNode (n1 i) = n0 i) (i : Fin N)
    {x : Node1 N} {y : NodeSt N} (hxy : projNode x = y) : ∀ j, projNode (upd1 n1 i x j) = upd n0 i y j := by
  intro j
  by_cases hj : j = i
  · subst hj; simp [upd, hxy]
  · simp [upd, upd1, hj, h j]

/-- a counted majority over `finRange` is a quorum in the sense of L0 -/
theorem quorum_of_countP (p : Fin N → Bool) (h : N < 2 * (List.finRange N).countP p) :
    ∃ Q : Finset (Fin N), N < 2 * Q.card ∧ ∀ j ∈ Q, p j = true := by
  refine ⟨((List.finRange N).filter p).toFinset, ?_, fun j hj => ?_⟩
  · rw [List.toFinset_card_of_nodup ((List.nodup_finRange N).filter _), ← List.countP_eq_length_filter]
    exact h
  · exact (List.mem_filter.mp (List.mem_toFinset.mp hj)).2

structure RNet (net : Msg1 N → Prop) (s0 : Sys N) : Prop where
  mvote   : ∀ t c j li lt, net (.vote t c j li lt) → j ≠ c ∧ s0.msgs (.rv t c li lt)
  mvresp  : ∀ t j c, net (.voteResp t j c false) → s0.msgs (.rvResp t j c true)
  mapp    : ∀ t src dst prev pt ents cm, net (.app t src dst prev pt ents cm) → s0.msgs (.ae t src prev pt ents cm)
  mresp   : ∀ t src dst idx, net (.appResp t src dst idx false) → s0.acks t src idx
  mhb     : ∀ t src dst c, net (.hb t src dst c) → s0.msgs (.hb t src dst c)
  msnap   : ∀ t src dst k ents, net (.snap t src dst k ents) →
              1 ≤ k ∧ ents.length = k ∧ ∃ cm, k ≤ cm ∧ s0.msgs (.ae t src 0 0 ents cm)

structure RNode (n : Node1 N) (i : Fin N) (s0 : Sys N) : Prop where
  voted   : ∀ c, n.vote = some c → i ≠ c → s0.msgs (.rvResp n.term i c true)
  granted : ∀ j, n.role = .candidate → n.votes j = some true → j = i ∨ s0.msgs (.rvResp n.term j i true)
  matched : ∀ j, n.role = .leader → 0 < n.matchI j → ∃ k, n.matchI j ≤ k ∧ s0.acks n.term j k
  selfack : n.role = .leader → s0.acks n.term i n.log.length

structure R (s1 : Sys1 N) (s0 : Sys N) : Prop where
  nodes : ∀ i, projNode (s1.nodes i) = s0.nodes i
  net   : RNet s1.net s0
  node  : ∀ i, RNode (s1.nodes i) i s0

theorem RNet.mono {net : Msg1 N → Prop} {s0 s0' : Sys N} (h : RNet net s0)
    (hm : ∀ m, s0.msgs m → s0'.msgs m) (ha : ∀ t j n, s0.acks t j n → s0'.acks t j n) : RNet net s0' :=
  ⟨fun t c j li lt x => ⟨(h.mvote t c j li lt x).1, hm _ (h.mvote t c j li lt x).2⟩,
   fun t j c x => hm _ (h.mvresp t j c x), fun t src dst prev pt ents cm x => hm _ (h.mapp t src dst prev pt ents cm x),
   fun t src dst idx x => ha _ _ _ (h.mresp t src dst idx x), fun t src dst c x => hm _ (h.mhb t src dst c x),
   fun t src dst k ents x => let ⟨a, b, cm, c, d⟩ := h.msnap t src dst k ents x; ⟨a, b, cm, c, hm _ d⟩⟩

theorem RNode.mono {n : Node1 N} {i : Fin N} {s0 s0' : Sys N} (h : RNode n i s0)
    (hm : ∀ m, s0.msgs m → s0'.msgs m) (ha : ∀ t j n, s0.acks t j n → s0'.acks t j n) : RNode n i s0' :=
  ⟨fun c a b => hm _ (h.voted c a b),
   fun j a b => (h.granted j a b).imp id (hm _),
   fun j a b => let ⟨k, hk, hk'⟩ := h.matched j a b; ⟨k, hk, ha _ _ _ hk'⟩,
   fun a => ha _ _ _ (h.selfack a)⟩

/-- rebuild the relation after node `i` changed to `x` and the L0 side moved to `s0'` -/
theorem R.rebuild {s1 : Sys1 N} {s0 s0' : Sys N} (r : R s1 s0) (i : Fin N) (x : Node1 N) (net' : Msg1 N → Prop)
    (hn : s0'.nodes = upd s0.nodes i (projNode x))
    (hm : ∀ m, s0.msgs m → s0'.msgs m) (ha : ∀ t j n, s0.acks t j n → s0'.acks t j n)
    (hnet : RNet net' s0') (hx : RNode x i s0') : R ⟨upd1 s1.nodes i x, net'⟩ s0' := by
  refine ⟨?_, hnet, ?_⟩
  · intro j; rw [hn]; exact proj_upd r.nodes i rfl j
  · intro j
    by_cases hj : j = i
    · subst hj; simpa using hx
    · simp only [upd1_other _ _ hj]; exact (r.node j).mono hm ha

/-- the fields of the L0 node, read through the relation -/
theorem R.term {s1 : Sys1 N} {s0 : Sys N} (r : R s1 s0) (i : Fin N) : (s0.nodes i).term = (s1.nodes i).term := by
  rw [← r.nodes i]; rfl
theorem R.vote {s1 : Sys1 N} {s0 : Sys N} (r : R s1 s0) (i : Fin N) : (s0.nodes i).vote = (s1.nodes i).vote := by
  rw [← r.nodes i]; rfl
theorem R.role {s1 : Sys1 N} {s0 : Sys N} (r : R s1 s0) (i : Fin N) : (s0.nodes i).role = (s1.nodes i).role := by
  rw [← r.nodes i]; rfl
theorem R.log {s1 : Sys1 N} {s0 : Sys N} (r : R s1 s0) (i : Fin N) : (s0.nodes i).log = (s1.nodes i).log := by
  rw [← r.nodes i]; rfl
theorem R.commit {s1 : Sys1 N} {s0 : Sys N} (r : R s1 s0) (i : Fin N) : (s0.nodes i).commit = (s1.nodes i).commit := by
  rw [← r.nodes i]; rfl

theorem R.rebuild_net {s1 : Sys1 N} {s0 s0' : Sys N} (r : R s1 s0) (net' : Msg1 N → Prop)
    (hn : s0'.nodes = s0.nodes)
    (hm : ∀ m, s0.msgs m → s0'.msgs m) (ha : ∀ t j n, s0.acks t j n → s0'.acks t j n)
    (hnet : RNet net' s0') : R ⟨s1.nodes, net'⟩ s0' :=
  ⟨fun j => by rw [hn]; exact r.nodes j, hnet, fun j => (r.node j).mono hm ha⟩

/-- the L0 steps in which no quorum decides and no client/timer acts: what 18 of the 22 branches of `Step1` are simulated by -/
inductive StepNQ : Sys N → Sys N → Prop
| updateTerm (s : Sys N) (i : Fin N) (t : Nat) (ht : (s.nodes i).term < t) : StepNQ s (doUpdateTerm s i t)
| grant (s : Sys N) (j c : Fin N) (t li lt : Nat) (hm : s.msgs (.rv t c li lt)) (ht : (s.nodes j).term = t)
    (hv : (s.nodes j).vote = none) (hu : upToDate lt li (s.nodes j).log) : StepNQ s (doGrant s j c t)
| sendAE (s : Sys N) (i : Fin N) (prev cnt : Nat) (hl : (s.nodes i).role = .leader)
    (hp : prev ≤ (s.nodes i).log.length) : StepNQ s (doSendAE s i prev cnt)
| handleAE (s : Sys N) (j src : Fin N) (t prev pt : Nat) (ents : Log) (cm : Nat)
    (hm : s.msgs (.ae t src prev pt ents cm)) (ht : (s.nodes j).term = t)
    (hnl : (s.nodes j).role ≠ .leader)
    (hmatch : prev ≤ (s.nodes j).log.length ∧ termAt (s.nodes j).log prev = pt) : StepNQ s (doHandleAE s j src t prev ents cm)
| restart (s : Sys N) (i : Fin N) : StepNQ s (doRestart s i)
| ackCommitted (s : Sys N) (j src : Fin N) (t prev pt : Nat) (ents : Log) (cm : Nat)
    (hm : s.msgs (.ae t src prev pt ents cm)) (ht : (s.nodes j).term = t) (hnl : (s.nodes j).role ≠ .leader)
    (hlt : prev < (s.nodes j).commit) : StepNQ s (doAckCommitted s j src t)
| sendHB (s : Sys N) (i dst : Fin N) (c : Nat) (hl : (s.nodes i).role = .leader) (hc : c ≤ (s.nodes i).commit)
    (hack : c = 0 ∨ ∃ n, c ≤ n ∧ s.acks (s.nodes i).term dst n) : StepNQ s (doSendHB s i dst c)
| handleHB (s : Sys N) (j src : Fin N) (t c : Nat) (hm : s.msgs (.hb t src j c)) (ht : (s.nodes j).term = t)
    (hnl : (s.nodes j).role ≠ .leader) : StepNQ s (doHandleHB s j c)

theorem StepNQ.toStep {s s' : Sys N} (h : StepNQ s s') : Step s s' := by
  cases h with
  | updateTerm i t ht => exact .updateTerm s i t ht
  | grant j c t li lt hm ht hv hu => exact .grant s j c t li lt hm ht hv hu
  | sendAE i prev cnt hl hp => exact .sendAE s i prev cnt hl hp
  | handleAE j src t prev pt ents cm hm ht hnl hmatch => exact .handleAE s j src t prev pt ents cm hm ht hnl hmatch
  | restart i => exact .restart s i
  | ackCommitted j src t prev pt ents cm hm ht hnl hlt => exact .ackCommitted s j src t prev pt ents cm hm ht hnl hlt
  | sendHB i dst c hl hc hack => exact .sendHB s i dst c hl hc hack
  | handleHB j src t c hm ht hnl => exact .handleHB s j src t c hm ht hnl

/-- zero or one quorum-free L0 step -/
def StepNQ? (s s' : Sys N) : Prop := s' = s ∨ StepNQ s s'

theorem StepNQ?.toStep? {s s' : Sys N} (h : StepNQ? s s') : s' = s ∨ Step s s' := h.imp id StepNQ.toStep

/-- one L1 step is zero or one L0 steps -/
def Step? (s s' : Sys N) : Prop := s' = s ∨ Step s s'

theorem sim_higherTerm {s1 : Sys1 N} {s0 : Sys N} (r : R s1 s0) (j : Fin N) (t : Nat) (lead : Option (Fin N))
    (h : (s1.nodes j).term < t) : ∃ s0', StepNQ? s0 s0' ∧ R ⟨upd1 s1.nodes j (bump (s1.nodes j) t lead), s1.net⟩ s0' := by
  refine ⟨doUpdateTerm s0 j t, Or.inr (StepNQ.updateTerm s0 j t (by rw [r.term]; exact h)), ?_⟩
  refine r.rebuild j _ _ ?_ (fun _ h => h) (fun _ _ _ h => h) (r.net.mono (fun _ h => h) (fun _ _ _ h => h)) ?_
  · simp only [doUpdateTerm, ← r.nodes j]; rfl
  · refine ⟨?_, ?_, ?_, ?_⟩ <;> simp [bump]

theorem R_hup {s1 : Sys1 N} {s0 : Sys N} (r : R s1 s0) (i : Fin N) :
    R ⟨upd1 s1.nodes i (campaign (s1.nodes i) i),
      send s1 fun m => ∃ dst, dst ≠ i ∧ m = .vote ((s1.nodes i).term + 1) i dst (s1.nodes i).log.length (lastTerm (s1.nodes i).log)⟩
      (doTimeout s0 i) := by
  have hm : ∀ m, s0.msgs m → (doTimeout s0 i).msgs m := fun _ h => Or.inl h
  have ha : ∀ t j n, s0.acks t j n → (doTimeout s0 i).acks t j n := fun _ _ _ h => h
  refine r.rebuild i _ _ ?_ hm ha ?_ ?_
  · simp only [doTimeout, ← r.nodes i]; rfl
  · have old := r.net.mono hm ha
    refine ⟨?_, ?_, ?_, ?_, ?_, ?_⟩
    · intro t c j li lt x
      rcases x with x | ⟨dst, hd, x⟩
      · exact old.mvote _ _ _ _ _ x
      · cases x
        refine ⟨hd, Or.inr ?_⟩
        rw [r.term, r.log]
    · intro t j c x
      rcases x with x | ⟨dst, hd, x⟩
      · exact old.mvresp _ _ _ x
      · cases x
    · intro t src dst prev pt ents cm x
      rcases x with x | ⟨dst, hd, x⟩
      · exact old.mapp _ _ _ _ _ _ _ x
      · cases x
    · intro t src dst idx x
      rcases x with x | ⟨dst, hd, x⟩
      · exact old.mresp _ _ _ _ x
      · cases x
    · intro t src dst c x
      rcases x with x | ⟨dst, hd, x⟩
      · exact old.mhb _ _ _ _ x
      · cases x
    · intro t src dst k ents x
      rcases x with x | ⟨dst, hd, x⟩
      · exact old.msnap _ _ _ _ _ x
      · cases x
  · refine ⟨?_, ?_, ?_, ?_⟩
    · intro c hc hne; simp [campaign] at hc; exact absurd hc hne
    · intro j _ hg; left
      simp only [campaign] at hg
      by_cases hj : j = i
      · exact hj
      · simp [hj] at hg
    · intro j hr; simp [campaign] at hr
    · intro hr; simp [campaign] at hr

section add
variable {net : Msg1 N → Prop} {s0 : Sys N}
theorem RNet.add_voteResp (h : RNet net s0) (t : Nat) (j c : Fin N) (rej : Bool)
    (ob : rej = false → s0.msgs (.rvResp t j c true)) : RNet (fun m => net m ∨ m = .voteResp t j c rej) s0 := by
  refine ⟨?_, ?_, ?_, ?_, ?_, ?_⟩
  · intro _ _ _ _ _ x; rcases x with x | x
    · exact h.mvote _ _ _ _ _ x
    · cases x
  · intro _ _ _ x; rcases x with x | x
    · exact h.mvresp _ _ _ x
    · cases x; exact ob rfl
  · intro _ _ _ _ _ _ _ x; rcases x with x | x
    · exact h.mapp _ _ _ _ _ _ _ x
    · cases x
  · intro _ _ _ _ x; rcases x with x | x
    · exact h.mresp _ _ _ _ x
    · cases x
  · intro _ _ _ _ x; rcases x with x | x
    · exact h.mhb _ _ _ _ x
    · cases x
  · intro _ _ _ _ _ x; rcases x with x | x
    · exact h.msnap _ _ _ _ _ x
    · cases x
theorem RNet.add_app (h : RNet net s0) (t : Nat) (src dst : Fin N) (prev pt : Nat) (ents : Log) (cm : Nat)
    (ob : s0.msgs (.ae t src prev pt ents cm)) : RNet (fun m => net m ∨ m = .app t src dst prev pt ents cm) s0 := by
  refine ⟨?_, ?_, ?_, ?_, ?_, ?_⟩
  · intro _ _ _ _ _ x; rcases x with x | x
    · exact h.mvote _ _ _ _ _ x
    · cases x
  · intro _ _ _ x; rcases x with x | x
    · exact h.mvresp _ _ _ x
    · cases x
  · intro _ _ _ _ _ _ _ x; rcases x with x | x
    · exact h.mapp _ _ _ _ _ _ _ x
    · cases x; exact ob
  · intro _ _ _ _ x; rcases x with x | x
    · exact h.mresp _ _ _ _ x
    · cases x
  · intro _ _ _ _ x; rcases x with x | x
    · exact h.mhb _ _ _ _ x
    · cases x
  · intro _ _ _ _ _ x; rcases x with x | x
    · exact h.msnap _ _ _ _ _ x
    · cases x
theorem RNet.add_appResp (h : RNet net s0) (t : Nat) (src dst : Fin N) (idx : Nat) (rej : Bool)
    (ob : rej = false → s0.acks t src idx) : RNet (fun m => net m ∨ m = .appResp t src dst idx rej) s0 := by
  refine ⟨?_, ?_, ?_, ?_, ?_, ?_⟩
  · intro _ _ _ _ _ x; rcases x with x | x
    · exact h.mvote _ _ _ _ _ x
    · cases x
  · intro _ _ _ x; rcases x with x | x
    · exact h.mvresp _ _ _ x
    · cases x
  · intro _ _ _ _ _ _ _ x; rcases x with x | x
    · exact h.mapp _ _ _ _ _ _ _ x
    · cases x
  · intro _ _ _ _ x; rcases x with x | x
    · exact h.mresp _ _ _ _ x
    · cases x; exact ob rfl
  · intro _ _ _ _ x; rcases x with x | x
    · exact h.mhb _ _ _ _ x
    · cases x
  · intro _ _ _ _ _ x; rcases x with x | x
    · exact h.msnap _ _ _ _ _ x
    · cases x
theorem RNet.add_hb (h : RNet net s0) (t : Nat) (src dst : Fin N) (c : Nat)
    (ob : s0.msgs (.hb t src dst c)) : RNet (fun m => net m ∨ m = .hb t src dst c) s0 := by
  refine ⟨?_, ?_, ?_, ?_, ?_, ?_⟩
  · intro _ _ _ _ _ x; rcases x with x | x
    · exact h.mvote _ _ _ _ _ x
    · cases x
  · intro _ _ _ x; rcases x with x | x
    · exact h.mvresp _ _ _ x
    · cases x
  · intro _ _ _ _ _ _ _ x; rcases x with x | x
    · exact h.mapp _ _ _ _ _ _ _ x
    · cases x
  · intro _ _ _ _ x; rcases x with x | x
    · exact h.mresp _ _ _ _ x
    · cases x
  · intro _ _ _ _ x; rcases x with x | x
    · exact h.mhb _ _ _ _ x
    · cases x; exact ob
  · intro _ _ _ _ _ x; rcases x with x | x
    · exact h.msnap _ _ _ _ _ x
    · cases x
theorem RNet.add_snap (h : RNet net s0) (t : Nat) (src dst : Fin N) (k : Nat) (ents : Log)
    (ob : 1 ≤ k ∧ ents.length = k ∧ ∃ cm, k ≤ cm ∧ s0.msgs (.ae t src 0 0 ents cm)) :
    RNet (fun m => net m ∨ m = .snap t src dst k ents) s0 := by
  refine ⟨?_, ?_, ?_, ?_, ?_, ?_⟩
  · intro _ _ _ _ _ x; rcases x with x | x
    · exact h.mvote _ _ _ _ _ x
    · cases x
  · intro _ _ _ x; rcases x with x | x
    · exact h.mvresp _ _ _ x
    · cases x
  · intro _ _ _ _ _ _ _ x; rcases x with x | x
    · exact h.mapp _ _ _ _ _ _ _ x
    · cases x
  · intro _ _ _ _ x; rcases x with x | x
    · exact h.mresp _ _ _ _ x
    · cases x
  · intro _ _ _ _ x; rcases x with x | x
    · exact h.mhb _ _ _ _ x
    · cases x
  · intro _ _ _ _ _ x; rcases x with x | x
    · exact h.msnap _ _ _ _ _ x
    · cases x; exact ob
end add

theorem sim_hup {s1 : Sys1 N} {s0 : Sys N} (r : R s1 s0) (i : Fin N) (h : (s1.nodes i).role ≠ .leader) :
    ∃ s0', Step? s0 s0' ∧ R ⟨upd1 s1.nodes i (campaign (s1.nodes i) i),
      send s1 fun m => ∃ dst, dst ≠ i ∧ m = .vote ((s1.nodes i).term + 1) i dst (s1.nodes i).log.length (lastTerm (s1.nodes i).log)⟩ s0' :=
  ⟨doTimeout s0 i, Or.inr (Step.timeout s0 i (by rw [r.role]; exact h)), R_hup r i⟩

theorem sim_voteGrant {s1 : Sys1 N} {s0 : Sys N} (r : R s1 s0) (j c : Fin N) (t li lt : Nat)
    (hm : s1.net (.vote t c j li lt)) (ht : (s1.nodes j).term = t)
    (hcan : (s1.nodes j).vote = some c ∨ ((s1.nodes j).vote = none ∧ (s1.nodes j).lead = none))
    (hu : upToDate lt li (s1.nodes j).log) :
    ∃ s0', StepNQ? s0 s0' ∧ R ⟨upd1 s1.nodes j { (s1.nodes j) with vote := some c }, send s1 fun m => m = .voteResp t j c false⟩ s0' := by
  obtain ⟨hjc, hrv⟩ := r.net.mvote _ _ _ _ _ hm
  rcases hcan with hv | ⟨hv, _⟩
  · -- repeat grant: the response exists already
    have hold : s0.msgs (.rvResp t j c true) := by
      have := (r.node j).voted c hv hjc; rwa [ht] at this
    refine ⟨s0, Or.inl rfl, ?_⟩
    refine r.rebuild j _ _ ?_ (fun _ h => h) (fun _ _ _ h => h) (r.net.add_voteResp t j c false fun _ => hold) ?_
    · funext k; by_cases hk : k = j
      · subst hk; simp [upd, ← r.nodes k, projNode, hv]
      · simp [upd, hk]
    · have o := r.node j
      exact ⟨fun c' a b => o.voted c' (by simpa [hv] using a) b, o.granted, o.matched, o.selfack⟩
  · refine ⟨doGrant s0 j c t, Or.inr (StepNQ.grant s0 j c t li lt hrv (by rw [r.term]; exact ht) (by rw [r.vote]; exact hv)
      (by rw [r.log]; exact hu)), ?_⟩
    have hmm : ∀ m, s0.msgs m → (doGrant s0 j c t).msgs m := fun _ h => Or.inl h
    have ha : ∀ t' j' n, s0.acks t' j' n → (doGrant s0 j c t).acks t' j' n := fun _ _ _ h => h
    refine r.rebuild j _ _ ?_ hmm ha ((r.net.mono hmm ha).add_voteResp t j c false fun _ => Or.inr rfl) ?_
    · simp only [doGrant, ← r.nodes j]; rfl
    · have o := (r.node j).mono hmm ha
      refine ⟨?_, o.granted, o.matched, o.selfack⟩
      intro c' a _
      simp at a; subst a
      rw [ht]; exact Or.inr rfl

theorem sim_voteReject {s1 : Sys1 N} {s0 : Sys N} (r : R s1 s0) (j c : Fin N) (t : Nat) :
    ∃ s0', StepNQ? s0 s0' ∧ R ⟨s1.nodes, send s1 fun m => m = .voteResp t j c true⟩ s0' :=
  ⟨s0, Or.inl rfl, r.rebuild_net _ rfl (fun _ h => h) (fun _ _ _ h => h) (r.net.add_voteResp t j c true (fun h => by cases h))⟩

theorem sim_voteRecord {s1 : Sys1 N} {s0 : Sys N} (r : R s1 s0) (i src : Fin N) (rej : Bool)
    (hm : s1.net (.voteResp (s1.nodes i).term src i rej)) :
    ∃ s0', StepNQ? s0 s0' ∧ R ⟨upd1 s1.nodes i (recordVote (s1.nodes i) src rej), s1.net⟩ s0' := by
  refine ⟨s0, Or.inl rfl, r.rebuild i _ _ ?_ (fun _ h => h) (fun _ _ _ h => h) r.net ?_⟩
  · funext k; by_cases hk : k = i
    · subst hk; simp [upd, ← r.nodes k, projNode, recordVote]
    · simp [upd, hk]
  · have o := r.node i
    refine ⟨o.voted, ?_, o.matched, o.selfack⟩
    intro j hc hg
    simp only [recordVote] at hg hc ⊢
    by_cases hj : j = src
    · subst hj
      simp only [if_true] at hg
      cases hv : (s1.nodes i).votes j with
      | some b => rw [hv] at hg; simp only at hg; exact o.granted j hc (by rw [hv]; exact hg)
      | none =>
        rw [hv] at hg
        simp only [Option.some.injEq, Bool.not_eq_true'] at hg
        subst hg; right; exact r.net.mvresp _ _ _ hm
    · rw [if_neg hj] at hg; exact o.granted j hc hg

/-- the granted entries of a candidate's `votes[]` are backed by `rvResp` messages (or are its own vote) -/
theorem win_backing {s1 : Sys1 N} {s0 : Sys N} (r : R s1 s0) (i : Fin N) (hc : (s1.nodes i).role = .candidate)
    (Q : Finset (Fin N)) (hQ : ∀ j ∈ Q, (s1.nodes i).votes j = some true) :
    ∀ j ∈ Q, j = i ∨ s0.msgs (.rvResp (s0.nodes i).term j i true) := by
  intro j hj; rw [r.term]; exact (r.node i).granted j hc (hQ j hj)

theorem R_win {s1 : Sys1 N} {s0 : Sys N} (r : R s1 s0) (i : Fin N) (Q : Finset (Fin N)) :
    R ⟨upd1 s1.nodes i (winElection (s1.nodes i) i), s1.net⟩ (doBecomeLeader s0 i Q) := by
  have hmm : ∀ m, s0.msgs m → (doBecomeLeader s0 i Q).msgs m := fun _ h => h
  have ha : ∀ t' j' n, s0.acks t' j' n → (doBecomeLeader s0 i Q).acks t' j' n := fun _ _ _ h => Or.inl h
  refine r.rebuild i _ _ ?_ hmm ha (r.net.mono hmm ha) ?_
  · simp only [doBecomeLeader, ← r.nodes i]; rfl
  · have o := (r.node i).mono hmm ha
    have hself : (doBecomeLeader s0 i Q).acks (s1.nodes i).term i ((s1.nodes i).log.length + 1) :=
      Or.inr ⟨by rw [r.term], rfl, by rw [r.log]; simp⟩
    refine ⟨o.voted, ?_, ?_, ?_⟩
    · intro j h; simp [winElection] at h
    · intro j _ hpos
      simp only [winElection] at hpos ⊢
      by_cases hj : j = i
      · subst hj
        simp only [if_true]
        exact ⟨_, Nat.le_succ _, hself⟩
      · rw [if_neg hj] at hpos; omega
    · intro _; simpa [winElection] using hself

theorem sim_win {s1 : Sys1 N} {s0 : Sys N} (r : R s1 s0) (i : Fin N)
    (hc : (s1.nodes i).role = .candidate)
    (hq' : N < 2 * (List.finRange N).countP (fun j => (s1.nodes i).votes j == some true)) :
    ∃ s0', Step? s0 s0' ∧ R ⟨upd1 s1.nodes i (winElection (s1.nodes i) i), s1.net⟩ s0' := by
  obtain ⟨Q, hq, hQ'⟩ := quorum_of_countP _ hq'
  have hQ : ∀ j ∈ Q, (s1.nodes i).votes j = some true := fun j hj => by simpa using hQ' j hj
  exact ⟨doBecomeLeader s0 i Q, Or.inr (Step.becomeLeader s0 i Q hq (by rw [r.role]; exact hc) (win_backing r i hc Q hQ)), R_win r i Q⟩

theorem R_stepDown {s1 : Sys1 N} {s0 : Sys N} (r : R s1 s0) (i : Fin N) :
    R ⟨upd1 s1.nodes i (stepDownN (s1.nodes i)), s1.net⟩ (doRestart s0 i) := by
  refine r.rebuild i _ _ ?_ (fun _ h => h) (fun _ _ _ h => h) (r.net.mono (fun _ h => h) (fun _ _ _ h => h)) ?_
  · simp only [doRestart, ← r.nodes i]; rfl
  · have o := r.node i
    refine ⟨o.voted, ?_, ?_, ?_⟩ <;> simp [stepDownN]

theorem sim_stepDown {s1 : Sys1 N} {s0 : Sys N} (r : R s1 s0) (i : Fin N) :
    ∃ s0', StepNQ? s0 s0' ∧ R ⟨upd1 s1.nodes i (stepDownN (s1.nodes i)), s1.net⟩ s0' :=
  ⟨doRestart s0 i, Or.inr (StepNQ.restart s0 i), R_stepDown r i⟩

theorem R_propose {s1 : Sys1 N} {s0 : Sys N} (r : R s1 s0) (i : Fin N) (v : Nat) (hl : (s1.nodes i).role = .leader) :
    R ⟨upd1 s1.nodes i (proposeN (s1.nodes i) v), s1.net⟩ (doClientReq s0 i v) := by
  have hmm : ∀ m, s0.msgs m → (doClientReq s0 i v).msgs m := fun _ h => h
  have ha : ∀ t' j' n, s0.acks t' j' n → (doClientReq s0 i v).acks t' j' n := fun _ _ _ h => Or.inl h
  refine r.rebuild i _ _ ?_ hmm ha (r.net.mono hmm ha) ?_
  · simp only [doClientReq, ← r.nodes i]; rfl
  · have o := (r.node i).mono hmm ha
    refine ⟨o.voted, ?_, ?_, ?_⟩
    · intro j h; simp [proposeN, hl] at h
    · intro j _ hpos; exact o.matched j hl hpos
    · intro _
      simp only [proposeN]
      exact Or.inr ⟨by rw [r.term], rfl, by rw [r.log]; simp⟩

theorem sim_propose {s1 : Sys1 N} {s0 : Sys N} (r : R s1 s0) (i : Fin N) (v : Nat) (hl : (s1.nodes i).role = .leader) :
    ∃ s0', Step? s0 s0' ∧ R ⟨upd1 s1.nodes i (proposeN (s1.nodes i) v), s1.net⟩ s0' :=
  ⟨doClientReq s0 i v, Or.inr (Step.clientReq s0 i v (by rw [r.role]; exact hl)), R_propose r i v hl⟩

theorem sim_sendApp {s1 : Sys1 N} {s0 : Sys N} (r : R s1 s0) (i dst : Fin N) (prev cnt : Nat)
    (hl : (s1.nodes i).role = .leader) (hp : prev ≤ (s1.nodes i).log.length) :
    ∃ s0', StepNQ? s0 s0' ∧ R ⟨s1.nodes, send s1 fun m =>
      m = .app (s1.nodes i).term i dst prev (termAt (s1.nodes i).log prev) (((s1.nodes i).log.drop prev).take cnt) (s1.nodes i).commit⟩ s0' := by
  refine ⟨doSendAE s0 i prev cnt, Or.inr (StepNQ.sendAE s0 i prev cnt (by rw [r.role]; exact hl) (by rw [r.log]; exact hp)), ?_⟩
  have hmm : ∀ m, s0.msgs m → (doSendAE s0 i prev cnt).msgs m := fun _ h => Or.inl h
  have ha : ∀ t' j' n, s0.acks t' j' n → (doSendAE s0 i prev cnt).acks t' j' n := fun _ _ _ h => h
  refine r.rebuild_net _ rfl hmm ha ((r.net.mono hmm ha).add_app _ _ _ _ _ _ _ ?_)
  right; rw [r.term, r.log, r.commit]

theorem sim_appBelow {s1 : Sys1 N} {s0 : Sys N} (r : R s1 s0) (j src : Fin N) (t prev pt : Nat) (ents : Log) (cm : Nat)
    (hm : s1.net (.app t src j prev pt ents cm)) (ht : (s1.nodes j).term = t) (hnl : (s1.nodes j).role ≠ .leader)
    (hlt : prev < (s1.nodes j).commit) :
    ∃ s0', StepNQ? s0 s0' ∧ R ⟨upd1 s1.nodes j (followN (s1.nodes j) src), send s1 fun m => m = .appResp t j src (s1.nodes j).commit false⟩ s0' := by
  refine ⟨doAckCommitted s0 j src t, Or.inr (StepNQ.ackCommitted s0 j src t prev pt ents cm (r.net.mapp _ _ _ _ _ _ _ hm)
    (by rw [r.term]; exact ht) (by rw [r.role]; exact hnl) (by rw [r.commit]; exact hlt)), ?_⟩
  have hmm : ∀ m, s0.msgs m → (doAckCommitted s0 j src t).msgs m := fun _ h => Or.inl h
  have ha : ∀ t' j' n, s0.acks t' j' n → (doAckCommitted s0 j src t).acks t' j' n := fun _ _ _ h => Or.inl h
  refine r.rebuild j _ _ ?_ hmm ha ((r.net.mono hmm ha).add_appResp _ _ _ _ _ fun _ => ?_) ?_
  · simp only [doAckCommitted, ← r.nodes j]; rfl
  · right; rw [r.commit]; exact ⟨rfl, rfl, rfl⟩
  · have o := (r.node j).mono hmm ha
    refine ⟨o.voted, ?_, ?_, ?_⟩ <;> simp [followN]

theorem sim_appAccept {s1 : Sys1 N} {s0 : Sys N} (r : R s1 s0) (j src : Fin N) (t prev pt : Nat) (ents : Log) (cm : Nat)
    (hm : s1.net (.app t src j prev pt ents cm)) (ht : (s1.nodes j).term = t) (hnl : (s1.nodes j).role ≠ .leader)
    (hmatch : prev ≤ (s1.nodes j).log.length ∧ termAt (s1.nodes j).log prev = pt) :
    ∃ s0', StepNQ? s0 s0' ∧ R ⟨upd1 s1.nodes j (acceptN (s1.nodes j) src prev ents cm),
      send s1 fun m => m = .appResp t j src (prev + ents.length) false⟩ s0' := by
  refine ⟨doHandleAE s0 j src t prev ents cm, Or.inr (StepNQ.handleAE s0 j src t prev pt ents cm (r.net.mapp _ _ _ _ _ _ _ hm)
    (by rw [r.term]; exact ht) (by rw [r.role]; exact hnl) (by rw [r.log]; exact hmatch)), ?_⟩
  have hmm : ∀ m, s0.msgs m → (doHandleAE s0 j src t prev ents cm).msgs m := fun _ h => Or.inl h
  have ha : ∀ t' j' n, s0.acks t' j' n → (doHandleAE s0 j src t prev ents cm).acks t' j' n := fun _ _ _ h => Or.inl h
  refine r.rebuild j _ _ ?_ hmm ha ((r.net.mono hmm ha).add_appResp _ _ _ _ _ fun _ => ?_) ?_
  · simp only [doHandleAE, ← r.nodes j]; rfl
  · right; exact ⟨rfl, rfl, rfl⟩
  · have o := (r.node j).mono hmm ha
    refine ⟨o.voted, ?_, ?_, ?_⟩ <;> simp [acceptN]

theorem sim_appReject {s1 : Sys1 N} {s0 : Sys N} (r : R s1 s0) (j src : Fin N) (t prev : Nat) :
    ∃ s0', StepNQ? s0 s0' ∧ R ⟨upd1 s1.nodes j (followN (s1.nodes j) src), send s1 fun m => m = .appResp t j src prev true⟩ s0' := by
  refine ⟨doRestart s0 j, Or.inr (StepNQ.restart s0 j), ?_⟩
  refine r.rebuild j _ _ ?_ (fun _ h => h) (fun _ _ _ h => h) ((r.net.mono (s0' := doRestart s0 j) (fun _ h => h) (fun _ _ _ h => h)).add_appResp t j src prev true fun h => by cases h) ?_
  · simp only [doRestart, ← r.nodes j]; rfl
  · have o := r.node j
    refine ⟨o.voted, ?_, ?_, ?_⟩ <;> simp [followN]

theorem sim_ackRecord {s1 : Sys1 N} {s0 : Sys N} (r : R s1 s0) (i src : Fin N) (idx : Nat)
    (hm : s1.net (.appResp (s1.nodes i).term src i idx false)) (hl : (s1.nodes i).role = .leader) :
    ∃ s0', StepNQ? s0 s0' ∧ R ⟨upd1 s1.nodes i (ackN (s1.nodes i) src idx), s1.net⟩ s0' := by
  refine ⟨s0, Or.inl rfl, r.rebuild i _ _ ?_ (fun _ h => h) (fun _ _ _ h => h) r.net ?_⟩
  · funext k; by_cases hk : k = i
    · subst hk; simp [upd, ← r.nodes k, projNode, ackN]
    · simp [upd, hk]
  · have o := r.node i
    refine ⟨o.voted, ?_, ?_, o.selfack⟩
    · intro j h; simp [ackN, hl] at h
    · intro j _ hpos
      simp only [ackN] at hpos ⊢
      by_cases hj : j = src
      · subst hj
        simp only [if_true] at hpos ⊢
        by_cases hle : idx ≤ (s1.nodes i).matchI j
        · rw [Nat.max_eq_left hle] at hpos ⊢; exact o.matched j hl hpos
        · rw [Nat.max_eq_right (by omega)]
          exact ⟨idx, Nat.le_refl _, r.net.mresp _ _ _ _ hm⟩
      · rw [if_neg hj] at hpos ⊢; exact o.matched j hl hpos

theorem sim_selfAck {s1 : Sys1 N} {s0 : Sys N} (r : R s1 s0) (i : Fin N) (hl : (s1.nodes i).role = .leader) :
    ∃ s0', StepNQ? s0 s0' ∧ R ⟨upd1 s1.nodes i (ackN (s1.nodes i) i (s1.nodes i).log.length), s1.net⟩ s0' := by
  refine ⟨s0, Or.inl rfl, r.rebuild i _ _ ?_ (fun _ h => h) (fun _ _ _ h => h) r.net ?_⟩
  · funext k; by_cases hk : k = i
    · subst hk; simp [upd, ← r.nodes k, projNode, ackN]
    · simp [upd, hk]
  · have o := r.node i
    refine ⟨o.voted, ?_, ?_, o.selfack⟩
    · intro j h; simp [ackN, hl] at h
    · intro j _ hpos
      simp only [ackN] at hpos ⊢
      by_cases hj : j = i
      · subst hj
        simp only [if_true] at hpos ⊢
        by_cases hle : (s1.nodes j).log.length ≤ (s1.nodes j).matchI j
        · rw [Nat.max_eq_left hle] at hpos ⊢; exact o.matched j hl hpos
        · rw [Nat.max_eq_right (by omega)]
          exact ⟨_, Nat.le_refl _, o.selfack hl⟩
      · rw [if_neg hj] at hpos ⊢; exact o.matched j hl hpos

/-- a leader's positive `match[]` entries are backed by recorded acknowledgements -/
theorem commit_backing {s1 : Sys1 N} {s0 : Sys N} (r : R s1 s0) (i : Fin N) (k : Nat) (hl : (s1.nodes i).role = .leader)
    (hk : (s1.nodes i).commit < k ∧ k ≤ (s1.nodes i).log.length) (Q : Finset (Fin N)) (hQ : ∀ j ∈ Q, k ≤ (s1.nodes i).matchI j) :
    ∀ j ∈ Q, ∃ n, k ≤ n ∧ s0.acks (s0.nodes i).term j n := by
  intro j hj
  have := hQ j hj
  obtain ⟨n, hn, hn'⟩ := (r.node i).matched j hl (by omega)
  exact ⟨n, by omega, by rw [r.term]; exact hn'⟩

theorem R_commitQ {s1 : Sys1 N} {s0 : Sys N} (r : R s1 s0) (i : Fin N) (k : Nat) :
    R ⟨upd1 s1.nodes i { (s1.nodes i) with commit := k }, s1.net⟩ (doAdvanceCommit s0 i k) := by
  refine r.rebuild i _ _ ?_ (fun _ h => h) (fun _ _ _ h => h) (r.net.mono (fun _ h => h) (fun _ _ _ h => h)) ?_
  · simp only [doAdvanceCommit, ← r.nodes i]; rfl
  · have o := r.node i
    exact ⟨o.voted, o.granted, o.matched, o.selfack⟩

theorem sim_commitQ {s1 : Sys1 N} {s0 : Sys N} (r : R s1 s0) (i : Fin N) (k : Nat)
    (hl : (s1.nodes i).role = .leader) (hk : (s1.nodes i).commit < k ∧ k ≤ (s1.nodes i).log.length)
    (hterm : termAt (s1.nodes i).log k = (s1.nodes i).term)
    (hq' : N < 2 * (List.finRange N).countP (fun j => decide (k ≤ (s1.nodes i).matchI j))) :
    ∃ s0', Step? s0 s0' ∧ R ⟨upd1 s1.nodes i { (s1.nodes i) with commit := k }, s1.net⟩ s0' := by
  obtain ⟨Q, hq, hQ'⟩ := quorum_of_countP _ hq'
  have hQ : ∀ j ∈ Q, k ≤ (s1.nodes i).matchI j := fun j hj => by simpa using hQ' j hj
  exact ⟨doAdvanceCommit s0 i k, Or.inr (Step.advanceCommit s0 i k Q (by rw [r.role]; exact hl)
    (by rw [r.commit, r.log]; exact hk) (by rw [r.log, r.term]; exact hterm) hq (commit_backing r i k hl hk Q hQ)), R_commitQ r i k⟩

theorem sim_sendBeat {s1 : Sys1 N} {s0 : Sys N} (r : R s1 s0) (i dst : Fin N) (hl : (s1.nodes i).role = .leader) :
    ∃ s0', StepNQ? s0 s0' ∧ R ⟨s1.nodes, send s1 fun m =>
      m = .hb (s1.nodes i).term i dst (min ((s1.nodes i).matchI dst) (s1.nodes i).commit)⟩ s0' := by
  refine ⟨doSendHB s0 i dst (min ((s1.nodes i).matchI dst) (s1.nodes i).commit),
    Or.inr (StepNQ.sendHB s0 i dst _ (by rw [r.role]; exact hl) (by rw [r.commit]; exact Nat.min_le_right _ _) ?_), ?_⟩
  · by_cases h0 : (s1.nodes i).matchI dst = 0
    · left; rw [h0]; simp
    · right
      obtain ⟨n, hn, hn'⟩ := (r.node i).matched dst hl (by omega)
      exact ⟨n, Nat.le_trans (Nat.min_le_left _ _) hn, by rw [r.term]; exact hn'⟩
  have hmm : ∀ m, s0.msgs m → (doSendHB s0 i dst (min ((s1.nodes i).matchI dst) (s1.nodes i).commit)).msgs m := fun _ h => Or.inl h
  refine r.rebuild_net _ rfl hmm (fun _ _ _ h => h) ((r.net.mono hmm (fun _ _ _ h => h)).add_hb _ _ _ _ ?_)
  right; rw [r.term]

theorem sim_beat {s1 : Sys1 N} {s0 : Sys N} (r : R s1 s0) (j src : Fin N) (t c : Nat) (hm : s1.net (.hb t src j c))
    (ht : (s1.nodes j).term = t) (hnl : (s1.nodes j).role ≠ .leader) :
    ∃ s0', StepNQ? s0 s0' ∧ R ⟨upd1 s1.nodes j (beatN (s1.nodes j) src c), s1.net⟩ s0' := by
  refine ⟨doHandleHB s0 j c, Or.inr (StepNQ.handleHB s0 j src t c (r.net.mhb _ _ _ _ hm) (by rw [r.term]; exact ht)
    (by rw [r.role]; exact hnl)), ?_⟩
  refine r.rebuild j _ _ ?_ (fun _ h => h) (fun _ _ _ h => h) (r.net.mono (fun _ h => h) (fun _ _ _ h => h)) ?_
  · simp only [doHandleHB, ← r.nodes j]; rfl
  · have o := r.node j
    refine ⟨o.voted, ?_, ?_, ?_⟩ <;> simp [beatN]

/-- `restore` is `maybeAppend` of the snapshot's prefix from index 0 -/
theorem restore_log {llog : Nat → Log} {l L : Log} (hl : PrefixOK llog l) (hL : PrefixOK llog L) {k : Nat}
    (h1 : 1 ≤ k) (hk : k ≤ L.length) :
    follAppend l 0 (L.take k) = if k ≤ l.length ∧ termAt l k = termAt (L.take k) k then l else L.take k := by
  have spec := follAppend_spec hl hL (prev := 0) (n := k) (Nat.zero_le _) (by omega) rfl
  simp only [List.drop_zero, Nat.zero_add] at spec
  obtain ⟨⟨hlen, htake⟩, hcase⟩ := spec
  rw [termAt_take _ (Nat.le_refl k)]
  by_cases hm : k ≤ l.length ∧ termAt l k = termAt L k
  · rw [if_pos hm]
    have hag := prefix_agree hl hL h1 hm.1 hk hm.2
    rcases hcase with h | ⟨_, hneg⟩
    · exact h
    · exact absurd ⟨hm.1, hag⟩ hneg
  · rw [if_neg hm]
    rcases hcase with h | ⟨h, _⟩
    · exfalso
      rw [h] at hlen htake
      exact hm ⟨hlen, termAt_of_take_eq htake⟩
    · exact h

theorem sim_sendSnap {s1 : Sys1 N} {s0 : Sys N} (r : R s1 s0) (i dst : Fin N) (k : Nat)
    (hl : (s1.nodes i).role = .leader) (hk : 1 ≤ k ∧ k ≤ (s1.nodes i).commit ∧ k ≤ (s1.nodes i).log.length) :
    ∃ s0', StepNQ? s0 s0' ∧ R ⟨s1.nodes, send s1 fun m => m = .snap (s1.nodes i).term i dst k ((s1.nodes i).log.take k)⟩ s0' := by
  refine ⟨doSendAE s0 i 0 k, Or.inr (StepNQ.sendAE s0 i 0 k (by rw [r.role]; exact hl) (Nat.zero_le _)), ?_⟩
  have hmm : ∀ m, s0.msgs m → (doSendAE s0 i 0 k).msgs m := fun _ h => Or.inl h
  have ha : ∀ t' j' n, s0.acks t' j' n → (doSendAE s0 i 0 k).acks t' j' n := fun _ _ _ h => h
  refine r.rebuild_net _ rfl hmm ha ((r.net.mono hmm ha).add_snap _ _ _ _ _ ⟨hk.1, ?_, (s1.nodes i).commit, hk.2.1, ?_⟩)
  · rw [List.length_take]; omega
  · right
    rw [r.term, r.log, r.commit]
    simp [termAt]

theorem sim_snapIgnore {s1 : Sys1 N} {s0 : Sys N} (r : R s1 s0) (j src : Fin N) (t k : Nat) (ents : Log)
    (hm : s1.net (.snap t src j k ents)) (ht : (s1.nodes j).term = t) (hnl : (s1.nodes j).role ≠ .leader)
    (hle : k ≤ (s1.nodes j).commit) :
    ∃ s0', StepNQ? s0 s0' ∧ R ⟨upd1 s1.nodes j (followN (s1.nodes j) src), send s1 fun m => m = .appResp t j src (s1.nodes j).commit false⟩ s0' := by
  obtain ⟨h1, _, cm, _, hae⟩ := r.net.msnap _ _ _ _ _ hm
  refine ⟨doAckCommitted s0 j src t, Or.inr (StepNQ.ackCommitted s0 j src t 0 0 ents cm hae
    (by rw [r.term]; exact ht) (by rw [r.role]; exact hnl) (by rw [r.commit]; omega)), ?_⟩
  have hmm : ∀ m, s0.msgs m → (doAckCommitted s0 j src t).msgs m := fun _ h => Or.inl h
  have ha : ∀ t' j' n, s0.acks t' j' n → (doAckCommitted s0 j src t).acks t' j' n := fun _ _ _ h => Or.inl h
  refine r.rebuild j _ _ ?_ hmm ha ((r.net.mono hmm ha).add_appResp _ _ _ _ _ fun _ => ?_) ?_
  · simp only [doAckCommitted, ← r.nodes j]; rfl
  · right; rw [r.commit]; exact ⟨rfl, rfl, rfl⟩
  · have o := (r.node j).mono hmm ha
    refine ⟨o.voted, ?_, ?_, ?_⟩ <;> simp [followN]

theorem sim_snapRestore {s1 : Sys1 N} {s0 : Sys N}
    (hae_ok : ∀ t src prev pt ents cm, s0.msgs (.ae t src prev pt ents cm) →
       s0.isLdr t src ∧ prev ≤ (s0.llog t).length ∧ pt = termAt (s0.llog t) prev ∧ ents = ((s0.llog t).drop prev).take ents.length)
    (hpn : ∀ i, PrefixOK s0.llog (s0.nodes i).log) (hpl : ∀ t, PrefixOK s0.llog (s0.llog t)) (r : R s1 s0) (j src : Fin N) (t k : Nat) (ents : Log)
    (hm : s1.net (.snap t src j k ents)) (ht : (s1.nodes j).term = t) (hnl : (s1.nodes j).role ≠ .leader)
    (hgt : (s1.nodes j).commit < k) :
    ∃ s0', StepNQ? s0 s0' ∧ R ⟨upd1 s1.nodes j (restoreN (s1.nodes j) src k ents), send s1 fun m => m = .appResp t j src k false⟩ s0' := by
  obtain ⟨h1, hlen, cm, hcm, hae⟩ := r.net.msnap _ _ _ _ _ hm
  obtain ⟨_, _, _, hents⟩ := hae_ok _ _ _ _ _ _ hae
  simp only [List.drop_zero, hlen] at hents
  have hkL : k ≤ (s0.llog t).length := by
    have := congrArg List.length hents
    rw [hlen, List.length_take] at this
    omega
  refine ⟨doHandleAE s0 j src t 0 ents cm, Or.inr (StepNQ.handleAE s0 j src t 0 0 ents cm hae
    (by rw [r.term]; exact ht) (by rw [r.role]; exact hnl) ⟨Nat.zero_le _, rfl⟩), ?_⟩
  have hmm : ∀ m, s0.msgs m → (doHandleAE s0 j src t 0 ents cm).msgs m := fun _ h => Or.inl h
  have ha : ∀ t' j' n, s0.acks t' j' n → (doHandleAE s0 j src t 0 ents cm).acks t' j' n := fun _ _ _ h => Or.inl h
  refine r.rebuild j _ _ ?_ hmm ha ((r.net.mono hmm ha).add_appResp _ _ _ _ _ fun _ => ?_) ?_
  · simp only [doHandleAE]
    congr 1
    have hlog := restore_log (hpn j) (hpl t) h1 hkL
    rw [← hents, r.log] at hlog
    simp only [projNode, restoreN, ← r.nodes j]
    rw [hlog, hlen]
    congr 1
    simp only [Nat.zero_add]
    have : (s1.nodes j).commit < k := hgt
    omega
  · right; exact ⟨rfl, rfl, by simp [hlen]⟩
  · have o := (r.node j).mono hmm ha
    refine ⟨o.voted, ?_, ?_, ?_⟩ <;> simp [restoreN]

/-- every L1 step is simulated by at most one L0 step -/
theorem sim {s1 s1' : Sys1 N} {s0 : Sys N} (r0 : Reach s0) (r : R s1 s0) (st : Step1 s1 s1') : ∃ s0', Step? s0 s0' ∧ R s1' s0' := by
  cases st with
  | higherTerm j t lead h => exact (sim_higherTerm r j t lead h).imp fun _ h => ⟨h.1.toStep?, h.2⟩
  | hup i h => exact sim_hup r i h
  | voteGrant j c t li lt hm ht hcan hu => exact (sim_voteGrant r j c t li lt hm ht hcan hu).imp fun _ h => ⟨h.1.toStep?, h.2⟩
  | voteReject j c t => exact (sim_voteReject r j c t).imp fun _ h => ⟨h.1.toStep?, h.2⟩
  | voteRecord i src rej hm hc => exact (sim_voteRecord r i src rej hm).imp fun _ h => ⟨h.1.toStep?, h.2⟩
  | win i hc hq => exact sim_win r i hc hq
  | selfAck i hl => exact (sim_selfAck r i hl).imp fun _ h => ⟨h.1.toStep?, h.2⟩
  | stepDown i => exact (sim_stepDown r i).imp fun _ h => ⟨h.1.toStep?, h.2⟩
  | propose i v hl => exact sim_propose r i v hl
  | sendApp i dst prev cnt hl hp => exact (sim_sendApp r i dst prev cnt hl hp).imp fun _ h => ⟨h.1.toStep?, h.2⟩
  | appBelow j src t prev pt ents cm hm ht hnl hlt => exact (sim_appBelow r j src t prev pt ents cm hm ht hnl hlt).imp fun _ h => ⟨h.1.toStep?, h.2⟩
  | appAccept j src t prev pt ents cm hm ht hnl hmatch => exact (sim_appAccept r j src t prev pt ents cm hm ht hnl hmatch).imp fun _ h => ⟨h.1.toStep?, h.2⟩
  | appReject j src t prev ht hnl => exact (sim_appReject r j src t prev).imp fun _ h => ⟨h.1.toStep?, h.2⟩
  | ackRecord i src idx hm hl => exact (sim_ackRecord r i src idx hm hl).imp fun _ h => ⟨h.1.toStep?, h.2⟩
  | commitQ i k hl hk hterm hq => exact sim_commitQ r i k hl hk hterm hq
  | sendSnap i dst k hl hk => exact (sim_sendSnap r i dst k hl hk).imp fun _ h => ⟨h.1.toStep?, h.2⟩
  | snapIgnore j src t k ents hm ht hnl hle => exact (sim_snapIgnore r j src t k ents hm ht hnl hle).imp fun _ h => ⟨h.1.toStep?, h.2⟩
  | snapRestore j src t k ents hm ht hnl hgt => exact (sim_snapRestore (reach_inv r0).1.ae_ok (reach_inv r0).1.p_nodes (reach_inv r0).1.p_llog r j src t k ents hm ht hnl hgt).imp fun _ h => ⟨h.1.toStep?, h.2⟩
  | sendBeat i dst hl => exact (sim_sendBeat r i dst hl).imp fun _ h => ⟨h.1.toStep?, h.2⟩
  | beat j src t c hm ht hnl => exact (sim_beat r j src t c hm ht hnl).imp fun _ h => ⟨h.1.toStep?, h.2⟩

def init1 (N : Nat) : Sys1 N :=
  ⟨fun _ => ⟨0, none, .follower, none, [], 0, fun _ => none, fun _ => 0⟩, fun _ => False⟩

inductive Reach1 : Sys1 N → Prop
| init : Reach1 (init1 N)
| step {s s'} : Reach1 s → Step1 s s' → Reach1 s'

theorem R_init : R (init1 N) (init N) := by
  refine ⟨fun _ => rfl, ⟨?_, ?_, ?_, ?_, ?_, ?_⟩, fun i => ⟨?_, ?_, ?_, ?_⟩⟩ <;> simp [init1]

theorem reach1_related {s1 : Sys1 N} (h : Reach1 s1) : ∃ s0, Reach s0 ∧ R s1 s0 := by
  induction h with
  | init => exact ⟨init N, Reach.init, R_init⟩
  | step _ st ih =>
    obtain ⟨s0, r0, rel⟩ := ih
    obtain ⟨s0', st0, rel'⟩ := sim r0 rel st
    rcases st0 with e | st0
    · subst e; exact ⟨_, r0, rel'⟩
    · exact ⟨s0', Reach.step r0 st0, rel'⟩

/-- L0: a leader holds everything that any node of no higher term has committed -/
theorem leader_holds_committed {s : Sys N} (r : Reach s) (i j : Fin N) (hl : (s.nodes i).role = .leader)
    (ht : (s.nodes j).term ≤ (s.nodes i).term) :
    (s.nodes j).commit ≤ (s.nodes i).log.length ∧
    (s.nodes i).log.take (s.nodes j).commit = (s.nodes j).log.take (s.nodes j).commit := by
  obtain ⟨h0, h1, h2, h3, _⟩ := reach_inv r
  rcases (h3.n1 j).2 with hz | ⟨k, t, c, hck, htj, heq⟩
  · rw [hz]; simp
  · have hlog := h0.ldr_log i hl
    have hld := h0.ldr_role i hl
    rw [heq, hlog]
    by_cases hlt : t < (s.nodes i).term
    · obtain ⟨g1, g2⟩ := committed_in_later_leader h0 h1 h2 h3 c hlt hld
      refine ⟨by omega, ?_⟩
      have := congrArg (List.take (s.nodes j).commit) g2
      rwa [List.take_take, List.take_take, Nat.min_eq_left hck] at this
    · have : t = (s.nodes i).term := by omega
      subst this
      exact ⟨Nat.le_trans hck (h3.cm k _ c).2, rfl⟩

/-! ### C15 for the handler-level model: every reachable state, every cluster size, every schedule -/

theorem L1_election_safety {s : Sys1 N} (h : Reach1 s) (i j : Fin N)
    (hi : (s.nodes i).role = .leader) (hj : (s.nodes j).role = .leader) (ht : (s.nodes i).term = (s.nodes j).term) : i = j := by
  obtain ⟨s0, r0, rel⟩ := reach1_related h
  exact C15_election_safety r0 i j (by rw [rel.role]; exact hi) (by rw [rel.role]; exact hj) (by rw [rel.term, rel.term]; exact ht)

theorem L1_log_matching {s : Sys1 N} (h : Reach1 s) (i j : Fin N) (k : Nat) (h1 : 1 ≤ k)
    (hi : k ≤ (s.nodes i).log.length) (hj : k ≤ (s.nodes j).log.length)
    (ht : termAt (s.nodes i).log k = termAt (s.nodes j).log k) : (s.nodes i).log.take k = (s.nodes j).log.take k := by
  obtain ⟨s0, r0, rel⟩ := reach1_related h
  have := C15_log_matching r0 i j k h1 (by rw [rel.log]; exact hi) (by rw [rel.log]; exact hj) (by rw [rel.log, rel.log]; exact ht)
  rwa [rel.log, rel.log] at this

theorem L1_state_machine_safety {s : Sys1 N} (h : Reach1 s) (i j : Fin N) (m : Nat)
    (hi : m ≤ (s.nodes i).commit) (hj : m ≤ (s.nodes j).commit) : (s.nodes i).log.take m = (s.nodes j).log.take m := by
  obtain ⟨s0, r0, rel⟩ := reach1_related h
  have := C15_state_machine_safety r0 i j m (by rw [rel.commit]; exact hi) (by rw [rel.commit]; exact hj)
  rwa [rel.log, rel.log] at this

theorem L1_leader_completeness {s : Sys1 N} (h : Reach1 s) (i j : Fin N) (hl : (s.nodes i).role = .leader)
    (ht : (s.nodes j).term ≤ (s.nodes i).term) :
    (s.nodes j).commit ≤ (s.nodes i).log.length ∧
    (s.nodes i).log.take (s.nodes j).commit = (s.nodes j).log.take (s.nodes j).commit := by
  obtain ⟨s0, r0, rel⟩ := reach1_related h
  have := leader_holds_committed r0 i j (by rw [rel.role]; exact hl) (by rw [rel.term, rel.term]; exact ht)
  rwa [rel.log, rel.log, rel.commit] at this

theorem L1_committed_never_rewritten {s s' : Sys1 N} (h : Reach1 s) (st : Step1 s s') (y : Fin N) :
    (s'.nodes y).log.take (s.nodes y).commit = (s.nodes y).log.take (s.nodes y).commit ∧
    (s.nodes y).commit ≤ (s'.nodes y).commit ∧ (s.nodes y).term ≤ (s'.nodes y).term := by
  obtain ⟨s0, r0, rel⟩ := reach1_related h
  obtain ⟨s0', st0, rel'⟩ := sim r0 rel st
  rcases st0 with e | st0
  · subst e
    rw [← rel.log, ← rel'.log, ← rel.commit, ← rel'.commit, ← rel.term, ← rel'.term]
    exact ⟨rfl, Nat.le_refl _, Nat.le_refl _⟩
  · have := C15_committed_never_rewritten r0 st0 y
    rwa [rel.log, rel'.log, rel.commit, rel'.commit, rel.term, rel'.term] at this

/-- etcd's `commitTo` panic ("tocommit out of range") is unreachable: the commit index never exceeds the log -/
theorem L1_commit_in_range {s : Sys1 N} (h : Reach1 s) (i : Fin N) : (s.nodes i).commit ≤ (s.nodes i).log.length := by
  obtain ⟨s0, r0, rel⟩ := reach1_related h
  obtain ⟨_, _, _, h3, _⟩ := reach_inv r0
  have := (h3.n1 i).1
  rwa [rel.commit, rel.log] at this

/-- the premises are satisfiable: a one-node cluster elects itself and commits a proposal -/
example : ∃ s : Sys1 1, Reach1 s ∧ (s.nodes 0).role = .leader ∧ (s.nodes 0).commit = 2 := by
  have s1 := Reach1.step Reach1.init (Step1.hup (init1 1) 0 (by simp [init1]))
  have s2 := Reach1.step s1 (Step1.win _ 0 (by simp [init1, campaign]) (by decide))
  have s3 := Reach1.step s2 (Step1.propose _ 0 7 (by simp [init1, campaign, winElection]))
  have s4 := Reach1.step s3 (Step1.selfAck _ 0 (by simp [init1, campaign, winElection, proposeN]))
  have s5 := Reach1.step s4 (Step1.commitQ _ 0 2 (by simp [init1, campaign, winElection, proposeN, ackN])
    (by simp [init1, campaign, winElection, proposeN, ackN]) (by simp [init1, campaign, winElection, proposeN, ackN, termAt])
    (by simp [init1, campaign, winElection, proposeN, ackN]; decide))
  exact ⟨_, s5, by simp [init1, campaign, winElection, proposeN, ackN], by simp⟩

end RS
