import RedisGoModel.Raft.RSQ

/-! L0 over guarded quorum decisions, second half (copy of `RS2` with the majority replaced by the guards `ElectOK` /
    `CommitOK` of `RSQ.lean`): leader completeness, commitment, state-machine safety, the heartbeat layer, `Reach`, and
    the five C15 theorems for every reachable state of the guarded system. -/
namespace RSQ
open RS
variable {N : Nat}

theorem inv2_becomeLeader {s : Sys N} (h0 : Inv0 s) (h1 : Inv1 s) (h : Inv2 s) (i : Fin N) (Q : Finset (Fin N))
    (hq : ElectOK s i Q) (hc : (s.nodes i).role = .candidate)
    (hQ : ∀ j ∈ Q, j = i ∨ s.msgs (.rvResp (s.nodes i).term j i true)) : Inv2 (doBecomeLeader s i Q) := by
  obtain ⟨hQv, hfresh⟩ := fresh_term h0 i Q hq hc hQ
  simp only [doBecomeLeader]
  set t0 := (s.nodes i).term with ht0
  set e : Entry := ⟨t0, 0⟩ with he
  set nl := (s.nodes i).log ++ [e] with hnl
  let llog' : Nat → Log := fun t => if t = t0 then nl else s.llog t
  let elog' : Nat → Log := fun t => if t = t0 then nl else s.elog t
  let isLdr' : Nat → Fin N → Prop := fun t j => s.isLdr t j ∨ (t = t0 ∧ j = i)
  have hLsame : ∀ t, t ≠ t0 → llog' t = s.llog t := by intro t ht; simp [llog', ht]
  have hEsame : ∀ t, t ≠ t0 → elog' t = s.elog t := by intro t ht; simp [elog', ht]
  have hld : ∀ t'' l, s.isLdr t'' l → isLdr' t'' l := fun _ _ h => Or.inl h
  have hel : ∀ t'' l, s.isLdr t'' l → elog' t'' = s.elog t'' := by
    intro t'' l hl; apply hEsame; intro e'; subst e'; exact hfresh l hl
  have hackt : ∀ t y n, s.acks t y n → t ≠ t0 := by
    intro t y n ha e'
    obtain ⟨_, _, l, hl⟩ := h1.ack_ok t y n ha
    subst e'; exact hfresh l hl
  have hT : ∀ y, (upd s.nodes i { (s.nodes i) with role := Role.leader, log := nl } y).term = (s.nodes y).term := by
    intro y; by_cases hy : y = i
    · subst hy; simp
    · simp only [upd_other _ _ hy]
  have hGlog : ∀ y t k, Good s.llog (s.nodes y).log t k →
      Good s.llog (upd s.nodes i { (s.nodes i) with role := Role.leader, log := nl } y).log t k := by
    intro y t k g
    by_cases hy : y = i
    · subst hy; simp only [upd_same]; exact g.snoc e
    · simp only [upd_other _ _ hy]; exact g
  refine ⟨?_, ?_, ?_⟩
  · intro t y n k ha hk1 hk2 hk3
    show Good llog' (upd s.nodes i _ y).log t k ∨ Bad llog' elog' isLdr' t k (upd s.nodes i _ y).term
    rw [hT]
    rcases ha with ha | ⟨e1, e2, e3⟩
    · have ht := hackt t y n ha
      have hl : (llog' t).take k = (s.llog t).take k := by rw [hLsame t ht]
      have hk3' : termAt (s.llog t) k = t := by
        have : termAt (llog' t) k = t := hk3
        rwa [hLsame t ht] at this
      rcases h.al t y n k ha hk1 hk2 hk3' with g | b
      · exact Or.inl ((Good.congr hl).2 (hGlog y t k g))
      · exact Or.inr (b.transfer hl hld hel)
    · left
      subst e1 e2
      simp only [upd_same]
      refine ⟨by rw [e3] at hk2; exact hk2, ?_⟩
      simp [llog']
  · intro t' y c t n k hv ha htt hk1 hk2 hk3
    show Good llog' (s.clog t' c) t k ∨ Bad llog' elog' isLdr' t k t'
    rcases ha with ha | ⟨e1, e2, e3⟩
    · have ht := hackt t y n ha
      have hl : (llog' t).take k = (s.llog t).take k := by rw [hLsame t ht]
      have hk3' : termAt (s.llog t) k = t := by
        have : termAt (llog' t) k = t := hk3
        rwa [hLsame t ht] at this
      rcases h.av t' y c t n k hv ha htt hk1 hk2 hk3' with g | b
      · exact Or.inl ((Good.congr hl).2 g)
      · exact Or.inr (b.transfer hl hld hel)
    · exfalso
      subst e1 e2
      have := (h0.vote_durable t' y c hv).1
      omega
  · intro t' c hl y hy t n k ha htt hk1 hk2 hk3
    show Good llog' (elog' t') t k ∨ Bad llog' elog' isLdr' t k (t' - 1)
    have hy' : y ∈ (if t' = t0 then Q else s.equo t') := hy
    by_cases ht' : t' = t0
    · -- the newly elected leader
      subst ht'
      simp only [if_true] at hy'
      have hci : c = i := by
        rcases hl with hl | ⟨_, h2⟩
        · exact absurd hl (hfresh c)
        · exact h2
      subst hci
      have hvote := hQv y hy'
      rcases ha with ha | ⟨e1, _, _⟩
      · have ht := hackt t y n ha
        have hlk : (llog' t).take k = (s.llog t).take k := by rw [hLsame t ht]
        have hk3' : termAt (s.llog t) k = t := by
          have : termAt (llog' t) k = t := hk3
          rwa [hLsame t ht] at this
        rcases h.av t0 y c t n k hvote ha htt hk1 hk2 hk3' with g | b
        · left
          have hcl := h1.cand_log c hc
          rw [← ht0] at hcl
          rw [← hcl] at g
          have : elog' t0 = nl := by simp [elog']
          rw [this]
          exact (Good.congr hlk).2 (g.snoc e)
        · right
          obtain ⟨t'', b1, b2, ⟨l, b3⟩, b4⟩ := b
          have hne : t'' ≠ t0 := by intro e'; subst e'; exact hfresh l b3
          exact Bad.transfer hlk hld hel ⟨t'', b1, by omega, ⟨l, b3⟩, b4⟩
      · omega
    · simp only [ht', if_false] at hy'
      have hlold : s.isLdr t' c := by
        rcases hl with hl | ⟨h1', _⟩
        · exact hl
        · exact absurd h1' ht'
      rw [hEsame t' ht']
      rcases ha with ha | ⟨e1, e2, e3⟩
      · have ht := hackt t y n ha
        have hlk : (llog' t).take k = (s.llog t).take k := by rw [hLsame t ht]
        have hk3' : termAt (s.llog t) k = t := by
          have : termAt (llog' t) k = t := hk3
          rwa [hLsame t ht] at this
        rcases h.eq t' c hlold y hy' t n k ha htt hk1 hk2 hk3' with g | b
        · exact Or.inl ((Good.congr hlk).2 g)
        · exact Or.inr (b.transfer hlk hld hel)
      · exfalso
        subst e1 e2
        have hv := (h0.ldr_quorum t' c hlold).2 y hy'
        have := (h0.vote_durable t' y c hv).1
        omega

theorem inv2_clientReq {s : Sys N} (h0 : Inv0 s) (h1 : Inv1 s) (h : Inv2 s) (i : Fin N) (v : Nat)
    (hl : (s.nodes i).role = .leader) : Inv2 (doClientReq s i v) := by
  simp only [doClientReq]
  set t0 := (s.nodes i).term with ht0
  set e : Entry := ⟨t0, v⟩ with he
  set nl := (s.nodes i).log ++ [e] with hnl
  have hlog : (s.nodes i).log = s.llog t0 := h0.ldr_log i hl
  let llog' : Nat → Log := fun t => if t = t0 then nl else s.llog t
  have happ : llog' t0 = s.llog t0 ++ [e] := by simp [llog', hnl, hlog]
  have hLsame : ∀ t, t ≠ t0 → llog' t = s.llog t := by intro t ht; simp [llog', ht]
  -- for acked indexes the relevant prefix of llog is untouched
  have hpre : ∀ t k, k ≤ (s.llog t).length → (llog' t).take k = (s.llog t).take k ∧ termAt (llog' t) k = termAt (s.llog t) k := by
    intro t k hk
    by_cases ht : t = t0
    · subst ht; rw [happ]; exact ⟨List.take_append_of_le_length hk, termAt_append_le _ _ hk⟩
    · rw [hLsame t ht]; exact ⟨rfl, rfl⟩
  have hT : ∀ y, (upd s.nodes i { (s.nodes i) with log := nl } y).term = (s.nodes y).term := by
    intro y; by_cases hy : y = i
    · subst hy; simp
    · simp only [upd_other _ _ hy]
  have hGlog : ∀ y t k, Good s.llog (s.nodes y).log t k →
      Good s.llog (upd s.nodes i { (s.nodes i) with log := nl } y).log t k := by
    intro y t k g
    by_cases hy : y = i
    · subst hy; simp only [upd_same]; exact g.snoc e
    · simp only [upd_other _ _ hy]; exact g
  have hid : ∀ t'' (l : Fin N), s.isLdr t'' l → s.isLdr t'' l := fun _ _ h => h
  have hel : ∀ t'' (l : Fin N), s.isLdr t'' l → s.elog t'' = s.elog t'' := fun _ _ _ => rfl
  refine ⟨?_, ?_, ?_⟩
  · intro t y n k ha hk1 hk2 hk3
    show Good llog' (upd s.nodes i _ y).log t k ∨ Bad llog' s.elog s.isLdr t k (upd s.nodes i _ y).term
    rw [hT]
    rcases ha with ha | ⟨e1, e2, e3⟩
    · obtain ⟨an, _, _⟩ := h1.ack_ok t y n ha
      obtain ⟨hlk, htk⟩ := hpre t k (by omega)
      have hk3' : termAt (s.llog t) k = t := by rw [← htk]; exact hk3
      rcases h.al t y n k ha hk1 hk2 hk3' with g | b
      · exact Or.inl ((Good.congr hlk).2 (hGlog y t k g))
      · exact Or.inr (b.transfer hlk hid hel)
    · left
      subst e1 e2
      simp only [upd_same]
      refine ⟨by rw [e3] at hk2; exact hk2, ?_⟩
      simp [llog']
  · intro t' y c t n k hv ha htt hk1 hk2 hk3
    show Good llog' (s.clog t' c) t k ∨ Bad llog' s.elog s.isLdr t k t'
    rcases ha with ha | ⟨e1, e2, e3⟩
    · obtain ⟨an, _, _⟩ := h1.ack_ok t y n ha
      obtain ⟨hlk, htk⟩ := hpre t k (by omega)
      have hk3' : termAt (s.llog t) k = t := by rw [← htk]; exact hk3
      rcases h.av t' y c t n k hv ha htt hk1 hk2 hk3' with g | b
      · exact Or.inl ((Good.congr hlk).2 g)
      · exact Or.inr (b.transfer hlk hid hel)
    · exfalso
      subst e1 e2
      have := (h0.vote_durable t' y c hv).1
      omega
  · intro t' c hld y hy t n k ha htt hk1 hk2 hk3
    show Good llog' (s.elog t') t k ∨ Bad llog' s.elog s.isLdr t k (t' - 1)
    rcases ha with ha | ⟨e1, e2, e3⟩
    · obtain ⟨an, _, _⟩ := h1.ack_ok t y n ha
      obtain ⟨hlk, htk⟩ := hpre t k (by omega)
      have hk3' : termAt (s.llog t) k = t := by rw [← htk]; exact hk3
      rcases h.eq t' c hld y hy t n k ha htt hk1 hk2 hk3' with g | b
      · exact Or.inl ((Good.congr hlk).2 g)
      · exact Or.inr (b.transfer hlk hid hel)
    · exfalso
      subst e1 e2
      have hv := (h0.ldr_quorum t' c hld).2 y hy
      have := (h0.vote_durable t' y c hv).1
      omega

theorem inv2_handleAE {s : Sys N} (h0 : Inv0 s) (h1 : Inv1 s) (h : Inv2 s) (j src : Fin N) (t prev pt : Nat) (ents : Log) (cm : Nat)
    (hm : s.msgs (.ae t src prev pt ents cm)) (ht : (s.nodes j).term = t)
    (hmatch : prev ≤ (s.nodes j).log.length ∧ termAt (s.nodes j).log prev = pt) :
    Inv2 (doHandleAE s j src t prev ents cm) := by
  unfold doHandleAE
  obtain ⟨a1, a2, a3, a4⟩ := h0.ae_ok t src prev pt ents cm hm
  have hlen := ents_len_le a2 a4
  set l := (s.nodes j).log with hl
  set L := s.llog t with hL
  set m := prev + ents.length with hmdef
  have hspec := follAppend_spec (n := ents.length) (h0.p_nodes j) (h0.p_llog t) hmatch.1 hlen (by rw [hmatch.2, a3])
  rw [← a4] at hspec
  set R := follAppend l prev ents with hR
  obtain ⟨⟨hRlen, hRtake⟩, hRcases⟩ := hspec
  have hT : ∀ y, (upd s.nodes j ⟨(s.nodes j).term, (s.nodes j).vote, .follower, R,
      max (s.nodes j).commit (min cm m)⟩ y).term = (s.nodes y).term := by
    intro y; by_cases hy : y = j
    · subst hy; simp
    · simp only [upd_other _ _ hy]
  refine ⟨?_, ?_, ?_⟩
  · intro t1 y n k ha hk1 hk2 hk3
    show Good s.llog (upd s.nodes j _ y).log t1 k ∨ Bad s.llog s.elog s.isLdr t1 k (upd s.nodes j _ y).term
    rw [hT]
    by_cases hy : y = j
    · subst hy
      simp only [upd_same]
      rcases ha with ha | ⟨e1, _, e3⟩
      · -- an older ack of the same node
        obtain ⟨an, at1, _⟩ := h1.ack_ok t1 y n ha
        rcases h.al t1 y n k ha hk1 hk2 hk3 with g | b
        · rcases hRcases with hsame | ⟨hnew, hdis⟩
          · left; rw [hsame]; exact g
          · -- the log was overwritten by the leader of t: either that leader is Good for (t1,k) or it is the witness
            obtain ⟨gk, gtake⟩ := g
            have key : (L.take k = (s.llog t1).take k ∧ k ≤ L.length) → Good s.llog R t1 k := by
              rintro ⟨hLk, hkL⟩
              have hlk : l.take k = L.take k := by rw [gtake, hLk]
              have hkm : k ≤ m := by
                by_contra hlt
                have hmk : m ≤ k := by omega
                apply hdis
                refine ⟨by omega, ?_⟩
                have := congrArg (List.take m) hlk
                rw [List.take_take, List.take_take, Nat.min_eq_left hmk] at this
                exact this
              refine ⟨by omega, ?_⟩
              rw [hnew, List.take_take, Nat.min_eq_left hkm, hLk]
            by_cases htt : t1 = t
            · have hkL : k ≤ L.length := by rw [hL, ← htt]; omega
              subst htt
              left; exact key ⟨rfl, hkL⟩
            · have hlt : t1 < t := by omega
              obtain ⟨e1, e2, e3, _⟩ := h1.el t src a1
              by_cases hg : Good s.llog (s.elog t) t1 k
              · left
                obtain ⟨g1, g2⟩ := hg
                apply key
                have e2' : (s.elog t).length ≤ L.length := by rw [hL]; exact e2
                have e3' : L.take (s.elog t).length = s.elog t := by rw [hL]; exact e3
                refine ⟨?_, by omega⟩
                calc L.take k = (L.take (s.elog t).length).take k := by rw [List.take_take, Nat.min_eq_left g1]
                  _ = (s.elog t).take k := by rw [e3']
                  _ = _ := g2
              · right
                exact ⟨t, hlt, by omega, ⟨src, a1⟩, hg⟩
        · exact Or.inr b
      · -- the ack recorded by this very step
        left
        subst e1
        have hkm : k ≤ m := by omega
        refine ⟨by omega, ?_⟩
        have := congrArg (List.take k) hRtake
        rw [List.take_take, List.take_take, Nat.min_eq_left hkm] at this
        exact this
    · simp only [upd_other _ _ hy]
      rcases ha with ha | ⟨_, e2, _⟩
      · exact h.al t1 y n k ha hk1 hk2 hk3
      · exact absurd e2 hy
  · intro t' y c t1 n k hv ha htt hk1 hk2 hk3
    rcases ha with ha | ⟨e1, e2, _⟩
    · exact h.av t' y c t1 n k hv ha htt hk1 hk2 hk3
    · exfalso
      subst e1 e2
      have := (h0.vote_durable t' y c hv).1
      omega
  · intro t' c hld y hy t1 n k ha htt hk1 hk2 hk3
    rcases ha with ha | ⟨e1, e2, _⟩
    · exact h.eq t' c hld y hy t1 n k ha htt hk1 hk2 hk3
    · exfalso
      subst e1 e2
      have hv := (h0.ldr_quorum t' c hld).2 y hy
      have := (h0.vote_durable t' y c hv).1
      omega



/-- (k,t) is *linked* to every later leader: the entry at k was created in term t (Figure-8 restriction), t has a leader,
    and every leader elected for a later term either has in its electing set a node that stored k in term t, or was
    elected with a log holding an entry of a term in [t, t') at or beyond k. (For a static quorum system the first
    alternative always holds: the committing and the electing quorum intersect.) -/
def QAc (elog : Nat → Log) (isLdr : Nat → Fin N → Prop) (equo : Nat → Finset (Fin N))
    (llog : Nat → Log) (acks : Nat → Fin N → Nat → Prop) (k t : Nat) : Prop :=
  1 ≤ k ∧ termAt (llog t) k = t ∧ (∃ l, isLdr t l) ∧
  ∀ t' c, t < t' → isLdr t' c →
    (∃ y, y ∈ equo t' ∧ ∃ n, k ≤ n ∧ acks t y n) ∨
    (∃ idx, k ≤ idx ∧ idx ≤ (elog t').length ∧ t ≤ termAt (elog t') idx ∧ termAt (elog t') idx < t')

abbrev QA (s : Sys N) (k t : Nat) : Prop := QAc s.elog s.isLdr s.equo s.llog s.acks k t

theorem QAc.mono {elog : Nat → Log} {isLdr : Nat → Fin N → Prop} {equo : Nat → Finset (Fin N)}
    {llog llog' : Nat → Log} {acks acks' : Nat → Fin N → Nat → Prop} {k t : Nat}
    (hl : termAt (llog' t) k = termAt (llog t) k) (ha : ∀ j n, acks t j n → acks' t j n)
    (q : QAc elog isLdr equo llog acks k t) : QAc elog isLdr equo llog' acks' k t := by
  obtain ⟨a, b, c, d⟩ := q
  refine ⟨a, by rw [hl]; exact b, c, fun t' c' htt hl' => ?_⟩
  rcases d t' c' htt hl' with ⟨y, hy, n, e, f⟩ | h
  · exact Or.inl ⟨y, hy, n, e, ha y n f⟩
  · exact Or.inr h

/-- **Leader completeness**: every leader of a later term was elected with a log that contains the linked prefix -/
theorem leader_completeness {s : Sys N} (h0 : Inv0 s) (h1 : Inv1 s) (h2 : Inv2 s) {k t : Nat} (hqa : QA s k t) :
    ∀ t', t < t' → ∀ c, s.isLdr t' c → Good s.llog (s.elog t') t k := by
  obtain ⟨hk1, hkt, _, hlink⟩ := hqa
  intro t'
  induction t' using Nat.strong_induction_on with
  | _ t' ih =>
    intro htt c hl
    rcases hlink t' c htt hl with ⟨y, hy2, n, hkn, ha⟩ | ⟨idx, hki, hie, hge, hlt⟩
    · rcases h2.eq t' c hl y hy2 t n k ha htt hk1 hkn hkt with g | b
      · exact g
      · obtain ⟨t'', b1, b2, ⟨l, b3⟩, b4⟩ := b
        exact absurd (ih t'' (by omega) b1 l b3) b4
    · obtain ⟨_, e2, e3, _⟩ := h1.el t' c hl
      have hidx1 : 1 ≤ idx := by omega
      have e4 : (s.elog t').take idx = (s.llog t').take idx := by
        rw [← e3, List.take_take, Nat.min_eq_left hie]
      have e5 : termAt (s.elog t') idx = termAt (s.llog t') idx := by
        rw [← e3]; exact termAt_take _ hie
      have pE : (s.elog t').take idx = (s.llog (termAt (s.elog t') idx)).take idx := by
        rw [e4, e5]; exact h0.p_llog t' idx hidx1 (by omega)
      have hlenE : ((s.elog t').take idx).length = idx := by simp [List.length_take, hie]
      have hsplit : ∀ (X : Log), X.take k = (X.take idx).take k := by
        intro X; rw [List.take_take, Nat.min_eq_left hki]
      by_cases he : termAt (s.elog t') idx = t
      · rw [he] at pE
        refine ⟨by omega, ?_⟩
        rw [hsplit (s.elog t'), pE, ← hsplit]
      · have htm : t < termAt (s.elog t') idx := by omega
        have hex : ∃ l, s.isLdr (termAt (s.elog t') idx) l := by
          apply Classical.byContradiction
          intro hno
          have hnone := h0.llog_none (termAt (s.elog t') idx) (fun i hi => hno ⟨i, hi⟩)
          rw [pE, hnone] at hlenE
          simp at hlenE; omega
        obtain ⟨l, hl'⟩ := hex
        obtain ⟨g1, g2⟩ := ih _ hlt htm l hl'
        obtain ⟨_, _, f3, _⟩ := h1.el _ l hl'
        have f4 : (s.llog (termAt (s.elog t') idx)).take k = (s.elog (termAt (s.elog t') idx)).take k := by
          rw [← f3, List.take_take, Nat.min_eq_left g1]
        refine ⟨by omega, ?_⟩
        rw [hsplit (s.elog t'), pE, ← hsplit, f4]; exact g2

/-- leader completeness up to a term bound `B`, from links up to `B` only (used to discharge `CommitOK` by induction on the later term) -/
theorem leader_completeness_upto {s : Sys N} (h0 : Inv0 s) (h1 : Inv1 s) (h2 : Inv2 s) {k t B : Nat} (hk1 : 1 ≤ k)
    (hkt : termAt (s.llog t) k = t)
    (hlink : ∀ t' c, t < t' → t' ≤ B → s.isLdr t' c →
      (∃ y, y ∈ s.equo t' ∧ ∃ n, k ≤ n ∧ s.acks t y n) ∨
      (∃ idx, k ≤ idx ∧ idx ≤ (s.elog t').length ∧ t ≤ termAt (s.elog t') idx ∧ termAt (s.elog t') idx < t')) :
    ∀ t', t < t' → t' ≤ B → ∀ c, s.isLdr t' c → Good s.llog (s.elog t') t k := by
  intro t'
  induction t' using Nat.strong_induction_on with
  | _ t' ih =>
    intro htt hB c hl
    rcases hlink t' c htt hB hl with ⟨y, hy2, n, hkn, ha⟩ | ⟨idx, hki, hie, hge, hlt⟩
    · rcases h2.eq t' c hl y hy2 t n k ha htt hk1 hkn hkt with g | b
      · exact g
      · obtain ⟨t'', b1, b2, ⟨l, b3⟩, b4⟩ := b
        exact absurd (ih t'' (by omega) b1 (by omega) l b3) b4
    · obtain ⟨_, e2, e3, _⟩ := h1.el t' c hl
      have hidx1 : 1 ≤ idx := by omega
      have e4 : (s.elog t').take idx = (s.llog t').take idx := by
        rw [← e3, List.take_take, Nat.min_eq_left hie]
      have e5 : termAt (s.elog t') idx = termAt (s.llog t') idx := by
        rw [← e3]; exact termAt_take _ hie
      have pE : (s.elog t').take idx = (s.llog (termAt (s.elog t') idx)).take idx := by
        rw [e4, e5]; exact h0.p_llog t' idx hidx1 (by omega)
      have hlenE : ((s.elog t').take idx).length = idx := by simp [List.length_take, hie]
      have hsplit : ∀ (X : Log), X.take k = (X.take idx).take k := by
        intro X; rw [List.take_take, Nat.min_eq_left hki]
      by_cases he : termAt (s.elog t') idx = t
      · rw [he] at pE
        refine ⟨by omega, ?_⟩
        rw [hsplit (s.elog t'), pE, ← hsplit]
      · have htm : t < termAt (s.elog t') idx := by omega
        have hex : ∃ l, s.isLdr (termAt (s.elog t') idx) l := by
          apply Classical.byContradiction
          intro hno
          have hnone := h0.llog_none (termAt (s.elog t') idx) (fun i hi => hno ⟨i, hi⟩)
          rw [pE, hnone] at hlenE
          simp at hlenE; omega
        obtain ⟨l, hl'⟩ := hex
        obtain ⟨g1, g2⟩ := ih _ hlt htm (by omega) l hl'
        obtain ⟨_, _, f3, _⟩ := h1.el _ l hl'
        have f4 : (s.llog (termAt (s.elog t') idx)).take k = (s.elog (termAt (s.elog t') idx)).take k := by
          rw [← f3, List.take_take, Nat.min_eq_left g1]
        refine ⟨by omega, ?_⟩
        rw [hsplit (s.elog t'), pE, ← hsplit, f4]; exact g2


#print axioms leader_completeness

/-! ## commitment and state-machine safety -/

structure Inv3 (s : Sys N) : Prop where
  cm  : ∀ k t, s.cmt k t → QA s k t ∧ k ≤ (s.llog t).length
  n1  : ∀ i, (s.nodes i).commit ≤ (s.nodes i).log.length ∧
          ((s.nodes i).commit = 0 ∨ ∃ k t, s.cmt k t ∧ (s.nodes i).commit ≤ k ∧ t ≤ (s.nodes i).term ∧
            (s.nodes i).log.take (s.nodes i).commit = (s.llog t).take (s.nodes i).commit)
  aec : ∀ t src prev pt ents cm, s.msgs (.ae t src prev pt ents cm) → cm ≤ (s.llog t).length ∧
          (cm = 0 ∨ ∃ k t0, s.cmt k t0 ∧ cm ≤ k ∧ t0 ≤ t ∧ (s.llog t).take cm = (s.llog t0).take cm)

/-- a term with a linked index has a leader -/
theorem QA.has_leader {s : Sys N} (_h1 : Inv1 s) {k t : Nat} (q : QA s k t) : ∃ l, s.isLdr t l := q.2.2.1

/-- a committed prefix is contained in the log of every later leader -/
theorem committed_in_later_leader {s : Sys N} (h0 : Inv0 s) (h1 : Inv1 s) (h2 : Inv2 s) (h3 : Inv3 s)
    {k1 t1 t2 : Nat} (c1 : s.cmt k1 t1) (hlt : t1 < t2) {l : Fin N} (hl : s.isLdr t2 l) :
    k1 ≤ (s.llog t2).length ∧ (s.llog t2).take k1 = (s.llog t1).take k1 := by
  obtain ⟨q1, _⟩ := h3.cm k1 t1 c1
  obtain ⟨g1, g2⟩ := leader_completeness h0 h1 h2 q1 t2 hlt l hl
  obtain ⟨_, e2, e3, _⟩ := h1.el t2 l hl
  refine ⟨by omega, ?_⟩
  calc (s.llog t2).take k1 = ((s.llog t2).take (s.elog t2).length).take k1 := by
          rw [List.take_take, Nat.min_eq_left g1]
    _ = (s.elog t2).take k1 := by rw [e3]
    _ = _ := g2

/-- committed prefixes of different terms are consistent -/
theorem committed_agree {s : Sys N} (h0 : Inv0 s) (h1 : Inv1 s) (h2 : Inv2 s) (h3 : Inv3 s)
    {k1 t1 k2 t2 m : Nat} (c1 : s.cmt k1 t1) (c2 : s.cmt k2 t2) (hle : t1 ≤ t2) (hm1 : m ≤ k1) :
    (s.llog t2).take m = (s.llog t1).take m := by
  by_cases he : t1 = t2
  · subst he; rfl
  · have hlt : t1 < t2 := by omega
    obtain ⟨q1, _⟩ := h3.cm k1 t1 c1
    obtain ⟨q2, _⟩ := h3.cm k2 t2 c2
    obtain ⟨l, hl⟩ := q2.has_leader h1
    obtain ⟨g1, g2⟩ := leader_completeness h0 h1 h2 q1 t2 hlt l hl
    obtain ⟨_, _, e3, _⟩ := h1.el t2 l hl
    have : (s.llog t2).take k1 = (s.llog t1).take k1 := by
      calc (s.llog t2).take k1 = ((s.llog t2).take (s.elog t2).length).take k1 := by
              rw [List.take_take, Nat.min_eq_left g1]
        _ = (s.elog t2).take k1 := by rw [e3]
        _ = _ := g2
    have := congrArg (List.take m) this
    rwa [List.take_take, List.take_take, Nat.min_eq_left hm1] at this

/-- **State-machine safety**: two nodes never disagree on an index both consider committed -/
theorem state_machine_safety {s : Sys N} (h0 : Inv0 s) (h1 : Inv1 s) (h2 : Inv2 s) (h3 : Inv3 s)
    (i j : Fin N) (m : Nat) (hi : m ≤ (s.nodes i).commit) (hj : m ≤ (s.nodes j).commit) :
    (s.nodes i).log.take m = (s.nodes j).log.take m := by
  obtain ⟨_, ni⟩ := h3.n1 i
  obtain ⟨_, nj⟩ := h3.n1 j
  rcases ni with z | ⟨k1, t1, c1, hk1, _, e1⟩
  · have : m = 0 := by omega
    subst this; simp
  rcases nj with z | ⟨k2, t2, c2, hk2, _, e2⟩
  · have : m = 0 := by omega
    subst this; simp
  have a1 : (s.nodes i).log.take m = (s.llog t1).take m := by
    have := congrArg (List.take m) e1
    rwa [List.take_take, List.take_take, Nat.min_eq_left hi] at this
  have a2 : (s.nodes j).log.take m = (s.llog t2).take m := by
    have := congrArg (List.take m) e2
    rwa [List.take_take, List.take_take, Nat.min_eq_left hj] at this
  rw [a1, a2]
  rcases Nat.le_total t1 t2 with hle | hle
  · exact (committed_agree h0 h1 h2 h3 c1 c2 hle (by omega)).symm
  · exact committed_agree h0 h1 h2 h3 c2 c1 hle (by omega)

#print axioms state_machine_safety

theorem inv3_frame {s : Sys N} (h : Inv3 s) (nodes' : Fin N → NodeSt N) (msgs' : Msg N → Prop)
    (votes' : Nat → Fin N → Fin N → Prop) (clog' : Nat → Fin N → Log)
    (hlog : ∀ y, (nodes' y).log = (s.nodes y).log) (hcm : ∀ y, (nodes' y).commit = (s.nodes y).commit)
    (hterm : ∀ y, (s.nodes y).term ≤ (nodes' y).term)
    (hmsgs : ∀ t src prev pt ents cm, msgs' (.ae t src prev pt ents cm) → s.msgs (.ae t src prev pt ents cm)) :
    Inv3 { s with nodes := nodes', msgs := msgs', votes := votes', clog := clog' } := by
  refine ⟨h.cm, ?_, ?_⟩
  · intro i
    show (nodes' i).commit ≤ (nodes' i).log.length ∧ ((nodes' i).commit = 0 ∨ ∃ k t, s.cmt k t ∧ (nodes' i).commit ≤ k ∧
      t ≤ (nodes' i).term ∧ (nodes' i).log.take (nodes' i).commit = (s.llog t).take (nodes' i).commit)
    rw [hlog, hcm]
    obtain ⟨a, b⟩ := h.n1 i
    refine ⟨a, ?_⟩
    rcases b with z | ⟨k, t, c1, c2, c3, c4⟩
    · exact Or.inl z
    · exact Or.inr ⟨k, t, c1, c2, by have := hterm i; omega, c4⟩
  · intro t src prev pt ents cm hm
    exact h.aec t src prev pt ents cm (hmsgs _ _ _ _ _ _ hm)

theorem inv3_timeout {s : Sys N} (h : Inv3 s) (i : Fin N) : Inv3 (doTimeout s i) := by
  have := inv3_frame h (upd s.nodes i { (s.nodes i) with term := (s.nodes i).term + 1, vote := some i, role := .candidate })
    (fun m => s.msgs m ∨ m = .rv ((s.nodes i).term + 1) i (s.nodes i).log.length (lastTerm (s.nodes i).log))
    (fun t j c => s.votes t j c ∨ (t = (s.nodes i).term + 1 ∧ j = i ∧ c = i))
    (fun t c => if t = (s.nodes i).term + 1 ∧ c = i then (s.nodes i).log else s.clog t c)
    (by intro y; by_cases hy : y = i
        · subst hy; simp
        · simp only [upd_other _ _ hy])
    (by intro y; by_cases hy : y = i
        · subst hy; simp
        · simp only [upd_other _ _ hy])
    (by intro y; by_cases hy : y = i
        · subst hy; simp
        · simp only [upd_other _ _ hy]; exact Nat.le_refl _)
    (by intro t src prev pt ents cm hm; rcases hm with hm | hm; exact hm; cases hm)
  simpa [doTimeout] using this

theorem inv3_updateTerm {s : Sys N} (h : Inv3 s) (i : Fin N) (t : Nat) (ht : (s.nodes i).term < t) :
    Inv3 (doUpdateTerm s i t) := by
  have := inv3_frame h (upd s.nodes i { (s.nodes i) with term := t, vote := none, role := .follower }) s.msgs s.votes s.clog
    (by intro y; by_cases hy : y = i
        · subst hy; simp
        · simp only [upd_other _ _ hy])
    (by intro y; by_cases hy : y = i
        · subst hy; simp
        · simp only [upd_other _ _ hy])
    (by intro y; by_cases hy : y = i
        · subst hy; simp; omega
        · simp only [upd_other _ _ hy]; exact Nat.le_refl _)
    (fun _ _ _ _ _ _ h => h)
  simpa [doUpdateTerm] using this

theorem inv3_restart {s : Sys N} (h : Inv3 s) (i : Fin N) : Inv3 (doRestart s i) := by
  have := inv3_frame h (upd s.nodes i { (s.nodes i) with role := .follower }) s.msgs s.votes s.clog
    (by intro y; by_cases hy : y = i
        · subst hy; simp
        · simp only [upd_other _ _ hy])
    (by intro y; by_cases hy : y = i
        · subst hy; simp
        · simp only [upd_other _ _ hy])
    (by intro y; by_cases hy : y = i
        · subst hy; simp
        · simp only [upd_other _ _ hy]; exact Nat.le_refl _)
    (fun _ _ _ _ _ _ h => h)
  simpa [doRestart] using this

theorem inv3_grant {s : Sys N} (h : Inv3 s) (j c : Fin N) (t : Nat) : Inv3 (doGrant s j c t) := by
  have := inv3_frame h (upd s.nodes j { (s.nodes j) with vote := some c })
    (fun m => s.msgs m ∨ m = .rvResp t j c true)
    (fun t' j' c' => s.votes t' j' c' ∨ (t' = t ∧ j' = j ∧ c' = c)) s.clog
    (by intro y; by_cases hy : y = j
        · subst hy; simp
        · simp only [upd_other _ _ hy])
    (by intro y; by_cases hy : y = j
        · subst hy; simp
        · simp only [upd_other _ _ hy])
    (by intro y; by_cases hy : y = j
        · subst hy; simp
        · simp only [upd_other _ _ hy]; exact Nat.le_refl _)
    (by intro t src prev pt ents cm hm; rcases hm with hm | hm; exact hm; cases hm)
  simpa [doGrant] using this

theorem inv3_sendAE {s : Sys N} (h0 : Inv0 s) (h : Inv3 s) (i : Fin N) (prev cnt : Nat) (hl : (s.nodes i).role = .leader) :
    Inv3 (doSendAE s i prev cnt) := by
  unfold doSendAE
  refine ⟨h.cm, h.n1, ?_⟩
  intro t src prev' pt ents cm hm
  rcases hm with hm | hm
  · exact h.aec t src prev' pt ents cm hm
  · cases hm
    have hlog := h0.ldr_log i hl
    obtain ⟨a, b⟩ := h.n1 i
    rw [hlog] at a b
    refine ⟨a, ?_⟩
    rcases b with z | ⟨k, t, c1, c2, c3, c4⟩
    · exact Or.inl z
    · exact Or.inr ⟨k, t, c1, c2, c3, c4⟩

theorem inv3_advanceCommit {s : Sys N} (h0 : Inv0 s) (h : Inv3 s) (i : Fin N) (k : Nat) (Q : Finset (Fin N))
    (hl : (s.nodes i).role = .leader)
    (hk : (s.nodes i).commit < k ∧ k ≤ (s.nodes i).log.length) (hterm : termAt (s.nodes i).log k = (s.nodes i).term)
    (hq : CommitOK s i k) (hQ : ∀ j ∈ Q, ∃ n, k ≤ n ∧ s.acks (s.nodes i).term j n) : Inv3 (doAdvanceCommit s i k) := by
  unfold doAdvanceCommit
  have hlog := h0.ldr_log i hl
  refine ⟨?_, ?_, ?_⟩
  · intro k' t hc
    rcases hc with hc | ⟨rfl, rfl⟩
    · exact h.cm k' t hc
    · refine ⟨⟨by omega, by rw [← hlog]; exact hterm, ⟨i, h0.ldr_role i hl⟩, hq⟩, by rw [← hlog]; exact hk.2⟩
  · intro y
    by_cases hy : y = i
    · subst hy
      simp only [upd_same]
      exact ⟨hk.2, Or.inr ⟨k, (s.nodes y).term, Or.inr ⟨rfl, rfl⟩, Nat.le_refl _, Nat.le_refl _, by rw [hlog]⟩⟩
    · simp only [upd_other _ _ hy]
      obtain ⟨a, b⟩ := h.n1 y
      refine ⟨a, ?_⟩
      rcases b with z | ⟨k', t, c1, c2, c3, c4⟩
      · exact Or.inl z
      · exact Or.inr ⟨k', t, Or.inl c1, c2, c3, c4⟩
  · intro t src prev pt ents cm hm
    obtain ⟨a, b⟩ := h.aec t src prev pt ents cm hm
    refine ⟨a, ?_⟩
    rcases b with z | ⟨k', t0, c1, c2, c3, c4⟩
    · exact Or.inl z
    · exact Or.inr ⟨k', t0, Or.inl c1, c2, c3, c4⟩

theorem inv3_becomeLeader {s : Sys N} (h0 : Inv0 s) (h1 : Inv1 s) (h : Inv3 s) (i : Fin N) (Q : Finset (Fin N))
    (hq : ElectOK s i Q) (hc : (s.nodes i).role = .candidate)
    (hQ : ∀ j ∈ Q, j = i ∨ s.msgs (.rvResp (s.nodes i).term j i true)) : Inv3 (doBecomeLeader s i Q) := by
  obtain ⟨_, hfresh⟩ := fresh_term h0 i Q hq hc hQ
  simp only [doBecomeLeader]
  set t0 := (s.nodes i).term with ht0
  set e : Entry := ⟨t0, 0⟩ with he
  set nl := (s.nodes i).log ++ [e] with hnl
  let llog' : Nat → Log := fun t => if t = t0 then nl else s.llog t
  let acks' : Nat → Fin N → Nat → Prop := fun t j n => s.acks t j n ∨ (t = t0 ∧ j = i ∧ n = nl.length)
  have hLsame : ∀ t, t ≠ t0 → llog' t = s.llog t := by intro t ht; simp [llog', ht]
  have hcmt : ∀ k t, s.cmt k t → t ≠ t0 := by
    intro k t hc' e'
    obtain ⟨l, hl⟩ := (h.cm k t hc').1.has_leader h1
    subst e'; exact hfresh l hl
  refine ⟨?_, ?_, ?_⟩
  · intro k t hc'
    have ht := hcmt k t hc'
    obtain ⟨⟨q1, q2, q3, q4⟩, b⟩ := h.cm k t hc'
    let elog' : Nat → Log := fun t => if t = t0 then nl else s.elog t
    let equo' : Nat → Finset (Fin N) := fun t => if t = t0 then Q else s.equo t
    let isLdr' : Nat → Fin N → Prop := fun t j => s.isLdr t j ∨ (t = t0 ∧ j = i)
    show QAc elog' isLdr' equo' llog' acks' k t ∧ k ≤ (llog' t).length
    refine ⟨⟨q1, by rw [hLsame t ht]; exact q2, ?_, ?_⟩, by rw [hLsame t ht]; exact b⟩
    · obtain ⟨l, hl⟩ := q3; exact ⟨l, Or.inl hl⟩
    · intro t' c htt hl'
      rcases hl' with hl' | ⟨e1, e2⟩
      · have hne : t' ≠ t0 := by intro e'; rw [e'] at hl'; exact hfresh c hl'
        have hE : elog' t' = s.elog t' := by simp [elog', hne]
        have hQ' : equo' t' = s.equo t' := by simp [equo', hne]
        rw [hE, hQ']
        rcases q4 t' c htt hl' with ⟨y, hy, n, hn, ha⟩ | hr
        · exact Or.inl ⟨y, hy, n, hn, Or.inl ha⟩
        · exact Or.inr hr
      · have hE : elog' t' = nl := by simp [elog', e1]
        have hQ' : equo' t' = Q := by simp [equo', e1]
        rw [hE, hQ']
        have htt0 : t < t0 := by omega
        rcases hq.2.2 k t htt0 hc' with ⟨y, hy, n, hn, ha⟩ | ⟨idx, a1, a2, a3⟩
        · exact Or.inl ⟨y, hy, n, hn, Or.inl ha⟩
        · right
          have hlt : termAt (s.nodes i).log idx < t0 := by
            have := h1.clog_tm t0 i idx (by omega) (by rw [← h1.cand_log i hc]; exact a2)
            rw [← h1.cand_log i hc] at this; exact this
          refine ⟨idx, a1, by simp [hnl]; omega, ?_, ?_⟩
          · rw [hnl, termAt_append_le _ _ a2]; exact a3
          · rw [hnl, termAt_append_le _ _ a2, e1]; exact hlt
  · intro y
    show (upd s.nodes i _ y).commit ≤ (upd s.nodes i _ y).log.length ∧ ((upd s.nodes i _ y).commit = 0 ∨
      ∃ k t, s.cmt k t ∧ (upd s.nodes i _ y).commit ≤ k ∧ t ≤ (upd s.nodes i _ y).term ∧
        (upd s.nodes i _ y).log.take (upd s.nodes i _ y).commit = (llog' t).take (upd s.nodes i _ y).commit)
    obtain ⟨a, b⟩ := h.n1 y
    by_cases hy : y = i
    · subst hy
      simp only [upd_same]
      refine ⟨by simp [hnl]; omega, ?_⟩
      rcases b with z | ⟨k, t, c1, c2, c3, c4⟩
      · exact Or.inl z
      · refine Or.inr ⟨k, t, c1, c2, c3, ?_⟩
        rw [hLsame t (hcmt k t c1), hnl, List.take_append_of_le_length a]; exact c4
    · simp only [upd_other _ _ hy]
      refine ⟨a, ?_⟩
      rcases b with z | ⟨k, t, c1, c2, c3, c4⟩
      · exact Or.inl z
      · exact Or.inr ⟨k, t, c1, c2, c3, by rw [hLsame t (hcmt k t c1)]; exact c4⟩
  · intro t src prev pt ents cm hm
    show cm ≤ (llog' t).length ∧ (cm = 0 ∨ ∃ k t0', s.cmt k t0' ∧ cm ≤ k ∧ t0' ≤ t ∧ (llog' t).take cm = (llog' t0').take cm)
    have ht : t ≠ t0 := by
      intro e'; subst e'; exact hfresh src (h0.ae_ok _ _ _ _ _ _ hm).1
    obtain ⟨a, b⟩ := h.aec t src prev pt ents cm hm
    rw [hLsame t ht]
    refine ⟨a, ?_⟩
    rcases b with z | ⟨k, t0', c1, c2, c3, c4⟩
    · exact Or.inl z
    · exact Or.inr ⟨k, t0', c1, c2, c3, by rw [hLsame t0' (hcmt k t0' c1)]; exact c4⟩

theorem inv3_clientReq {s : Sys N} (h0 : Inv0 s) (h : Inv3 s) (i : Fin N) (v : Nat) (hl : (s.nodes i).role = .leader) :
    Inv3 (doClientReq s i v) := by
  simp only [doClientReq]
  set t0 := (s.nodes i).term with ht0
  set e : Entry := ⟨t0, v⟩ with he
  set nl := (s.nodes i).log ++ [e] with hnl
  have hlog : (s.nodes i).log = s.llog t0 := h0.ldr_log i hl
  let llog' : Nat → Log := fun t => if t = t0 then nl else s.llog t
  let acks' : Nat → Fin N → Nat → Prop := fun t j n => s.acks t j n ∨ (t = t0 ∧ j = i ∧ n = nl.length)
  have happ : llog' t0 = s.llog t0 ++ [e] := by simp [llog', hnl, hlog]
  have hLsame : ∀ t, t ≠ t0 → llog' t = s.llog t := by intro t ht; simp [llog', ht]
  have hpre : ∀ t k, k ≤ (s.llog t).length → (llog' t).take k = (s.llog t).take k ∧ termAt (llog' t) k = termAt (s.llog t) k
      ∧ k ≤ (llog' t).length := by
    intro t k hk
    by_cases ht : t = t0
    · subst ht; rw [happ]
      exact ⟨List.take_append_of_le_length hk, termAt_append_le _ _ hk, by simp; omega⟩
    · rw [hLsame t ht]; exact ⟨rfl, rfl, hk⟩
  refine ⟨?_, ?_, ?_⟩
  · intro k t hc'
    obtain ⟨q, b⟩ := h.cm k t hc'
    obtain ⟨_, p2, p3⟩ := hpre t k b
    show QAc s.elog s.isLdr s.equo llog' acks' k t ∧ k ≤ (llog' t).length
    exact ⟨q.mono p2 (fun j n ha => Or.inl ha), p3⟩
  · intro y
    show (upd s.nodes i _ y).commit ≤ (upd s.nodes i _ y).log.length ∧ ((upd s.nodes i _ y).commit = 0 ∨
      ∃ k t, s.cmt k t ∧ (upd s.nodes i _ y).commit ≤ k ∧ t ≤ (upd s.nodes i _ y).term ∧
        (upd s.nodes i _ y).log.take (upd s.nodes i _ y).commit = (llog' t).take (upd s.nodes i _ y).commit)
    obtain ⟨a, b⟩ := h.n1 y
    have hwit : ∀ k t c, s.cmt k t → c ≤ k → (llog' t).take c = (s.llog t).take c := by
      intro k t c hc' hck
      exact (hpre t c (by have := (h.cm k t hc').2; omega)).1
    by_cases hy : y = i
    · subst hy
      simp only [upd_same]
      refine ⟨by simp [hnl]; omega, ?_⟩
      rcases b with z | ⟨k, t, c1, c2, c3, c4⟩
      · exact Or.inl z
      · refine Or.inr ⟨k, t, c1, c2, c3, ?_⟩
        rw [hwit k t _ c1 c2, hnl, List.take_append_of_le_length a]; exact c4
    · simp only [upd_other _ _ hy]
      refine ⟨a, ?_⟩
      rcases b with z | ⟨k, t, c1, c2, c3, c4⟩
      · exact Or.inl z
      · exact Or.inr ⟨k, t, c1, c2, c3, by rw [hwit k t _ c1 c2]; exact c4⟩
  · intro t src prev pt ents cm hm
    show cm ≤ (llog' t).length ∧ (cm = 0 ∨ ∃ k t0', s.cmt k t0' ∧ cm ≤ k ∧ t0' ≤ t ∧ (llog' t).take cm = (llog' t0').take cm)
    obtain ⟨a, b⟩ := h.aec t src prev pt ents cm hm
    obtain ⟨p1, _, p3⟩ := hpre t cm a
    refine ⟨p3, ?_⟩
    rcases b with z | ⟨k, t0', c1, c2, c3, c4⟩
    · exact Or.inl z
    · refine Or.inr ⟨k, t0', c1, c2, c3, ?_⟩
      rw [p1, (hpre t0' cm (by have := (h.cm k t0' c1).2; omega)).1]; exact c4

theorem inv3_handleAE {s : Sys N} (h0 : Inv0 s) (h1 : Inv1 s) (h2 : Inv2 s) (h : Inv3 s) (j src : Fin N) (t prev pt : Nat)
    (ents : Log) (cm : Nat)
    (hm : s.msgs (.ae t src prev pt ents cm)) (ht : (s.nodes j).term = t)
    (hmatch : prev ≤ (s.nodes j).log.length ∧ termAt (s.nodes j).log prev = pt) :
    Inv3 (doHandleAE s j src t prev ents cm) := by
  unfold doHandleAE
  obtain ⟨a1, a2, a3, a4⟩ := h0.ae_ok t src prev pt ents cm hm
  have hlen := ents_len_le a2 a4
  have hspec := follAppend_spec (n := ents.length) (h0.p_nodes j) (h0.p_llog t) hmatch.1 hlen (by rw [hmatch.2, a3])
  rw [← a4] at hspec
  obtain ⟨⟨hRlen, hRtake⟩, hRcases⟩ := hspec
  let acks' : Nat → Fin N → Nat → Prop := fun t' j' n => s.acks t' j' n ∨ (t' = t ∧ j' = j ∧ n = prev + ents.length)
  refine ⟨?_, ?_, ?_⟩
  · intro k t' hc'
    obtain ⟨q, b⟩ := h.cm k t' hc'
    show QAc s.elog s.isLdr s.equo s.llog acks' k t' ∧ k ≤ (s.llog t').length
    exact ⟨q.mono rfl (fun j n ha => Or.inl ha), b⟩
  · intro y
    by_cases hy : y = j
    · subst hy
      simp only [upd_same]
      set l := (s.nodes y).log with hl
      set L := s.llog t with hL
      set m := prev + ents.length with hmdef
      set R := follAppend l prev ents with hR
      set c0 := (s.nodes y).commit with hc0
      obtain ⟨n1a, n1b⟩ := h.n1 y
      simp only [← hc0, ← hl] at n1a n1b
      -- the old committed prefix is contained in the leader's log
      have hagree : c0 = 0 ∨ (c0 ≤ L.length ∧ l.take c0 = L.take c0) := by
        rcases n1b with z | ⟨k1, t1, c1, c2, c3, c4⟩
        · exact Or.inl z
        · right
          have ht1 : t1 ≤ t := by omega
          by_cases he : t1 = t
          · have hk1L : k1 ≤ L.length := by rw [hL, ← he]; exact (h.cm k1 t1 c1).2
            rw [he] at c4
            exact ⟨by omega, c4⟩
          · obtain ⟨p1, p2⟩ := committed_in_later_leader h0 h1 h2 h c1 (by omega : t1 < t) a1
            have p1' : k1 ≤ L.length := p1
            have p2' : L.take k1 = (s.llog t1).take k1 := p2
            refine ⟨by omega, ?_⟩
            rw [c4]
            have := congrArg (List.take c0) p2'
            rw [List.take_take, List.take_take, Nat.min_eq_left c2] at this
            exact this.symm
      -- hence the new log keeps it
      have hkeep : c0 ≤ R.length ∧ R.take c0 = l.take c0 := by
        rcases hRcases with hsame | ⟨hnew, hdis⟩
        · rw [hsame]; exact ⟨n1a, rfl⟩
        · rcases hagree with z | ⟨g1, g2⟩
          · rw [z]; simp
          · have hcm : c0 ≤ m := by
              by_contra hlt
              have hmk : m ≤ c0 := by omega
              apply hdis
              refine ⟨by omega, ?_⟩
              have := congrArg (List.take m) g2
              rw [List.take_take, List.take_take, Nat.min_eq_left hmk] at this
              exact this
            refine ⟨by omega, ?_⟩
            rw [hnew, List.take_take, Nat.min_eq_left hcm, g2]
      rcases Nat.le_total (min cm m) c0 with hle | hle
      · -- commit index unchanged
        rw [Nat.max_eq_left hle]
        refine ⟨hkeep.1, ?_⟩
        rcases n1b with z | ⟨k1, t1, c1, c2, c3, c4⟩
        · exact Or.inl z
        · exact Or.inr ⟨k1, t1, c1, c2, c3, by rw [hkeep.2]; exact c4⟩
      · -- commit index advanced to min cm m
        rw [Nat.max_eq_right hle]
        set c' := min cm m with hc'
        have hc'm : c' ≤ m := Nat.min_le_right _ _
        have hc'cm : c' ≤ cm := Nat.min_le_left _ _
        refine ⟨by omega, ?_⟩
        by_cases hz : c' = 0
        · exact Or.inl hz
        · right
          obtain ⟨b1, b2⟩ := h.aec t src prev pt ents cm hm
          rcases b2 with z | ⟨k, t0', d1, d2, d3, d4⟩
          · omega
          · refine ⟨k, t0', d1, by omega, by omega, ?_⟩
            have e1 : R.take c' = L.take c' := by
              have := congrArg (List.take c') hRtake
              rwa [List.take_take, List.take_take, Nat.min_eq_left hc'm] at this
            have e2 : L.take c' = (s.llog t0').take c' := by
              have := congrArg (List.take c') d4
              rwa [List.take_take, List.take_take, Nat.min_eq_left hc'cm] at this
            rw [e1, e2]
    · simp only [upd_other _ _ hy]
      exact h.n1 y
  · intro t' src' prev' pt' ents' cm' hm'
    rcases hm' with hm' | hm'
    · exact h.aec t' src' prev' pt' ents' cm' hm'
    · cases hm'

/-! ## the three extra etcd steps (non-reject append response below the commit index, heartbeats) and Inv4 -/

/-- in a term that has a leader, a node of that term holds its committed prefix inside the leader's log -/
theorem commit_in_leader {s : Sys N} (h0 : Inv0 s) (h1 : Inv1 s) (h2 : Inv2 s) (h3 : Inv3 s) (j : Fin N) {t : Nat}
    (ht : (s.nodes j).term = t) {src : Fin N} (hl : s.isLdr t src) :
    (s.nodes j).commit ≤ (s.llog t).length ∧ (s.nodes j).log.take (s.nodes j).commit = (s.llog t).take (s.nodes j).commit := by
  obtain ⟨_, n1b⟩ := h3.n1 j
  rcases n1b with z | ⟨k1, t1, c1, c2, c3, c4⟩
  · rw [z]; simp
  · by_cases he : t1 = t
    · have := (h3.cm k1 t1 c1).2
      rw [he] at this c4
      exact ⟨by omega, c4⟩
    · obtain ⟨p1, p2⟩ := committed_in_later_leader h0 h1 h2 h3 c1 (by omega : t1 < t) hl
      refine ⟨by omega, ?_⟩
      rw [c4]
      have := congrArg (List.take (s.nodes j).commit) p2
      rw [List.take_take, List.take_take, Nat.min_eq_left c2] at this
      exact this.symm

structure Inv4 (s : Sys N) : Prop where
  at_    : ∀ t j n, s.acks t j n → (s.nodes j).term = t → n ≤ (s.nodes j).log.length ∧ (s.nodes j).log.take n = (s.llog t).take n
  hbok   : ∀ t src dst c, s.msgs (.hb t src dst c) → s.isLdr t src ∧
             (c = 0 ∨ ((∃ n, c ≤ n ∧ s.acks t dst n) ∧ ∃ k t0, s.cmt k t0 ∧ c ≤ k ∧ t0 ≤ t ∧ (s.llog t).take c = (s.llog t0).take c))
  respok : ∀ t j i n, s.msgs (.aeResp t j i true n) → s.acks t j n

/-! ### Inv1 for the new steps -/

theorem inv1_of_same_acks {s : Sys N} (h : Inv1 s) (i : Fin N) (x : NodeSt N)
    (hterm : x.term = (s.nodes i).term) (hlog : x.log = (s.nodes i).log)
    (hrole : x.role = (s.nodes i).role ∨ x.role = .follower)
    (msgs' : Msg N → Prop) (hmsgs : ∀ t c li lt, msgs' (.rv t c li lt) → s.msgs (.rv t c li lt))
    (acks' : Nat → Fin N → Nat → Prop)
    (hacks : ∀ t y n, acks' t y n → n ≤ (s.llog t).length ∧ t ≤ (s.nodes y).term ∧ ∃ l, s.isLdr t l) :
    Inv1 { s with nodes := upd s.nodes i x, msgs := msgs', acks := acks' } := by
  have hT : ∀ k, (upd s.nodes i x k).term = (s.nodes k).term := by
    intro k; by_cases hki : k = i
    · subst hki; simp [hterm]
    · simp only [upd_other _ _ hki]
  have hL : ∀ k, (upd s.nodes i x k).log = (s.nodes k).log := by
    intro k; by_cases hki : k = i
    · subst hki; simp [hlog]
    · simp only [upd_other _ _ hki]
  refine ⟨?_, h.ldr_pos, ?_, h.tm_llog, h.el, ?_, ?_, h.clog_tm, h.clog_p, ?_, ?_⟩
  · intro k hk
    rw [hT]
    by_cases hki : k = i
    · subst hki
      simp only [upd_same] at hk
      rcases hrole with hr | hr
      · exact h.cand_pos k (by rw [← hr]; exact hk)
      · exact absurd hr hk
    · simp only [upd_other _ _ hki] at hk; exact h.cand_pos k hk
  · intro k m h1 h2
    rw [hL] at h2 ⊢; rw [hT]; exact h.tm_node k m h1 h2
  · intro k hk
    rw [hL, hT]
    by_cases hki : k = i
    · subst hki
      simp only [upd_same] at hk
      rcases hrole with hr | hr
      · exact h.cand_log k (by rw [← hr]; exact hk)
      · rw [hr] at hk; cases hk
    · simp only [upd_other _ _ hki] at hk; exact h.cand_log k hk
  · intro t c li lt hm
    obtain ⟨a, b, c'⟩ := h.rv_ok t c li lt (hmsgs _ _ _ _ hm)
    exact ⟨a, b, by rw [hT]; exact c'⟩
  · intro t y n ha
    obtain ⟨a, b, c⟩ := hacks t y n ha
    exact ⟨a, by rw [hT]; exact b, c⟩
  · intro t y c hv
    rw [hT]; exact h.vote_cand t y c hv

theorem inv1_ackCommitted {s : Sys N} (h0 : Inv0 s) (h1 : Inv1 s) (h2 : Inv2 s) (h3 : Inv3 s) (j src : Fin N)
    (t prev pt : Nat) (ents : Log) (cm : Nat) (hm : s.msgs (.ae t src prev pt ents cm)) (ht : (s.nodes j).term = t) :
    Inv1 (doAckCommitted s j src t) := by
  have hl := (h0.ae_ok _ _ _ _ _ _ hm).1
  have hc := commit_in_leader h0 h1 h2 h3 j ht hl
  have := inv1_of_same_acks h1 j { (s.nodes j) with role := .follower } rfl rfl (Or.inr rfl)
    (fun m => s.msgs m ∨ m = .aeResp t j src true (s.nodes j).commit)
    (by intro t' c li lt hm'; rcases hm' with hm' | hm'; exact hm'; cases hm')
    (fun t' j' n => s.acks t' j' n ∨ (t' = t ∧ j' = j ∧ n = (s.nodes j).commit))
    (by
      intro t' y n ha
      rcases ha with ha | ⟨rfl, rfl, rfl⟩
      · exact h1.ack_ok t' y n ha
      · exact ⟨hc.1, by omega, src, hl⟩)
  simpa [doAckCommitted] using this

theorem inv1_sendHB {s : Sys N} (h : Inv1 s) (i dst : Fin N) (c : Nat) : Inv1 (doSendHB s i dst c) := by
  unfold doSendHB
  refine ⟨h.cand_pos, h.ldr_pos, h.tm_node, h.tm_llog, h.el, h.cand_log, ?_, h.clog_tm, h.clog_p, h.ack_ok, h.vote_cand⟩
  intro t c' li lt hm
  rcases hm with hm | hm
  · exact h.rv_ok t c' li lt hm
  · cases hm

theorem inv1_handleHB {s : Sys N} (h : Inv1 s) (j : Fin N) (c : Nat) : Inv1 (doHandleHB s j c) := by
  have := inv1_of_same_acks h j { (s.nodes j) with role := .follower, commit := max (s.nodes j).commit c } rfl rfl
    (Or.inr rfl) s.msgs (fun _ _ _ _ h => h) s.acks h.ack_ok
  simpa [doHandleHB] using this

theorem inv1_step {s s' : Sys N} (h0 : Inv0 s) (h1 : Inv1 s) (h2 : Inv2 s) (h3 : Inv3 s) (st : Step s s') : Inv1 s' := by
  cases st with
  | timeout i hr => exact inv1_timeout h0 h1 i
  | updateTerm i t ht => exact inv1_updateTerm h1 i t ht
  | grant j c t li lt hm ht hv hu => exact inv1_grant h1 j c t li lt hm
  | becomeLeader i Q hq hc hQ => exact inv1_becomeLeader h0 h1 i Q hq hc hQ
  | clientReq i v hl => exact inv1_clientReq h0 h1 i v hl
  | sendAE i prev cnt hl hp => exact inv1_sendAE h1 i prev cnt
  | handleAE j src t prev pt ents cm hm ht hnl hmatch => exact inv1_handleAE h0 h1 j src t prev pt ents cm hm ht hnl hmatch
  | advanceCommit i k Q hl hk hterm hq hQ => exact inv1_advanceCommit h1 i k
  | restart i => exact inv1_restart h1 i
  | ackCommitted j src t prev pt ents cm hm ht hnl hlt => exact inv1_ackCommitted h0 h1 h2 h3 j src t prev pt ents cm hm ht
  | sendHB i dst c hl hc hack => exact inv1_sendHB h1 i dst c
  | handleHB j src t c hm ht hnl => exact inv1_handleHB h1 j c

/-! ### Inv2 for the new steps -/

theorem inv2_ackCommitted {s : Sys N} (h0 : Inv0 s) (h1 : Inv1 s) (h2 : Inv2 s) (h3 : Inv3 s) (j src : Fin N)
    (t prev pt : Nat) (ents : Log) (cm : Nat) (hm : s.msgs (.ae t src prev pt ents cm)) (ht : (s.nodes j).term = t) :
    Inv2 (doAckCommitted s j src t) := by
  have hl := (h0.ae_ok _ _ _ _ _ _ hm).1
  have hc := commit_in_leader h0 h1 h2 h3 j ht hl
  have hc3 := (h3.n1 j).1
  unfold doAckCommitted
  have hT : ∀ y, (upd s.nodes j { (s.nodes j) with role := Role.follower } y).term = (s.nodes y).term := by
    intro y; by_cases hy : y = j
    · subst hy; simp
    · simp only [upd_other _ _ hy]
  have hL : ∀ y, (upd s.nodes j { (s.nodes j) with role := Role.follower } y).log = (s.nodes y).log := by
    intro y; by_cases hy : y = j
    · subst hy; simp
    · simp only [upd_other _ _ hy]
  refine ⟨?_, ?_, ?_⟩
  · intro t1 y n k ha hk1 hk2 hk3
    show Good s.llog (upd s.nodes j _ y).log t1 k ∨ Bad s.llog s.elog s.isLdr t1 k (upd s.nodes j _ y).term
    rw [hT, hL]
    rcases ha with ha | ⟨e1, e2, e3⟩
    · exact h2.al t1 y n k ha hk1 hk2 hk3
    · left
      subst e1 e2 e3
      have hk : k ≤ (s.nodes y).commit := hk2
      refine ⟨by omega, ?_⟩
      have := congrArg (List.take k) hc.2
      rw [List.take_take, List.take_take, Nat.min_eq_left hk] at this
      exact this
  · intro t' y c t1 n k hv ha htt hk1 hk2 hk3
    rcases ha with ha | ⟨e1, e2, _⟩
    · exact h2.av t' y c t1 n k hv ha htt hk1 hk2 hk3
    · exfalso
      subst e1 e2
      have := (h0.vote_durable t' y c hv).1
      omega
  · intro t' c hld y hy t1 n k ha htt hk1 hk2 hk3
    rcases ha with ha | ⟨e1, e2, _⟩
    · exact h2.eq t' c hld y hy t1 n k ha htt hk1 hk2 hk3
    · exfalso
      subst e1 e2
      have hv := (h0.ldr_quorum t' c hld).2 y hy
      have := (h0.vote_durable t' y c hv).1
      omega

theorem inv2_sendHB {s : Sys N} (h : Inv2 s) (i dst : Fin N) (c : Nat) : Inv2 (doSendHB s i dst c) := by
  have := inv2_frame h s.nodes (fun m => s.msgs m ∨ m = .hb (s.nodes i).term i dst c) s.cmt (fun _ => rfl) (fun _ => Nat.le_refl _)
  simpa [doSendHB] using this

theorem inv2_handleHB {s : Sys N} (h : Inv2 s) (j : Fin N) (c : Nat) : Inv2 (doHandleHB s j c) := by
  have := inv2_frame h (upd s.nodes j { (s.nodes j) with role := .follower, commit := max (s.nodes j).commit c }) s.msgs s.cmt
    (by intro y; by_cases hy : y = j
        · subst hy; simp
        · simp only [upd_other _ _ hy])
    (by intro y; by_cases hy : y = j
        · subst hy; simp
        · simp only [upd_other _ _ hy]; exact Nat.le_refl _)
  simpa [doHandleHB] using this

theorem inv2_step {s s' : Sys N} (h0 : Inv0 s) (h1 : Inv1 s) (h : Inv2 s) (h3 : Inv3 s) (st : Step s s') : Inv2 s' := by
  cases st with
  | timeout i hr => exact inv2_timeout h0 h1 h i
  | updateTerm i t ht => exact inv2_updateTerm h i t ht
  | grant j c t li lt hm ht hv hu => exact inv2_grant h0 h1 h j c t li lt hm ht hu
  | becomeLeader i Q hq hc hQ => exact inv2_becomeLeader h0 h1 h i Q hq hc hQ
  | clientReq i v hl => exact inv2_clientReq h0 h1 h i v hl
  | sendAE i prev cnt hl hp => exact inv2_sendAE h i prev cnt
  | handleAE j src t prev pt ents cm hm ht hnl hmatch => exact inv2_handleAE h0 h1 h j src t prev pt ents cm hm ht hmatch
  | advanceCommit i k Q hl hk hterm hq hQ => exact inv2_advanceCommit h i k
  | restart i => exact inv2_restart h i
  | ackCommitted j src t prev pt ents cm hm ht hnl hlt => exact inv2_ackCommitted h0 h1 h h3 j src t prev pt ents cm hm ht
  | sendHB i dst c hl hc hack => exact inv2_sendHB h i dst c
  | handleHB j src t c hm ht hnl => exact inv2_handleHB h j c

/-! ### Inv3 for the new steps -/

theorem inv3_ackCommitted {s : Sys N} (h : Inv3 s) (j src : Fin N) (t : Nat) : Inv3 (doAckCommitted s j src t) := by
  unfold doAckCommitted
  let acks' : Nat → Fin N → Nat → Prop := fun t' j' n => s.acks t' j' n ∨ (t' = t ∧ j' = j ∧ n = (s.nodes j).commit)
  refine ⟨?_, ?_, ?_⟩
  · intro k t' hc'
    obtain ⟨q, b⟩ := h.cm k t' hc'
    show QAc s.elog s.isLdr s.equo s.llog acks' k t' ∧ k ≤ (s.llog t').length
    exact ⟨q.mono rfl (fun j n ha => Or.inl ha), b⟩
  · intro y
    by_cases hy : y = j
    · subst hy; simpa using h.n1 y
    · simp only [upd_other _ _ hy]; exact h.n1 y
  · intro t' src' prev pt ents cm hm
    rcases hm with hm | hm
    · exact h.aec t' src' prev pt ents cm hm
    · cases hm

theorem inv3_sendHB {s : Sys N} (h : Inv3 s) (i dst : Fin N) (c : Nat) : Inv3 (doSendHB s i dst c) := by
  unfold doSendHB
  refine ⟨h.cm, h.n1, ?_⟩
  intro t' src' prev pt ents cm hm
  rcases hm with hm | hm
  · exact h.aec t' src' prev pt ents cm hm
  · cases hm

theorem inv3_handleHB {s : Sys N} (h1 : Inv1 s) (h : Inv3 s) (h4 : Inv4 s) (j src : Fin N) (t c : Nat)
    (hm : s.msgs (.hb t src j c)) (ht : (s.nodes j).term = t) : Inv3 (doHandleHB s j c) := by
  unfold doHandleHB
  refine ⟨h.cm, ?_, h.aec⟩
  intro y
  by_cases hy : y = j
  · subst hy
    simp only [upd_same]
    obtain ⟨n1a, n1b⟩ := h.n1 y
    rcases Nat.le_total c (s.nodes y).commit with hle | hle
    · rw [Nat.max_eq_left hle]; exact ⟨n1a, n1b⟩
    · rw [Nat.max_eq_right hle]
      obtain ⟨_, hb⟩ := h4.hbok t src y c hm
      rcases hb with z | ⟨⟨n, hn, ha⟩, k, t0, c1, c2, c3, c4⟩
      · subst z
        have : (s.nodes y).commit = 0 := by omega
        exact ⟨by omega, Or.inl rfl⟩
      · obtain ⟨a1, a2⟩ := h4.at_ t y n ha ht
        refine ⟨by omega, Or.inr ⟨k, t0, c1, c2, by omega, ?_⟩⟩
        have := congrArg (List.take c) a2
        rw [List.take_take, List.take_take, Nat.min_eq_left hn] at this
        rw [this, c4]
  · simp only [upd_other _ _ hy]; exact h.n1 y

theorem inv3_step {s s' : Sys N} (h0 : Inv0 s) (h1 : Inv1 s) (h2 : Inv2 s) (h : Inv3 s) (h4 : Inv4 s) (st : Step s s') :
    Inv3 s' := by
  cases st with
  | timeout i hr => exact inv3_timeout h i
  | updateTerm i t ht => exact inv3_updateTerm h i t ht
  | grant j c t li lt hm ht hv hu => exact inv3_grant h j c t
  | becomeLeader i Q hq hc hQ => exact inv3_becomeLeader h0 h1 h i Q hq hc hQ
  | clientReq i v hl => exact inv3_clientReq h0 h i v hl
  | sendAE i prev cnt hl hp => exact inv3_sendAE h0 h i prev cnt hl
  | handleAE j src t prev pt ents cm hm ht hnl hmatch => exact inv3_handleAE h0 h1 h2 h j src t prev pt ents cm hm ht hmatch
  | advanceCommit i k Q hl hk hterm hq hQ => exact inv3_advanceCommit h0 h i k Q hl hk hterm hq hQ
  | restart i => exact inv3_restart h i
  | ackCommitted j src t prev pt ents cm hm ht hnl hlt => exact inv3_ackCommitted h j src t
  | sendHB i dst c hl hc hack => exact inv3_sendHB h i dst c
  | handleHB j src t c hm ht hnl => exact inv3_handleHB h1 h h4 j src t c hm ht

/-! ### Inv4 along every step -/

theorem inv4_frame {s : Sys N} (h1 : Inv1 s) (h : Inv4 s) (nodes' : Fin N → NodeSt N) (msgs' : Msg N → Prop)
    (votes' : Nat → Fin N → Fin N → Prop) (clog' : Nat → Fin N → Log) (cmt' : Nat → Nat → Prop)
    (hlog : ∀ y, (nodes' y).log = (s.nodes y).log) (hterm : ∀ y, (s.nodes y).term ≤ (nodes' y).term)
    (hm1 : ∀ t a b c, msgs' (.hb t a b c) → s.msgs (.hb t a b c))
    (hm2 : ∀ t a b n, msgs' (.aeResp t a b true n) → s.msgs (.aeResp t a b true n))
    (hcmt : ∀ k t, s.cmt k t → cmt' k t) :
    Inv4 { s with nodes := nodes', msgs := msgs', votes := votes', clog := clog', cmt := cmt' } := by
  refine ⟨?_, ?_, ?_⟩
  · intro t j n ha ht
    show n ≤ (nodes' j).log.length ∧ (nodes' j).log.take n = (s.llog t).take n
    rw [hlog]
    have h2 := (h1.ack_ok t j n ha).2.1
    have h3 := hterm j
    have ht' : (nodes' j).term = t := ht
    exact h.at_ t j n ha (by omega)
  · intro t src dst c hm
    obtain ⟨a, b⟩ := h.hbok t src dst c (hm1 _ _ _ _ hm)
    refine ⟨a, ?_⟩
    rcases b with z | ⟨b1, k, t0, c1, c2, c3, c4⟩
    · exact Or.inl z
    · exact Or.inr ⟨b1, k, t0, hcmt _ _ c1, c2, c3, c4⟩
  · intro t j i n hm; exact h.respok t j i n (hm2 _ _ _ _ hm)

theorem inv4_timeout {s : Sys N} (h1 : Inv1 s) (h : Inv4 s) (i : Fin N) : Inv4 (doTimeout s i) := by
  have := inv4_frame h1 h (upd s.nodes i { (s.nodes i) with term := (s.nodes i).term + 1, vote := some i, role := .candidate })
    (fun m => s.msgs m ∨ m = .rv ((s.nodes i).term + 1) i (s.nodes i).log.length (lastTerm (s.nodes i).log))
    (fun t j c => s.votes t j c ∨ (t = (s.nodes i).term + 1 ∧ j = i ∧ c = i))
    (fun t c => if t = (s.nodes i).term + 1 ∧ c = i then (s.nodes i).log else s.clog t c) s.cmt
    (by intro y; by_cases hy : y = i
        · subst hy; simp
        · simp only [upd_other _ _ hy])
    (by intro y; by_cases hy : y = i
        · subst hy; simp
        · simp only [upd_other _ _ hy]; exact Nat.le_refl _)
    (by intro t a b c hm; rcases hm with hm | hm; exact hm; cases hm)
    (by intro t a b n hm; rcases hm with hm | hm; exact hm; cases hm)
    (fun _ _ h => h)
  simpa [doTimeout] using this

theorem inv4_updateTerm {s : Sys N} (h1 : Inv1 s) (h : Inv4 s) (i : Fin N) (t : Nat) (ht : (s.nodes i).term < t) :
    Inv4 (doUpdateTerm s i t) := by
  have := inv4_frame h1 h (upd s.nodes i { (s.nodes i) with term := t, vote := none, role := .follower }) s.msgs s.votes
    s.clog s.cmt
    (by intro y; by_cases hy : y = i
        · subst hy; simp
        · simp only [upd_other _ _ hy])
    (by intro y; by_cases hy : y = i
        · subst hy; simp; omega
        · simp only [upd_other _ _ hy]; exact Nat.le_refl _)
    (fun _ _ _ _ h => h) (fun _ _ _ _ h => h) (fun _ _ h => h)
  simpa [doUpdateTerm] using this

theorem inv4_restart {s : Sys N} (h1 : Inv1 s) (h : Inv4 s) (i : Fin N) : Inv4 (doRestart s i) := by
  have := inv4_frame h1 h (upd s.nodes i { (s.nodes i) with role := .follower }) s.msgs s.votes s.clog s.cmt
    (by intro y; by_cases hy : y = i
        · subst hy; simp
        · simp only [upd_other _ _ hy])
    (by intro y; by_cases hy : y = i
        · subst hy; simp
        · simp only [upd_other _ _ hy]; exact Nat.le_refl _)
    (fun _ _ _ _ h => h) (fun _ _ _ _ h => h) (fun _ _ h => h)
  simpa [doRestart] using this

theorem inv4_grant {s : Sys N} (h1 : Inv1 s) (h : Inv4 s) (j c : Fin N) (t : Nat) : Inv4 (doGrant s j c t) := by
  have := inv4_frame h1 h (upd s.nodes j { (s.nodes j) with vote := some c })
    (fun m => s.msgs m ∨ m = .rvResp t j c true)
    (fun t' j' c' => s.votes t' j' c' ∨ (t' = t ∧ j' = j ∧ c' = c)) s.clog s.cmt
    (by intro y; by_cases hy : y = j
        · subst hy; simp
        · simp only [upd_other _ _ hy])
    (by intro y; by_cases hy : y = j
        · subst hy; simp
        · simp only [upd_other _ _ hy]; exact Nat.le_refl _)
    (by intro t' a b c' hm; rcases hm with hm | hm; exact hm; cases hm)
    (by intro t' a b n hm; rcases hm with hm | hm; exact hm; cases hm)
    (fun _ _ h => h)
  simpa [doGrant] using this

theorem inv4_sendAE {s : Sys N} (h1 : Inv1 s) (h : Inv4 s) (i : Fin N) (prev cnt : Nat) : Inv4 (doSendAE s i prev cnt) := by
  have := inv4_frame h1 h s.nodes (fun m => s.msgs m ∨
      m = .ae (s.nodes i).term i prev (termAt (s.nodes i).log prev) (((s.nodes i).log.drop prev).take cnt) (s.nodes i).commit)
    s.votes s.clog s.cmt (fun _ => rfl) (fun _ => Nat.le_refl _)
    (by intro t' a b c' hm; rcases hm with hm | hm; exact hm; cases hm)
    (by intro t' a b n hm; rcases hm with hm | hm; exact hm; cases hm)
    (fun _ _ h => h)
  simpa [doSendAE] using this

theorem inv4_advanceCommit {s : Sys N} (h1 : Inv1 s) (h : Inv4 s) (i : Fin N) (k : Nat) : Inv4 (doAdvanceCommit s i k) := by
  have := inv4_frame h1 h (upd s.nodes i { (s.nodes i) with commit := k }) s.msgs s.votes s.clog
    (fun k' t => s.cmt k' t ∨ (k' = k ∧ t = (s.nodes i).term))
    (by intro y; by_cases hy : y = i
        · subst hy; simp
        · simp only [upd_other _ _ hy])
    (by intro y; by_cases hy : y = i
        · subst hy; simp
        · simp only [upd_other _ _ hy]; exact Nat.le_refl _)
    (fun _ _ _ _ h => h) (fun _ _ _ _ h => h) (fun _ _ h => Or.inl h)
  simpa [doAdvanceCommit] using this

theorem inv4_handleHB {s : Sys N} (h1 : Inv1 s) (h : Inv4 s) (j : Fin N) (c : Nat) : Inv4 (doHandleHB s j c) := by
  have := inv4_frame h1 h (upd s.nodes j { (s.nodes j) with role := .follower, commit := max (s.nodes j).commit c })
    s.msgs s.votes s.clog s.cmt
    (by intro y; by_cases hy : y = j
        · subst hy; simp
        · simp only [upd_other _ _ hy])
    (by intro y; by_cases hy : y = j
        · subst hy; simp
        · simp only [upd_other _ _ hy]; exact Nat.le_refl _)
    (fun _ _ _ _ h => h) (fun _ _ _ _ h => h) (fun _ _ h => h)
  simpa [doHandleHB] using this

theorem inv4_sendHB {s : Sys N} (h0 : Inv0 s) (h3 : Inv3 s) (h : Inv4 s) (i dst : Fin N) (c : Nat)
    (hl : (s.nodes i).role = .leader) (hc : c ≤ (s.nodes i).commit)
    (hack : c = 0 ∨ ∃ n, c ≤ n ∧ s.acks (s.nodes i).term dst n) : Inv4 (doSendHB s i dst c) := by
  unfold doSendHB
  refine ⟨h.at_, ?_, ?_⟩
  · intro t src dst' c' hm
    rcases hm with hm | hm
    · exact h.hbok t src dst' c' hm
    · cases hm
      refine ⟨h0.ldr_role i hl, ?_⟩
      by_cases hc0 : c = 0
      · exact Or.inl hc0
      · right
        have ha : ∃ n, c ≤ n ∧ s.acks (s.nodes i).term dst n := by
          rcases hack with z | ha
          · exact absurd z hc0
          · exact ha
        refine ⟨ha, ?_⟩
        have hlog := h0.ldr_log i hl
        obtain ⟨_, n1b⟩ := h3.n1 i
        rcases n1b with z | ⟨k, t0, c1, c2, c3, c4⟩
        · omega
        · refine ⟨k, t0, c1, by omega, c3, ?_⟩
          rw [hlog] at c4
          have := congrArg (List.take c) c4
          rw [List.take_take, List.take_take, Nat.min_eq_left hc] at this
          exact this
  · intro t j i' n hm
    rcases hm with hm | hm
    · exact h.respok t j i' n hm
    · cases hm

theorem inv4_ackCommitted {s : Sys N} (h0 : Inv0 s) (h1 : Inv1 s) (h2 : Inv2 s) (h3 : Inv3 s) (h : Inv4 s) (j src : Fin N)
    (t prev pt : Nat) (ents : Log) (cm : Nat) (hm : s.msgs (.ae t src prev pt ents cm)) (ht : (s.nodes j).term = t) :
    Inv4 (doAckCommitted s j src t) := by
  have hl := (h0.ae_ok _ _ _ _ _ _ hm).1
  have hc := commit_in_leader h0 h1 h2 h3 j ht hl
  have hc3 := (h3.n1 j).1
  unfold doAckCommitted
  have hT : ∀ y, (upd s.nodes j { (s.nodes j) with role := Role.follower } y).term = (s.nodes y).term := by
    intro y; by_cases hy : y = j
    · subst hy; simp
    · simp only [upd_other _ _ hy]
  have hL : ∀ y, (upd s.nodes j { (s.nodes j) with role := Role.follower } y).log = (s.nodes y).log := by
    intro y; by_cases hy : y = j
    · subst hy; simp
    · simp only [upd_other _ _ hy]
  refine ⟨?_, ?_, ?_⟩
  · intro t1 y n ha hty
    show n ≤ (upd s.nodes j _ y).log.length ∧ (upd s.nodes j _ y).log.take n = (s.llog t1).take n
    rw [hL]
    have hty' : (s.nodes y).term = t1 := by rw [← hT y]; exact hty
    rcases ha with ha | ⟨e1, e2, e3⟩
    · exact h.at_ t1 y n ha hty'
    · subst e1 e2 e3; exact ⟨hc3, hc.2⟩
  · intro t1 a b c hm'
    rcases hm' with hm' | hm'
    · obtain ⟨x1, x2⟩ := h.hbok t1 a b c hm'
      refine ⟨x1, ?_⟩
      rcases x2 with z | ⟨⟨n, hn, han⟩, rest⟩
      · exact Or.inl z
      · exact Or.inr ⟨⟨n, hn, Or.inl han⟩, rest⟩
    · cases hm'
  · intro t1 a b n hm'
    rcases hm' with hm' | hm'
    · exact Or.inl (h.respok t1 a b n hm')
    · cases hm'; exact Or.inr ⟨rfl, rfl, rfl⟩

theorem inv4_becomeLeader {s : Sys N} (h0 : Inv0 s) (h1 : Inv1 s) (h3 : Inv3 s) (h : Inv4 s) (i : Fin N) (Q : Finset (Fin N))
    (hq : ElectOK s i Q) (hc : (s.nodes i).role = .candidate)
    (hQ : ∀ j ∈ Q, j = i ∨ s.msgs (.rvResp (s.nodes i).term j i true)) : Inv4 (doBecomeLeader s i Q) := by
  obtain ⟨_, hfresh⟩ := fresh_term h0 i Q hq hc hQ
  simp only [doBecomeLeader]
  set t0 := (s.nodes i).term with ht0
  set e : Entry := ⟨t0, 0⟩ with he
  set nl := (s.nodes i).log ++ [e] with hnl
  let llog' : Nat → Log := fun t => if t = t0 then nl else s.llog t
  have hLsame : ∀ t, t ≠ t0 → llog' t = s.llog t := by intro t ht; simp [llog', ht]
  have hackt : ∀ t y n, s.acks t y n → t ≠ t0 := by
    intro t y n ha e'
    obtain ⟨_, _, l, hl⟩ := h1.ack_ok t y n ha
    subst e'; exact hfresh l hl
  have hcmt : ∀ k t, s.cmt k t → t ≠ t0 := by
    intro k t hc' e'
    obtain ⟨l, hl⟩ := (h3.cm k t hc').1.has_leader h1
    subst e'; exact hfresh l hl
  have hT : ∀ y, (upd s.nodes i { (s.nodes i) with role := Role.leader, log := nl } y).term = (s.nodes y).term := by
    intro y; by_cases hy : y = i
    · subst hy; simp
    · simp only [upd_other _ _ hy]
  refine ⟨?_, ?_, fun t j i' n hm => Or.inl (h.respok t j i' n hm)⟩
  · intro t y n ha hty
    show n ≤ (upd s.nodes i _ y).log.length ∧ (upd s.nodes i _ y).log.take n = (llog' t).take n
    have hty' : (s.nodes y).term = t := by rw [← hT y]; exact hty
    rcases ha with ha | ⟨e1, e2, e3⟩
    · rw [hLsame t (hackt t y n ha)]
      obtain ⟨a1, a2⟩ := h.at_ t y n ha hty'
      by_cases hy : y = i
      · subst hy
        simp only [upd_same]
        exact ⟨by simp [hnl]; omega, by rw [hnl, List.take_append_of_le_length a1]; exact a2⟩
      · simp only [upd_other _ _ hy]; exact ⟨a1, a2⟩
    · subst e1 e2 e3
      simp [llog']
  · intro t src dst c hm
    obtain ⟨x1, x2⟩ := h.hbok t src dst c hm
    have ht : t ≠ t0 := by intro e'; subst e'; exact hfresh src x1
    show (s.isLdr t src ∨ _) ∧ (c = 0 ∨ ((∃ n, c ≤ n ∧ (s.acks t dst n ∨ _)) ∧
      ∃ k t0', s.cmt k t0' ∧ c ≤ k ∧ t0' ≤ t ∧ (llog' t).take c = (llog' t0').take c))
    refine ⟨Or.inl x1, ?_⟩
    rcases x2 with z | ⟨⟨n, hn, han⟩, k, t0', c1, c2, c3, c4⟩
    · exact Or.inl z
    · refine Or.inr ⟨⟨n, hn, Or.inl han⟩, k, t0', c1, c2, c3, ?_⟩
      rw [hLsame t ht, hLsame t0' (hcmt k t0' c1)]; exact c4

theorem inv4_clientReq {s : Sys N} (h0 : Inv0 s) (h1 : Inv1 s) (h3 : Inv3 s) (h : Inv4 s) (i : Fin N) (v : Nat)
    (hl : (s.nodes i).role = .leader) : Inv4 (doClientReq s i v) := by
  simp only [doClientReq]
  set t0 := (s.nodes i).term with ht0
  set e : Entry := ⟨t0, v⟩ with he
  set nl := (s.nodes i).log ++ [e] with hnl
  have hlog : (s.nodes i).log = s.llog t0 := h0.ldr_log i hl
  let llog' : Nat → Log := fun t => if t = t0 then nl else s.llog t
  have happ : llog' t0 = s.llog t0 ++ [e] := by simp [llog', hnl, hlog]
  have hLsame : ∀ t, t ≠ t0 → llog' t = s.llog t := by intro t ht; simp [llog', ht]
  have hpre : ∀ t k, k ≤ (s.llog t).length → (llog' t).take k = (s.llog t).take k := by
    intro t k hk
    by_cases ht : t = t0
    · subst ht; rw [happ]; exact List.take_append_of_le_length hk
    · rw [hLsame t ht]
  have hT : ∀ y, (upd s.nodes i { (s.nodes i) with log := nl } y).term = (s.nodes y).term := by
    intro y; by_cases hy : y = i
    · subst hy; simp
    · simp only [upd_other _ _ hy]
  refine ⟨?_, ?_, fun t j i' n hm => Or.inl (h.respok t j i' n hm)⟩
  · intro t y n ha hty
    show n ≤ (upd s.nodes i _ y).log.length ∧ (upd s.nodes i _ y).log.take n = (llog' t).take n
    have hty' : (s.nodes y).term = t := by rw [← hT y]; exact hty
    rcases ha with ha | ⟨e1, e2, e3⟩
    · rw [hpre t n (h1.ack_ok t y n ha).1]
      obtain ⟨a1, a2⟩ := h.at_ t y n ha hty'
      by_cases hy : y = i
      · subst hy
        simp only [upd_same]
        exact ⟨by simp [hnl]; omega, by rw [hnl, List.take_append_of_le_length a1]; exact a2⟩
      · simp only [upd_other _ _ hy]; exact ⟨a1, a2⟩
    · subst e1 e2 e3
      simp [llog']
  · intro t src dst c hm
    obtain ⟨x1, x2⟩ := h.hbok t src dst c hm
    show s.isLdr t src ∧ (c = 0 ∨ ((∃ n, c ≤ n ∧ (s.acks t dst n ∨ _)) ∧
      ∃ k t0', s.cmt k t0' ∧ c ≤ k ∧ t0' ≤ t ∧ (llog' t).take c = (llog' t0').take c))
    refine ⟨x1, ?_⟩
    rcases x2 with z | ⟨⟨n, hn, han⟩, k, t0', c1, c2, c3, c4⟩
    · exact Or.inl z
    · refine Or.inr ⟨⟨n, hn, Or.inl han⟩, k, t0', c1, c2, c3, ?_⟩
      rw [hpre t c (by have := (h1.ack_ok t dst n han).1; omega), hpre t0' c (by have := (h3.cm k t0' c1).2; omega)]
      exact c4

theorem inv4_handleAE {s : Sys N} (h0 : Inv0 s) (h : Inv4 s) (j src : Fin N) (t prev pt : Nat) (ents : Log) (cm : Nat)
    (hm : s.msgs (.ae t src prev pt ents cm)) (ht : (s.nodes j).term = t)
    (hmatch : prev ≤ (s.nodes j).log.length ∧ termAt (s.nodes j).log prev = pt) :
    Inv4 (doHandleAE s j src t prev ents cm) := by
  unfold doHandleAE
  obtain ⟨a1, a2, a3, a4⟩ := h0.ae_ok t src prev pt ents cm hm
  have hlen := ents_len_le a2 a4
  have hspec := follAppend_spec (n := ents.length) (h0.p_nodes j) (h0.p_llog t) hmatch.1 hlen (by rw [hmatch.2, a3])
  rw [← a4] at hspec
  obtain ⟨⟨hRlen, hRtake⟩, hRcases⟩ := hspec
  have hT : ∀ y, (upd s.nodes j ⟨(s.nodes j).term, (s.nodes j).vote, .follower, follAppend (s.nodes j).log prev ents,
      max (s.nodes j).commit (min cm (prev + ents.length))⟩ y).term = (s.nodes y).term := by
    intro y; by_cases hy : y = j
    · subst hy; simp
    · simp only [upd_other _ _ hy]
  refine ⟨?_, ?_, ?_⟩
  · intro t1 y n ha hty
    have hty' : (s.nodes y).term = t1 := by rw [← hT y]; exact hty
    by_cases hy : y = j
    · subst hy
      simp only [upd_same]
      have ht1 : t1 = t := by omega
      subst ht1
      rcases ha with ha | ⟨_, _, e3⟩
      · obtain ⟨b1, b2⟩ := h.at_ t1 y n ha hty'
        rcases hRcases with hsame | ⟨hnew, hdis⟩
        · rw [hsame]; exact ⟨b1, b2⟩
        · have hnm : n ≤ prev + ents.length := by
            apply Classical.byContradiction
            intro hlt
            have hmk : prev + ents.length ≤ n := by omega
            apply hdis
            refine ⟨by omega, ?_⟩
            have := congrArg (List.take (prev + ents.length)) b2
            rw [List.take_take, List.take_take, Nat.min_eq_left hmk] at this
            exact this
          refine ⟨by omega, ?_⟩
          rw [hnew, List.take_take, Nat.min_eq_left hnm]
      · subst e3; exact ⟨hRlen, hRtake⟩
    · simp only [upd_other _ _ hy]
      rcases ha with ha | ⟨_, e2, _⟩
      · exact h.at_ t1 y n ha hty'
      · exact absurd e2 hy
  · intro t1 a b c hm'
    rcases hm' with hm' | hm'
    · obtain ⟨x1, x2⟩ := h.hbok t1 a b c hm'
      refine ⟨x1, ?_⟩
      rcases x2 with z | ⟨⟨n, hn, han⟩, rest⟩
      · exact Or.inl z
      · exact Or.inr ⟨⟨n, hn, Or.inl han⟩, rest⟩
    · cases hm'
  · intro t1 a b n hm'
    rcases hm' with hm' | hm'
    · exact Or.inl (h.respok t1 a b n hm')
    · cases hm'; exact Or.inr ⟨rfl, rfl, rfl⟩

theorem inv4_step {s s' : Sys N} (h0 : Inv0 s) (h1 : Inv1 s) (h2 : Inv2 s) (h3 : Inv3 s) (h : Inv4 s) (st : Step s s') :
    Inv4 s' := by
  cases st with
  | timeout i hr => exact inv4_timeout h1 h i
  | updateTerm i t ht => exact inv4_updateTerm h1 h i t ht
  | grant j c t li lt hm ht hv hu => exact inv4_grant h1 h j c t
  | becomeLeader i Q hq hc hQ => exact inv4_becomeLeader h0 h1 h3 h i Q hq hc hQ
  | clientReq i v hl => exact inv4_clientReq h0 h1 h3 h i v hl
  | sendAE i prev cnt hl hp => exact inv4_sendAE h1 h i prev cnt
  | handleAE j src t prev pt ents cm hm ht hnl hmatch => exact inv4_handleAE h0 h j src t prev pt ents cm hm ht hmatch
  | advanceCommit i k Q hl hk hterm hq hQ => exact inv4_advanceCommit h1 h i k
  | restart i => exact inv4_restart h1 h i
  | ackCommitted j src t prev pt ents cm hm ht hnl hlt => exact inv4_ackCommitted h0 h1 h2 h3 h j src t prev pt ents cm hm ht
  | sendHB i dst c hl hc hack => exact inv4_sendHB h0 h3 h i dst c hl hc hack
  | handleHB j src t c hm ht hnl => exact inv4_handleHB h1 h j c

/-! ## all reachable states -/

inductive Reach : Sys N → Prop
| init : Reach (init N)
| step {s s'} : Reach s → Step s s' → Reach s'

theorem reach_inv {s : Sys N} (r : Reach s) : Inv0 s ∧ Inv1 s ∧ Inv2 s ∧ Inv3 s ∧ Inv4 s := by
  induction r with
  | init =>
    refine ⟨?_, ?_, ?_, ?_, ?_⟩
    · refine ⟨?_, ?_, ?_, ?_, ?_, ?_, ?_, ?_, ?_, ?_, ?_, ?_⟩ <;> simp [init, PrefixOK]
    · refine ⟨?_, ?_, ?_, ?_, ?_, ?_, ?_, ?_, ?_, ?_, ?_⟩ <;> simp [init, PrefixOK] <;> intros <;> omega
    · refine ⟨?_, ?_, ?_⟩ <;> simp [init]
    · refine ⟨?_, ?_, ?_⟩ <;> simp [init]
    · refine ⟨?_, ?_, ?_⟩ <;> simp [init]
  | step _ st ih =>
    obtain ⟨h0, h1, h2, h3, h4⟩ := ih
    exact ⟨inv0_step h0 st, inv1_step h0 h1 h2 h3 st, inv2_step h0 h1 h2 h3 st, inv3_step h0 h1 h2 h3 h4 st,
      inv4_step h0 h1 h2 h3 h4 st⟩

/-- C15, abstract protocol, every cluster size, every schedule (loss, duplication, reordering, delay,
    partitions are all subsumed by "any sent message may be handled any number of times, or never"): -/
theorem C15_election_safety {s : Sys N} (r : Reach s) (i j : Fin N)
    (hi : (s.nodes i).role = .leader) (hj : (s.nodes j).role = .leader)
    (ht : (s.nodes i).term = (s.nodes j).term) : i = j := by
  obtain ⟨h0, _⟩ := reach_inv r
  have a := h0.ldr_role i hi
  have b := h0.ldr_role j hj
  rw [← ht] at b
  exact ldr_unique h0 a b

theorem C15_log_matching {s : Sys N} (r : Reach s) (i j : Fin N) (k : Nat) (h1 : 1 ≤ k)
    (hi : k ≤ (s.nodes i).log.length) (hj : k ≤ (s.nodes j).log.length)
    (ht : termAt (s.nodes i).log k = termAt (s.nodes j).log k) :
    (s.nodes i).log.take k = (s.nodes j).log.take k :=
  prefix_agree ((reach_inv r).1.p_nodes i) ((reach_inv r).1.p_nodes j) h1 hi hj ht

theorem C15_leader_completeness {s : Sys N} (r : Reach s) {k t t' : Nat} (c : s.cmt k t) (hlt : t < t') {l : Fin N}
    (hl : s.isLdr t' l) : k ≤ (s.llog t').length ∧ (s.llog t').take k = (s.llog t).take k := by
  obtain ⟨h0, h1, h2, h3, _⟩ := reach_inv r
  exact committed_in_later_leader h0 h1 h2 h3 c hlt hl

theorem C15_state_machine_safety {s : Sys N} (r : Reach s) (i j : Fin N) (m : Nat)
    (hi : m ≤ (s.nodes i).commit) (hj : m ≤ (s.nodes j).commit) :
    (s.nodes i).log.take m = (s.nodes j).log.take m := by
  obtain ⟨h0, h1, h2, h3, _⟩ := reach_inv r
  exact state_machine_safety h0 h1 h2 h3 i j m hi hj

/-- what a follower already considers committed survives every accepted append (etcd: the
    "conflict with committed entry" panic in maybeAppend can never fire) -/
theorem handleAE_keeps_committed {s : Sys N} (h0 : Inv0 s) (h1 : Inv1 s) (h2 : Inv2 s) (h : Inv3 s) (j src : Fin N)
    (t prev pt : Nat) (ents : Log) (cm : Nat)
    (hm : s.msgs (.ae t src prev pt ents cm)) (ht : (s.nodes j).term = t)
    (hmatch : prev ≤ (s.nodes j).log.length ∧ termAt (s.nodes j).log prev = pt) :
    (follAppend (s.nodes j).log prev ents).take (s.nodes j).commit = (s.nodes j).log.take (s.nodes j).commit := by
  obtain ⟨a1, a2, a3, a4⟩ := h0.ae_ok t src prev pt ents cm hm
  have hlen := ents_len_le a2 a4
  have hspec := follAppend_spec (n := ents.length) (h0.p_nodes j) (h0.p_llog t) hmatch.1 hlen (by rw [hmatch.2, a3])
  rw [← a4] at hspec
  obtain ⟨⟨hRlen, hRtake⟩, hRcases⟩ := hspec
  have hag := commit_in_leader h0 h1 h2 h j ht a1
  rcases hRcases with hsame | ⟨hnew, hdis⟩
  · rw [hsame]
  · have hcm : (s.nodes j).commit ≤ prev + ents.length := by
      apply Classical.byContradiction
      intro hlt
      have hmk : prev + ents.length ≤ (s.nodes j).commit := by omega
      apply hdis
      have hc := (h.n1 j).1
      refine ⟨by omega, ?_⟩
      have := congrArg (List.take (prev + ents.length)) hag.2
      rw [List.take_take, List.take_take, Nat.min_eq_left hmk] at this
      exact this
    rw [hnew, List.take_take, Nat.min_eq_left hcm, hag.2]

/-- per node, along every step: the committed prefix is never removed or rewritten, and term and commit never regress -/
theorem C15_committed_never_rewritten {s s' : Sys N} (r : Reach s) (st : Step s s') (y : Fin N) :
    (s'.nodes y).log.take (s.nodes y).commit = (s.nodes y).log.take (s.nodes y).commit ∧
    (s.nodes y).commit ≤ (s'.nodes y).commit ∧ (s.nodes y).term ≤ (s'.nodes y).term := by
  obtain ⟨h0, h1, h2, h3, _⟩ := reach_inv r
  have hc := (h3.n1 y).1
  cases st with
  | timeout i hr =>
    by_cases hy : y = i
    · subst hy; simp [doTimeout]
    · simp [doTimeout, upd_other _ _ hy]
  | updateTerm i t ht =>
    by_cases hy : y = i
    · subst hy; simp [doUpdateTerm]; omega
    · simp [doUpdateTerm, upd_other _ _ hy]
  | grant j c t li lt hm ht hv hu =>
    by_cases hy : y = j
    · subst hy; simp [doGrant]
    · simp [doGrant, upd_other _ _ hy]
  | becomeLeader i Q hq hc' hQ =>
    by_cases hy : y = i
    · subst hy; simp [doBecomeLeader]; exact hc
    · simp [doBecomeLeader, upd_other _ _ hy]
  | clientReq i v hl =>
    by_cases hy : y = i
    · subst hy; simp [doClientReq]; exact hc
    · simp [doClientReq, upd_other _ _ hy]
  | sendAE i prev cnt hl hp => simp [doSendAE]
  | handleAE j src t prev pt ents cm hm ht hnl hmatch =>
    by_cases hy : y = j
    · subst hy
      simp only [doHandleAE, upd_same]
      exact ⟨handleAE_keeps_committed h0 h1 h2 h3 y src t prev pt ents cm hm ht hmatch, Nat.le_max_left _ _, by omega⟩
    · simp [doHandleAE, upd_other _ _ hy]
  | advanceCommit i k Q hl hk hterm hq hQ =>
    by_cases hy : y = i
    · subst hy; simp [doAdvanceCommit]; omega
    · simp [doAdvanceCommit, upd_other _ _ hy]
  | restart i =>
    by_cases hy : y = i
    · subst hy; simp [doRestart]
    · simp [doRestart, upd_other _ _ hy]
  | ackCommitted j src t prev pt ents cm hm ht hnl hlt =>
    by_cases hy : y = j
    · subst hy; simp [doAckCommitted]
    · simp [doAckCommitted, upd_other _ _ hy]
  | sendHB i dst c hl hc' hack => simp [doSendHB]
  | handleHB j src t c hm ht hnl =>
    by_cases hy : y = j
    · subst hy; simp [doHandleHB]
    · simp [doHandleHB, upd_other _ _ hy]

#print axioms C15_election_safety
#print axioms C15_log_matching
#print axioms C15_leader_completeness
#print axioms C15_state_machine_safety
#print axioms C15_committed_never_rewritten
end RSQ
