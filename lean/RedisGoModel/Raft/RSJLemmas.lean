import RedisGoModel.Raft.RSJ

/-! Lemmas for the joint-configuration protocol `RSJ`: counting conf-change entries in a stretch of a log (`cnt`, as in
    `RSCLemmas`, for `RSJ`'s entry decoding), how the configuration `cfgAt` moves along a log (one Changer operation per conf-change
    entry), and **the overlap of consecutive configurations** (`applyCC_ovl`): whatever the configuration and whatever the entry,
    every quorum before meets every quorum after —
    `Simple`: the voter sets differ in at most one id (`RQJ.simple_quorums_overlap`);
    `EnterJoint`: `C_old` → `C_new,old`: a joint quorum contains a majority of the outgoing half, which IS `C_old`;
    `LeaveJoint`: `C_new,old` → `C_new`: a joint quorum contains a majority of the incoming half, which IS `C_new`;
    a refused operation: the configuration does not change.
    Hence configurations separated by at most one conf-change entry have intersecting quorums (`cfgAt_ovl`). -/
namespace RSJ
open RS
open RSC (nid nidsOf mem_nidsOf)

/-- number of conf-change entries of `l` at the indices in `(a, b]` -/
def cnt (l : Log) (a : Nat) : Nat → Nat
  | 0 => 0
  | b+1 => cnt l a b + (if a ≤ b ∧ confAt l (b+1) = true then 1 else 0)

theorem cnt_succ (l : Log) (a b : Nat) : cnt l a (b+1) = cnt l a b + (if a ≤ b ∧ confAt l (b+1) = true then 1 else 0) := rfl

theorem cnt_of_le (l : Log) {a b : Nat} (h : b ≤ a) : cnt l a b = 0 := by
  induction b with
  | zero => rfl
  | succ b ih =>
    rw [cnt_succ, ih (by omega)]
    have : ¬ (a ≤ b ∧ confAt l (b+1) = true) := by intro ⟨x, _⟩; omega
    simp [this]

theorem cnt_split (l : Log) {a m b : Nat} (h1 : a ≤ m) (h2 : m ≤ b) : cnt l a b = cnt l a m + cnt l m b := by
  induction b with
  | zero =>
    have : m = 0 := by omega
    subst this; simp [cnt]
  | succ b ih =>
    by_cases hm : m = b + 1
    · subst hm; rw [cnt_of_le l (Nat.le_refl _)]; rfl
    · have hmb : m ≤ b := by omega
      rw [cnt_succ, cnt_succ, ih hmb]
      by_cases hc : confAt l (b+1) = true
      · have x1 : (a ≤ b ∧ confAt l (b+1) = true) := ⟨by omega, hc⟩
        have x2 : (m ≤ b ∧ confAt l (b+1) = true) := ⟨hmb, hc⟩
        simp [x1, x2]; omega
      · have x1 : ¬ (a ≤ b ∧ confAt l (b+1) = true) := fun h => hc h.2
        have x2 : ¬ (m ≤ b ∧ confAt l (b+1) = true) := fun h => hc h.2
        simp [x1, x2]

theorem cnt_mono_hi (l : Log) (a : Nat) {b b' : Nat} (h : b ≤ b') : cnt l a b ≤ cnt l a b' := by
  induction b' with
  | zero => have : b = 0 := by omega
            subst this; exact Nat.le_refl _
  | succ b' ih =>
    by_cases hb : b = b' + 1
    · subst hb; exact Nat.le_refl _
    · have := ih (by omega)
      rw [cnt_succ]; omega

theorem cnt_mono_lo (l : Log) {a a' : Nat} (b : Nat) (h : a ≤ a') : cnt l a' b ≤ cnt l a b := by
  by_cases hb : a' ≤ b
  · rw [cnt_split l h hb]; omega
  · rw [cnt_of_le l (by omega : b ≤ a')]; omega

theorem confAt_congr {l l' : Log} {b j : Nat} (h : l.take b = l'.take b) (hj : j ≤ b) : confAt l j = confAt l' j := by
  cases j with
  | zero => rfl
  | succ j =>
    simp only [confAt]
    rw [getElem?_of_take_eq h (by omega : j < b)]

theorem cnt_congr {l l' : Log} {a b : Nat} (h : l.take b = l'.take b) : cnt l a b = cnt l' a b := by
  induction b with
  | zero => rfl
  | succ b ih =>
    have hb : l.take b = l'.take b := by
      have := congrArg (List.take b) h
      rwa [List.take_take, List.take_take, Nat.min_eq_left (by omega)] at this
    rw [cnt_succ, cnt_succ, ih hb, confAt_congr h (Nat.le_refl _)]

theorem cnt_conf (l : Log) {a c : Nat} (h : a < c) (hc : confAt l c = true) : cnt l a c = cnt l a (c-1) + 1 := by
  cases c with
  | zero => omega
  | succ c =>
    rw [cnt_succ]
    have : a ≤ c ∧ confAt l (c+1) = true := ⟨by omega, hc⟩
    simp [this]

theorem cnt_zero_conf (l : Log) {a b j : Nat} (h : cnt l a b = 0) (h1 : a < j) (h2 : j ≤ b) : confAt l j = false := by
  cases hj : confAt l j with
  | false => rfl
  | true =>
    have := cnt_conf l h1 hj
    have := cnt_mono_hi l a h2
    omega

/-- if a stretch holds two conf-change entries, one of them is the second one -/
theorem cnt_second (l : Log) {a b : Nat} (h : 2 ≤ cnt l a b) :
    ∃ c, a < c ∧ c ≤ b ∧ confAt l c = true ∧ cnt l a (c-1) = 1 := by
  induction b with
  | zero => simp [cnt] at h
  | succ b ih =>
    by_cases h2 : 2 ≤ cnt l a b
    · obtain ⟨c, c1, c2, c3, c4⟩ := ih h2
      exact ⟨c, c1, by omega, c3, c4⟩
    · rw [cnt_succ] at h
      by_cases hc : a ≤ b ∧ confAt l (b+1) = true
      · simp [hc] at h
        exact ⟨b+1, by omega, Nat.le_refl _, hc.2, by simp; omega⟩
      · simp [hc] at h; omega

theorem isConfData_zero : isConfData 0 = false := by decide

theorem confAt_append_le (l : Log) (e : Entry) {k : Nat} (h : k ≤ l.length) : confAt (l ++ [e]) k = confAt l k := by
  cases k with
  | zero => rfl
  | succ k =>
    simp only [confAt]
    rw [List.getElem?_append_left (by omega : k < l.length)]

theorem confAt_append_last (l : Log) (e : Entry) : confAt (l ++ [e]) (l.length + 1) = isConf e := by
  simp [confAt]

theorem confAt_beyond (l : Log) {k : Nat} (h : l.length < k) : confAt l k = false := by
  cases k with
  | zero => rfl
  | succ k =>
    simp only [confAt]
    rw [List.getElem?_eq_none (by omega)]

theorem cnt_append_le (l : Log) (e : Entry) (a : Nat) {b : Nat} (h : b ≤ l.length) : cnt (l ++ [e]) a b = cnt l a b :=
  cnt_congr (by rw [List.take_append_of_le_length h])

theorem cnt_append_last (l : Log) (e : Entry) {a : Nat} (h : a ≤ l.length) :
    cnt (l ++ [e]) a (l.length + 1) = cnt l a l.length + (if isConf e = true then 1 else 0) := by
  rw [cnt_succ, cnt_append_le l e a (Nat.le_refl _), confAt_append_last]
  simp [h]

theorem cnt_beyond (l : Log) (a : Nat) {b : Nat} (h : l.length ≤ b) : cnt l a b = cnt l a l.length := by
  induction b with
  | zero => have : l.length = 0 := by omega
            rw [this]
  | succ b ih =>
    by_cases hb : l.length = b + 1
    · rw [hb]
    · rw [cnt_succ, ih (by omega), confAt_beyond l (by omega : l.length < b + 1)]
      simp


/-! ### the configuration along a log -/

theorem cfgAt_succ (c0 : RQJ.Config) (l : Log) (b : Nat) :
    cfgAt c0 l (b+1) = match l[b]? with
      | some e => applyEntry (cfgAt c0 l b) e
      | none => cfgAt c0 l b := by
  unfold cfgAt
  rw [List.take_add_one, List.foldl_append]
  cases l[b]? <;> simp

theorem cfgAt_congr (c0 : RQJ.Config) {l l' : Log} {a : Nat} (h : l.take a = l'.take a) : cfgAt c0 l a = cfgAt c0 l' a := by
  unfold cfgAt; rw [h]

theorem applyEntry_nonconf (c : RQJ.Config) {e : Entry} (h : isConf e = false) : applyEntry c e = c := by
  unfold applyEntry
  unfold isConf isConfData at h
  cases hcc : ccOf e.data with
  | none => rfl
  | some ch => rw [hcc] at h; simp at h

theorem cfgAt_succ_nonconf (c0 : RQJ.Config) (l : Log) (b : Nat) (h : confAt l (b+1) = false) :
    cfgAt c0 l (b+1) = cfgAt c0 l b := by
  rw [cfgAt_succ]
  simp only [confAt] at h
  cases hb : l[b]? with
  | none => rfl
  | some e => rw [hb] at h; exact applyEntry_nonconf _ h

/-- no conf-change entry in `(a, b]`: the same configuration -/
theorem cfgAt_of_cnt_zero (c0 : RQJ.Config) (l : Log) {a b : Nat} (hab : a ≤ b) (h : cnt l a b = 0) :
    cfgAt c0 l b = cfgAt c0 l a := by
  induction b with
  | zero => have : a = 0 := by omega
            rw [this]
  | succ b ih =>
    by_cases hb : a = b + 1
    · rw [hb]
    · have hab' : a ≤ b := by omega
      have h0 : cnt l a b = 0 := by have := cnt_mono_hi l a (Nat.le_succ b); simp only [Nat.succ_eq_add_one] at this; omega
      rw [cfgAt_succ_nonconf c0 l b (cnt_zero_conf l h (by omega) (Nat.le_refl _)), ih hab' h0]

/-! ### consecutive configurations overlap -/

/-- every quorum of `c` meets every quorum of `c'` -/
def Ovl (c c' : RQJ.Config) : Prop := ∀ A B : Finset Nat, QJ c A → QJ c' B → ∃ id, id ∈ A ∧ id ∈ B

theorem Ovl.refl (c : RQJ.Config) : Ovl c c := by
  intro A B hA hB
  obtain ⟨id, _, h1, h2⟩ := RQJ.majority_overlap c.voters (· ∈ A) (· ∈ B) hA.1 hB.1
  exact ⟨id, h1, h2⟩

theorem Ovl.symm {c c' : RQJ.Config} (h : Ovl c c') : Ovl c' c := by
  intro A B hA hB
  obtain ⟨id, h1, h2⟩ := h B A hB hA
  exact ⟨id, h2, h1⟩

/-- **whatever the configuration and whatever the conf change, the quorums before meet the quorums after** -/
theorem applyCC_ovl (c : RQJ.Config) (cc : CC) : Ovl c (applyCC c cc) := by
  intro A B hA hB
  cases cc with
  | single ch =>
    simp only [applyCC] at hB
    split at hB
    · next c' hs =>
      obtain ⟨id, _, _, h1, h2⟩ := RQJ.simple_quorums_overlap hs (· ∈ A) (· ∈ B) hA.1 hB.1
      exact ⟨id, h1, h2⟩
    · exact Ovl.refl c A B hA hB
  | enter al ccs =>
    simp only [applyCC] at hB
    split at hB
    · next cj hs =>
      obtain ⟨ho, hne, _⟩ := RQJ.enterJoint_shape hs
      rcases hB.2 with he | hq
      · rw [ho] at he; exact absurd he hne
      · rw [ho] at hq
        obtain ⟨id, _, h1, h2⟩ := RQJ.majority_overlap c.voters (· ∈ A) (· ∈ B) hA.1 hq
        exact ⟨id, h1, h2⟩
    · exact Ovl.refl c A B hA hB
  | leave =>
    simp only [applyCC] at hB
    split at hB
    · next c' hs =>
      obtain ⟨_, rfl⟩ := RQJ.leaveJoint_shape hs
      obtain ⟨id, _, h1, h2⟩ := RQJ.majority_overlap c.voters (· ∈ A) (· ∈ B) hA.1 hB.1
      exact ⟨id, h1, h2⟩
    · exact Ovl.refl c A B hA hB

theorem applyEntry_ovl (c : RQJ.Config) (e : Entry) : Ovl c (applyEntry c e) := by
  unfold applyEntry
  split
  · exact Ovl.refl c
  · exact applyCC_ovl c _

theorem cfgAt_succ_ovl (c0 : RQJ.Config) (l : Log) (b : Nat) : Ovl (cfgAt c0 l b) (cfgAt c0 l (b+1)) := by
  rw [cfgAt_succ]
  cases l[b]? with
  | none => exact Ovl.refl _
  | some e => exact applyEntry_ovl _ e

/-- at most one conf-change entry in `(a, b]`: the quorums of the two configurations intersect -/
theorem cfgAt_ovl (c0 : RQJ.Config) (l : Log) {a b : Nat} (hab : a ≤ b) (h : cnt l a b ≤ 1) :
    Ovl (cfgAt c0 l a) (cfgAt c0 l b) := by
  induction b with
  | zero => have : a = 0 := by omega
            rw [this]; exact Ovl.refl _
  | succ b ih =>
    by_cases hb : a = b + 1
    · rw [hb]; exact Ovl.refl _
    · have hab' : a ≤ b := by omega
      by_cases hc : confAt l (b+1) = true
      · have h0 : cnt l a b = 0 := by
          have := cnt_conf l (by omega : a < b + 1) hc
          simp at this; omega
        rw [← cfgAt_of_cnt_zero c0 l hab' h0]
        exact cfgAt_succ_ovl c0 l b
      · have hc' : confAt l (b+1) = false := by cases h' : confAt l (b+1) <;> simp_all
        rw [cfgAt_succ_nonconf c0 l b hc']
        exact ih hab' (by have := cnt_mono_hi l a (Nat.le_succ b); simp only [Nat.succ_eq_add_one] at this; omega)

/-- the two directions at once -/
theorem cfgAt_ovl' (c0 : RQJ.Config) (l : Log) (a b : Nat) (h1 : cnt l a b ≤ 1) (h2 : cnt l b a ≤ 1) :
    Ovl (cfgAt c0 l a) (cfgAt c0 l b) := by
  rcases Nat.le_total a b with h | h
  · exact cfgAt_ovl c0 l h h1
  · exact (cfgAt_ovl c0 l h h2).symm

variable {N : Nat}

/-- quorums of two overlapping configurations intersect in a node -/
theorem quorumJ_overlap {c c' : RQJ.Config} {Q Q' : Finset (Fin N)} (h : IsQuorumJ c Q) (h' : IsQuorumJ c' Q')
    (hd : Ovl c c') : ∃ y, y ∈ Q ∧ y ∈ Q' := by
  obtain ⟨id, a, b⟩ := hd _ _ h h'
  obtain ⟨j, hj, e⟩ := mem_nidsOf.1 a
  obtain ⟨j', hj', e'⟩ := mem_nidsOf.1 b
  have : j = j' := Fin.ext (by unfold nid at e e'; omega)
  subst this
  exact ⟨j, hj, hj'⟩

end RSJ
