import RedisGoModel.Raft.RHC
import RedisGoModel.Raft.RSJ

/-! C15 Stage D, step 7: **the executable handler with SINGLE and JOINT membership changes** — `RHC.handleC` over etcd's full
    `ConfChangeV2` vocabulary (`Raft/RSJ.lean`).

    A node is an `RHC.NodeC` (an `RS.Node1` plus `applied` and `pend` = `pendingConfIndex`).  Its configuration is not stored: it is
    `RSJ.cfgAt c0 log applied`, the fold of `Changer.Simple / EnterJoint / LeaveJoint` over the conf-change entries of its own log up to
    `applied` (the definition `RSJ.C15_joint_holds` is about).  What reads it, as in etcd's `raft.go`:
    * `hup`: `RSJ.campaignGate` (not leader, `promotable` = has a `Progress` and is not a learner — in a joint configuration a voter of
      either half —, no conf change in `(applied, committed]`); vote requests go to the voters of BOTH halves (`isVoter`); a vote is
      won / lost by `JointConfig.VoteResult` (`wonVotesJ`: a strict majority of the incoming half and, if non-empty, of the outgoing half
      granted; `lostVotesJ`: granted and outstanding votes together are no such quorum);
    * `maybeCommit`: `JointConfig.CommittedIndex` (`qidxJ`: the largest match value acknowledged by a quorum of both halves);
    * MsgAppResp (and the leader's own, `selfAck`) from an id without a `Progress` is ignored;
    * MsgProp on the leader: dropped if the leader itself has no `Progress`; each entry goes through the three-reason gate
      (`RSJ.gateSeq`: `alreadyPending`, `alreadyJoint ∧ ¬wantsLeaveJoint`, `¬alreadyJoint ∧ wantsLeaveJoint`; a refused conf change is
      appended as an empty entry);
    * `applyTo k`: entries are applied one at a time (`ApplyConfChange` for every conf change: `single` / `enter` explicit or
      auto-leave / `leave`); after every conf-change entry a leader that still has a `Progress` and is not a learner runs `maybeCommit`
      under the new configuration (`switchToConfig`), and the `Match` of an id that lost its `Progress` is forgotten — also when a
      later change of the same entry re-creates it (`lostDuring`: `[remove 3, add 3]` with 3 a learner; found by the lock-step);
    * `advance o` (`raft.advance`, the part after `appliedTo`): a LEADER whose configuration has `AutoLeave` and whose
      `pendingConfIndex` lies in `[o, applied]` (`o` = `raftLog.applied` before this `Advance`) appends the empty `ConfChangeV2` itself,
      not through the gate, and `pendingConfIndex` becomes its index;
    * responses from ids without a `Progress` are not stepped (`ErrStepPeerNotFound`); MsgSnap is ignored when the receiver is in none
      of `Voters`, `Learners`, `VotersOutgoing` of the snapshot's `ConfState`; a restore moves `applied`;
    * `restart a`: role lost, `pend = 0`, `applied` falls back to `a`.
    `lean/RaftDriver.lean` replays the `member-joint` / `member-joint-partition` schedules of `harness raftsim` on `handleJ`, event by
    event.  `Raft/RLJ.lean`, `Raft/RHJRun.lean`: every run of `handleJ` refines `RSJ` (`runJ_safe`). -/
namespace RHJ
open RS RSJ
open RSC (nid nidsOf updN)
open RHC (NodeC)

variable {N : Nat}

def cfgOf (c0 : RQJ.Config) (x : NodeC N) : RQJ.Config := cfgAt c0 x.n.log x.applied

instance (c : RQJ.Config) (Q : Finset (Fin N)) : Decidable (IsQuorumJ c Q) := by unfold IsQuorumJ; infer_instance

/-- the nodes satisfying `p` contain a strict majority of the incoming voters of `c` and, if there are outgoing voters, of those -/
def quorumB (c : RQJ.Config) (p : Fin N → Bool) : Bool := decide (IsQuorumJ c (Finset.univ.filter fun j => p j = true))

/-- the id of node `j` has a `Progress` -/
def hasProg (c : RQJ.Config) (j : Fin N) : Bool := RQJ.hasProgress c (nid j)

/-- `r.prs.Voters.IDs()`: both halves -/
def isVoter (c : RQJ.Config) (j : Fin N) : Bool := decide (nid j ∈ c.voters ∨ nid j ∈ c.outgoing)

/-- `VoteWon` -/
def wonVotesJ (c : RQJ.Config) (n : Node1 N) : Bool := quorumB c (fun j => n.votes j == some true)
/-- `VoteLost`: granted and outstanding votes together are no quorum -/
def lostVotesJ (c : RQJ.Config) (n : Node1 N) : Bool := !quorumB c (fun j => n.votes j != some false)

/-- `JointConfig.CommittedIndex`: the largest match value a quorum (of both halves) has reached -/
def qidxJ (c : RQJ.Config) (f : Fin N → Nat) : Nat :=
  ((List.finRange N).map f).foldl (fun acc k => if quorumB c (fun j => decide (k ≤ f j)) then max acc k else acc) 0

def maybeCommitJ (c : RQJ.Config) (n : Node1 N) : Node1 N :=
  if n.commit < qidxJ c n.matchI ∧ qidxJ c n.matchI ≤ n.log.length ∧ termAt n.log (qidxJ c n.matchI) = n.term
  then { n with commit := qidxJ c n.matchI } else n

/-- `MaybeUpdate` for an id that has a `Progress`, nothing otherwise -/
def ackC (c : RQJ.Config) (n : Node1 N) (src : Fin N) (idx : Nat) : Node1 N :=
  if hasProg c src then ackN n src idx else n

/-- the conf-change bits of the entries in `(applied, commit]` -/
def pendingFlagsJ (x : NodeC N) : List Bool :=
  (List.range (x.n.commit - x.applied)).map fun d => confAt x.n.log (x.applied + d + 1)

inductive InputJ (N : Nat)
| hup | prop (vs : List Nat) | selfAck | beat | restart (a : Nat) | applyTo (k : Nat) | advance (o : Nat) | recv (m : Msg1 N)
/-- the transport's reports (`RawNode.ReportSnapshot` / `ReportUnreachable`), as in `RS.Input`: they move only the leader's `Progress`
    bookkeeping (`RS.reportProg`), nothing of the node -/
| snapStatus (src : Fin N) (failed : Bool) | unreachable (src : Fin N)

/-- the ids whose `Progress` the Changer DELETES at some point while it works through the changes of one conf-change entry
    (`Changer.remove`: `delete(prs, id)` unless the id is still an outgoing voter).  A later change of the same entry may give such an
    id a new `Progress` (`initProgress`), whose `Match` starts at 0: `[remove 3, add 3]` on a configuration in which 3 is a learner
    keeps 3 in the configuration and forgets what 3 had acknowledged. -/
def lostDuring : RQJ.Config → List RQJ.Change → Finset Nat
  | _, [] => ∅
  | c, ch :: rest =>
    match RQJ.applyOne c ch with
    | .ok c' => (if RQJ.hasProgress c ch.id && !RQJ.hasProgress c' ch.id then {ch.id} else ∅) ∪ lostDuring c' rest
    | .error _ => ∅

def lostCC (c : RQJ.Config) : CC → Finset Nat
  | .single ch => lostDuring c [ch]
  | .enter _ ccs => lostDuring { c with outgoing := c.voters } ccs
  | .leave => ∅

/-- the `Progress` of node `j` survives the application of entry `a + 1` of `l` (it has one afterwards, and it is the one it had) -/
def keepsProg (c0 : RQJ.Config) (l : Log) (a : Nat) (j : Fin N) : Bool :=
  hasProg (cfgAt c0 l (a + 1)) j &&
  !(match l[a]? with
    | some e => (match ccOf e.data with | some cc => decide (nid j ∈ lostCC (cfgAt c0 l a) cc) | none => false)
    | none => false)

/-- apply ONE more entry -/
def applyOneJ (c0 : RQJ.Config) (i : Fin N) (x : NodeC N) : NodeC N :=
  let x1 : NodeC N := { x with applied := x.applied + 1 }
  if confAt x.n.log (x.applied + 1) then
    let c := cfgOf c0 x1
    let n1 : Node1 N := { x.n with matchI := fun j => if keepsProg c0 x.n.log x.applied j then x.n.matchI j else 0 }
    if x.n.role = .leader ∧ hasProg c i = true ∧ RQJ.isLearnerPr c (nid i) = false
    then { x1 with n := maybeCommitJ c n1 } else { x1 with n := n1 }
  else x1

/-- apply entries up to `k` (never beyond the commit index) -/
def applyToJ (c0 : RQJ.Config) (i : Fin N) (x : NodeC N) (k : Nat) : NodeC N :=
  (List.range (k - x.applied)).foldl (fun y _ => if y.applied < y.n.commit then applyOneJ c0 i y else y) x

/-- the receiver of a snapshot of the prefix `ents` (index `k`) is in the snapshot's `ConfState` -/
def inSnapConf (c0 : RQJ.Config) (i : Fin N) (ents : Log) (k : Nat) : Bool :=
  let c := cfgAt c0 ents k
  decide (nid i ∈ c.voters ∨ nid i ∈ c.learners ∨ nid i ∈ c.outgoing)

def handleSameJ (c0 : RQJ.Config) (i : Fin N) (x : NodeC N) : Msg1 N → NodeC N × List (Msg1 N)
| .voteResp _ src _ rej =>
    if x.n.role = .candidate then
      let n2 := recordVote x.n src rej
      if wonVotesJ (cfgOf c0 x) n2 then ({ x with n := winElection n2 i, pend := n2.log.length }, [])
      else if lostVotesJ (cfgOf c0 x) n2 then ({ x with n := stepDownN n2, pend := 0 }, [])
      else ({ x with n := n2 }, [])
    else (x, [])
| .appResp _ src _ idx rej =>
    if x.n.role = .leader ∧ rej = false then ({ x with n := maybeCommitJ (cfgOf c0 x) (ackC (cfgOf c0 x) x.n src idx) }, []) else (x, [])
| .snap t src d k ents =>
    if x.n.role = .leader then (x, [])
    else if k ≤ x.n.commit ∨ inSnapConf c0 i ents k = false then ({ x with n := followN x.n src }, [.appResp t i src x.n.commit false])
    else
      let r := handleSame i x.n (.snap t src d k ents)
      ({ x with n := r.1, applied := if k ≤ x.n.log.length ∧ termAt x.n.log k = termAt ents k then x.applied else k }, r.2)
| m => let r := handleSame i x.n m; ({ x with n := r.1 }, r.2)

/-- the sender of a response message (`IsResponseMsg`): `RawNode.Step` / `node.run` do not step a response from an id without a `Progress` -/
def respSrc : Msg1 N → Option (Fin N)
| .voteResp _ src .. => some src
| .appResp _ src .. => some src
| _ => none

def dropped (c : RQJ.Config) (m : Msg1 N) : Bool :=
  match respSrc m with
  | some src => !hasProg c src
  | none => false

def handleJ (c0 : RQJ.Config) (i : Fin N) (x : NodeC N) : InputJ N → NodeC N × List (Msg1 N)
| .hup =>
    if campaignGate (decide (x.n.role = .leader)) (nid i) (cfgOf c0 x) (pendingFlagsJ x) = false then (x, [])
    else
      let n1 := campaign x.n i
      if wonVotesJ (cfgOf c0 x) n1 then ({ x with n := winElection n1 i, pend := n1.log.length }, [])
      else ({ x with n := n1, pend := 0 },
            ((List.finRange N).filter (fun d => d ≠ i ∧ isVoter (cfgOf c0 x) d = true)).map
              (fun d => .vote (x.n.term + 1) i d x.n.log.length (lastTerm x.n.log)))
| .prop vs =>
    if x.n.role = .leader ∧ hasProg (cfgOf c0 x) i = true then
      let r := gateSeq x.applied (RQJ.joint (cfgOf c0 x)) x.pend x.n.log.length vs
      ({ x with n := { x.n with log := x.n.log ++ r.1.map fun v => ⟨x.n.term, v⟩ }, pend := r.2 }, [])
    else (x, [])
| .selfAck =>
    if x.n.role = .leader then ({ x with n := maybeCommitJ (cfgOf c0 x) (ackC (cfgOf c0 x) x.n i x.n.log.length) }, []) else (x, [])
| .beat => (x, [])
| .snapStatus _ _ => (x, [])
| .unreachable _ => (x, [])
| .restart a => ({ n := stepDownN x.n, applied := a, pend := 0 }, [])
| .applyTo k => (applyToJ c0 i x k, [])
| .advance o =>
    if x.n.role = .leader ∧ (cfgOf c0 x).autoLeave = true ∧ o ≤ x.pend ∧ x.pend ≤ x.applied then
      ({ x with n := proposeN x.n leaveData, pend := x.n.log.length + 1 }, [])
    else (x, [])
| .recv m =>
    if dropped (cfgOf c0 x) m then (x, [])
    else if m.term < x.n.term then (x, [])
    else if x.n.term < m.term then handleSameJ c0 i { x with n := bump x.n m.term m.leadHint, pend := 0 } m
    else handleSameJ c0 i x m

end RHJ
