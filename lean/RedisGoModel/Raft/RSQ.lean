import RedisGoModel.Raft.RS2

/-! Abstract Raft (L0) over *guarded quorum decisions* (C15 Stage D, step 1).

    `RS`/`RS2` prove the five safety theorems for a fixed voter set `Fin N` with simple majorities. This file and `RSQ2`
    are the same development (same `Sys`, same state transformers `do*`, same ghost history — all reused from `RS`),
    with the two places where a majority is demanded (`becomeLeader`, `advanceCommit`) replaced by *what the safety
    argument actually needs of the quorum that took the decision*:

    * `ElectOK s i Q` — the electing set is non-empty, meets the electing set of any earlier leader of the same term, and
      for every index already marked committed in an earlier term either contains a node that acknowledged it in that
      term, or the candidate's log already holds an entry of that or a later term at or beyond that index;
    * `CommitOK s i k` — for every leader already elected for a later term, its electing set contains a node that
      acknowledged `k` in the committing leader's term, or its election log holds an entry of a term in between at or beyond `k`.

    Nothing is said about cardinalities, so the electing/committing sets may come from a different configuration at
    every decision. Every static quorum system (pairwise intersecting sets: simple majority, majority of a subset of voters
    with learners, joint configuration) discharges both guards (`Props/C15Quorum.lean`), and so does a run with changing
    membership whenever the quorums used are linked in this sense (`Raft/RSC.lean`). -/
namespace RSQ
open RS
variable {N : Nat}

/-- guard of `becomeLeader` (see the file header) -/
def ElectOK (s : Sys N) (i : Fin N) (Q : Finset (Fin N)) : Prop :=
  Q.Nonempty ∧
  (∀ j, s.isLdr (s.nodes i).term j → ∃ y, y ∈ Q ∧ y ∈ s.equo (s.nodes i).term) ∧
  (∀ k t, t < (s.nodes i).term → s.cmt k t →
     (∃ y, y ∈ Q ∧ ∃ n, k ≤ n ∧ s.acks t y n) ∨
     (∃ idx, k ≤ idx ∧ idx ≤ (s.nodes i).log.length ∧ t ≤ termAt (s.nodes i).log idx))

/-- guard of `advanceCommit` (see the file header) -/
def CommitOK (s : Sys N) (i : Fin N) (k : Nat) : Prop :=
  ∀ t' c, (s.nodes i).term < t' → s.isLdr t' c →
     (∃ y, y ∈ s.equo t' ∧ ∃ n, k ≤ n ∧ s.acks (s.nodes i).term y n) ∨
     (∃ idx, k ≤ idx ∧ idx ≤ (s.elog t').length ∧ (s.nodes i).term ≤ termAt (s.elog t') idx ∧ termAt (s.elog t') idx < t')

inductive Step : Sys N → Sys N → Prop
| timeout (s : Sys N) (i : Fin N) (h : (s.nodes i).role ≠ .leader) : Step s (doTimeout s i)
| updateTerm (s : Sys N) (i : Fin N) (t : Nat) (ht : (s.nodes i).term < t) : Step s (doUpdateTerm s i t)
| grant (s : Sys N) (j c : Fin N) (t li lt : Nat) (hm : s.msgs (.rv t c li lt)) (ht : (s.nodes j).term = t)
    (hv : (s.nodes j).vote = none) (hu : upToDate lt li (s.nodes j).log) : Step s (doGrant s j c t)
| becomeLeader (s : Sys N) (i : Fin N) (Q : Finset (Fin N)) (hq : ElectOK s i Q)
    (hc : (s.nodes i).role = .candidate)
    (hQ : ∀ j ∈ Q, j = i ∨ s.msgs (.rvResp (s.nodes i).term j i true)) : Step s (doBecomeLeader s i Q)
| clientReq (s : Sys N) (i : Fin N) (v : Nat) (hl : (s.nodes i).role = .leader) : Step s (doClientReq s i v)
| sendAE (s : Sys N) (i : Fin N) (prev cnt : Nat) (hl : (s.nodes i).role = .leader)
    (hp : prev ≤ (s.nodes i).log.length) : Step s (doSendAE s i prev cnt)
| handleAE (s : Sys N) (j src : Fin N) (t prev pt : Nat) (ents : Log) (cm : Nat)
    (hm : s.msgs (.ae t src prev pt ents cm)) (ht : (s.nodes j).term = t)
    (hnl : (s.nodes j).role ≠ .leader)
    (hmatch : prev ≤ (s.nodes j).log.length ∧ termAt (s.nodes j).log prev = pt) : Step s (doHandleAE s j src t prev ents cm)
| advanceCommit (s : Sys N) (i : Fin N) (k : Nat) (Q : Finset (Fin N)) (hl : (s.nodes i).role = .leader)
    (hk : (s.nodes i).commit < k ∧ k ≤ (s.nodes i).log.length) (hterm : termAt (s.nodes i).log k = (s.nodes i).term)
    (hq : CommitOK s i k) (hQ : ∀ j ∈ Q, ∃ n, k ≤ n ∧ s.acks (s.nodes i).term j n) : Step s (doAdvanceCommit s i k)
| restart (s : Sys N) (i : Fin N) : Step s (doRestart s i)
| ackCommitted (s : Sys N) (j src : Fin N) (t prev pt : Nat) (ents : Log) (cm : Nat)
    (hm : s.msgs (.ae t src prev pt ents cm)) (ht : (s.nodes j).term = t) (hnl : (s.nodes j).role ≠ .leader)
    (hlt : prev < (s.nodes j).commit) : Step s (doAckCommitted s j src t)
| sendHB (s : Sys N) (i dst : Fin N) (c : Nat) (hl : (s.nodes i).role = .leader) (hc : c ≤ (s.nodes i).commit)
    (hack : c = 0 ∨ ∃ n, c ≤ n ∧ s.acks (s.nodes i).term dst n) : Step s (doSendHB s i dst c)
| handleHB (s : Sys N) (j src : Fin N) (t c : Nat) (hm : s.msgs (.hb t src j c)) (ht : (s.nodes j).term = t)
    (hnl : (s.nodes j).role ≠ .leader) : Step s (doHandleHB s j c)


structure Inv0 (s : Sys N) : Prop where
  vote_durable : ∀ t j c, s.votes t j c → t ≤ (s.nodes j).term ∧ ((s.nodes j).term = t → (s.nodes j).vote = some c)
  resp_voted   : ∀ t j c, s.msgs (.rvResp t j c true) → s.votes t j c
  cand_self    : ∀ i, (s.nodes i).role ≠ .follower → s.votes (s.nodes i).term i i
  votes_fun    : ∀ t j c c', s.votes t j c → s.votes t j c' → c = c'
  ldr_quorum   : ∀ t i, s.isLdr t i → (s.equo t).Nonempty ∧ ∀ j ∈ s.equo t, s.votes t j i
  ldr_role     : ∀ i, (s.nodes i).role = .leader → s.isLdr (s.nodes i).term i
  ldr_term     : ∀ t i, s.isLdr t i → t ≤ (s.nodes i).term ∧ ((s.nodes i).term = t → (s.nodes i).role ≠ .candidate)
  llog_none    : ∀ t, (∀ i, ¬ s.isLdr t i) → s.llog t = []
  ldr_log      : ∀ i, (s.nodes i).role = .leader → (s.nodes i).log = s.llog (s.nodes i).term
  p_nodes      : ∀ i, PrefixOK s.llog (s.nodes i).log
  p_llog       : ∀ t, PrefixOK s.llog (s.llog t)
  ae_ok        : ∀ t src prev pt ents cm, s.msgs (.ae t src prev pt ents cm) →
                   s.isLdr t src ∧ prev ≤ (s.llog t).length ∧ pt = termAt (s.llog t) prev ∧
                   ents = ((s.llog t).drop prev).take ents.length

theorem ldr_unique {s : Sys N} (h : Inv0 s) {t i j} (hi : s.isLdr t i) (hj : s.isLdr t j) : i = j := by
  obtain ⟨⟨k, hk⟩, hv1⟩ := h.ldr_quorum t i hi
  obtain ⟨_, hv2⟩ := h.ldr_quorum t j hj
  exact h.votes_fun _ _ _ _ (hv1 k hk) (hv2 k hk)

theorem inv0_timeout {s : Sys N} (h : Inv0 s) (i : Fin N) (hr : (s.nodes i).role ≠ .leader) : Inv0 (doTimeout s i) := by
  unfold doTimeout
  refine ⟨?_, ?_, ?_, ?_, ?_, ?_, ?_, ?_, ?_, ?_, ?_, ?_⟩
  · intro t j c hv
    rcases hv with hv | ⟨rfl, rfl, rfl⟩
    · by_cases hji : j = i
      · subst hji; have := h.vote_durable t j c hv; simp; omega
      · simp only [upd_other _ _ hji]; exact h.vote_durable t j c hv
    · simp
  · intro t j c hm
    rcases hm with hm | hm
    · exact Or.inl (h.resp_voted t j c hm)
    · cases hm
  · intro k hk
    by_cases hki : k = i
    · subst hki; simp
    · simp only [upd_other _ _ hki] at hk ⊢; exact Or.inl (h.cand_self k hk)
  · intro t j c c' h1 h2
    rcases h1 with h1 | ⟨rfl, rfl, rfl⟩ <;> rcases h2 with h2 | ⟨h2a, h2b, h2c⟩
    · exact h.votes_fun t j c c' h1 h2
    · subst h2a h2b h2c; have := (h.vote_durable _ _ _ h1).1; omega
    · have := (h.vote_durable _ _ _ h2).1; omega
    · exact h2c.symm
  · intro t k hk
    obtain ⟨hq, hv⟩ := h.ldr_quorum t k hk
    exact ⟨hq, fun j hj => Or.inl (hv j hj)⟩
  · intro k hk
    by_cases hki : k = i
    · subst hki; simp at hk
    · simp only [upd_other _ _ hki] at hk ⊢; exact h.ldr_role k hk
  · intro t k hk
    by_cases hki : k = i
    · subst hki
      have := h.ldr_term t k hk
      simp; omega
    · simp only [upd_other _ _ hki]; exact h.ldr_term t k hk
  · exact h.llog_none
  · intro k hk
    by_cases hki : k = i
    · subst hki; simp at hk
    · simp only [upd_other _ _ hki] at hk ⊢; exact h.ldr_log k hk
  · intro k
    by_cases hki : k = i
    · subst hki; simpa using h.p_nodes k
    · simp only [upd_other _ _ hki]; exact h.p_nodes k
  · exact h.p_llog
  · intro t src prev pt ents cm hm
    rcases hm with hm | hm
    · exact h.ae_ok t src prev pt ents cm hm
    · cases hm

theorem inv0_updateTerm {s : Sys N} (h : Inv0 s) (i : Fin N) (t : Nat) (ht : (s.nodes i).term < t) :
    Inv0 (doUpdateTerm s i t) := by
  unfold doUpdateTerm
  refine ⟨?_, h.resp_voted, ?_, h.votes_fun, h.ldr_quorum, ?_, ?_, h.llog_none, ?_, ?_, h.p_llog, h.ae_ok⟩
  · intro t' j c hv
    by_cases hji : j = i
    · subst hji; have := h.vote_durable t' j c hv; simp; omega
    · simp only [upd_other _ _ hji]; exact h.vote_durable t' j c hv
  · intro k hk
    by_cases hki : k = i
    · subst hki; simp at hk
    · simp only [upd_other _ _ hki] at hk ⊢; exact h.cand_self k hk
  · intro k hk
    by_cases hki : k = i
    · subst hki; simp at hk
    · simp only [upd_other _ _ hki] at hk ⊢; exact h.ldr_role k hk
  · intro t' k hk
    by_cases hki : k = i
    · subst hki; have := h.ldr_term t' k hk; simp; omega
    · simp only [upd_other _ _ hki]; exact h.ldr_term t' k hk
  · intro k hk
    by_cases hki : k = i
    · subst hki; simp at hk
    · simp only [upd_other _ _ hki] at hk ⊢; exact h.ldr_log k hk
  · intro k
    by_cases hki : k = i
    · subst hki; simpa using h.p_nodes k
    · simp only [upd_other _ _ hki]; exact h.p_nodes k

theorem inv0_restart {s : Sys N} (h : Inv0 s) (i : Fin N) : Inv0 (doRestart s i) := by
  unfold doRestart
  refine ⟨?_, h.resp_voted, ?_, h.votes_fun, h.ldr_quorum, ?_, ?_, h.llog_none, ?_, ?_, h.p_llog, h.ae_ok⟩
  · intro t' j c hv
    by_cases hji : j = i
    · subst hji; simpa using h.vote_durable t' j c hv
    · simp only [upd_other _ _ hji]; exact h.vote_durable t' j c hv
  · intro k hk
    by_cases hki : k = i
    · subst hki; simp at hk
    · simp only [upd_other _ _ hki] at hk ⊢; exact h.cand_self k hk
  · intro k hk
    by_cases hki : k = i
    · subst hki; simp at hk
    · simp only [upd_other _ _ hki] at hk ⊢; exact h.ldr_role k hk
  · intro t' k hk
    by_cases hki : k = i
    · subst hki; have := h.ldr_term t' k hk; simp; exact this.1
    · simp only [upd_other _ _ hki]; exact h.ldr_term t' k hk
  · intro k hk
    by_cases hki : k = i
    · subst hki; simp at hk
    · simp only [upd_other _ _ hki] at hk ⊢; exact h.ldr_log k hk
  · intro k
    by_cases hki : k = i
    · subst hki; simpa using h.p_nodes k
    · simp only [upd_other _ _ hki]; exact h.p_nodes k

theorem inv0_grant {s : Sys N} (h : Inv0 s) (j c : Fin N) (t : Nat) (ht : (s.nodes j).term = t)
    (hv : (s.nodes j).vote = none) : Inv0 (doGrant s j c t) := by
  unfold doGrant
  refine ⟨?_, ?_, ?_, ?_, ?_, ?_, ?_, h.llog_none, ?_, ?_, h.p_llog, ?_⟩
  · intro t' j' c' hv'
    rcases hv' with hv' | ⟨rfl, rfl, rfl⟩
    · by_cases hji : j' = j
      · subst hji
        have hd := h.vote_durable t' j' c' hv'
        simp
        refine ⟨hd.1, fun he => ?_⟩
        have := hd.2 he
        simp_all
      · simp only [upd_other _ _ hji]; exact h.vote_durable t' j' c' hv'
    · simp [ht]
  · intro t' j' c' hm'
    rcases hm' with hm' | hm'
    · exact Or.inl (h.resp_voted _ _ _ hm')
    · cases hm'; exact Or.inr ⟨rfl, rfl, rfl⟩
  · intro k hk
    by_cases hki : k = j
    · subst hki; simp at hk ⊢; exact Or.inl (h.cand_self k hk)
    · simp only [upd_other _ _ hki] at hk ⊢; exact Or.inl (h.cand_self k hk)
  · intro t' j' c1 c2 h1 h2
    rcases h1 with h1 | ⟨rfl, rfl, rfl⟩ <;> rcases h2 with h2 | ⟨h2a, h2b, h2c⟩
    · exact h.votes_fun _ _ _ _ h1 h2
    · subst h2a h2b h2c
      have := (h.vote_durable _ _ _ h1).2 ht
      simp_all
    · have := (h.vote_durable _ _ _ h2).2 ht
      simp_all
    · exact h2c.symm
  · intro t' k hk
    obtain ⟨hq, hvq⟩ := h.ldr_quorum t' k hk
    exact ⟨hq, fun x hx => Or.inl (hvq x hx)⟩
  · intro k hk
    by_cases hki : k = j
    · subst hki; simp at hk ⊢; exact h.ldr_role k hk
    · simp only [upd_other _ _ hki] at hk ⊢; exact h.ldr_role k hk
  · intro t' k hk
    by_cases hki : k = j
    · subst hki; simpa using h.ldr_term t' k hk
    · simp only [upd_other _ _ hki]; exact h.ldr_term t' k hk
  · intro k hk
    by_cases hki : k = j
    · subst hki; simp at hk ⊢; exact h.ldr_log k hk
    · simp only [upd_other _ _ hki] at hk ⊢; exact h.ldr_log k hk
  · intro k
    by_cases hki : k = j
    · subst hki; simpa using h.p_nodes k
    · simp only [upd_other _ _ hki]; exact h.p_nodes k
  · intro t' src prev pt ents cm hm
    rcases hm with hm | hm
    · exact h.ae_ok t' src prev pt ents cm hm
    · cases hm

theorem inv0_sendAE {s : Sys N} (h : Inv0 s) (i : Fin N) (prev cnt : Nat) (hl : (s.nodes i).role = .leader)
    (hp : prev ≤ (s.nodes i).log.length) : Inv0 (doSendAE s i prev cnt) := by
  unfold doSendAE
  refine ⟨h.vote_durable, ?_, h.cand_self, h.votes_fun, h.ldr_quorum, h.ldr_role, h.ldr_term, h.llog_none,
    h.ldr_log, h.p_nodes, h.p_llog, ?_⟩
  · intro t j c hm
    rcases hm with hm | hm
    · exact h.resp_voted t j c hm
    · cases hm
  · intro t src prev' pt ents cm hm
    rcases hm with hm | hm
    · exact h.ae_ok t src prev' pt ents cm hm
    · cases hm
      have hlog := h.ldr_log i hl
      refine ⟨h.ldr_role i hl, by rw [← hlog]; exact hp, by rw [← hlog], ?_⟩
      rw [← hlog]
      exact (take_take_length _ _).symm

theorem inv0_advanceCommit {s : Sys N} (h : Inv0 s) (i : Fin N) (k : Nat) : Inv0 (doAdvanceCommit s i k) := by
  unfold doAdvanceCommit
  refine ⟨?_, h.resp_voted, ?_, h.votes_fun, h.ldr_quorum, ?_, ?_, h.llog_none, ?_, ?_, h.p_llog, h.ae_ok⟩
  · intro t' j c hv
    by_cases hji : j = i
    · subst hji; simpa using h.vote_durable t' j c hv
    · simp only [upd_other _ _ hji]; exact h.vote_durable t' j c hv
  · intro k' hk
    by_cases hki : k' = i
    · subst hki; simp at hk ⊢; exact h.cand_self k' hk
    · simp only [upd_other _ _ hki] at hk ⊢; exact h.cand_self k' hk
  · intro k' hk
    by_cases hki : k' = i
    · subst hki; simp at hk ⊢; exact h.ldr_role k' hk
    · simp only [upd_other _ _ hki] at hk ⊢; exact h.ldr_role k' hk
  · intro t' k' hk
    by_cases hki : k' = i
    · subst hki; simpa using h.ldr_term t' k' hk
    · simp only [upd_other _ _ hki]; exact h.ldr_term t' k' hk
  · intro k' hk
    by_cases hki : k' = i
    · subst hki; simp at hk ⊢; exact h.ldr_log k' hk
    · simp only [upd_other _ _ hki] at hk ⊢; exact h.ldr_log k' hk
  · intro k'
    by_cases hki : k' = i
    · subst hki; simpa using h.p_nodes k'
    · simp only [upd_other _ _ hki]; exact h.p_nodes k'

theorem inv0_clientReq {s : Sys N} (h : Inv0 s) (i : Fin N) (v : Nat) (hl : (s.nodes i).role = .leader) :
    Inv0 (doClientReq s i v) := by
  simp only [doClientReq]
  set t0 := (s.nodes i).term with ht0
  set e : Entry := ⟨t0, v⟩ with he
  have hlog : (s.nodes i).log = s.llog t0 := h.ldr_log i hl
  let llog' : Nat → Log := fun t => if t = t0 then (s.nodes i).log ++ [e] else s.llog t
  have happ : llog' t0 = s.llog t0 ++ [e] := by simp [llog', hlog]
  have hsame : ∀ t, t ≠ t0 → llog' t = s.llog t := by intro t ht; simp [llog', ht]
  have hself : llog' e.term = (s.nodes i).log ++ [e] := by simp [llog', he]
  have pi : PrefixOK llog' ((s.nodes i).log ++ [e]) :=
    PrefixOK.snoc (PrefixOK.of_llog_append happ hsame (h.p_nodes i)) hself
  refine ⟨?_, h.resp_voted, ?_, h.votes_fun, h.ldr_quorum, ?_, ?_, ?_, ?_, ?_, ?_, ?_⟩
  · intro t j c hv
    by_cases hji : j = i
    · subst hji; simpa using h.vote_durable t j c hv
    · simp only [upd_other _ _ hji]; exact h.vote_durable t j c hv
  · intro k hk
    by_cases hki : k = i
    · subst hki; simp at hk ⊢; exact h.cand_self k hk
    · simp only [upd_other _ _ hki] at hk ⊢; exact h.cand_self k hk
  · intro k hk
    by_cases hki : k = i
    · subst hki; simp at hk ⊢; exact h.ldr_role k hk
    · simp only [upd_other _ _ hki] at hk ⊢; exact h.ldr_role k hk
  · intro t k hk
    by_cases hki : k = i
    · subst hki; simpa using h.ldr_term t k hk
    · simp only [upd_other _ _ hki]; exact h.ldr_term t k hk
  · intro t hno
    have : t ≠ t0 := by
      intro e'; subst e'; exact hno i (h.ldr_role i hl)
    show llog' t = []
    rw [hsame t this]; exact h.llog_none t hno
  · intro k hk
    show (upd s.nodes i _ k).log = llog' (upd s.nodes i _ k).term
    by_cases hki : k = i
    · subst hki; simp [llog', ← ht0]
    · simp only [upd_other _ _ hki] at hk ⊢
      have hne : (s.nodes k).term ≠ t0 := by
        intro e'
        have a := h.ldr_role k hk
        rw [e'] at a
        exact hki (ldr_unique h a (h.ldr_role i hl))
      rw [hsame _ hne]; exact h.ldr_log k hk
  · intro k
    show PrefixOK llog' (upd s.nodes i _ k).log
    by_cases hki : k = i
    · subst hki; simpa using pi
    · simp only [upd_other _ _ hki]; exact PrefixOK.of_llog_append happ hsame (h.p_nodes k)
  · intro t
    show PrefixOK llog' (llog' t)
    by_cases ht : t = t0
    · subst ht; simpa [llog'] using pi
    · rw [hsame t ht]; exact PrefixOK.of_llog_append happ hsame (h.p_llog t)
  · intro t src prev pt ents cm hm
    obtain ⟨h1, h2, h3, h4⟩ := h.ae_ok t src prev pt ents cm hm
    show s.isLdr t src ∧ prev ≤ (llog' t).length ∧ pt = termAt (llog' t) prev ∧ ents = ((llog' t).drop prev).take ents.length
    by_cases ht : t = t0
    · subst ht
      rw [happ]
      refine ⟨h1, by simp; omega, by rw [termAt_append_le _ _ h2]; exact h3, ?_⟩
      have hlen : ents.length ≤ (s.llog t0).length - prev := by
        have := congrArg List.length h4
        simp [List.length_take] at this; omega
      rw [List.drop_append_of_le_length h2, List.take_append_of_le_length (by simpa using hlen)]
      exact h4
    · rw [hsame t ht]; exact ⟨h1, h2, h3, h4⟩

/-- facts established when a candidate wins: nobody led this term before -/
theorem fresh_term {s : Sys N} (h : Inv0 s) (i : Fin N) (Q : Finset (Fin N)) (hq : ElectOK s i Q)
    (hc : (s.nodes i).role = .candidate)
    (hQ : ∀ j ∈ Q, j = i ∨ s.msgs (.rvResp (s.nodes i).term j i true)) :
    (∀ j ∈ Q, s.votes (s.nodes i).term j i) ∧ (∀ j, ¬ s.isLdr (s.nodes i).term j) := by
  have hQv : ∀ j ∈ Q, s.votes (s.nodes i).term j i := by
    intro j hj
    rcases hQ j hj with rfl | hm
    · exact h.cand_self j (by rw [hc]; simp)
    · exact h.resp_voted _ _ _ hm
  refine ⟨hQv, ?_⟩
  intro j hj
  obtain ⟨_, hv2⟩ := h.ldr_quorum _ j hj
  obtain ⟨k, hk1, hk2⟩ := hq.2.1 j hj
  have : i = j := h.votes_fun _ _ _ _ (hQv k hk1) (hv2 k hk2)
  subst this
  exact (h.ldr_term _ i hj).2 rfl hc

theorem inv0_becomeLeader {s : Sys N} (h : Inv0 s) (i : Fin N) (Q : Finset (Fin N)) (hq : ElectOK s i Q)
    (hc : (s.nodes i).role = .candidate)
    (hQ : ∀ j ∈ Q, j = i ∨ s.msgs (.rvResp (s.nodes i).term j i true)) : Inv0 (doBecomeLeader s i Q) := by
  obtain ⟨hQv, hfresh⟩ := fresh_term h i Q hq hc hQ
  simp only [doBecomeLeader]
  set t0 := (s.nodes i).term with ht0
  set e : Entry := ⟨t0, 0⟩ with he
  have hnone : s.llog t0 = [] := h.llog_none t0 hfresh
  let llog' : Nat → Log := fun t => if t = t0 then (s.nodes i).log ++ [e] else s.llog t
  have hsame : ∀ t, t ≠ t0 → llog' t = s.llog t := by intro t ht; simp [llog', ht]
  have hself : llog' e.term = (s.nodes i).log ++ [e] := by simp [llog', he]
  have pi : PrefixOK llog' ((s.nodes i).log ++ [e]) :=
    PrefixOK.snoc (PrefixOK.of_llog_fresh hnone hsame (h.p_nodes i)) hself
  refine ⟨?_, h.resp_voted, ?_, h.votes_fun, ?_, ?_, ?_, ?_, ?_, ?_, ?_, ?_⟩
  · intro t j c hv
    by_cases hji : j = i
    · subst hji; simpa using h.vote_durable t j c hv
    · simp only [upd_other _ _ hji]; exact h.vote_durable t j c hv
  · intro k hk
    by_cases hki : k = i
    · subst hki; simp; exact h.cand_self k (by rw [hc]; simp)
    · simp only [upd_other _ _ hki] at hk ⊢; exact h.cand_self k hk
  · intro t k hk
    by_cases ht : t = t0
    · subst ht
      simp only [if_true]
      rcases hk with hk | ⟨_, rfl⟩
      · exact absurd hk (hfresh k)
      · exact ⟨hq.1, hQv⟩
    · simp only [ht, if_false]
      rcases hk with hk | ⟨rfl, _⟩
      · exact h.ldr_quorum t k hk
      · exact absurd rfl ht
  · intro k hk
    by_cases hki : k = i
    · subst hki; simp
    · simp only [upd_other _ _ hki] at hk ⊢; exact Or.inl (h.ldr_role k hk)
  · intro t k hk
    by_cases hki : k = i
    · subst hki
      simp
      rcases hk with hk | ⟨rfl, _⟩
      · exact (h.ldr_term t k hk).1
      · exact Nat.le_refl _
    · simp only [upd_other _ _ hki]
      rcases hk with hk | ⟨_, rfl⟩
      · exact h.ldr_term t k hk
      · exact absurd rfl hki
  · intro t hno
    have : t ≠ t0 := by
      intro e'; subst e'; exact hno i (Or.inr ⟨rfl, rfl⟩)
    show llog' t = []
    rw [hsame t this]; exact h.llog_none t (fun j hj => hno j (Or.inl hj))
  · intro k hk
    show (upd s.nodes i _ k).log = llog' (upd s.nodes i _ k).term
    by_cases hki : k = i
    · subst hki; simp [llog']
    · simp only [upd_other _ _ hki] at hk ⊢
      have hne : (s.nodes k).term ≠ t0 := by
        intro e'
        have a := h.ldr_role k hk
        rw [e'] at a
        exact hfresh k a
      rw [hsame _ hne]; exact h.ldr_log k hk
  · intro k
    show PrefixOK llog' (upd s.nodes i _ k).log
    by_cases hki : k = i
    · subst hki; simpa using pi
    · simp only [upd_other _ _ hki]; exact PrefixOK.of_llog_fresh hnone hsame (h.p_nodes k)
  · intro t
    show PrefixOK llog' (llog' t)
    by_cases ht : t = t0
    · subst ht; simpa [llog'] using pi
    · rw [hsame t ht]; exact PrefixOK.of_llog_fresh hnone hsame (h.p_llog t)
  · intro t src prev pt ents cm hm
    obtain ⟨h1, h2, h3, h4⟩ := h.ae_ok t src prev pt ents cm hm
    have ht : t ≠ t0 := by intro e'; subst e'; exact hfresh src h1
    show (s.isLdr t src ∨ _) ∧ prev ≤ (llog' t).length ∧ pt = termAt (llog' t) prev ∧ ents = ((llog' t).drop prev).take ents.length
    rw [hsame t ht]; exact ⟨Or.inl h1, h2, h3, h4⟩

theorem inv0_handleAE {s : Sys N} (h : Inv0 s) (j src : Fin N) (t prev pt : Nat) (ents : Log) (cm : Nat)
    (hm : s.msgs (.ae t src prev pt ents cm)) (ht : (s.nodes j).term = t)
    (hnl : (s.nodes j).role ≠ .leader)
    (hmatch : prev ≤ (s.nodes j).log.length ∧ termAt (s.nodes j).log prev = pt) :
    Inv0 (doHandleAE s j src t prev ents cm) := by
  unfold doHandleAE
  obtain ⟨a1, a2, a3, a4⟩ := h.ae_ok t src prev pt ents cm hm
  have hnew : PrefixOK s.llog (follAppend (s.nodes j).log prev ents) := by
    rw [a4]
    rcases follAppend_cases (h.p_nodes j) (h.p_llog t) hmatch.1 a2 (by rw [hmatch.2, a3]) with e | e
    · rw [e]; exact h.p_nodes j
    · rw [e]; exact (h.p_llog t).take _
  refine ⟨?_, ?_, ?_, h.votes_fun, h.ldr_quorum, ?_, ?_, h.llog_none, ?_, ?_, h.p_llog, ?_⟩
  · intro t' k c hv
    by_cases hki : k = j
    · subst hki; simpa using h.vote_durable t' k c hv
    · simp only [upd_other _ _ hki]; exact h.vote_durable t' k c hv
  · intro t' k c hm'
    rcases hm' with hm' | hm'
    · exact h.resp_voted _ _ _ hm'
    · cases hm'
  · intro k hk
    by_cases hki : k = j
    · subst hki; simp at hk
    · simp only [upd_other _ _ hki] at hk ⊢; exact h.cand_self k hk
  · intro k hk
    by_cases hki : k = j
    · subst hki; simp at hk
    · simp only [upd_other _ _ hki] at hk ⊢; exact h.ldr_role k hk
  · intro t' k hk
    by_cases hki : k = j
    · subst hki; simp; exact (h.ldr_term t' k hk).1
    · simp only [upd_other _ _ hki]; exact h.ldr_term t' k hk
  · intro k hk
    by_cases hki : k = j
    · subst hki; simp at hk
    · simp only [upd_other _ _ hki] at hk ⊢; exact h.ldr_log k hk
  · intro k
    by_cases hki : k = j
    · subst hki; simpa using hnew
    · simp only [upd_other _ _ hki]; exact h.p_nodes k
  · intro t' src' prev' pt' ents' cm' hm'
    rcases hm' with hm' | hm'
    · exact h.ae_ok _ _ _ _ _ _ hm'
    · cases hm'

/-- node j steps to follower (term, vote, log unchanged), messages gain nothing the invariant speaks about -/
theorem inv0_to_follower {s : Sys N} (h : Inv0 s) (j : Fin N) (x : NodeSt N)
    (hterm : x.term = (s.nodes j).term) (hvote : x.vote = (s.nodes j).vote) (hlog : x.log = (s.nodes j).log)
    (hrole : x.role = .follower ∨ x.role = (s.nodes j).role)
    (msgs' : Msg N → Prop) (hm1 : ∀ t a b, msgs' (.rvResp t a b true) → s.msgs (.rvResp t a b true))
    (hm2 : ∀ t src prev pt ents cm, msgs' (.ae t src prev pt ents cm) → s.msgs (.ae t src prev pt ents cm))
    (acks' : Nat → Fin N → Nat → Prop) (cmt' : Nat → Nat → Prop) :
    Inv0 { s with nodes := upd s.nodes j x, msgs := msgs', acks := acks', cmt := cmt' } := by
  have hT : ∀ k, (upd s.nodes j x k).term = (s.nodes k).term := by
    intro k; by_cases hk : k = j
    · subst hk; simp [hterm]
    · simp only [upd_other _ _ hk]
  have hV : ∀ k, (upd s.nodes j x k).vote = (s.nodes k).vote := by
    intro k; by_cases hk : k = j
    · subst hk; simp [hvote]
    · simp only [upd_other _ _ hk]
  have hL : ∀ k, (upd s.nodes j x k).log = (s.nodes k).log := by
    intro k; by_cases hk : k = j
    · subst hk; simp [hlog]
    · simp only [upd_other _ _ hk]
  have hR : ∀ k r, r ≠ .follower → (upd s.nodes j x k).role = r → (s.nodes k).role = r := by
    intro k r hr hk
    by_cases hkj : k = j
    · subst hkj
      simp only [upd_same] at hk
      rcases hrole with h1 | h1
      · rw [h1] at hk; exact absurd hk.symm hr
      · rw [← h1]; exact hk
    · simpa only [upd_other _ _ hkj] using hk
  refine ⟨?_, ?_, ?_, h.votes_fun, h.ldr_quorum, ?_, ?_, h.llog_none, ?_, ?_, h.p_llog, ?_⟩
  · intro t k c hv; rw [hT, hV]; exact h.vote_durable t k c hv
  · intro t a b hm; exact h.resp_voted t a b (hm1 t a b hm)
  · intro k hk
    rw [hT]
    cases hr : (upd s.nodes j x k).role with
    | follower => exact absurd hr hk
    | candidate => exact h.cand_self k (by rw [hR k .candidate (by simp) hr]; simp)
    | leader => exact h.cand_self k (by rw [hR k .leader (by simp) hr]; simp)
  · intro k hk
    rw [hT]; exact h.ldr_role k (hR k .leader (by simp) hk)
  · intro t k hk
    rw [hT]
    refine ⟨(h.ldr_term t k hk).1, fun e hc => ?_⟩
    exact (h.ldr_term t k hk).2 e (hR k .candidate (by simp) hc)
  · intro k hk
    rw [hL, hT]; exact h.ldr_log k (hR k .leader (by simp) hk)
  · intro k; rw [hL]; exact h.p_nodes k
  · intro t src prev pt ents cm hm; exact h.ae_ok t src prev pt ents cm (hm2 _ _ _ _ _ _ hm)

theorem inv0_ackCommitted {s : Sys N} (h : Inv0 s) (j src : Fin N) (t : Nat) : Inv0 (doAckCommitted s j src t) := by
  have := inv0_to_follower h j { (s.nodes j) with role := .follower } rfl rfl rfl (Or.inl rfl)
    (fun m => s.msgs m ∨ m = .aeResp t j src true (s.nodes j).commit)
    (by intro t' a b hm; rcases hm with hm | hm; exact hm; cases hm)
    (by intro t' a b c d e hm; rcases hm with hm | hm; exact hm; cases hm)
    (fun t' j' n => s.acks t' j' n ∨ (t' = t ∧ j' = j ∧ n = (s.nodes j).commit)) s.cmt
  simpa [doAckCommitted] using this

theorem inv0_sendHB {s : Sys N} (h : Inv0 s) (i dst : Fin N) (c : Nat) : Inv0 (doSendHB s i dst c) := by
  unfold doSendHB
  refine ⟨h.vote_durable, ?_, h.cand_self, h.votes_fun, h.ldr_quorum, h.ldr_role, h.ldr_term, h.llog_none,
    h.ldr_log, h.p_nodes, h.p_llog, ?_⟩
  · intro t j c' hm
    rcases hm with hm | hm
    · exact h.resp_voted t j c' hm
    · cases hm
  · intro t src prev pt ents cm hm
    rcases hm with hm | hm
    · exact h.ae_ok t src prev pt ents cm hm
    · cases hm

theorem inv0_handleHB {s : Sys N} (h : Inv0 s) (j : Fin N) (c : Nat) : Inv0 (doHandleHB s j c) := by
  have := inv0_to_follower h j { (s.nodes j) with role := .follower, commit := max (s.nodes j).commit c } rfl rfl rfl
    (Or.inl rfl) s.msgs (fun _ _ _ h => h) (fun _ _ _ _ _ _ h => h) s.acks s.cmt
  simpa [doHandleHB] using this

theorem inv0_step {s s' : Sys N} (h : Inv0 s) (st : Step s s') : Inv0 s' := by
  cases st with
  | timeout i hr => exact inv0_timeout h i hr
  | updateTerm i t ht => exact inv0_updateTerm h i t ht
  | grant j c t li lt hm ht hv hu => exact inv0_grant h j c t ht hv
  | becomeLeader i Q hq hc hQ => exact inv0_becomeLeader h i Q hq hc hQ
  | clientReq i v hl => exact inv0_clientReq h i v hl
  | sendAE i prev cnt hl hp => exact inv0_sendAE h i prev cnt hl hp
  | handleAE j src t prev pt ents cm hm ht hnl hmatch => exact inv0_handleAE h j src t prev pt ents cm hm ht hnl hmatch
  | advanceCommit i k Q hl hk hterm hq hQ => exact inv0_advanceCommit h i k
  | restart i => exact inv0_restart h i
  | ackCommitted j src t prev pt ents cm hm ht hnl hlt => exact inv0_ackCommitted h j src t
  | sendHB i dst c hl hc hack => exact inv0_sendHB h i dst c
  | handleHB j src t c hm ht hnl => exact inv0_handleHB h j c

/-! ## bookkeeping invariants -/
structure Inv1 (s : Sys N) : Prop where
  cand_pos  : ∀ i, (s.nodes i).role ≠ .follower → 1 ≤ (s.nodes i).term
  ldr_pos   : ∀ t i, s.isLdr t i → 1 ≤ t
  tm_node   : ∀ i k, 1 ≤ k → k ≤ (s.nodes i).log.length → termAt (s.nodes i).log k ≤ (s.nodes i).term
  tm_llog   : ∀ t k, 1 ≤ k → k ≤ (s.llog t).length → termAt (s.llog t) k ≤ t
  el        : ∀ t c, s.isLdr t c → s.elog t = s.clog t c ++ [⟨t, 0⟩] ∧ (s.elog t).length ≤ (s.llog t).length ∧
                (s.llog t).take (s.elog t).length = s.elog t ∧
                ∀ k, (s.elog t).length ≤ k → k ≤ (s.llog t).length → termAt (s.llog t) k = t
  cand_log  : ∀ i, (s.nodes i).role = .candidate → (s.nodes i).log = s.clog (s.nodes i).term i
  rv_ok     : ∀ t c li lt, s.msgs (.rv t c li lt) → li = (s.clog t c).length ∧ lt = lastTerm (s.clog t c) ∧ t ≤ (s.nodes c).term
  clog_tm   : ∀ t c k, 1 ≤ k → k ≤ (s.clog t c).length → termAt (s.clog t c) k < t
  clog_p    : ∀ t c, PrefixOK s.llog (s.clog t c)
  ack_ok    : ∀ t y n, s.acks t y n → n ≤ (s.llog t).length ∧ t ≤ (s.nodes y).term ∧ ∃ l, s.isLdr t l
  vote_cand : ∀ t y c, s.votes t y c → t ≤ (s.nodes c).term

theorem inv1_timeout {s : Sys N} (h0 : Inv0 s) (h : Inv1 s) (i : Fin N) : Inv1 (doTimeout s i) := by
  unfold doTimeout
  refine ⟨?_, h.ldr_pos, ?_, h.tm_llog, ?_, ?_, ?_, ?_, ?_, ?_, ?_⟩
  · intro k hk
    by_cases hki : k = i
    · subst hki; simp
    · simp only [upd_other _ _ hki] at hk ⊢; exact h.cand_pos k hk
  · intro k m h1 h2
    by_cases hki : k = i
    · subst hki; simp at h2 ⊢; have := h.tm_node k m h1 h2; omega
    · simp only [upd_other _ _ hki] at h2 ⊢; exact h.tm_node k m h1 h2
  · intro t c hl
    have hne : ¬ (t = (s.nodes i).term + 1 ∧ c = i) := by
      rintro ⟨rfl, rfl⟩
      have := (h0.ldr_term _ _ hl).1; omega
    simp only [hne, if_false]
    exact h.el t c hl
  · intro k hk
    by_cases hki : k = i
    · subst hki; simp
    · simp only [upd_other _ _ hki] at hk ⊢
      have hne : ¬ ((s.nodes k).term = (s.nodes i).term + 1 ∧ k = i) := fun e => hki e.2
      simp only [hne, if_false]
      exact h.cand_log k hk
  · intro t c li lt hm
    rcases hm with hm | hm
    · obtain ⟨a, b, c'⟩ := h.rv_ok t c li lt hm
      have hne : ¬ (t = (s.nodes i).term + 1 ∧ c = i) := by
        rintro ⟨rfl, rfl⟩; omega
      simp only [hne, if_false]
      refine ⟨a, b, ?_⟩
      by_cases hci : c = i
      · subst hci; simp; omega
      · simp only [upd_other _ _ hci]; exact c'
    · cases hm; simp
  · intro t c k h1 h2
    by_cases he : t = (s.nodes i).term + 1 ∧ c = i
    · obtain ⟨rfl, rfl⟩ := he
      simp only [and_self, if_true] at h2 ⊢
      have := h.tm_node c k h1 h2; omega
    · simp only [he, if_false] at h2 ⊢; exact h.clog_tm t c k h1 h2
  · intro t c
    by_cases he : t = (s.nodes i).term + 1 ∧ c = i
    · obtain ⟨rfl, rfl⟩ := he
      simp only [and_self, if_true]; exact h0.p_nodes c
    · simp only [he, if_false]; exact h.clog_p t c
  · intro t y n ha
    obtain ⟨a, b, c⟩ := h.ack_ok t y n ha
    refine ⟨a, ?_, c⟩
    by_cases hyi : y = i
    · subst hyi; simp; omega
    · simp only [upd_other _ _ hyi]; exact b
  · intro t y c hv
    rcases hv with hv | ⟨rfl, rfl, rfl⟩
    · have := h.vote_cand t y c hv
      by_cases hci : c = i
      · subst hci; simp; omega
      · simp only [upd_other _ _ hci]; exact this
    · simp

theorem inv1_updateTerm {s : Sys N} (h : Inv1 s) (i : Fin N) (t : Nat) (ht : (s.nodes i).term < t) :
    Inv1 (doUpdateTerm s i t) := by
  unfold doUpdateTerm
  refine ⟨?_, h.ldr_pos, ?_, h.tm_llog, h.el, ?_, ?_, h.clog_tm, h.clog_p, ?_, ?_⟩
  · intro k hk
    by_cases hki : k = i
    · subst hki; simp at hk
    · simp only [upd_other _ _ hki] at hk ⊢; exact h.cand_pos k hk
  · intro k m h1 h2
    by_cases hki : k = i
    · subst hki; simp at h2 ⊢; have := h.tm_node k m h1 h2; omega
    · simp only [upd_other _ _ hki] at h2 ⊢; exact h.tm_node k m h1 h2
  · intro k hk
    by_cases hki : k = i
    · subst hki; simp at hk
    · simp only [upd_other _ _ hki] at hk ⊢; exact h.cand_log k hk
  · intro t' c li lt hm
    obtain ⟨a, b, c'⟩ := h.rv_ok t' c li lt hm
    refine ⟨a, b, ?_⟩
    by_cases hci : c = i
    · subst hci; simp; omega
    · simp only [upd_other _ _ hci]; exact c'
  · intro t' y n ha
    obtain ⟨a, b, c⟩ := h.ack_ok t' y n ha
    refine ⟨a, ?_, c⟩
    by_cases hyi : y = i
    · subst hyi; simp; omega
    · simp only [upd_other _ _ hyi]; exact b
  · intro t' y c hv
    have := h.vote_cand t' y c hv
    by_cases hci : c = i
    · subst hci; simp; omega
    · simp only [upd_other _ _ hci]; exact this

/-- a step that changes at node i only fields other than term and log, keeps role unless to follower -/
theorem inv1_of_same {s : Sys N} (h : Inv1 s) (i : Fin N) (x : NodeSt N)
    (hterm : x.term = (s.nodes i).term) (hlog : x.log = (s.nodes i).log)
    (hrole : x.role = (s.nodes i).role ∨ x.role = .follower)
    (msgs' : Msg N → Prop) (hmsgs : ∀ t c li lt, msgs' (.rv t c li lt) → s.msgs (.rv t c li lt))
    (votes' : Nat → Fin N → Fin N → Prop) (hvotes : ∀ t y c, votes' t y c → t ≤ (s.nodes c).term)
    (cmt' : Nat → Nat → Prop) :
    Inv1 { s with nodes := upd s.nodes i x, msgs := msgs', votes := votes', cmt := cmt' } := by
  have hT : ∀ k, (upd s.nodes i x k).term = (s.nodes k).term := by
    intro k; by_cases hki : k = i
    · subst hki; simp [hterm]
    · simp only [upd_other _ _ hki]
  have hL : ∀ k, (upd s.nodes i x k).log = (s.nodes k).log := by
    intro k; by_cases hki : k = i
    · subst hki; simp [hlog]
    · simp only [upd_other _ _ hki]
  refine ⟨?_, h.ldr_pos, ?_, h.tm_llog, h.el, ?_, ?_, h.clog_tm, h.clog_p, ?_, ?_⟩
  · intro k hk
    rw [hT]
    by_cases hki : k = i
    · subst hki
      simp only [upd_same] at hk
      rcases hrole with hr | hr
      · exact h.cand_pos k (by rw [← hr]; exact hk)
      · exact absurd hr hk
    · simp only [upd_other _ _ hki] at hk; exact h.cand_pos k hk
  · intro k m h1 h2
    rw [hL] at h2 ⊢; rw [hT]; exact h.tm_node k m h1 h2
  · intro k hk
    rw [hL, hT]
    by_cases hki : k = i
    · subst hki
      simp only [upd_same] at hk
      rcases hrole with hr | hr
      · exact h.cand_log k (by rw [← hr]; exact hk)
      · rw [hr] at hk; cases hk
    · simp only [upd_other _ _ hki] at hk; exact h.cand_log k hk
  · intro t c li lt hm
    obtain ⟨a, b, c'⟩ := h.rv_ok t c li lt (hmsgs _ _ _ _ hm)
    exact ⟨a, b, by rw [hT]; exact c'⟩
  · intro t y n ha
    obtain ⟨a, b, c⟩ := h.ack_ok t y n ha
    exact ⟨a, by rw [hT]; exact b, c⟩
  · intro t y c hv
    rw [hT]; exact hvotes t y c hv

theorem inv1_restart {s : Sys N} (h : Inv1 s) (i : Fin N) : Inv1 (doRestart s i) := by
  have := inv1_of_same h i { (s.nodes i) with role := .follower } rfl rfl (Or.inr rfl) s.msgs (fun _ _ _ _ h => h)
    s.votes h.vote_cand s.cmt
  simpa [doRestart] using this

theorem inv1_advanceCommit {s : Sys N} (h : Inv1 s) (i : Fin N) (k : Nat) : Inv1 (doAdvanceCommit s i k) := by
  have := inv1_of_same h i { (s.nodes i) with commit := k } rfl rfl (Or.inl rfl) s.msgs (fun _ _ _ _ h => h)
    s.votes h.vote_cand (fun k' t => s.cmt k' t ∨ (k' = k ∧ t = (s.nodes i).term))
  simpa [doAdvanceCommit] using this

theorem inv1_grant {s : Sys N} (h : Inv1 s) (j c : Fin N) (t li lt : Nat) (hm : s.msgs (.rv t c li lt)) :
    Inv1 (doGrant s j c t) := by
  have := inv1_of_same h j { (s.nodes j) with vote := some c } rfl rfl (Or.inl rfl)
    (fun m => s.msgs m ∨ m = .rvResp t j c true)
    (by intro t' c' li' lt' hm'; rcases hm' with hm' | hm'; exact hm'; cases hm')
    (fun t' j' c' => s.votes t' j' c' ∨ (t' = t ∧ j' = j ∧ c' = c))
    (by
      intro t' y c' hv
      rcases hv with hv | ⟨rfl, rfl, rfl⟩
      · exact h.vote_cand _ _ _ hv
      · exact (h.rv_ok _ _ _ _ hm).2.2)
    s.cmt
  simpa [doGrant] using this

theorem inv1_sendAE {s : Sys N} (h : Inv1 s) (i : Fin N) (prev cnt : Nat) : Inv1 (doSendAE s i prev cnt) := by
  unfold doSendAE
  refine ⟨h.cand_pos, h.ldr_pos, h.tm_node, h.tm_llog, h.el, h.cand_log, ?_, h.clog_tm, h.clog_p, h.ack_ok, h.vote_cand⟩
  intro t c li lt hm
  rcases hm with hm | hm
  · exact h.rv_ok t c li lt hm
  · cases hm

theorem inv1_becomeLeader {s : Sys N} (h0 : Inv0 s) (h : Inv1 s) (i : Fin N) (Q : Finset (Fin N)) (hq : ElectOK s i Q)
    (hc : (s.nodes i).role = .candidate)
    (hQ : ∀ j ∈ Q, j = i ∨ s.msgs (.rvResp (s.nodes i).term j i true)) : Inv1 (doBecomeLeader s i Q) := by
  obtain ⟨hQv, hfresh⟩ := fresh_term h0 i Q hq hc hQ
  simp only [doBecomeLeader]
  set t0 := (s.nodes i).term with ht0
  set e : Entry := ⟨t0, 0⟩ with he
  have hnone : s.llog t0 = [] := h0.llog_none t0 hfresh
  have hpos : 1 ≤ t0 := h.cand_pos i (by rw [hc]; simp)
  let llog' : Nat → Log := fun t => if t = t0 then (s.nodes i).log ++ [e] else s.llog t
  have hsame : ∀ t, t ≠ t0 → llog' t = s.llog t := by intro t ht; simp [llog', ht]
  have hT : ∀ k, (upd s.nodes i { (s.nodes i) with role := Role.leader, log := (s.nodes i).log ++ [e] } k).term = (s.nodes k).term := by
    intro k; by_cases hki : k = i
    · subst hki; simp
    · simp only [upd_other _ _ hki]
  refine ⟨?_, ?_, ?_, ?_, ?_, ?_, ?_, h.clog_tm, ?_, ?_, ?_⟩
  · intro k hk
    rw [hT]
    by_cases hki : k = i
    · subst hki; exact hpos
    · simp only [upd_other _ _ hki] at hk; exact h.cand_pos k hk
  · intro t k hk
    rcases hk with hk | ⟨rfl, _⟩
    · exact h.ldr_pos t k hk
    · exact hpos
  · intro k m h1 h2
    rw [hT]
    by_cases hki : k = i
    · subst hki
      simp only [upd_same] at h2 ⊢
      exact termAt_snoc_le _ e _ (h.tm_node k) (Nat.le_refl _) m h1 h2
    · simp only [upd_other _ _ hki] at h2 ⊢; exact h.tm_node k m h1 h2
  · intro t k h1 h2
    show termAt (llog' t) k ≤ t
    have h2' : k ≤ (llog' t).length := h2
    by_cases ht : t = t0
    · subst ht
      simp only [llog', if_true] at h2' ⊢
      exact termAt_snoc_le _ e _ (h.tm_node i) (Nat.le_refl _) k h1 h2'
    · rw [hsame t ht] at h2' ⊢; exact h.tm_llog t k h1 h2'
  · intro t c hl
    let elog' : Nat → Log := fun t => if t = t0 then (s.nodes i).log ++ [e] else s.elog t
    show elog' t = s.clog t c ++ [⟨t, 0⟩] ∧ (elog' t).length ≤ (llog' t).length ∧
      (llog' t).take (elog' t).length = elog' t ∧
      ∀ k, (elog' t).length ≤ k → k ≤ (llog' t).length → termAt (llog' t) k = t
    by_cases ht : t = t0
    · subst ht
      have hci : c = i := by
        rcases hl with hl | ⟨_, rfl⟩
        · exact absurd hl (hfresh c)
        · rfl
      subst hci
      simp only [if_true, llog', elog']
      refine ⟨by rw [h.cand_log c hc], Nat.le_refl _, by simp, ?_⟩
      intro k hk1 hk2
      have : k = (s.nodes c).log.length + 1 := by simp at hk1 hk2; omega
      subst this; rw [termAt_append_last]
    · have he' : elog' t = s.elog t := by simp [elog', ht]
      rw [he', hsame t ht]
      rcases hl with hl | ⟨rfl, _⟩
      · exact h.el t c hl
      · exact absurd rfl ht
  · intro k hk
    by_cases hki : k = i
    · subst hki; simp at hk
    · simp only [upd_other _ _ hki] at hk ⊢; exact h.cand_log k hk
  · intro t c li lt hm
    obtain ⟨a, b, c'⟩ := h.rv_ok t c li lt hm
    exact ⟨a, b, by rw [hT]; exact c'⟩
  · intro t c
    exact PrefixOK.of_llog_fresh hnone hsame (h.clog_p t c)
  · intro t y n ha
    show n ≤ (llog' t).length ∧ t ≤ _ ∧ ∃ l, _
    rw [hT]
    rcases ha with ha | ⟨rfl, rfl, rfl⟩
    · obtain ⟨a, b, l, c⟩ := h.ack_ok t y n ha
      have ht : t ≠ t0 := by intro e'; subst e'; exact hfresh l c
      rw [hsame t ht]
      exact ⟨a, b, l, Or.inl c⟩
    · simp only [llog', if_true]
      exact ⟨Nat.le_refl _, Nat.le_refl _, y, Or.inr (by simp)⟩
  · intro t y c hv
    rw [hT]; exact h.vote_cand t y c hv

theorem inv1_clientReq {s : Sys N} (h0 : Inv0 s) (h : Inv1 s) (i : Fin N) (v : Nat) (hl : (s.nodes i).role = .leader) :
    Inv1 (doClientReq s i v) := by
  simp only [doClientReq]
  set t0 := (s.nodes i).term with ht0
  set e : Entry := ⟨t0, v⟩ with he
  have hlog : (s.nodes i).log = s.llog t0 := h0.ldr_log i hl
  let llog' : Nat → Log := fun t => if t = t0 then (s.nodes i).log ++ [e] else s.llog t
  have happ : llog' t0 = s.llog t0 ++ [e] := by simp [llog', hlog]
  have hsame : ∀ t, t ≠ t0 → llog' t = s.llog t := by intro t ht; simp [llog', ht]
  have hT : ∀ k, (upd s.nodes i { (s.nodes i) with log := (s.nodes i).log ++ [e] } k).term = (s.nodes k).term := by
    intro k; by_cases hki : k = i
    · subst hki; simp
    · simp only [upd_other _ _ hki]
  refine ⟨?_, h.ldr_pos, ?_, ?_, ?_, ?_, ?_, h.clog_tm, ?_, ?_, ?_⟩
  · intro k hk
    rw [hT]
    by_cases hki : k = i
    · subst hki; simp only [upd_same] at hk; exact h.cand_pos k hk
    · simp only [upd_other _ _ hki] at hk; exact h.cand_pos k hk
  · intro k m h1 h2
    rw [hT]
    by_cases hki : k = i
    · subst hki
      simp only [upd_same] at h2 ⊢
      exact termAt_snoc_le _ e _ (h.tm_node k) (Nat.le_refl _) m h1 h2
    · simp only [upd_other _ _ hki] at h2 ⊢; exact h.tm_node k m h1 h2
  · intro t k h1 h2
    show termAt (llog' t) k ≤ t
    have h2' : k ≤ (llog' t).length := h2
    by_cases ht : t = t0
    · subst ht
      simp only [llog', if_true] at h2' ⊢
      exact termAt_snoc_le _ e _ (h.tm_node i) (Nat.le_refl _) k h1 h2'
    · rw [hsame t ht] at h2' ⊢; exact h.tm_llog t k h1 h2'
  · intro t c hld
    show s.elog t = s.clog t c ++ [⟨t, 0⟩] ∧ (s.elog t).length ≤ (llog' t).length ∧ (llog' t).take (s.elog t).length = s.elog t ∧
      ∀ k, (s.elog t).length ≤ k → k ≤ (llog' t).length → termAt (llog' t) k = t
    obtain ⟨a, b, c', d⟩ := h.el t c hld
    by_cases ht : t = t0
    · subst ht
      rw [happ]
      refine ⟨a, by simp; omega, by rw [List.take_append_of_le_length b]; exact c', ?_⟩
      intro k hk1 hk2
      by_cases hk : k ≤ (s.llog t0).length
      · rw [termAt_append_le _ _ hk]; exact d k hk1 hk
      · have : k = (s.llog t0).length + 1 := by simp at hk2; omega
        subst this; rw [termAt_append_last]
    · rw [hsame t ht]; exact ⟨a, b, c', d⟩
  · intro k hk
    by_cases hki : k = i
    · subst hki; simp only [upd_same] at hk; rw [hl] at hk; cases hk
    · simp only [upd_other _ _ hki] at hk ⊢; exact h.cand_log k hk
  · intro t c li lt hm
    obtain ⟨a, b, c'⟩ := h.rv_ok t c li lt hm
    exact ⟨a, b, by rw [hT]; exact c'⟩
  · intro t c
    exact PrefixOK.of_llog_append happ hsame (h.clog_p t c)
  · intro t y n ha
    show n ≤ (llog' t).length ∧ t ≤ _ ∧ ∃ l, _
    rw [hT]
    rcases ha with ha | ⟨rfl, rfl, rfl⟩
    · obtain ⟨a, b, c⟩ := h.ack_ok t y n ha
      refine ⟨?_, b, c⟩
      by_cases ht : t = t0
      · subst ht; rw [happ]; simp; omega
      · rw [hsame t ht]; exact a
    · simp only [llog', if_true]
      exact ⟨Nat.le_refl _, Nat.le_refl _, y, h0.ldr_role y hl⟩
  · intro t y c hv
    rw [hT]; exact h.vote_cand t y c hv

theorem inv1_handleAE {s : Sys N} (h0 : Inv0 s) (h : Inv1 s) (j src : Fin N) (t prev pt : Nat) (ents : Log) (cm : Nat)
    (hm : s.msgs (.ae t src prev pt ents cm)) (ht : (s.nodes j).term = t)
    (hnl : (s.nodes j).role ≠ .leader)
    (hmatch : prev ≤ (s.nodes j).log.length ∧ termAt (s.nodes j).log prev = pt) :
    Inv1 (doHandleAE s j src t prev ents cm) := by
  unfold doHandleAE
  obtain ⟨a1, a2, a3, a4⟩ := h0.ae_ok t src prev pt ents cm hm
  have hlen := ents_len_le a2 a4
  have hT : ∀ k, (upd s.nodes j ⟨(s.nodes j).term, (s.nodes j).vote, .follower, follAppend (s.nodes j).log prev ents,
      max (s.nodes j).commit (min cm (prev + ents.length))⟩ k).term = (s.nodes k).term := by
    intro k; by_cases hki : k = j
    · subst hki; simp
    · simp only [upd_other _ _ hki]
  refine ⟨?_, h.ldr_pos, ?_, h.tm_llog, h.el, ?_, ?_, h.clog_tm, h.clog_p, ?_, ?_⟩
  · intro k hk
    rw [hT]
    by_cases hki : k = j
    · subst hki; simp at hk
    · simp only [upd_other _ _ hki] at hk; exact h.cand_pos k hk
  · intro k m h1 h2
    rw [hT]
    by_cases hki : k = j
    · subst hki
      simp only [upd_same] at h2 ⊢
      rw [a4] at h2 ⊢
      rcases follAppend_cases (h0.p_nodes k) (h0.p_llog t) hmatch.1 a2 (by rw [hmatch.2, a3]) with e | e
      · rw [e] at h2 ⊢; exact h.tm_node k m h1 h2
      · rw [e] at h2 ⊢
        have hm1 : m ≤ prev + ents.length := by
          have := List.length_take_le (prev + ents.length) (s.llog t); omega
        have hm2 : m ≤ (s.llog t).length := by
          have := List.length_take_le' (prev + ents.length) (s.llog t); omega
        rw [termAt_take _ hm1, ht]
        exact h.tm_llog t m h1 hm2
    · simp only [upd_other _ _ hki] at h2 ⊢; exact h.tm_node k m h1 h2
  · intro k hk
    by_cases hki : k = j
    · subst hki; simp at hk
    · simp only [upd_other _ _ hki] at hk ⊢; exact h.cand_log k hk
  · intro t' c li lt hm'
    rcases hm' with hm' | hm'
    · obtain ⟨a, b, c'⟩ := h.rv_ok t' c li lt hm'
      exact ⟨a, b, by rw [hT]; exact c'⟩
    · cases hm'
  · intro t' y n ha
    rw [hT]
    rcases ha with ha | ⟨rfl, rfl, rfl⟩
    · exact h.ack_ok t' y n ha
    · exact ⟨hlen, by omega, src, a1⟩
  · intro t' y c hv
    rw [hT]; exact h.vote_cand t' y c hv


/-! ## leader completeness: Good / Bad, and the invariants AL, AV, EQ -/

structure Inv2 (s : Sys N) : Prop where
  al : ∀ t y n k, s.acks t y n → 1 ≤ k → k ≤ n → termAt (s.llog t) k = t →
         Good s.llog (s.nodes y).log t k ∨ Bad s.llog s.elog s.isLdr t k (s.nodes y).term
  av : ∀ t' y c t n k, s.votes t' y c → s.acks t y n → t < t' → 1 ≤ k → k ≤ n → termAt (s.llog t) k = t →
         Good s.llog (s.clog t' c) t k ∨ Bad s.llog s.elog s.isLdr t k t'
  eq : ∀ t' c, s.isLdr t' c → ∀ y ∈ s.equo t', ∀ t n k, s.acks t y n → t < t' → 1 ≤ k → k ≤ n →
         termAt (s.llog t) k = t → Good s.llog (s.elog t') t k ∨ Bad s.llog s.elog s.isLdr t k (t' - 1)

/-- frame lemma: nothing about logs, ghosts or acks changes; terms only grow; no new votes -/
theorem inv2_frame {s : Sys N} (h : Inv2 s) (nodes' : Fin N → NodeSt N) (msgs' : Msg N → Prop) (cmt' : Nat → Nat → Prop)
    (hlog : ∀ y, (nodes' y).log = (s.nodes y).log) (hterm : ∀ y, (s.nodes y).term ≤ (nodes' y).term) :
    Inv2 { s with nodes := nodes', msgs := msgs', cmt := cmt' } := by
  refine ⟨?_, h.av, h.eq⟩
  intro t y n k ha h1 h2 h3
  show Good s.llog (nodes' y).log t k ∨ Bad s.llog s.elog s.isLdr t k (nodes' y).term
  rw [hlog]
  rcases h.al t y n k ha h1 h2 h3 with g | b
  · exact Or.inl g
  · exact Or.inr (b.mono_hi (hterm y))

theorem inv2_updateTerm {s : Sys N} (h : Inv2 s) (i : Fin N) (t : Nat) (ht : (s.nodes i).term < t) :
    Inv2 (doUpdateTerm s i t) := by
  have := inv2_frame h (upd s.nodes i { (s.nodes i) with term := t, vote := none, role := .follower }) s.msgs s.cmt
    (by intro y; by_cases hy : y = i
        · subst hy; simp
        · simp only [upd_other _ _ hy])
    (by intro y; by_cases hy : y = i
        · subst hy; simp; omega
        · simp only [upd_other _ _ hy]; exact Nat.le_refl _)
  simpa [doUpdateTerm] using this

theorem inv2_restart {s : Sys N} (h : Inv2 s) (i : Fin N) : Inv2 (doRestart s i) := by
  have := inv2_frame h (upd s.nodes i { (s.nodes i) with role := .follower }) s.msgs s.cmt
    (by intro y; by_cases hy : y = i
        · subst hy; simp
        · simp only [upd_other _ _ hy])
    (by intro y; by_cases hy : y = i
        · subst hy; simp
        · simp only [upd_other _ _ hy]; exact Nat.le_refl _)
  simpa [doRestart] using this

theorem inv2_sendAE {s : Sys N} (h : Inv2 s) (i : Fin N) (prev cnt : Nat) : Inv2 (doSendAE s i prev cnt) := by
  have := inv2_frame h s.nodes (fun m => s.msgs m ∨
      m = .ae (s.nodes i).term i prev (termAt (s.nodes i).log prev) (((s.nodes i).log.drop prev).take cnt) (s.nodes i).commit)
    s.cmt (fun _ => rfl) (fun _ => Nat.le_refl _)
  simpa [doSendAE] using this

theorem inv2_advanceCommit {s : Sys N} (h : Inv2 s) (i : Fin N) (k : Nat) : Inv2 (doAdvanceCommit s i k) := by
  have := inv2_frame h (upd s.nodes i { (s.nodes i) with commit := k }) s.msgs
    (fun k' t => s.cmt k' t ∨ (k' = k ∧ t = (s.nodes i).term))
    (by intro y; by_cases hy : y = i
        · subst hy; simp
        · simp only [upd_other _ _ hy])
    (by intro y; by_cases hy : y = i
        · subst hy; simp
        · simp only [upd_other _ _ hy]; exact Nat.le_refl _)
  simpa [doAdvanceCommit] using this

/-- the heart of leader completeness, per vote: if the voter's log is Good for (t,k) and the candidate's log C is
    at least as up-to-date, then C is Good for (t,k) or some leader of a term in (t, t') was elected without it -/
theorem vote_fact {s : Sys N} (h0 : Inv0 s) (h1 : Inv1 s) {t t' k : Nat} {Y C : Log}
    (hY : PrefixOK s.llog Y) (hC : PrefixOK s.llog C)
    (hk1 : 1 ≤ k) (ht1 : 1 ≤ t) (hkt : termAt (s.llog t) k = t)
    (hYg : Good s.llog Y t k)
    (hup : upToDate (lastTerm C) C.length Y)
    (hCtm : ∀ m, 1 ≤ m → m ≤ C.length → termAt C m < t') :
    Good s.llog C t k ∨ Bad s.llog s.elog s.isLdr t k (t' - 1) := by
  obtain ⟨hkY, hYk⟩ := hYg
  have hYt : termAt Y k = t := by rw [termAt_of_take_eq hYk, hkt]
  have hlastY : t ≤ lastTerm Y := by
    have := terms_mono h1.tm_llog hY hk1 hkY (Nat.le_refl _)
    unfold lastTerm; omega
  have hτ : t ≤ lastTerm C := by
    rcases hup with h | ⟨h, _⟩ <;> omega
  have hCne : 1 ≤ C.length := by
    by_contra hc
    have : C = [] := by
      cases C with
      | nil => rfl
      | cons a b => simp at hc
    rw [this, lastTerm_nil] at hτ; omega
  have hCp := hC C.length hCne (Nat.le_refl _)
  rw [List.take_length] at hCp
  by_cases hτt : lastTerm C = t
  · -- same last term: C is a prefix of llog t at least as long as Y
    left
    have hlen : Y.length ≤ C.length := by
      rcases hup with h | ⟨_, h⟩
      · have : lastTerm Y < lastTerm C := h
        omega
      · exact h
    have hkC : k ≤ C.length := by omega
    refine ⟨hkC, ?_⟩
    have : termAt C C.length = t := hτt
    rw [this] at hCp
    rw [hCp, List.take_take, Nat.min_eq_left hkC]
  · -- later last term τ: C is a prefix of llog τ reaching into τ's own entries
    have hτgt : t < lastTerm C := by
      have hb : lastTerm C = termAt C C.length := rfl
      omega
    set τ := lastTerm C with hτdef
    have hτC : termAt C C.length = τ := rfl
    rw [hτC] at hCp
    have hLlen : C.length ≤ (s.llog τ).length := by
      have := congrArg List.length hCp
      simp [List.length_take] at this; omega
    have hldr : ∃ i, s.isLdr τ i := by
      by_contra hno
      have := h0.llog_none τ (fun i hi => hno ⟨i, hi⟩)
      rw [this, List.length_nil] at hLlen; omega
    obtain ⟨c, hc⟩ := hldr
    obtain ⟨e1, e2, e3, e4⟩ := h1.el τ c hc
    have hElen : (s.elog τ).length ≤ C.length := by
      by_contra hlt
      have hlt' : C.length < (s.elog τ).length := by omega
      have hcl : C.length ≤ (s.clog τ c).length := by
        rw [e1] at hlt'; simp at hlt'; omega
      have a1 : termAt C C.length = termAt (s.llog τ) C.length := by
        apply termAt_of_take_eq
        rw [List.take_length]; exact hCp
      have a2 : termAt (s.llog τ) C.length = termAt (s.elog τ) C.length := by
        rw [← e3]; exact (termAt_take _ (by omega)).symm
      have a3 : termAt (s.elog τ) C.length = termAt (s.clog τ c) C.length := by
        rw [e1]; exact termAt_append_le _ _ hcl
      have := h1.clog_tm τ c C.length hCne hcl
      rw [← a3, ← a2, ← a1, hτC] at this; omega
    have hEC : s.elog τ = C.take (s.elog τ).length := by
      rw [hCp, List.take_take, Nat.min_eq_left hElen, e3]
    by_cases hg : Good s.llog (s.elog τ) t k
    · left
      obtain ⟨g1, g2⟩ := hg
      refine ⟨by omega, ?_⟩
      calc C.take k = (C.take (s.elog τ).length).take k := by rw [List.take_take, Nat.min_eq_left g1]
        _ = (s.elog τ).take k := by rw [← hEC]
        _ = _ := g2
    · right
      have hlt : τ < t' := hCtm C.length hCne (Nat.le_refl _)
      exact ⟨τ, hτgt, by omega, ⟨c, hc⟩, hg⟩

theorem inv2_timeout {s : Sys N} (h0 : Inv0 s) (h1 : Inv1 s) (h : Inv2 s) (i : Fin N) : Inv2 (doTimeout s i) := by
  unfold doTimeout
  refine ⟨?_, ?_, ?_⟩
  · intro t y n k ha hk1 hk2 hk3
    show Good s.llog (upd s.nodes i _ y).log t k ∨ Bad s.llog s.elog s.isLdr t k (upd s.nodes i _ y).term
    rcases h.al t y n k ha hk1 hk2 hk3 with g | b
    · left
      by_cases hy : y = i
      · subst hy; simpa using g
      · simp only [upd_other _ _ hy]; exact g
    · right
      by_cases hy : y = i
      · subst hy; simp; exact b.mono_hi (by omega)
      · simp only [upd_other _ _ hy]; exact b
  · intro t' y c t n k hv ha htt hk1 hk2 hk3
    show Good s.llog (if t' = (s.nodes i).term + 1 ∧ c = i then (s.nodes i).log else s.clog t' c) t k ∨ _
    rcases hv with hv | ⟨e1, e2, e3⟩
    · have hne : ¬ (t' = (s.nodes i).term + 1 ∧ c = i) := by
        rintro ⟨rfl, rfl⟩
        have := h1.vote_cand _ _ _ hv; omega
      simp only [hne, if_false]
      exact h.av t' y c t n k hv ha htt hk1 hk2 hk3
    · have hc : (t' = (s.nodes i).term + 1 ∧ c = i) := ⟨e1, e3⟩
      simp only [hc, and_self, if_true]
      rw [e2] at ha
      rcases h.al t i n k ha hk1 hk2 hk3 with g | b
      · exact Or.inl g
      · exact Or.inr (b.mono_hi (by omega))
  · exact h.eq

theorem inv2_grant {s : Sys N} (h0 : Inv0 s) (h1 : Inv1 s) (h : Inv2 s) (j c : Fin N) (t' li lt : Nat)
    (hm : s.msgs (.rv t' c li lt)) (ht : (s.nodes j).term = t') (hu : upToDate lt li (s.nodes j).log) :
    Inv2 (doGrant s j c t') := by
  unfold doGrant
  refine ⟨?_, ?_, h.eq⟩
  · intro t y n k ha hk1 hk2 hk3
    show Good s.llog (upd s.nodes j _ y).log t k ∨ Bad s.llog s.elog s.isLdr t k (upd s.nodes j _ y).term
    have hlog : (upd s.nodes j { (s.nodes j) with vote := some c } y).log = (s.nodes y).log := by
      by_cases hy : y = j
      · subst hy; simp
      · simp only [upd_other _ _ hy]
    have hterm : (upd s.nodes j { (s.nodes j) with vote := some c } y).term = (s.nodes y).term := by
      by_cases hy : y = j
      · subst hy; simp
      · simp only [upd_other _ _ hy]
    rw [hlog, hterm]; exact h.al t y n k ha hk1 hk2 hk3
  · intro t'' y c' t n k hv ha htt hk1 hk2 hk3
    rcases hv with hv | ⟨rfl, rfl, rfl⟩
    · exact h.av t'' y c' t n k hv ha htt hk1 hk2 hk3
    · -- the new vote
      obtain ⟨r1, r2, _⟩ := h1.rv_ok _ _ _ _ hm
      obtain ⟨_, _, l, hl⟩ := h1.ack_ok t y n ha
      have ht1 : 1 ≤ t := h1.ldr_pos t l hl
      rcases h.al t y n k ha hk1 hk2 hk3 with g | b
      · have hup : upToDate (lastTerm (s.clog t'' c')) (s.clog t'' c').length (s.nodes y).log := by
          rw [← r1, ← r2]; exact hu
        rcases vote_fact h0 h1 (h0.p_nodes y) (h1.clog_p t'' c') hk1 ht1 hk3 g hup (h1.clog_tm t'' c') with g' | b'
        · exact Or.inl g'
        · exact Or.inr (b'.mono_hi (by omega))
      · right; rw [ht] at b; exact b

end RSQ
