import RedisGoModel.Raft.RS2
/-! Prototype for C07: the order in which entries become committed respects real time. If an entry is already
    committed when a leader appends a new proposal, and that proposal is ever committed, it sits at a strictly larger
    index. Together with "applied exactly once, in index order" (Apply.lean) this is what makes the log order a
    linearization of the client operations (an operation is proposed after it is invoked and acknowledged after it is
    applied). Proved for the abstract protocol L0, every cluster size, every schedule. -/
namespace RS
variable {N : Nat}

inductive Steps : Sys N → Sys N → Prop
| refl (s) : Steps s s
| tail {a b c} : Steps a b → Step b c → Steps a c

theorem reach_steps {a b : Sys N} (r : Reach a) (st : Steps a b) : Reach b := by
  induction st with
  | refl => exact r
  | tail _ s ih => exact .step ih s

/-- the log of a term's leader only grows -/
theorem llog_prefix_step {s s' : Sys N} (h0 : Inv0 s) (st : Step s s') (t : Nat) : s.llog t <+: s'.llog t := by
  cases st with
  | becomeLeader i Q hq hc hQ =>
    simp only [doBecomeLeader]
    split
    · rename_i he
      obtain ⟨_, hno⟩ := fresh_term h0 i Q hq hc hQ
      rw [he, h0.llog_none _ hno]
      exact List.nil_prefix
    · exact List.prefix_refl _
  | clientReq i v hl =>
    simp only [doClientReq]
    split
    · rename_i he
      rw [he, ← h0.ldr_log i hl]
      exact List.prefix_append _ _
    · exact List.prefix_refl _
  | _ => exact List.prefix_refl _

theorem cmt_mono_step {s s' : Sys N} (st : Step s s') {k t : Nat} (c : s.cmt k t) : s'.cmt k t := by
  cases st with
  | advanceCommit i k' Q hl hk hterm hq hQ => exact Or.inl c
  | _ => exact c

theorem llog_prefix_steps {s s' : Sys N} (r : Reach s) (st : Steps s s') (t : Nat) : s.llog t <+: s'.llog t := by
  induction st with
  | refl => exact List.prefix_refl _
  | tail sts st ih => exact List.IsPrefix.trans ih (llog_prefix_step (reach_inv (reach_steps r sts)).1 st t)

theorem cmt_mono_steps {s s' : Sys N} (st : Steps s s') {k t : Nat} (c : s.cmt k t) : s'.cmt k t := by
  induction st with
  | refl => exact c
  | tail _ st ih => exact cmt_mono_step st ih

theorem termAt_prefix {l l' : Log} (h : l <+: l') {k : Nat} (hk : k ≤ l.length) : termAt l' k = termAt l k := by
  obtain ⟨r, rfl⟩ := h
  cases k with
  | zero => rfl
  | succ k =>
    simp only [termAt]
    rw [List.getElem?_append_left (by omega)]

/-- committed prefixes agree, whichever term marked them -/
theorem committed_agree' {s : Sys N} (r : Reach s) {k1 t1 k2 t2 m : Nat} (c1 : s.cmt k1 t1) (c2 : s.cmt k2 t2)
    (hm1 : m ≤ k1) (hm2 : m ≤ k2) : (s.llog t2).take m = (s.llog t1).take m := by
  obtain ⟨h0, h1, h2, h3, _⟩ := reach_inv r
  rcases Nat.le_total t1 t2 with hle | hle
  · exact committed_agree h0 h1 h2 h3 c1 c2 hle hm1
  · exact (committed_agree h0 h1 h2 h3 c2 c1 hle hm2).symm

/-- **commit order respects real time.** `s`: some index `k` is committed. Later (`s1`) a leader `i` appends a new
    proposal; it lands at index `|log i| + 1` with the leader's term. Later still (`s2`) an index `m` at or beyond it
    is committed and the committed log carries that proposal's term at that index (i.e. the proposal itself: a term's
    leader writes each index at most once). Then the proposal's index is strictly beyond `k`. -/
theorem commit_order_respects_real_time {s s1 s2 : Sys N} (r : Reach s) {k t : Nat} (c : s.cmt k t)
    (st1 : Steps s s1) (i : Fin N) (v : Nat) (hl : (s1.nodes i).role = .leader)
    (st2 : Steps (doClientReq s1 i v) s2) {m t2 : Nat} (c2 : s2.cmt m t2)
    (hm : (s1.nodes i).log.length + 1 ≤ m)
    (hsame : termAt (s2.llog t2) ((s1.nodes i).log.length + 1) = (s1.nodes i).term) :
    k < (s1.nodes i).log.length + 1 := by
  apply Classical.byContradiction
  intro hcon
  have hk' : (s1.nodes i).log.length + 1 ≤ k := by omega
  generalize hkk : (s1.nodes i).log.length + 1 = k' at *
  have r1 : Reach s1 := reach_steps r st1
  have r1' : Reach (doClientReq s1 i v) := .step r1 (Step.clientReq s1 i v hl)
  have r2 : Reach s2 := reach_steps r1' st2
  -- everything from `s` is still there in `s2`
  have stAll : Steps s s2 := by
    have : Steps s (doClientReq s1 i v) := .tail st1 (Step.clientReq s1 i v hl)
    clear r1' r2 c2 hsame
    induction st2 with
    | refl => exact this
    | tail _ st ih => exact .tail ih st
  have cS2 := cmt_mono_steps stAll c
  have hagree := committed_agree' r2 cS2 c2 hk' hm
  have hterm2 : termAt (s2.llog t) k' = (s1.nodes i).term := by
    rw [← termAt_of_take_eq hagree]; exact hsame
  obtain ⟨h0, _, _, h3, _⟩ := reach_inv r
  have hklen : k ≤ (s.llog t).length := (h3.cm k t c).2
  have hterm0 : termAt (s.llog t) k' = (s1.nodes i).term := by
    rw [← termAt_prefix (llog_prefix_steps r stAll t) (by omega)]; exact hterm2
  -- at `s`, the leader log of that term already has an entry at k'
  have hp := h0.p_llog t k' (by omega) (by omega)
  rw [hterm0] at hp
  have hlen : k' ≤ (s.llog (s1.nodes i).term).length := by
    have := congrArg List.length hp
    rw [List.length_take, List.length_take] at this
    omega
  have hpre := llog_prefix_steps r st1 (s1.nodes i).term
  have hlen1 : k' ≤ (s1.llog (s1.nodes i).term).length := Nat.le_trans hlen hpre.length_le
  have hlog := (reach_inv r1).1.ldr_log i hl
  rw [← hlog] at hlen1
  omega

#print axioms commit_order_respects_real_time
end RS
