import RedisGoModel.Raft.RH
/-! What the lock-step driver (`lean/RaftDriver.lean`) decides at run time, and the proof that its decisions are the
    hypotheses of `handle_in_Step1` / `Run.call`:

    * `leaderOutB` — the Bool test the driver applies to every emitted message that is not one of the responses
      `handle` computed; `leaderOutB_sound : leaderOutB n i m = true → leaderOut n i m`.
    * `outsOK` — the test for the whole list of messages of one handler call, and `outsOK_sound`: it is exactly the
      side condition of `Run.call`.
    * `Msg1` gets decidable equality (membership in the response list is decided by `==`). -/
namespace RS
variable {N : Nat}

deriving instance DecidableEq for Msg1

/-- Bool version of `leaderOut`: a MsgApp is a true slice of the leader's log after `prev` with the right `LogTerm` and
    the leader's commit index; a heartbeat carries `min(match[to], commit)`; a snapshot is a committed prefix -/
def leaderOutB (n : Node1 N) (i : Fin N) (m : Msg1 N) : Bool :=
  decide (n.role = .leader) &&
  match m with
  | .app t src _ prev pt ents cm =>
      decide (t = n.term) && decide (src = i) && decide (prev ≤ n.log.length) && decide (pt = termAt n.log prev) &&
      decide (ents = (n.log.drop prev).take ents.length) && decide (cm = n.commit)
  | .hb t src dst c => decide (t = n.term) && decide (src = i) && decide (c = min (n.matchI dst) n.commit)
  | .snap t src _ k ents =>
      decide (t = n.term) && decide (src = i) && decide (1 ≤ k) && decide (k ≤ n.commit) && decide (k ≤ n.log.length) &&
      decide (ents = n.log.take k)
  | _ => false

theorem leaderOutB_sound (n : Node1 N) (i : Fin N) (m : Msg1 N) (h : leaderOutB n i m = true) : leaderOut n i m := by
  unfold leaderOutB at h
  rw [Bool.and_eq_true] at h
  obtain ⟨hl, h⟩ := h
  refine ⟨of_decide_eq_true hl, ?_⟩
  cases m with
  | app t src dst prev pt ents cm =>
    simp only [Bool.and_eq_true, decide_eq_true_eq] at h
    obtain ⟨⟨⟨⟨⟨h1, h2⟩, h3⟩, h4⟩, h5⟩, h6⟩ := h
    refine Or.inl ⟨dst, prev, ents.length, h3, ?_⟩
    rw [← h5, h1, h2, h4, h6]
  | hb t src dst c =>
    simp only [Bool.and_eq_true, decide_eq_true_eq] at h
    obtain ⟨⟨h1, h2⟩, h3⟩ := h
    exact Or.inr (Or.inl ⟨dst, by rw [h1, h2, h3]⟩)
  | snap t src dst k ents =>
    simp only [Bool.and_eq_true, decide_eq_true_eq] at h
    obtain ⟨⟨⟨⟨⟨h1, h2⟩, h3⟩, h4⟩, h5⟩, h6⟩ := h
    exact Or.inr (Or.inr ⟨dst, k, h3, h4, h5, by rw [h1, h2, h6]⟩)
  | vote => simp at h
  | voteResp => simp at h
  | appResp => simp at h

/-- the driver's acceptance test for the messages observed during one handler call -/
def outsOK (i : Fin N) (n : Node1 N) (inp : Input N) (outs : List (Msg1 N)) : Bool :=
  outs.all fun m => decide (m ∈ (handle i n inp).2) || leaderOutB (handle i n inp).1 i m

theorem outsOK_sound (i : Fin N) (n : Node1 N) (inp : Input N) (outs : List (Msg1 N)) (h : outsOK i n inp outs = true) :
    ∀ m ∈ outs, m ∈ (handle i n inp).2 ∨ leaderOut (handle i n inp).1 i m := by
  intro m hm
  have := List.all_eq_true.mp h m hm
  rcases Bool.or_eq_true _ _ |>.mp this with h1 | h2
  · exact Or.inl (of_decide_eq_true h1)
  · exact Or.inr (leaderOutB_sound _ _ _ h2)

/-- one accepted driver step is one `Run.call`: a trace the driver accepts line by line (every `recv` input enabled,
    every emitted message accepted by `outsOK`) is a `Run`, hence covered by `run_covered` and the `run_*` theorems -/
theorem driver_step_is_run {s : Sys1 N} (r : Run s) (i : Fin N) (inp : Input N) (outs : List (Msg1 N))
    (hen : enabled s i inp) (hok : outsOK i (s.nodes i) inp outs = true) :
    Run ⟨upd1 s.nodes i (handle i (s.nodes i) inp).1, fun m => s.net m ∨ m ∈ outs⟩ :=
  Run.call i inp outs r hen (outsOK_sound i (s.nodes i) inp outs hok)

#print axioms leaderOutB_sound
#print axioms driver_step_is_run
end RS
