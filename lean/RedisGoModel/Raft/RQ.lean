import RedisGoModel.Raft.RH
/-! Stage A prototype: etcd's `MajorityConfig.CommittedIndex` — fill a slice with the match indexes in map-iteration
    order, insertion-sort it ascending, return `srt[n - (n/2+1)]` — computes exactly `qidx`, the largest match value
    that a counted majority has reached, whatever the iteration order. -/
namespace RS
variable {N : Nat}

/-- one pass of the inner loop of `insertionSort`, on the already sorted prefix kept in *descending* order
    (head = `sl[j-1]`): the new element moves left while it is smaller than its left neighbour -/
def insDesc : List Nat → Nat → List Nat
| [], x => [x]
| y :: r, x => if x < y then y :: insDesc r x else x :: y :: r

/-- the outer loop: elements are inserted one by one; the result is the sorted slice, viewed from its top end -/
def goSortDesc (l : List Nat) : List Nat := l.foldl insDesc []

/-- `srt[n - (n/2 + 1)]` of the ascending array = element `n/2` of the descending view -/
def committedIndex (vals : List Nat) : Nat := (goSortDesc vals).getD (vals.length / 2) 0

abbrev Desc (l : List Nat) : Prop := l.Pairwise (· ≥ ·)

theorem insDesc_perm (l : List Nat) (x : Nat) : (insDesc l x).Perm (x :: l) := by
  induction l with
  | nil => exact List.Perm.refl _
  | cons y r ih =>
    simp only [insDesc]
    split
    · exact (List.Perm.cons y ih).trans (List.Perm.swap x y r)
    · exact List.Perm.refl _

theorem insDesc_desc (l : List Nat) (x : Nat) (h : Desc l) : Desc (insDesc l x) := by
  induction l with
  | nil => simp [insDesc, Desc]
  | cons y r ih =>
    simp only [Desc, List.pairwise_cons] at h
    simp only [insDesc]
    split
    · rename_i hlt
      simp only [Desc, List.pairwise_cons]
      refine ⟨?_, ih h.2⟩
      intro a ha
      rcases List.mem_cons.mp ((insDesc_perm r x).mem_iff.mp ha) with rfl | ha
      · omega
      · exact h.1 a ha
    · rename_i hge
      simp only [Desc, List.pairwise_cons]
      refine ⟨?_, h⟩
      intro a ha
      rcases List.mem_cons.mp ha with rfl | ha
      · omega
      · have := h.1 a ha; omega

theorem goSort_spec (l : List Nat) : Desc (goSortDesc l) ∧ (goSortDesc l).Perm l := by
  unfold goSortDesc
  have : ∀ (acc : List Nat), Desc acc → Desc (l.foldl insDesc acc) ∧ (l.foldl insDesc acc).Perm (l.reverse ++ acc) := by
    induction l with
    | nil => intro acc h; exact ⟨h, by simp⟩
    | cons x l ih =>
      intro acc h
      obtain ⟨h1, h2⟩ := ih (insDesc acc x) (insDesc_desc acc x h)
      refine ⟨h1, h2.trans ?_⟩
      simp only [List.reverse_cons, List.append_assoc, List.singleton_append]
      exact List.Perm.append_left _ (insDesc_perm acc x)
  obtain ⟨h1, h2⟩ := this [] (by simp [Desc])
  exact ⟨h1, h2.trans (by simpa using List.reverse_perm l)⟩

/-- in a descending list, the element at position p is reached by at least p+1 elements … -/
theorem desc_count_ge (d : List Nat) (h : Desc d) (p : Nat) (hp : p < d.length) :
    p + 1 ≤ d.countP (fun a => decide (d[p] ≤ a)) := by
  have hsplit : d = d.take (p + 1) ++ d.drop (p + 1) := (List.take_append_drop _ _).symm
  have hall : (d.take (p + 1)).countP (fun a => decide (d[p] ≤ a)) = (d.take (p + 1)).length := by
    rw [List.countP_eq_length]
    intro a ha
    obtain ⟨i, hi, rfl⟩ := List.mem_take_iff_getElem.mp ha
    simp only [decide_eq_true_eq]
    have hi' : i < p + 1 := by omega
    rcases Nat.lt_or_ge i p with hlt | hge
    · exact List.pairwise_iff_getElem.mp h i p (by omega) hp hlt
    · have : i = p := by omega
      subst this; exact Nat.le_refl _
  have hlen : (d.take (p + 1)).length = p + 1 := by simp; omega
  calc p + 1 = (d.take (p + 1)).countP (fun a => decide (d[p] ≤ a)) := by rw [hall, hlen]
    _ ≤ (d.take (p + 1) ++ d.drop (p + 1)).countP (fun a => decide (d[p] ≤ a)) := by
        rw [List.countP_append]; omega
    _ = d.countP (fun a => decide (d[p] ≤ a)) := by rw [← hsplit]

/-- … and any strictly larger value by at most p -/
theorem desc_count_le (d : List Nat) (h : Desc d) (p : Nat) (hp : p < d.length) (k : Nat) (hk : d[p] < k) :
    d.countP (fun a => decide (k ≤ a)) ≤ p := by
  have hsplit : d = d.take p ++ d.drop p := (List.take_append_drop _ _).symm
  have hzero : (d.drop p).countP (fun a => decide (k ≤ a)) = 0 := by
    rw [List.countP_eq_zero]
    intro a ha
    obtain ⟨i, hi, rfl⟩ := List.mem_drop_iff_getElem.mp ha
    simp only [decide_eq_true_eq]
    have : d[p + i] ≤ d[p] := by
      rcases Nat.eq_zero_or_pos i with rfl | hpos
      · exact Nat.le_refl _
      · exact List.pairwise_iff_getElem.mp h p (p + i) hp (by omega) (by omega)
    omega
  calc d.countP (fun a => decide (k ≤ a)) = (d.take p ++ d.drop p).countP (fun a => decide (k ≤ a)) := by rw [← hsplit]
    _ = (d.take p).countP (fun a => decide (k ≤ a)) := by rw [List.countP_append, hzero, Nat.add_zero]
    _ ≤ (d.take p).length := List.countP_le_length
    _ ≤ p := by simp

/-- `committedIndex` returns a value of the list that a majority has reached, and no larger value has a majority -/
theorem committedIndex_spec (vals : List Nat) (hn : 0 < vals.length) :
    committedIndex vals ∈ vals ∧
    vals.length < 2 * vals.countP (fun a => decide (committedIndex vals ≤ a)) ∧
    ∀ k, vals.length < 2 * vals.countP (fun a => decide (k ≤ a)) → k ≤ committedIndex vals := by
  obtain ⟨hd, hperm⟩ := goSort_spec vals
  have hlen : (goSortDesc vals).length = vals.length := hperm.length_eq
  have hp : vals.length / 2 < (goSortDesc vals).length := by rw [hlen]; omega
  have hget : committedIndex vals = (goSortDesc vals)[vals.length / 2] := by
    unfold committedIndex
    rw [List.getD_eq_getElem?_getD, List.getElem?_eq_getElem hp]; rfl
  rw [hget]
  refine ⟨hperm.mem_iff.mp (List.getElem_mem hp), ?_, ?_⟩
  · have := desc_count_ge _ hd _ hp
    rw [hperm.countP_eq] at this
    omega
  · intro k hk
    rcases Nat.lt_or_ge ((goSortDesc vals)[vals.length / 2]) k with hlt | hge
    · have := desc_count_le _ hd _ hp k hlt
      rw [hperm.countP_eq] at this
      omega
    · exact hge

theorem countP_map_finRange (f : Fin N → Nat) (k : Nat) :
    ((List.finRange N).map f).countP (fun a => decide (k ≤ a)) = (List.finRange N).countP (fun j => decide (k ≤ f j)) := by
  rw [List.countP_map]; rfl

/-- `qidx` dominates every listed value that has a counted majority -/
theorem qidx_max (f : Fin N → Nat) (k : Nat) (hk : k ∈ (List.finRange N).map f)
    (hq : N < 2 * (List.finRange N).countP (fun j => decide (k ≤ f j))) : k ≤ qidx f := by
  unfold qidx
  have : ∀ (l : List Nat) (acc : Nat), acc ≤ l.foldl (fun acc k => if N < 2 * (List.finRange N).countP (fun j => decide (k ≤ f j)) then max acc k else acc) acc ∧
      (k ∈ l → k ≤ l.foldl (fun acc k => if N < 2 * (List.finRange N).countP (fun j => decide (k ≤ f j)) then max acc k else acc) acc) := by
    intro l
    induction l with
    | nil => intro acc; exact ⟨Nat.le_refl _, fun h => by cases h⟩
    | cons x l ih =>
      intro acc
      simp only [List.foldl_cons]
      have hstep : acc ≤ (if N < 2 * (List.finRange N).countP (fun j => decide (x ≤ f j)) then max acc x else acc) := by
        split
        · exact Nat.le_max_left _ _
        · exact Nat.le_refl _
      obtain ⟨h1, h2⟩ := ih (if N < 2 * (List.finRange N).countP (fun j => decide (x ≤ f j)) then max acc x else acc)
      refine ⟨Nat.le_trans hstep h1, ?_⟩
      intro hmem
      rcases List.mem_cons.mp hmem with heq | hmem
      · subst heq
        rw [if_pos hq] at h1 ⊢
        exact Nat.le_trans (Nat.le_max_right _ _) h1
      · exact h2 hmem
  exact (this _ 0).2 hk

/-- **Stage A**: for every iteration order of the voters, etcd's sort-and-pick equals the specification -/
theorem committedIndex_eq_qidx (f : Fin N → Nat) (hN : 0 < N) (vals : List Nat)
    (hperm : vals.Perm ((List.finRange N).map f)) : committedIndex vals = qidx f := by
  have hlen : vals.length = N := by rw [hperm.length_eq]; simp
  obtain ⟨hmem, hmaj, hmax⟩ := committedIndex_spec vals (by omega)
  have cnt : ∀ k, vals.countP (fun a => decide (k ≤ a)) = (List.finRange N).countP (fun j => decide (k ≤ f j)) := by
    intro k; rw [hperm.countP_eq, countP_map_finRange]
  apply Nat.le_antisymm
  · apply qidx_max f _ (hperm.mem_iff.mp hmem)
    rw [← cnt, ← hlen]; exact hmaj
  · rcases qidx_quorum f with h0 | hq
    · omega
    · apply hmax
      rw [cnt, hlen]; exact hq

#print axioms committedIndex_eq_qidx
end RS
